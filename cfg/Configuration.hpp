// verification build configuration (replaces the CMake-generated header)
#ifndef CONFIGURATION_HPP
#define CONFIGURATION_HPP
#define HAVE_ATOMIC
#define HAVE_HDF5
#define HAVE_MULTIPRECISION
#define HAVE_POSIX
#ifdef VERIF_WITH_OPENMP
#define HAVE_OPENMP
#endif
#define MAX_NUM_THREADS 16
#endif // CONFIGURATION_HPP
