#ifndef WMBASICDATALOCATION_HPP
#define WMBASICDATALOCATION_HPP
#define WMBASICDATALOCATION "/verif/build/data/wmbasic/"
#endif
