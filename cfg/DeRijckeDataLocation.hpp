#ifndef DERIJCKEDATALOCATION_HPP
#define DERIJCKEDATALOCATION_HPP
#define DERIJCKEDATALOCATION "/verif/build/data/DeRijckeCooling/"
#endif
