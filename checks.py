"""Registry of the checks. Every harness directory harness/<ID>/ holds
  part.mk   - make fragment building its executables ($(call HARNESS,...))
  check.py  - CHECK = {...}: level, parts, deadlines and the MANIFEST texts
tools/gen_manifest.py turns this registry into MANIFEST.json."""
import glob
import os

_V = os.path.dirname(os.path.abspath(__file__))
ALL_IDS = ["C%02d" % i for i in range(1, 21)]

# hook commits in /repo (guard CMI_VERIF), oldest first
HOOK_COMMITS = ['ac6a788', 'c146231', '4f0f9ee', '9f84eca', '2c4c768', '1c56e61', '2a1ddb7', '30de8a2', 'd0cb990', 'e57e595', 'f8d8995', '2b71dbb', '629d262', '4a4f97f', 'e442337', '47279f2', 'cb03a74']

ENGINES = [
    {"name": "E1", "path": "/verif/engine/e1", "serves_properties": ["C01", "C07", "C08", "C04", "C10"],
     "kind_free_text": "cooperative scheduler over hooked synchronisation points + deviation-bounded stateless DFS, "
                       "one forked execution of the real code per schedule"},
    {"name": "E2", "path": "/verif/harness", "serves_properties": ["C19", "C13", "C14", "C16"],
     "kind_free_text": "explicit-state breadth-first search over real objects keyed by their restart image / canonical form"},
    {"name": "E3", "path": "/verif/harness", "serves_properties": ["C02", "C03", "C05", "C06", "C11", "C15", "C17", "C18", "C20"],
     "kind_free_text": "bounded-exhaustive enumeration of a finite input alphabet against independent reference oracles"},
]

CHECKS = {}
for _f in sorted(glob.glob(os.path.join(_V, "harness", "*", "check.py"))):
    _ns = {}
    try:
        exec(compile(open(_f).read(), _f, "exec"), _ns)
        _c = _ns["CHECK"]
    except Exception as _e:  # a broken fragment must not take the other checks down
        import sys
        sys.stderr.write("checks.py: skipping %s: %r\n" % (_f, _e))
        continue
    if _c.get("enabled", True):
        CHECKS[_c["id"]] = _c

NOT_APPLICABLE = {
    pid: "check not built yet in this round (planned, see DESIGN.md section 3)"
    for pid in ALL_IDS if pid not in CHECKS
}
