#!/usr/bin/env python3
"""Writes /verif/MANIFEST.json from the registry in checks.py (single source)."""
import json
import os
import sys

V = os.path.dirname(os.path.dirname(os.path.abspath(__file__)))
sys.path.insert(0, V)
from checks import CHECKS, NOT_APPLICABLE, HOOK_COMMITS, ENGINES  # noqa: E402

checks = []
for pid in sorted(CHECKS):
    c = CHECKS[pid]
    entry = {
        "property_id": pid,
        "quick_cmd": "./check %s --tier quick" % pid,
        "thorough_cmd": "./check %s --tier thorough" % pid,
        "evidence_file": "/verif/evidence/%s.json" % pid,
        "replay_cmd_template": "./check %s --replay {path}" % pid,
        "engine": c.get("engine", ""),
        "level_claimed": {"category": c["level"], "text": c["level_text"],
                          "design_ref": c.get("design_ref", "DESIGN.md section 3, " + pid)},
        "level_note": c["level_note"],
        "technique": c["technique"],
    }
    checks.append(entry)
manifest = {
    "version": 1,
    "setup_cmd": "./check --setup",
    "hooks": {
        "guard": "CMI_VERIF",
        "enable": "make -C /verif lib-hook (g++ -DCMI_VERIF -DCMI_VERIF_PHOTONBUFFER_SIZE=<n>u over /repo/src; see /verif/Makefile FLAGS_hook)",
        "baseline_off_cmd": "/verif/tools/baseline_off.sh",
        "source_commits": HOOK_COMMITS,
        "add_only": True,
    },
    "engines": ENGINES,
    "checks": checks,
    "not_applicable": [{"property_id": k, "reason": v} for k, v in sorted(NOT_APPLICABLE.items())],
    "notes": "All checks are driven by /verif/check, rebuild from /repo's working tree into /verif/build, "
             "and decide by exhaustive enumeration inside the bounds stated in their evidence. "
             "Known findings: /verif/known_findings.json.",
}
with open(os.path.join(V, "MANIFEST.json"), "w") as f:
    json.dump(manifest, f, indent=1)
    f.write("\n")
print("MANIFEST.json: %d checks, %d not applicable" % (len(checks), len(manifest["not_applicable"])))
