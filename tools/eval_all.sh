#!/bin/bash
# eval_all.sh <worktree> : evaluates every out/<ID>-<n>/patch.diff with the check of <ID>
WT=$1
for d in $WT/out/C*-*/; do
  name=$(basename $d); id=${name%-*}
  echo "##### $name"
  /verif/tools/eval_seed.sh $id $WT $d/patch.diff > $WT/eval_$name.log 2>&1
  grep -v "^checks.py" $WT/eval_$name.log | cut -c1-260 | grep -E "pinned tests|^  C|PATCH|harness-failure" | head -4
  grep -E "quick:|check-exit" $WT/eval_$name.log | cut -c1-200
done
