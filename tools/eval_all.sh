#!/bin/bash
# eval_all.sh <worktree> : evaluates every out/<ID>-<n>/patch.diff with the check of <ID>
WT=$1
for d in $WT/out/C*-*/; do
  name=$(basename $d); id=${name%-*}
  echo "##### $name"
  /verif/tools/eval_seed.sh $id $WT $d/patch.diff 2>&1 | grep -v "^checks.py" | cut -c1-260 | grep -E "pinned tests|VIOLATION|^  C|quick:|check-exit|PATCH|harness-failure|KNOWN" | head -7
done
