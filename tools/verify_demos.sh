#!/bin/bash
# verify_demos.sh <worktree> : for every out/<ID>-<n>/ runs run.sh on the clean worktree (must exit 0)
# and with patch.diff applied (must exit non-zero), writes VERIFY.txt next to the demonstration.
WT=$1
cd "$WT" || exit 2
for d in out/C*-*/; do
  name=$(basename $d)
  git checkout -q -- src
  (cd $d && timeout 900 bash ./run.sh "$WT" > run_clean.log 2>&1); c=$?
  git apply $d/patch.diff || { echo "$name PATCH-DOES-NOT-APPLY"; continue; }
  (cd $d && timeout 900 bash ./run.sh "$WT" > run_patched.log 2>&1); p=$?
  git checkout -q -- src
  {
    echo "VERIFY $name ($(date -u '+%Y-%m-%d %H:%M UTC'), re-run by tools/verify_demos.sh in worktree $WT)"
    echo "  1. git checkout -- src ; bash run.sh $WT          -> exit status $c (expected 0)"
    echo "  2. git apply patch.diff ; bash run.sh $WT         -> exit status $p (expected non-zero)"
    echo "  3. git checkout -- src"
    echo "--- last lines without the change:"; tail -4 $d/run_clean.log
    echo "--- last lines with the change:"; tail -6 $d/run_patched.log
  } > $d/VERIFY.txt
  rm -f $d/run_clean.log $d/run_patched.log
  echo "$name clean=$c patched=$p"
done
