#!/usr/bin/env python3
"""Prints a markdown table of what the last run of every check covered (from /verif/evidence/*.json, or from the directory given as argument)."""
import glob, json, os, sys
sys.path.insert(0, os.path.dirname(os.path.dirname(os.path.abspath(__file__))))
from checks import CHECKS
print("| id | level | parts (harness) | tier | evaluations | distinct non-trivial | states / transitions | exhaustive | known findings seen | wall s |")
print("|---|---|---|---|---|---|---|---|---|---|")
EVDIR = sys.argv[1] if len(sys.argv) > 1 else "/verif/evidence"
for pid in sorted(CHECKS):
    f = "%s/%s.json" % (EVDIR, pid)
    if not os.path.exists(f):
        print("| %s | %s | - | - | - | - | - | - | - | - |" % (pid, CHECKS[pid]["level"]))
        continue
    e = json.load(open(f)); c = e["coverage"]
    parts = ", ".join("%s (%s)" % (p["name"], p["bin"]) for p in CHECKS[pid]["parts"])
    st = "%s / %s" % (c.get("states", "-"), c.get("transitions", "-")) if "states" in c else "-"
    print("| %s | %s | %s | %s | %s | %s | %s | %s | %s | %.0f |" % (pid, e["level"], parts, e["tier"], c.get("evaluations"), c.get("distinct_nontrivial"), st, c.get("exhaustive"), len(c.get("known_findings_seen", [])), e["wall_s"]))
