#!/bin/bash
# pinned_all.sh <worktree> <out file> <patch>...: for each seeded change, applies it to the
# scratch worktree, rebuilds the project and its unit tests (guard off) and runs the pinned suite.
WT=$1; OUT=$2; shift 2
for P in "$@"; do
  cd "$WT" && git checkout -q -- src test 2>/dev/null
  if ! git apply "$P" 2>/dev/null; then echo "$P DOES-NOT-APPLY" >> "$OUT"; continue; fi
  R=$(/verif/tools/baseline_off.sh "$WT/_build" | head -1)
  F=$(grep -c "^FAILED" "$WT/_build/verif_ninja_tests.log")
  echo "$P $R build-failures=$F" >> "$OUT"
  git checkout -q -- src test
done
