#!/bin/bash
# eval_seed.sh <property id> <worktree> <patch> [tier]
# Applies a seeded change to a scratch worktree, runs the pinned suite there
# (guard off) and the property's check against it, and reverts the change.
set -u
ID=$1; WT=$2; PATCH=$3; TIER=${4:-quick}
cd "$WT" || exit 2
git checkout -q -- src 2>/dev/null
git apply "$PATCH" || { echo "PATCH-DOES-NOT-APPLY"; exit 2; }
echo "== pinned suite with the change"
/verif/tools/baseline_off.sh "$WT/_build"; echo "pinned-suite-exit=$?"
echo "== check $ID ($TIER) against the changed tree"
cd /verif && VERIF_REPO="$WT" VERIF_BUILD="$WT/vbuild" VERIF_EVIDENCE_DIR="$WT/ev" ./check "$ID" --tier "$TIER" 2>&1 | grep -v "^checks.py" | cut -c1-400 | head -14
echo "check-exit=${PIPESTATUS[0]}"
cd "$WT" && git checkout -q -- src
