#!/usr/bin/env python3
"""kf.py fixed <id> <property> <commit> <what>   |   kf.py open <id> <property> <match-regex> <what> [site]"""
import json, sys
p = '/verif/known_findings.json'
d = json.load(open(p))
kind = sys.argv[1]
if kind == 'fixed':
    _, _, fid, prop, commit, what = sys.argv[:6]
    d['findings'] = [f for f in d['findings'] if f['id'] != fid]
    d['findings'].append({"id": fid, "property": prop, "status": "fixed", "commit": commit,
                          "fixed": "fixed: property=%s %s %s" % (prop, commit, what)})
elif kind == 'open':
    fid, prop, match, what = sys.argv[2:6]
    d['findings'] = [f for f in d['findings'] if f['id'] != fid]
    e = {"id": fid, "property": prop, "status": "open", "match": match, "what": what}
    if len(sys.argv) > 6:
        e["site"] = sys.argv[6]
    d['findings'].append(e)
json.dump(d, open(p, 'w'), indent=1)
print(len(d['findings']), 'findings')
