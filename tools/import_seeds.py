#!/usr/bin/env python3
"""Copies evaluated seeded changes from the scratch worktrees into /verif/seeded/<ID>-<n>/ with meta.json."""
import json, os, shutil, sys
R = {
 # id: (worktree, needs, caught_by, first_evaluation)
 'C16-1': ('/tmp/seed_C16', 'periodicity flags that differ between y and z (AMRGrid::set_ngbs wraps the bottom neighbour on periodic.y)', 'C16 quick: C16:amr:ngb-vs-model:bottom', 'caught'),
 'C16-2': ('/tmp/seed_C16', 'photon absorbed in an outermost Cartesian cell while heading for the box face (index update moved out of the wall branch)', 'C16 quick: C16:cartesian:final-position-outside-box:periodic-wrap, absorbed-flag keys', 'caught'),
 'C16-3': ('/tmp/seed_C16', 'exact floating-point tie dx == dz < dy in AMRDensityGrid::get_wall_intersection (ray leaving through an edge parallel to y)', 'C16 quick: C16:amrdensity:final-position-outside-box', 'caught'),
 'C16-4': ('/tmp/seed_C16', 'periodic Octree with the nearest particle reachable only through the wrap (get_closest_ngb pruning not periodic)', 'C16 quick: C16:octree:get_closest_ngb:periodic', 'caught'),
 'C05-1': ('/tmp/seed_C05', 'vacuum generation with the face inside the left fan and vL != 0 (sign of the left-fan base in HLLC)', 'C05 quick: C05:hllc:nonfinite:generated-vacuum and swap/hllc-equals-exact keys', 'caught'),
 'C05-2': ('/tmp/seed_C05', 'vdiff != 0 and an estimated shock (HLLC pressure estimate mis-parenthesised); all symmetry relations still hold', 'C05 quick: C05:hllc:textbook-hllc:* (independent textbook HLLC oracle)', 'caught'),
 'C05-3': ('/tmp/seed_C05', 'exact solver with a face velocity component perpendicular to the normal', 'C05 quick: C05:exact:boost:*, C05:hllc:hllc-equals-exact:*', 'caught'),
 'C11-1': ('/tmp/seed_C05', 'right rarefaction sampled strictly inside the fan at x/t != 0', 'C11 quick: C11:state-vs-reference:*:right-fan, C11:fan-relations:*', 'caught'),
 'C11-2': ('/tmp/seed_C05', 'star pressure several decades below PL+PR (Brent stop criterion scaled with PL+PR)', 'C11 quick: C11:state-vs-reference:*-star, C11:rankine-hugoniot:*', 'caught'),
 'C11-3': ('/tmp/seed_C05', 'left state vacuum and a sampling speed between the wrong and the right vacuum front', 'C11 quick (after extension): C11:state-vs-reference:left-vacuum:right-fan:*, C11:continuity:left-vacuum:solver-vacuum-boundary:*; also C05 quick', 'MISSED by C11 (caught by C05): C11 enumerated no one-sided vacuum initial states; family added'),
 'C02-1': ('/tmp/seed_C02', 'a direction component that is exactly -0.0', 'C02 quick (after extension): C02:interact:non-finite:*:dir*-negzero:*', 'MISSED: direction alphabet had only +0.0 components; all sign-bit combinations of zero components added (C02 and C03 tracing)'),
 'C02-2': ('/tmp/seed_C02', 'entry classification EDGE_Z_PN / EDGE_Z_NP and more than one cell in y', 'C02 quick: C02:interact:percell-path:entry=edge:*', 'caught'),
 'C02-3': ('/tmp/seed_C02', 'packet above the He0 threshold crossing a cell where x_He0 differs from x_H0', 'C02 quick: C02:compute_optical_depth:tau-total:*, C02:interact:tau-absorbed:*', 'caught'),
 'C03-1': ('/tmp/seed_C02', 'touching subgrids whose copy levels differ by 3 or more', 'C03 quick (after extension): C03:copies:neighbour:*:dlevel+3', 'MISSED: copy-level alphabet was {0,1,2}; extended to {0..4}'),
 'C03-2': ('/tmp/seed_C02', 'z periodicity and a different number of subgrids in y and z', 'C03 quick: C03:wiring:neighbour:1p1p2p:*', 'caught'),
 'C03-3': ('/tmp/seed_C02', 'any copy level assignment with copies (last copy never folded)', 'C03 quick: harness failure (SIGSEGV / ASan report in update_intensities) in the wiring part', 'caught'),
 'C04-1': ('/tmp/seed_C04', 'reflective wall perpendicular to y or z plus a normal-velocity gradient in the wall cell', 'C04 quick: C04:conservation:reflective-energy, reflective-mass', 'caught'),
 'C04-2': ('/tmp/seed_C04', 'a cell whose conserved mass is denormal (rho ~ 1e-310)', 'C04 quick (after extension): C04:physical:nonfinite:arises-in-primitive-update; also C10', 'MISSED: emptiest state was 1e-30; denormal and exact-vacuum states added (which also exposed a real HLLC overflow defect, fixed in e4b024d)'),
 'C04-3': ('/tmp/seed_C04', 'periodic y, >= 2 subgrids in y, >= 2 threads and an overlapping interleaving (pair flux task locks only its own subgrid)', 'C04 quick (schedules part, engine E1): C07:subgrid-exclusivity:2x2x1-periodic-xyz at schedule 288:1', 'caught'),
 'C10-1': ('/tmp/seed_C04', '>= 2 subgrids in y and a task order where the pair gradient task runs late (dependency edge to the wrong task)', 'C10 quick (schedules part): C10:schedule-dependent-state:*; C07 task model: table:data-flow', 'caught'),
 'C10-2': ('/tmp/seed_C04', 'subgrids with ny != nz plus a z pair sweep', 'C10 quick: harness failure (out of bounds access, SIGSEGV) in the layout part', 'caught'),
 'C10-3': ('/tmp/seed_C04', 'non-cubic cells plus a y pair sweep', 'C10 quick: C10:layout:differs-from-reference:*, differs-from-undivided:*', 'caught'),
 'C13-1': ('/tmp/seed_C13', 'a seed >= 2^27', 'C13 quick: C13:stream-vs-reference:pow2:*, C13:stream-vs-gsl:pow2', 'caught'),
 'C13-2': ('/tmp/seed_C13', '>= 13 draws, then set_seed on the used generator', 'C13 quick (after extension): C13:reseed:state:carry:*, C13:reseed:stream:*', 'MISSED: the state walk contained no re-seeding of a used generator; re-seeding transitions added'),
 'C13-3': ('/tmp/seed_C13', 'a save point where the borrow is set', 'C13 quick: C13:restart-image:length:*, C13:restart:continuation:*', 'caught'),
 'C20-1': ('/tmp/seed_C13', 'tree depth >= 3 followed by a line >= 2 levels up that is not at column 0', 'C20 quick: C20:tree:parse-differs:*, C20:tree:roundtrip-changed:*', 'caught'),
 'C20-2': ('/tmp/seed_C13', 'use of Gyr compared against Myr, yr or s (0.06 % table inconsistency)', 'C20 quick: C20:units:table-relation:Gyr=yr, Gyr=Myr', 'caught'),
 'C20-3': ('/tmp/seed_C13', 'subgrids with different cell counts in y and z', 'C20 quick: C20:snap:reader:taskbased:*', 'caught'),
 'C06-1': ('/tmp/seed_C06', 'hydrogen-only gas and J/(n alpha) > 4e10', 'C06 quick: C06:honly:balance-error:large-C-branch, monotone keys', 'caught'),
 'C06-2': ('/tmp/seed_C06', 'hard, strong spectrum (photons above 47 eV, e.g. pure 15/50/70/100 x 13.6 eV)', 'C06 quick (after extension): C06:ion:metal-sum:S, C06:ion:bounds:S_p3-above-one', 'MISSED by both tiers: photon alphabet stopped at 100 eV; hard photons 136..1360 eV added'),
 'C06-3': ('/tmp/seed_C06', 'both bracketing cooling rates exactly 0: spectra >= 10 x 13.6 eV, flux >= 1e20, n >= 1e10, default metals', 'C06 quick (after extension): C06:temp:abort:calculate_temperature:general', 'MISSED by quick (thorough caught it): quick flux list ended at 1e19; fixed'),
 'C18-1': ('/tmp/seed_C06', 'frequencies above the N0 1s edge (>= 29.8 x 13.6 eV)', 'C18 quick: C18:xsec:ion-sum:N+', 'caught'),
 'C18-2': ('/tmp/seed_C06', 'T < 2331 K for the S+++ + He charge transfer fit', 'C18 quick: C18:rates:charge-transfer:recombination-He:negative:ion13', 'caught'),
 'C18-3': ('/tmp/seed_C06', 'a random number in [1e-10, 1e-8) for the Planck sampler', 'C18 quick: C18:sampler:range:planck:table:below-min', 'caught'),
 'C09-2': ('/tmp/seed_C09', 'turbulent forcing and subgrids with different cell counts in y and z', 'C09 quick: C09:component-redump-differs:AlveliusTurbulenceForcing, C09:restarted-run-failed:turbulence', 'caught'),
 'C09-3': ('/tmp/seed_C09', 'stellar feedback with a SingleSupernova source and a stop step after the explosion', 'C09 quick: C09:restored-state-differs:SingleSupernovaPhotonSourceDistribution::_has_exploded, continuation-differs:*:supernova-source', 'caught'),
 'C15-1': ('/tmp/seed_C15', 'exactly degenerate anisotropic lattices in which the sixth tetrahedron of a 2-to-6 flip is non-Delaunay', 'C15 quick: C15:new:volume-sum:lattice-subset-3-exact:*, partner-area', 'caught'),
 'C15-2': ('/tmp/seed_C15', 'a box elongated along z by more than ~1.7 x max(sx, sy)', 'C15 quick: C15:new:rescaled-coordinate-outside-[1,2):box-sides=1x1x100, abnormal-end', 'caught'),
 'C15-3': ('/tmp/seed_C15', 'strongly clustered set at the y_max wall (PointLocations block search stops early)', 'C15 quick: C15:new:get-index-not-nearest:*', 'caught'),
 'C17-2': ('/tmp/seed_C15', 'near-cospherical points spread over more than ~0.6 of [1,2) (exact in-sphere integer narrowed to 256 bit)', 'C17 quick: C17:insphere_exact:wrong-sign:*', 'caught'),
 'C17-3': ('/tmp/seed_C15', 'all five points share one coordinate exactly (result and error bound both 0)', 'C17 quick: C17:insphere_adaptive:differs-from-exact:*:exact-zero', 'caught'),
}
R.update(json.load(open('/verif/tools/seed_results_extra.json')) if os.path.exists('/verif/tools/seed_results_extra.json') else {})
for sid, val in sorted(R.items()):
    wt, needs, caught, first = val[:4]
    # optional fifth element: name of the directory in the worktree (round 3 reuses C01-1.. names)
    src = os.path.join(wt, 'out', val[4] if len(val) > 4 else sid)
    if not os.path.isdir(src):
        print('missing', src); continue
    d = '/verif/seeded/' + sid
    os.makedirs(d, exist_ok=True)
    for f in os.listdir(src):
        p = os.path.join(src, f)
        if os.path.isfile(p) and os.path.getsize(p) < 150000 and not f.endswith('.log') and not (os.access(p, os.X_OK) and '.' not in f):
            shutil.copy(p, d)
    # shared helper headers of the demonstrations
    for extra in ('ref_riemann.hpp', 'ranlxd2_ref.hpp', 'demo_common.hpp', 'demo_tasks.hpp', 'extract_tasks.sh'):
        for cand in (os.path.join(wt, 'out', extra), os.path.join(wt, 'out', 'common', extra)):
            if os.path.isfile(cand) and not os.path.exists(os.path.join(d, extra)):
                shutil.copy(cand, d)
    pid = sid.split('-')[0]
    pinned = {}
    if os.path.exists('/verif/tools/seed_pinned.json'):
        pinned = json.load(open('/verif/tools/seed_pinned.json'))
    meta = {"property": pid, "seed": sid, "what_it_needs_to_manifest": needs,
            "produced_by": "fresh sub-agent given only the property text and a scratch worktree of /repo (nothing from /verif)",
            "what_i_ran": ["tools/eval_seed.sh %s <worktree> patch.diff: pinned suite (55 tests) with the change in the worktree's own CMake build: 55/55 pass" % pid,
                           "./check with VERIF_REPO=<worktree with the change>: see caught_by",
                           "demonstration re-run by an independent sub-agent: see VERIFY.txt (when present)"],
            "caught_by": caught, "first_evaluation": first}
    if sid in pinned:
        meta["pinned_suite_rerun"] = pinned[sid]
    json.dump(meta, open(os.path.join(d, 'meta.json'), 'w'), indent=1)
print(len(os.listdir('/verif/seeded')), 'seed directories')
