#!/bin/bash
# pinned_commits.sh <worktree> <out file>: pinned suite (guard off, tests rebuilt) at every commit of /repo since the pinned one
WT=$1; OUT=$2
BASE=$(cat /root/.vp/repo_root_sha 2>/dev/null || echo cb2e373)
for c in $(git -C /repo rev-list --reverse $BASE..HEAD); do
  git -C "$WT" checkout -q --detach $c
  R=$(/verif/tools/baseline_off.sh "$WT/_build" | head -1)
  echo "$(git -C /repo log -1 --format='%h %s' $c | cut -c1-90) :: $R" >> "$OUT"
done
