#!/bin/bash
# Runs the repository's pinned test suite with the verification guard OFF
# (the project's own CMake/ninja build never defines CMI_VERIF) and succeeds
# iff every one of the 55 pinned tests passes.
set -u
BUILD=${1:-/repo/_build}
# the source tree is the directory that contains the build directory (/repo, or
# a scratch worktree when a seeded change is evaluated)
SRC=${2:-$(dirname "$BUILD")}
if [ ! -f "$BUILD/build.ninja" ] || ! grep -q "^CMAKE_HOME_DIRECTORY:INTERNAL=$SRC\$" "$BUILD/CMakeCache.txt"; then
  rm -rf "$BUILD"
  cmake -G Ninja -S "$SRC" -B "$BUILD" >/dev/null 2>&1
fi
# in a git worktree .git is a file: point the HEAD dependency of CompilerInfo.cpp
# at the real HEAD file of the worktree
if [ -f "$SRC/.git" ]; then
  GITDIR=$(git -C "$SRC" rev-parse --absolute-git-dir)
  sed -i "s#$SRC/.git/HEAD#$GITDIR/HEAD#g" "$BUILD/build.ninja"
fi
# -k 0: targets that cannot be built in this sandbox must not stop the others
ninja -C "$BUILD" -k 0 >"$BUILD/verif_ninja.log" 2>&1 || true
# the unit tests are EXCLUDE_FROM_ALL: they are only (re)built by the buildTests target
ninja -C "$BUILD" -k 0 buildTests >"$BUILD/verif_ninja_tests.log" 2>&1 || true
cd "$BUILD" && ctest -j8 --timeout 900 >"$BUILD/verif_ctest.log" 2>&1
python3 - "$BUILD/verif_ctest.log" <<'PY'
import json, re, sys
base = json.load(open('/root/.vp/BASELINE.json'))['stable_pass']
want = sorted({b.split('::')[0] for b in base})
log = open(sys.argv[1], errors='replace').read()
passed = set(re.findall(r'Test\s+#\d+:\s+(\S+)\s+\.+\s+Passed', log))
missing = [t for t in want if t not in passed]
print('pinned tests: %d, passed: %d' % (len(want), len(want) - len(missing)))
if missing:
    print('NOT PASSING:', ' '.join(missing))
    sys.exit(1)
PY
