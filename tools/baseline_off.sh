#!/bin/bash
# Runs the repository's pinned test suite with the verification guard OFF
# (the project's own CMake/ninja build never defines CMI_VERIF) and succeeds
# iff every one of the 55 pinned tests passes.
set -u
BUILD=${1:-/repo/_build}
if [ ! -f "$BUILD/build.ninja" ]; then
  cmake -G Ninja -S /repo -B "$BUILD" >/dev/null 2>&1
fi
# -k 0: targets that cannot be built in this sandbox must not stop the others
ninja -C "$BUILD" -k 0 >"$BUILD/verif_ninja.log" 2>&1 || true
cd "$BUILD" && ctest -j8 --timeout 900 >"$BUILD/verif_ctest.log" 2>&1
python3 - "$BUILD/verif_ctest.log" <<'PY'
import json, re, sys
base = json.load(open('/root/.vp/BASELINE.json'))['stable_pass']
want = sorted({b.split('::')[0] for b in base})
log = open(sys.argv[1], errors='replace').read()
passed = set(re.findall(r'Test\s+#\d+:\s+(\S+)\s+\.+\s+Passed', log))
missing = [t for t in want if t not in passed]
print('pinned tests: %d, passed: %d' % (len(want), len(want) - len(missing)))
if missing:
    print('NOT PASSING:', ' '.join(missing))
    sys.exit(1)
PY
