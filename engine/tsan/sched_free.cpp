// Free-running implementation of the CMI_VERIF hook functions for the
// ThreadSanitizer audit pass: real threads, no serialisation (the cooperative
// scheduler's hand-offs would be happens-before edges that blind the detector),
// only seeded sched_yield jitter at the synchronisation points.
#include "VerifHooks.hpp"
#include <atomic>
#include <cstdlib>
#include <sched.h>
#include <thread>
#include <vector>

namespace cmi_verif {

static thread_local int tl_id = 0;
static thread_local unsigned tl_rng = 1;
static int g_nthreads = 1;
unsigned g_jitter_seed = 1;
std::atomic< long > g_events(0);

static inline void jitter() {
  if ((rand_r(&tl_rng) & 7) == 0)
    sched_yield();
}
void sync_point(int, const volatile void *, size_t) { jitter(); }
void post_point(int, const volatile void *, size_t) { jitter(); }
void blocking_begin() {}
void blocking_end() {}
void yield_point() { sched_yield(); }
int thread_index() { return tl_id; }
int number_of_threads() { return g_nthreads; }
int initial_owner(long subgrid_index, int nthreads) { return nthreads > 0 ? (int)(subgrid_index % nthreads) : 0; }
void event(const char *, long, long, long) { g_events++; }
void event_ptr(const char *, const void *, long, long) {}
void event_bits(const char *, const void *, size_t, long) {}
void object_event(const char *, void *, long) {}

void parallel_region(int nthreads, const std::function< void() > &body) {
  g_nthreads = nthreads;
  std::vector< std::thread > threads;
  for (int i = 0; i < nthreads; ++i)
    threads.emplace_back([i, &body]() {
      tl_id = i;
      tl_rng = g_jitter_seed * 7919u + (unsigned)i * 104729u + 1u;
      body();
    });
  for (auto &t : threads)
    t.join();
  tl_id = 0;
}

} // namespace cmi_verif
