// Engine E1, child side: cooperative scheduler behind the CMI_VERIF hooks.
//
// Exactly one thread of a parallel region holds the token. At every
// synchronisation point the running thread publishes its pending operation and
// the scheduler decides who runs next; the operation itself then executes
// atomically with respect to all other threads.
//
// Candidate order at a point (choice 0 is the default, any other choice is one
// deviation): the current thread if it is enabled and not at a yield point,
// then the other enabled threads least-recently-run first; a thread at a yield
// point comes last and only a bounded number of times in a row (fair scheduling).
#include "e1.hpp"
#include "VerifHooks.hpp"

#include <algorithm>
#include <cstdio>
#include <cstdlib>
#include <cstring>
#include <pthread.h>
#include <unistd.h>

namespace e1 {

SchedConfig sched;
SchedRecord rec;
int g_report_fd = -1;

const char *verdict_name(int v) {
  switch (v) {
  case V_OK:
    return "ok";
  case V_DEADLOCK:
    return "deadlock";
  case V_LIVELOCK:
    return "livelock";
  case V_HORIZON:
    return "horizon";
  case V_DIVERGENCE:
    return "replay-divergence";
  case V_CRASH:
    return "crash";
  case V_TIMEOUT:
    return "timeout";
  }
  return "?";
}

struct ThreadState {
  pthread_t handle;
  int id = 0;
  bool finished = false;
  bool blocking = false; // inside ThreadLock::lock()
  int pend_kind = cmi_verif::OP_START;
  const volatile void *pend_addr = nullptr;
  size_t pend_size = 0;
  long nsync = 0;
  int self_yields = 0; // consecutive continuations at a yield point while nobody else moved
  uint64_t obs = 1469598103934665603ull; // hash of the values observed so far
  pthread_cond_t cv;
};

static pthread_mutex_t g_mtx = PTHREAD_MUTEX_INITIALIZER;
static pthread_cond_t g_main_cv = PTHREAD_COND_INITIALIZER;
static std::vector< ThreadState * > g_threads;
static int g_running = -1;
static bool g_active = false;
static thread_local ThreadState *tl_state = nullptr;
static long g_clock = 0;
static std::vector< long > g_last_run;
static long g_yields_since_progress = 0;
static int g_nthreads_region = 1;

static inline uint64_t mix(uint64_t h, uint64_t v) { return (h ^ v) * 1099511628211ull; }
// addresses of the atomic variables seen at synchronisation points (for the
// optional state hash of whole-simulation runs)
static std::vector< std::pair< const volatile void *, size_t > > g_atomics;
static std::vector< const volatile void * > g_atomics_sorted;
static void track_atomic(const volatile void *addr, size_t size) {
  if (!addr || size == 0 || size > 8)
    return;
  auto it = std::lower_bound(g_atomics_sorted.begin(), g_atomics_sorted.end(), addr);
  if (it != g_atomics_sorted.end() && *it == addr)
    return;
  g_atomics_sorted.insert(it, addr);
  g_atomics.push_back(std::make_pair(addr, size));
}
uint64_t tracked_atomics_hash() {
  // order independent of allocation addresses: by first appearance
  uint64_t h = 0x9e3779b97f4a7c15ull;
  for (auto &a : g_atomics) {
    uint64_t v = 0;
    memcpy(&v, (const void *)a.first, a.second);
    h = mix(h, v);
  }
  return h;
}

void add_violation(const std::string &key, const std::string &detail) {
  rec.violations.push_back(key + "|" + detail);
}
void note_progress() { g_yields_since_progress = 0; }
void mark_seen(const std::string &what) { rec.seen.insert(what); }
int current_thread() { return (g_active && tl_state) ? tl_state->id : 0; }

static void write_all(int fd, const std::string &out) {
  size_t off = 0;
  while (off < out.size()) {
    ssize_t w = write(fd, out.data() + off, out.size() - off);
    if (w <= 0)
      break;
    off += (size_t)w;
  }
}

static void write_report(int verdict) {
  if (g_report_fd < 0)
    return;
  std::string out;
  char buf[96];
  snprintf(buf, sizeof(buf), "V %d %ld %zu\n", verdict, rec.steps, rec.choices.size());
  out += buf;
  out += "C";
  for (size_t i = 0; i < rec.choices.size(); ++i) {
    snprintf(buf, sizeof(buf), " %d:%d", rec.ncand[i], rec.choices[i]);
    out += buf;
  }
  out += "\n";
  out += "K";
  for (size_t i = 0; i < rec.kinds.size(); ++i) {
    snprintf(buf, sizeof(buf), " %d", rec.kinds[i]);
    out += buf;
  }
  out += "\n";
  if (!rec.hashes.empty()) {
    out += "H";
    for (size_t i = 0; i < rec.hashes.size(); ++i) {
      snprintf(buf, sizeof(buf), " %llx", (unsigned long long)rec.hashes[i]);
      out += buf;
    }
    out += "\n";
  }
  out += "O " + rec.outcome + "\n";
  for (auto &s : rec.seen)
    out += "S " + s + "\n";
  for (auto &v : rec.violations) {
    std::string line = v;
    for (char &c : line)
      if (c == '\n')
        c = ' ';
    out += "X " + line + "\n";
  }
  out += "E\n";
  out += rec.events;
  write_all(g_report_fd, out);
}

void finish_child(int verdict) {
  rec.verdict = verdict;
  write_report(verdict);
  _exit(0);
}

static bool enabled(ThreadState *t) {
  if (t->finished)
    return false;
  if (t->blocking && t->pend_kind == cmi_verif::OP_CAS && t->pend_addr) {
    // blocking acquire: enabled only while the lock word is free
    return *(const volatile unsigned char *)t->pend_addr == 0;
  }
  return true;
}

static uint64_t state_hash() {
  uint64_t h = sched.shared_hash ? sched.shared_hash() : 0x9e3779b97f4a7c15ull;
  for (ThreadState *t : g_threads) {
    h = mix(h, (uint64_t)t->finished);
    h = mix(h, (uint64_t)t->nsync);
    h = mix(h, t->obs);
    h = mix(h, (uint64_t)t->blocking);
    h = mix(h, (uint64_t)t->pend_kind);
    h = mix(h, (uint64_t)t->self_yields);
  }
  return h;
}

// called with g_mtx held
static int choose_next(ThreadState *cur) {
  std::vector< int > cand;
  if (g_last_run.size() < g_threads.size())
    g_last_run.assign(g_threads.size(), 0);
  const bool cur_yielding = cur && cur->pend_kind == cmi_verif::OP_YIELD;
  if (cur && enabled(cur) && !cur_yielding)
    cand.push_back(cur->id);
  {
    std::vector< std::pair< long, int > > others;
    for (ThreadState *t : g_threads)
      if (t != cur && enabled(t))
        others.push_back(std::make_pair(g_last_run[t->id], t->id));
    std::sort(others.begin(), others.end());
    for (auto &o : others)
      cand.push_back(o.second);
  }
  // fairness: a thread that yields (idle polling, spinning on a busy slot) may
  // continue at once only as the last candidate (a deviation) and at most
  // sched.yield_self_budget times in a row while no other thread moved; it
  // always continues if it is the only enabled thread
  if (cur && enabled(cur) && cur_yielding &&
      (cand.empty() || cur->self_yields < sched.yield_self_budget))
    cand.push_back(cur->id);
  if (cand.empty())
    return -1;
  const size_t pos = rec.choices.size();
  int c = 0;
  if (pos < sched.prefix.size()) {
    c = sched.prefix[pos];
    if (c < 0 || c >= (int)cand.size()) {
      char buf[128];
      snprintf(buf, sizeof(buf), "replay divergence at point %zu: choice %d of %zu candidates", pos,
               c, cand.size());
      rec.outcome = buf;
      finish_child(V_DIVERGENCE);
    }
  }
  if (sched.hash_states)
    rec.hashes.push_back(state_hash());
  rec.choices.push_back(c);
  rec.ncand.push_back((int)cand.size());
  rec.kinds.push_back(cur ? cur->pend_kind : (int)cmi_verif::OP_START);
  g_last_run[cand[c]] = ++g_clock;
  // bookkeeping of consecutive self continuations at yield points
  for (ThreadState *t : g_threads) {
    if (t->id != cand[c])
      t->self_yields = 0;
    else if (cur && t == cur && cur_yielding && cand.size() > 1)
      ++t->self_yields;
    else if (!(cur && t == cur))
      ; // another thread takes over: its own counter is unchanged
  }
  return cand[c];
}

static void hand_over(ThreadState *cur, int next) {
  if (next == cur->id)
    return;
  g_running = next;
  pthread_cond_signal(&g_threads[next]->cv);
  while (g_running != cur->id)
    pthread_cond_wait(&cur->cv, &g_mtx);
}

static void sync_point_impl(int kind, const volatile void *addr, size_t size) {
  ThreadState *cur = tl_state;
  pthread_mutex_lock(&g_mtx);
  cur->pend_kind = kind;
  cur->pend_addr = addr;
  cur->pend_size = size;
  cur->nsync++;
  if (sched.track_atomics && kind != cmi_verif::OP_PLAIN)
    track_atomic(addr, size);
  if (++rec.steps > sched.max_steps)
    finish_child(V_HORIZON);
  const int next = choose_next(cur);
  if (next < 0)
    finish_child(V_DEADLOCK);
  hand_over(cur, next);
  // this thread now executes its operation: fold the value it is about to
  // observe into its observation hash (nobody else runs in between)
  if (addr && size > 0 && size <= 8 && kind != cmi_verif::OP_PLAIN && kind != cmi_verif::OP_STORE) {
    uint64_t v = 0;
    memcpy(&v, (const void *)addr, size);
    cur->obs = mix(cur->obs, v + 0x100 * (uint64_t)kind);
  }
  pthread_mutex_unlock(&g_mtx);
}

} // namespace e1

// ------------------------------------------------------------ hook functions

namespace cmi_verif {

using namespace e1;

void sync_point(int kind, const volatile void *addr, size_t size) {
  if (!g_active || !tl_state)
    return;
  sync_point_impl(kind, addr, size);
}

void post_point(int, const volatile void *, size_t) {
  // scheduling point after a modifying atomic operation: lets another thread
  // run between the operation and the plain code that follows it
  if (!g_active || !tl_state || !sched.post_points || tl_state->blocking)
    return;
  sync_point_impl(OP_PLAIN, nullptr, 0);
}

void blocking_begin() {
  if (g_active && tl_state)
    tl_state->blocking = true;
}
void blocking_end() {
  if (g_active && tl_state)
    tl_state->blocking = false;
}

void yield_point() {
  if (!g_active || !tl_state)
    return;
  if (++g_yields_since_progress > sched.livelock_yields) {
    pthread_mutex_lock(&g_mtx);
    finish_child(V_LIVELOCK);
  }
  sync_point_impl(OP_YIELD, nullptr, 0);
}

int thread_index() { return (g_active && tl_state) ? tl_state->id : 0; }
int number_of_threads() { return g_nthreads_region; }

int initial_owner(long subgrid_index, int nthreads) {
  if (sched.ownership == 1 && nthreads > 0)
    return (int)(subgrid_index % nthreads);
  return 0;
}

static void deliver(const char *what, long a, long b, long c, const void *ptr) {
  if (sched.track_atomics && g_active && tl_state) {
    // plain data that reaches a thread (task indices, counts) is part of what it observed
    uint64_t h = tl_state->obs;
    for (const char *p = what; *p; ++p)
      h = mix(h, (uint64_t)*p);
    h = mix(h, (uint64_t)a);
    h = mix(h, (uint64_t)b);
    tl_state->obs = mix(h, (uint64_t)c);
  }
  if (sched.record_events) {
    char buf[160];
    snprintf(buf, sizeof(buf), "%s %ld %ld %ld t%d\n", what, a, b, c, current_thread());
    rec.events += buf;
  }
  if (sched.monitor) {
    Event e{what, a, b, c, ptr, current_thread()};
    sched.monitor(e);
  }
}

void event(const char *what, long a, long b, long c) {
  if (!strcmp(what, "task_start"))
    g_yields_since_progress = 0;
  deliver(what, a, b, c, nullptr);
}
void event_ptr(const char *what, const void *p, long b, long c) { deliver(what, 0, b, c, p); }
void event_bits(const char *what, const void *data, size_t size, long b) {
  uint64_t h = 1469598103934665603ull;
  const unsigned char *p = (const unsigned char *)data;
  for (size_t i = 0; i < size; ++i)
    h = mix(h, p[i]);
  deliver(what, (long)(h & 0x7fffffffffffffffull), b, 0, nullptr);
}
void object_event(const char *what, void *object, long a) { deliver(what, a, 0, 0, object); }

struct StartArg {
  ThreadState *st;
  const std::function< void() > *body;
};

static void *thread_main(void *p) {
  StartArg *a = (StartArg *)p;
  tl_state = a->st;
  pthread_mutex_lock(&g_mtx);
  while (g_running != a->st->id)
    pthread_cond_wait(&a->st->cv, &g_mtx);
  pthread_mutex_unlock(&g_mtx);
  (*a->body)();
  pthread_mutex_lock(&g_mtx);
  a->st->finished = true;
  g_yields_since_progress = 0;
  bool all = true;
  for (ThreadState *t : g_threads)
    all = all && t->finished;
  if (all) {
    g_running = -2;
    pthread_cond_signal(&g_main_cv);
  } else {
    const int next = choose_next(nullptr);
    if (next < 0)
      finish_child(V_DEADLOCK);
    g_running = next;
    pthread_cond_signal(&g_threads[next]->cv);
  }
  pthread_mutex_unlock(&g_mtx);
  return nullptr;
}

void parallel_region(int nthreads, const std::function< void() > &body) {
  ++rec.regions;
  g_nthreads_region = nthreads;
  for (ThreadState *t : g_threads)
    delete t;
  g_threads.clear();
  g_last_run.assign(nthreads, 0);
  g_yields_since_progress = 0;
  std::vector< StartArg > args(nthreads);
  for (int i = 0; i < nthreads; ++i) {
    ThreadState *st = new ThreadState();
    st->id = i;
    pthread_cond_init(&st->cv, nullptr);
    g_threads.push_back(st);
  }
  pthread_mutex_lock(&g_mtx);
  g_active = true;
  g_running = -1;
  for (int i = 0; i < nthreads; ++i) {
    args[i].st = g_threads[i];
    args[i].body = &body;
    pthread_create(&g_threads[i]->handle, nullptr, thread_main, &args[i]);
  }
  const int first = choose_next(nullptr);
  g_running = first;
  pthread_cond_signal(&g_threads[first]->cv);
  while (g_running != -2)
    pthread_cond_wait(&g_main_cv, &g_mtx);
  g_active = false;
  pthread_mutex_unlock(&g_mtx);
  for (int i = 0; i < nthreads; ++i)
    pthread_join(g_threads[i]->handle, nullptr);
}

} // namespace cmi_verif
