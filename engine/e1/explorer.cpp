// Engine E1, parent side: deviation-bounded stateless DFS over schedule
// prefixes; every execution is a forked child that reports through a pipe.
#include "e1.hpp"

#include <algorithm>
#include <chrono>
#include <cstdio>
#include <cstdlib>
#include <cstring>
#include <deque>
#include <poll.h>
#include <signal.h>
#include <sstream>
#include <sys/wait.h>
#include <unistd.h>
#include <unordered_map>
#include <unordered_set>

namespace e1 {

extern int g_report_fd;

static uint64_t fnv(const std::string &s, uint64_t h = 1469598103934665603ull) {
  for (unsigned char c : s) {
    h ^= c;
    h *= 1099511628211ull;
  }
  return h;
}

std::string prefix_to_string(const std::vector< int > &prefix) {
  // positions of the non-zero choices: "pos:choice,pos:choice;len"
  std::ostringstream o;
  bool first = true;
  for (size_t i = 0; i < prefix.size(); ++i)
    if (prefix[i]) {
      o << (first ? "" : ",") << i << ":" << prefix[i];
      first = false;
    }
  o << ";" << prefix.size();
  return o.str();
}

std::vector< int > prefix_from_string(const std::string &s) {
  std::vector< int > p;
  size_t semi = s.find(';');
  std::string body = s.substr(0, semi);
  size_t len = semi == std::string::npos ? 0 : (size_t)atol(s.c_str() + semi + 1);
  p.assign(len, 0);
  size_t i = 0;
  while (i < body.size()) {
    size_t colon = body.find(':', i);
    if (colon == std::string::npos)
      break;
    size_t pos = (size_t)atol(body.c_str() + i);
    int c = atoi(body.c_str() + colon + 1);
    if (pos >= p.size())
      p.resize(pos + 1, 0);
    p[pos] = c;
    size_t comma = body.find(',', colon);
    if (comma == std::string::npos)
      break;
    i = comma + 1;
  }
  return p;
}

static ExecResult parse_report(const std::string &data, int status, bool timed_out,
                               const std::vector< int > &prefix) {
  ExecResult r;
  r.prefix = prefix;
  if (timed_out) {
    r.verdict = V_TIMEOUT;
    return r;
  }
  size_t pos = 0;
  bool have_v = false;
  while (pos < data.size()) {
    size_t nl = data.find('\n', pos);
    if (nl == std::string::npos)
      nl = data.size();
    const std::string line = data.substr(pos, nl - pos);
    pos = nl + 1;
    if (line.empty())
      continue;
    if (line[0] == 'V' && !have_v) {
      size_t np = 0;
      if (sscanf(line.c_str(), "V %d %ld %zu", &r.verdict, &r.steps, &np) == 3)
        have_v = true;
    } else if (line[0] == 'C') {
      const char *s = line.c_str() + 1;
      while (*s) {
        int n, c, used = 0;
        if (sscanf(s, " %d:%d%n", &n, &c, &used) < 2)
          break;
        r.ncand.push_back(n);
        r.choices.push_back(c);
        s += used;
      }
    } else if (line[0] == 'K') {
      const char *s = line.c_str() + 1;
      while (*s) {
        int k, used = 0;
        if (sscanf(s, " %d%n", &k, &used) < 1)
          break;
        r.kinds.push_back(k);
        s += used;
      }
    } else if (line[0] == 'H') {
      const char *s = line.c_str() + 1;
      while (*s) {
        unsigned long long h;
        int used = 0;
        if (sscanf(s, " %llx%n", &h, &used) < 1)
          break;
        r.hashes.push_back(h);
        s += used;
      }
    } else if (line[0] == 'O') {
      r.outcome = line.size() > 2 ? line.substr(2) : "";
    } else if (line[0] == 'S') {
      r.seen.insert(line.size() > 2 ? line.substr(2) : "");
    } else if (line[0] == 'X') {
      r.violations.push_back(line.size() > 2 ? line.substr(2) : "");
    } else if (line[0] == 'E' && line.size() == 1) {
      r.events = pos < data.size() ? data.substr(pos) : "";
      break;
    }
  }
  if (!have_v) {
    r.verdict = V_CRASH;
    char buf[96];
    if (WIFSIGNALED(status))
      snprintf(buf, sizeof(buf), "child killed by signal %d", WTERMSIG(status));
    else
      snprintf(buf, sizeof(buf), "child exited with status %d without a report",
               WIFEXITED(status) ? WEXITSTATUS(status) : -1);
    r.outcome = buf;
  } else if (!WIFEXITED(status) || WEXITSTATUS(status) != 0) {
    r.verdict = V_CRASH;
  }
  uint64_t h = fnv(r.outcome);
  for (size_t i = 0; i < r.choices.size(); ++i)
    h = (h ^ (uint64_t)(r.ncand[i] * 131 + r.choices[i])) * 1099511628211ull;
  h = fnv(r.events, h);
  for (auto &v : r.violations)
    h = fnv(v, h);
  r.trace_hash = h ^ (uint64_t)r.verdict;
  return r;
}

struct Job {
  std::vector< int > prefix;
  pid_t pid;
  int fd;
  std::string data;
  std::chrono::steady_clock::time_point start;
};

static Job launch(const std::function< void(const std::vector< int > &) > &child_body,
                  const std::vector< int > &prefix) {
  Job j;
  j.prefix = prefix;
  int p[2];
  if (pipe(p) != 0) {
    perror("pipe");
    exit(3);
  }
  fflush(stdout);
  fflush(stderr);
  pid_t pid = fork();
  if (pid < 0) {
    perror("fork");
    exit(3);
  }
  if (pid == 0) {
    close(p[0]);
    g_report_fd = p[1];
    sched.prefix = prefix;
    child_body(prefix);
    finish_child(rec.verdict);
  }
  close(p[1]);
  j.pid = pid;
  j.fd = p[0];
  j.start = std::chrono::steady_clock::now();
  return j;
}

static bool pump(Job &j) {
  char buf[65536];
  ssize_t r = read(j.fd, buf, sizeof(buf));
  if (r > 0) {
    j.data.append(buf, (size_t)r);
    return false;
  }
  return true; // EOF
}

ExecResult run_one(const std::function< void(const std::vector< int > &) > &child_body,
                   const std::vector< int > &prefix, double timeout) {
  Job j = launch(child_body, prefix);
  bool timed_out = false;
  for (;;) {
    pollfd pf{j.fd, POLLIN, 0};
    poll(&pf, 1, 200);
    if (pf.revents & (POLLIN | POLLHUP)) {
      if (pump(j))
        break;
    }
    double age = std::chrono::duration< double >(std::chrono::steady_clock::now() - j.start).count();
    if (age > timeout) {
      kill(j.pid, SIGKILL);
      timed_out = true;
      break;
    }
  }
  int status = 0;
  waitpid(j.pid, &status, 0);
  close(j.fd);
  return parse_report(j.data, status, timed_out, prefix);
}

static bool failing(const ExecResult &r) { return r.verdict != V_OK || !r.violations.empty(); }

ExploreStats explore(const std::function< void(const std::vector< int > &) > &child_body,
                     const ExploreOptions &opt) {
  ExploreStats st;
  const auto t0 = std::chrono::steady_clock::now();
  auto elapsed = [&]() {
    return std::chrono::duration< double >(std::chrono::steady_clock::now() - t0).count();
  };
  std::unordered_set< uint64_t > visited;
  std::unordered_map< uint64_t, int > visited_used;
  // work items of the current bound and of the next one
  // a prefix is stored sparsely: its deviations (position, choice) and length
  struct Item {
    std::vector< std::pair< uint32_t, uint16_t > > devs;
    uint32_t len;
    std::vector< int > dense() const {
      std::vector< int > p(len, 0);
      for (auto &d : devs)
        p[d.first] = d.second;
      return p;
    }
  };
  std::deque< Item > work, next_work;
  work.push_back(Item{{}, 0});
  std::vector< Job > running;
  std::vector< int > job_used;
  int bound = 0;
  const int last_bound = opt.unbounded ? 0 : opt.max_bound;
  bool cut = false;
  for (;;) {
    if (work.empty() && running.empty()) {
      st.bound_completed = opt.unbounded ? (cut ? 0 : 1 << 20) : (cut && !st.complete ? bound - 1 : bound);
      if (bound >= last_bound || next_work.empty())
        break;
      ++bound;
      work.swap(next_work);
      continue;
    }
    if (elapsed() > opt.deadline && !cut) {
      cut = true;
      if (!work.empty() || !next_work.empty())
        st.complete = false;
      work.clear();
      next_work.clear();
    }
    while (!work.empty() && (int)running.size() < opt.jobs) {
      Item it = work.back();
      work.pop_back();
      running.push_back(launch(child_body, it.dense()));
      job_used.push_back((int)it.devs.size());
    }
    if (running.empty())
      continue;
    std::vector< pollfd > pfds(running.size());
    for (size_t i = 0; i < running.size(); ++i)
      pfds[i] = pollfd{running[i].fd, POLLIN, 0};
    poll(pfds.data(), pfds.size(), 200);
    for (size_t i = 0; i < running.size();) {
      bool done = false, timed_out = false;
      if (pfds[i].revents & (POLLIN | POLLHUP))
        done = pump(running[i]);
      if (!done) {
        double age =
            std::chrono::duration< double >(std::chrono::steady_clock::now() - running[i].start).count();
        if (age > opt.exec_timeout) {
          kill(running[i].pid, SIGKILL);
          done = timed_out = true;
        }
      }
      if (!done) {
        ++i;
        continue;
      }
      int status = 0;
      waitpid(running[i].pid, &status, 0);
      close(running[i].fd);
      ExecResult r = parse_report(running[i].data, status, timed_out, running[i].prefix);
      const int used = job_used[i];
      running.erase(running.begin() + i);
      job_used.erase(job_used.begin() + i);
      pfds.erase(pfds.begin() + i);

      ++st.executions;
      st.choice_points += r.choices.size();
      st.max_points = std::max< uint64_t >(st.max_points, r.choices.size());
      st.outcomes[r.outcome]++;
      st.verdicts[r.verdict]++;
      for (auto &s : r.seen)
        st.seen.insert(s);
      if (st.sample_schedules.size() < 4 && (st.executions % 37 == 1))
        st.sample_schedules.push_back(prefix_to_string(r.prefix));
      if (r.verdict == V_TIMEOUT) {
        // re-run alone with a longer limit before calling it a hang
        r = run_one(child_body, r.prefix, opt.exec_timeout * 10.);
      }
      if (failing(r)) {
        // replay before report: the same prefix must fail identically
        ExecResult again = run_one(child_body, r.prefix, opt.exec_timeout * 10.);
        if (again.trace_hash != r.trace_hash) {
          ExecResult third = run_one(child_body, r.prefix, opt.exec_timeout * 10.);
          r.violations.push_back("E1:nondeterministic-replay|the same schedule prefix gave different traces (" +
                                 std::string(verdict_name(r.verdict)) + "/" + verdict_name(again.verdict) +
                                 "/" + verdict_name(third.verdict) + ")");
        }
        ++st.failure_count;
        if (st.failures.size() < opt.max_failures)
          st.failures.push_back(r);
      }
      if (cut)
        continue;
      // expand alternatives behind the prefix
      int u = 0;
      (void)used;
      bool stop = false;
      for (size_t k = 0; k < r.choices.size() && !stop; ++k) {
        if (k >= r.prefix.size()) {
          if (opt.prune_bounded && k < r.hashes.size()) {
            auto f = visited_used.find(r.hashes[k]);
            if (f != visited_used.end() && f->second <= u) {
              ++st.pruned_by_hash;
              stop = true;
              break;
            }
            visited_used[r.hashes[k]] = u;
          }
          if (opt.use_hashing && k < r.hashes.size()) {
            if (!visited.insert(r.hashes[k]).second) {
              ++st.pruned_by_hash;
              stop = true;
              break;
            }
          }
          if (k < r.kinds.size() && !((1u << r.kinds[k]) & opt.kind_mask))
            goto next_point;
          for (int alt = 1; alt < r.ncand[k]; ++alt) {
            Item it;
            for (size_t q = 0; q < k; ++q)
              if (r.choices[q])
                it.devs.push_back(std::make_pair((uint32_t)q, (uint16_t)r.choices[q]));
            it.devs.push_back(std::make_pair((uint32_t)k, (uint16_t)alt));
            it.len = (uint32_t)k + 1;
            if (opt.unbounded || u + 1 <= bound)
              work.push_back(it);
            else if (u + 1 <= last_bound)
              next_work.push_back(it);
          }
        }
      next_point:
        if (r.choices[k] != 0)
          ++u;
      }
    }
  }
  st.distinct_states = visited.size() + visited_used.size();
  return st;
}

} // namespace e1
