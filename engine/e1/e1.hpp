// Engine E1: cooperative scheduler over the CMI_VERIF synchronisation hooks and
// a deviation-bounded stateless explorer (one forked execution per schedule).
//
// sched.cpp implements the cmi_verif::* functions declared in
// /repo/src/VerifHooks.hpp. A harness
//   1. fills e1::Harness (how to run one execution in a child, the oracle),
//   2. calls e1::explore(...) in the parent, which forks one child per schedule
//      prefix, collects the reports and expands the search tree.
#ifndef E1_HPP
#define E1_HPP

#include <cstdint>
#include <functional>
#include <map>
#include <set>
#include <string>
#include <vector>

namespace e1 {

enum Verdict {
  V_OK = 0,
  V_DEADLOCK = 1,
  V_LIVELOCK = 2,
  V_HORIZON = 3,
  V_DIVERGENCE = 4,
  V_CRASH = 8,
  V_TIMEOUT = 9
};
const char *verdict_name(int v);

/// event delivered to the harness monitors (in the child, in schedule order)
struct Event {
  const char *what;
  long a, b, c;
  const void *ptr; // object events / bit events (hash in a)
  int thread;
};

/// per execution configuration of the scheduler (child side)
struct SchedConfig {
  std::vector< int > prefix;     // choices to replay, then defaults
  long max_steps = 400000;       // horizon (scheduling points)
  long livelock_yields = 64;     // yields without progress => livelock
  int yield_self_budget = 1;     // consecutive self continuations allowed at a yield point
  bool post_points = false;      // also schedule after every modifying atomic operation
  bool track_atomics = false;    // remember every atomic variable seen (for tracked_atomics_hash)
  int ownership = 0;             // 0: all subgrids owned by thread 0, 1: round robin
  bool record_events = true;     // keep the textual event log
  std::function< void(const Event &) > monitor; // called for every event
  std::function< uint64_t() > shared_hash;      // optional: hash of shared state
  bool hash_states = false;      // record a state hash at every choice point
};
extern SchedConfig sched;

/// what the scheduler recorded (child side)
struct SchedRecord {
  std::vector< int > choices, ncand;
  std::vector< int > kinds; // kind of the pending operation of the current thread at each point
  std::vector< uint64_t > hashes;
  long steps = 0;
  int regions = 0;
  int verdict = V_OK;
  std::string events;
  std::vector< std::string > violations; // "key|detail" added by monitors/oracle
  std::string outcome;                   // observable outcome of this execution
  std::set< std::string > seen;          // vacuity: kinds of events exercised
};
extern SchedRecord rec;

uint64_t tracked_atomics_hash();
void add_violation(const std::string &key, const std::string &detail);
void note_progress();
void mark_seen(const std::string &what);
int current_thread();
/// terminate the child now, writing the report (used by the scheduler for
/// deadlock/livelock/horizon and by harness bodies when they are done)
[[noreturn]] void finish_child(int verdict);

// ---------------------------------------------------------------- explorer

struct ExecResult {
  int verdict = V_CRASH;
  std::vector< int > choices, ncand;
  std::vector< int > kinds;
  std::vector< uint64_t > hashes;
  long steps = 0;
  std::vector< std::string > violations;
  std::string outcome;
  std::set< std::string > seen;
  std::string events;
  std::vector< int > prefix;
  uint64_t trace_hash = 0;
};

struct ExploreStats {
  uint64_t executions = 0;
  uint64_t choice_points = 0; // summed over executions
  uint64_t max_points = 0;
  uint64_t pruned_by_hash = 0;
  uint64_t distinct_states = 0;
  std::map< std::string, uint64_t > outcomes;
  std::map< int, uint64_t > verdicts;
  std::set< std::string > seen;
  int bound_completed = -1;
  bool complete = true; // false if the deadline cut the search
  std::vector< ExecResult > failures; // first few failing executions (after replay confirmation)
  uint64_t failure_count = 0;
  std::vector< std::string > sample_schedules;
};

struct ExploreOptions {
  int max_bound = 1;          // deviation bound (explored 0,1,..,max_bound in order)
  int jobs = 16;              // concurrent children
  double exec_timeout = 30.;  // seconds per execution
  double deadline = 1e30;     // absolute wall seconds budget for this call
  bool use_hashing = false;   // prune at visited states (unbounded search only)
  bool unbounded = false;     // explore all alternatives (ignore max_bound)
  size_t max_failures = 5;
  unsigned kind_mask = 0xffffffffu; // deviations only at points whose pending operation kind is in this mask
  bool prune_bounded = false; // bounded search: stop at a state already visited with no more deviations used
                              // (needs hash_states; heuristic when the hash does not cover all shared data)
  bool keep_events_on_failure = true;
};

/// child_body(prefix) runs in a forked child and must end with finish_child().
ExploreStats explore(const std::function< void(const std::vector< int > &) > &child_body,
                     const ExploreOptions &opt);

/// run a single prefix (replay); returns the result
ExecResult run_one(const std::function< void(const std::vector< int > &) > &child_body,
                   const std::vector< int > &prefix, double timeout);

std::string prefix_to_string(const std::vector< int > &prefix);
std::vector< int > prefix_from_string(const std::string &s);

} // namespace e1

#endif
