// Common helpers for the verification harnesses: argument parsing, deadline,
// result accumulation and JSON output read by /verif/check.
//
// Contract of a harness executable:
//   <harness> --tier quick|thorough --seed N --out result.json
//             [--deadline seconds] [--replay file] [--part name]
// It writes a JSON object {evaluations, distinct_nontrivial, rule, samples,
// violations:[{key, detail, replay}], exhaustive, caps:[...], extra:{...}}
// to --out and exits 0 whenever it ran to completion (violations are reported
// in the JSON, the driver decides about known findings); a non-zero exit is an
// error of the check itself.
#ifndef VERIF_COMMON_HPP
#define VERIF_COMMON_HPP

#include <chrono>
#include <cinttypes>
#include <cstdarg>
#include <cerrno>
#include <sys/stat.h>
#include <unistd.h>
#include <cmath>
#include <cstdint>
#include <cstdio>
#include <cstdlib>
#include <cstring>
#include <map>
#include <mutex>
#include <set>
#include <sstream>
#include <string>
#include <vector>

namespace verif {

inline std::string json_escape(const std::string &s) {
  std::string o;
  for (unsigned char c : s) {
    switch (c) {
    case '"':
      o += "\\\"";
      break;
    case '\\':
      o += "\\\\";
      break;
    case '\n':
      o += "\\n";
      break;
    case '\t':
      o += "\\t";
      break;
    case '\r':
      o += "\\r";
      break;
    default:
      if (c < 0x20) {
        char b[8];
        snprintf(b, sizeof(b), "\\u%04x", c);
        o += b;
      } else
        o += (char)c;
    }
  }
  return o;
}

inline std::string fmt(const char *f, ...) __attribute__((format(printf, 1, 2)));
inline std::string fmt(const char *f, ...) {
  char buf[1024];
  va_list ap;
  va_start(ap, f);
  va_list ap2;
  va_copy(ap2, ap);
  int n = vsnprintf(buf, sizeof(buf), f, ap);
  va_end(ap);
  if (n < (int)sizeof(buf)) {
    va_end(ap2);
    return buf;
  }
  std::string big(n + 1, '\0');
  vsnprintf(&big[0], n + 1, f, ap2);
  va_end(ap2);
  big.resize(n);
  return big;
}

/// directory for short-lived scratch files (RAM backed when available)
inline std::string fast_tmpdir() {
  const char *scr = getenv("VERIF_SCRATCH");
  std::string base = scr ? scr : ".";
  if (access("/dev/shm", W_OK) == 0) {
    std::string d = fmt("/dev/shm/verif_%d", (int)getpid());
    if (mkdir(d.c_str(), 0700) == 0 || errno == EEXIST)
      return d;
  }
  return base;
}
inline void remove_fast_tmpdir(const std::string &d) {
  if (d.compare(0, 9, "/dev/shm/") == 0) {
    std::string cmd = "rm -rf '" + d + "'";
    if (system(cmd.c_str())) {
    }
  }
}

/// exact textual form of a double (hex float) for replay files
inline std::string hexd(double x) { return fmt("%a", x); }

inline uint64_t fnv1a(const void *data, size_t n, uint64_t h = 1469598103934665603ull) {
  const unsigned char *p = (const unsigned char *)data;
  for (size_t i = 0; i < n; ++i) {
    h ^= p[i];
    h *= 1099511628211ull;
  }
  return h;
}
inline uint64_t fnv1a(const std::string &s, uint64_t h = 1469598103934665603ull) {
  return fnv1a(s.data(), s.size(), h);
}

struct Args {
  std::string tier = "quick";
  long seed = 0;
  std::string out;
  std::string replay;
  std::string part;
  double deadline = 1e30; // seconds
  std::map< std::string, std::string > kv;
  bool thorough() const { return tier == "thorough"; }
  std::string get(const std::string &k, const std::string &d = "") const {
    auto it = kv.find(k);
    return it == kv.end() ? d : it->second;
  }
  long geti(const std::string &k, long d) const {
    auto it = kv.find(k);
    return it == kv.end() ? d : atol(it->second.c_str());
  }
};

inline Args parse_args(int argc, char **argv) {
  Args a;
  if (const char *t = getenv("VERIF_TIER"))
    a.tier = t;
  if (const char *s = getenv("VERIF_SEED"))
    a.seed = atol(s);
  for (int i = 1; i < argc; ++i) {
    std::string k = argv[i];
    auto val = [&]() -> std::string {
      if (i + 1 < argc)
        return argv[++i];
      fprintf(stderr, "missing value for %s\n", k.c_str());
      exit(2);
    };
    if (k == "--tier")
      a.tier = val();
    else if (k == "--seed")
      a.seed = atol(val().c_str());
    else if (k == "--out")
      a.out = val();
    else if (k == "--replay")
      a.replay = val();
    else if (k == "--part")
      a.part = val();
    else if (k == "--deadline")
      a.deadline = atof(val().c_str());
    else if (k.compare(0, 2, "--") == 0)
      a.kv[k.substr(2)] = val();
    else {
      fprintf(stderr, "unknown argument %s\n", k.c_str());
      exit(2);
    }
  }
  // harnesses may change directory: make file arguments absolute
  for (std::string *f : {&a.out, &a.replay}) {
    if (!f->empty() && (*f)[0] != '/') {
      char cwd[4096];
      if (getcwd(cwd, sizeof(cwd)))
        *f = std::string(cwd) + "/" + *f;
    }
  }
  return a;
}

struct Violation {
  std::string key;    // stable identification of the failing case / site
  std::string detail; // what was observed
  std::string replay; // JSON value (object/string) describing the case
};

class Result {
public:
  std::chrono::steady_clock::time_point t0 = std::chrono::steady_clock::now();
  double deadline = 1e30;
  uint64_t evaluations = 0;
  uint64_t nontrivial = 0;
  std::set< uint64_t > distinct; // optional: hashes of distinct non-trivial cases
  std::string rule;
  std::vector< std::string > samples; // JSON values
  std::vector< Violation > violations;
  uint64_t violation_count = 0;
  std::set< std::string > violation_keys;
  bool exhaustive = true;
  std::vector< std::string > caps;
  std::vector< std::string > assumptions;
  std::map< std::string, std::string > extra; // JSON values
  std::mutex mtx;
  size_t max_violations = 40;
  size_t max_samples = 8;

  explicit Result(const Args &a) : deadline(a.deadline) {}

  double elapsed() const {
    return std::chrono::duration< double >(std::chrono::steady_clock::now() - t0).count();
  }
  bool out_of_time() const { return elapsed() > deadline; }
  void hit_deadline(const std::string &what) {
    std::lock_guard< std::mutex > g(mtx);
    exhaustive = false;
    caps.push_back("deadline reached: " + what);
  }
  void cap(const std::string &what) {
    std::lock_guard< std::mutex > g(mtx);
    exhaustive = false;
    caps.push_back(what);
  }
  /// record a violation; violations with a key already seen are only counted
  void violation(const std::string &key, const std::string &detail,
                 const std::string &replay_json = "null") {
    std::lock_guard< std::mutex > g(mtx);
    ++violation_count;
    if (violation_keys.count(key))
      return;
    if (violations.size() >= max_violations)
      return;
    violation_keys.insert(key);
    violations.push_back({key, detail, replay_json});
  }
  void sample(const std::string &json_value) {
    std::lock_guard< std::mutex > g(mtx);
    if (samples.size() < max_samples)
      samples.push_back(json_value);
  }
  void sample_str(const std::string &s) { sample("\"" + json_escape(s) + "\""); }
  void set(const std::string &k, double v) {
    std::lock_guard< std::mutex > g(mtx);
    if (std::isfinite(v) && v == std::floor(v) && std::fabs(v) < 9e15)
      extra[k] = fmt("%.0f", v);
    else if (std::isfinite(v))
      extra[k] = fmt("%.17g", v);
    else
      extra[k] = "\"" + fmt("%g", v) + "\"";
  }
  void set_str(const std::string &k, const std::string &v) {
    std::lock_guard< std::mutex > g(mtx);
    extra[k] = "\"" + json_escape(v) + "\"";
  }
  void set_json(const std::string &k, const std::string &v) {
    std::lock_guard< std::mutex > g(mtx);
    extra[k] = v;
  }
  void add(const std::string &k, double v) {
    std::lock_guard< std::mutex > g(mtx);
    double old = 0.;
    auto it = extra.find(k);
    if (it != extra.end())
      old = atof(it->second.c_str());
    extra[k] = fmt("%.0f", old + v);
  }

  std::string to_json() {
    std::ostringstream o;
    uint64_t dn = distinct.empty() ? nontrivial : distinct.size();
    o << "{\n \"evaluations\": " << evaluations << ",\n \"distinct_nontrivial\": " << dn
      << ",\n \"rule\": \"" << json_escape(rule) << "\",\n \"exhaustive\": "
      << (exhaustive ? "true" : "false") << ",\n \"wall_s\": " << fmt("%.3f", elapsed())
      << ",\n \"violation_count\": " << violation_count << ",\n \"samples\": [";
    for (size_t i = 0; i < samples.size(); ++i)
      o << (i ? ", " : "") << samples[i];
    o << "],\n \"caps\": [";
    for (size_t i = 0; i < caps.size(); ++i)
      o << (i ? ", " : "") << "\"" << json_escape(caps[i]) << "\"";
    o << "],\n \"assumptions\": [";
    for (size_t i = 0; i < assumptions.size(); ++i)
      o << (i ? ", " : "") << "\"" << json_escape(assumptions[i]) << "\"";
    o << "],\n \"extra\": {";
    bool first = true;
    for (auto &kv : extra) {
      o << (first ? "" : ", ") << "\"" << json_escape(kv.first) << "\": " << kv.second;
      first = false;
    }
    o << "},\n \"violations\": [";
    for (size_t i = 0; i < violations.size(); ++i) {
      o << (i ? ",\n  " : "\n  ") << "{\"key\": \"" << json_escape(violations[i].key)
        << "\", \"detail\": \"" << json_escape(violations[i].detail)
        << "\", \"replay\": " << (violations[i].replay.empty() ? "null" : violations[i].replay)
        << "}";
    }
    o << "]\n}\n";
    return o.str();
  }

  /// write the result file; returns the process exit code (always 0: the
  /// driver decides)
  int finish(const Args &a) {
    std::string js = to_json();
    if (a.out.empty()) {
      fputs(js.c_str(), stdout);
    } else {
      FILE *f = fopen(a.out.c_str(), "w");
      if (!f) {
        perror("open result file");
        return 3;
      }
      fputs(js.c_str(), f);
      fclose(f);
    }
    return 0;
  }
};

/// minimal reader for "key": value pairs of flat replay JSON objects written
/// by the harnesses themselves (strings without escapes, numbers)
inline std::string replay_field(const std::string &text, const std::string &key) {
  std::string pat = "\"" + key + "\"";
  size_t p = text.find(pat);
  if (p == std::string::npos)
    return "";
  p = text.find(':', p + pat.size());
  if (p == std::string::npos)
    return "";
  ++p;
  while (p < text.size() && isspace((unsigned char)text[p]))
    ++p;
  if (p < text.size() && text[p] == '"') {
    size_t e = p + 1;
    std::string out;
    while (e < text.size() && text[e] != '"') {
      if (text[e] == '\\' && e + 1 < text.size()) {
        ++e;
        out += (text[e] == 'n' ? '\n' : text[e]);
      } else
        out += text[e];
      ++e;
    }
    return out;
  }
  size_t e = p;
  int depth = 0;
  while (e < text.size()) {
    char c = text[e];
    if (c == '[' || c == '{')
      ++depth;
    if (c == ']' || c == '}') {
      if (depth == 0)
        break;
      --depth;
    }
    if (c == ',' && depth == 0)
      break;
    ++e;
  }
  std::string v = text.substr(p, e - p);
  while (!v.empty() && isspace((unsigned char)v.back()))
    v.pop_back();
  return v;
}

inline std::string read_file(const std::string &name) {
  FILE *f = fopen(name.c_str(), "rb");
  if (!f)
    return "";
  std::string s;
  char buf[65536];
  size_t r;
  while ((r = fread(buf, 1, sizeof(buf), f)) > 0)
    s.append(buf, r);
  fclose(f);
  return s;
}

} // namespace verif

#endif
