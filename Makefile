# Verification builds of bwvdnbro/CMacIonize: every flavour compiles /repo/src
# from the current working tree into /verif/build/<flavour>/ with -MMD
# dependency files, so an edited header rebuilds exactly what includes it.
REPO ?= $(if $(VERIF_REPO),$(VERIF_REPO),/repo)
SRC := $(REPO)/src
V := /verif
B := $(if $(VERIF_BUILD),$(VERIF_BUILD),$(V)/build)
CXX := g++
HDF5INC := -I/usr/include/hdf5/serial
LIBS := -L/usr/lib/x86_64-linux-gnu/hdf5/serial -lhdf5 -lpthread

# sources that go into the library (everything except the mains / C bindings)
EXCLUDE := CMacIonize CMILibrary SPHArrayInterface
LIBNAMES := $(filter-out $(EXCLUDE),$(basename $(notdir $(wildcard $(SRC)/*.cpp))))
# the hook flavour only needs the task based engines (no legacy grids)
LEGACY := CartesianDensityGrid DensityGrid IonizationSimulation NewVoronoiCellConstructor NewVoronoiGrid OldVoronoiCell OldVoronoiGrid RadiationHydrodynamicsSimulation VoronoiDensityGrid DustScattering DustSimulation EmissivityCalculationSimulation EmissivityCalculator
HOOKNAMES := $(filter-out $(LEGACY),$(LIBNAMES))

COMMON := -std=c++14 -w -I$(V)/cfg -I$(SRC) $(HDF5INC) -I$(V)/lib
PBS ?= 3
FLAGS_plain := $(COMMON) -O1
FLAGS_hook := $(COMMON) -O1 -DCMI_VERIF -DCMI_VERIF_PHOTONBUFFER_SIZE=$(PBS)u -pthread
FLAGS_asan := $(COMMON) -O1 -g -fsanitize=address,undefined -fno-omit-frame-pointer -fno-sanitize-recover=undefined
FLAGS_omp := $(COMMON) -O1 -g -fopenmp -DVERIF_WITH_OPENMP
FLAGS_ompasan := $(COMMON) -O1 -g -fopenmp -DVERIF_WITH_OPENMP -fsanitize=address -fno-omit-frame-pointer
FLAGS_tsan := $(COMMON) -O1 -g -DCMI_VERIF -DCMI_VERIF_PHOTONBUFFER_SIZE=$(PBS)u -pthread -fsanitize=thread

NAMES_plain := $(LIBNAMES)
NAMES_hook := $(HOOKNAMES)
NAMES_asan := $(LIBNAMES)
NAMES_omp := $(LIBNAMES)
NAMES_ompasan := $(LIBNAMES)
NAMES_tsan := $(HOOKNAMES)

FLAVOURS := plain hook asan omp ompasan tsan

define FLAVOUR
$(B)/$(1)/obj/%.o: $(SRC)/%.cpp
	@mkdir -p $$(dir $$@)
	$(CXX) $$(FLAGS_$(1)) -MMD -MP -c $$< -o $$@
$(B)/$(1)/obj/%.o: $(V)/cfg/%.cpp
	@mkdir -p $$(dir $$@)
	$(CXX) $$(FLAGS_$(1)) -MMD -MP -c $$< -o $$@
OBJ_$(1) := $$(addprefix $(B)/$(1)/obj/,$$(addsuffix .o,$$(NAMES_$(1)) CompilerInfo ConfigurationInfo))
$(B)/$(1)/libcmi.a: $$(OBJ_$(1))
	@rm -f $$@
	ar rcs $$@ $$(OBJ_$(1))
-include $$(OBJ_$(1):.o=.d)
lib-$(1): $(B)/$(1)/libcmi.a
endef
$(foreach f,$(FLAVOURS),$(eval $(call FLAVOUR,$(f))))

# the simulation executable (CMacIonize main) per flavour, for whole-program runs
define MAINEXE
$(B)/$(1)/CMacIonize: $(B)/$(1)/obj/CMacIonize.o $(B)/$(1)/libcmi.a $(2)
	$(CXX) $$(FLAGS_$(1)) $(B)/$(1)/obj/CMacIonize.o $(2) $(B)/$(1)/libcmi.a $(LIBS) -o $$@
-include $(B)/$(1)/obj/CMacIonize.d
endef
$(foreach f,plain asan omp ompasan,$(eval $(call MAINEXE,$(f),)))

# harness executables: name, source(s), flavour, extra compile flags, extra link flags
# $(B)/bin/<name> ; -MMD output makes the harness depend on the repo headers it includes
define HARNESS
$(B)/bin/$(1): $(2) $(B)/$(3)/libcmi.a $(wildcard $(V)/lib/*.hpp)
	@mkdir -p $(B)/bin
	$(CXX) $$(FLAGS_$(3)) $(4) -MMD -MP -MF $(B)/bin/$(1).d -MT $$@ $(2) $(B)/$(3)/libcmi.a $(LIBS) $(5) -o $$@
-include $(B)/bin/$(1).d
BINS += $(B)/bin/$(1)
endef

# PARTS=<ids> restricts the harness fragments that are read (a broken fragment
# of another property then cannot break this build); default: all
ifeq ($(PARTS),)
include $(wildcard $(V)/harness/*/part.mk)
else
include $(foreach p,$(PARTS),$(V)/harness/$(p)/part.mk)
endif

bins: $(BINS)

# the data location headers in cfg/ point at /verif/build/data (fixed path)
DATA := $(V)/build/data
data: $(DATA)/.stamp
$(DATA)/.stamp:
	@mkdir -p $(DATA)
	cp -r /repo/data/. $(DATA)/
	cd $(DATA) && for f in *.tar.gz; do tar xzf $$f 2>/dev/null || true; done
	touch $@

.PHONY: bins data $(addprefix lib-,$(FLAVOURS))
.SECONDARY:
