// C12 - complete runs end normally without touching invalid or uninitialised
// memory.
//
// Enumerated: run modes
//   ion              --task-based            (TaskBasedIonizationSimulation)
//   rhd-rad          --task-based-rhd, radiation on
//   rhd-norad        --task-based-rhd, radiation off
//   rhd-restart      rhd-norad stopped after step 2 (dumps on) and restarted to the end
//   rhd-rad-restart  the same with radiation on
// x every subset of the optional components the mode reads, with value variants
//   ion : trackers, diffuse field, continuous source {off, normal, zero luminosity}
//   rhd : live output {off, default outputs and ranges, all outputs with PDF
//         ranges tight around the gas (cells in every bin, in the dropped last
//         bin, at and above the upper limit)}, hydro mask {off, RescaledIC,
//         BlockSyntax (not in the restart modes: that mask refuses to be dumped)},
//         turbulence forcing, diffuse field, continuous source
// x threads {1, 2} x grid {4^3 cells in 2x2x1 subgrids, 8^3 cells in 4x4x4
// subgrids}. The rhd modes start from eight octants of different density and
// velocity at equal pressure (ic_blocks_text).
// Every configuration runs (1) in the AddressSanitizer build (asan for one
// thread, ompasan for two) and (2) in the omp build (-g, for inlined frame
// names) under valgrind memcheck.
// Oracle: exit status 0, expected output files present and not empty, no
// AddressSanitizer/UBSan report, no memcheck error other than "Syscall param
// ... uninitialised byte(s)" (padding of raw structs written to files is not a
// decision; those are counted in `extra`). Violation keys name the error kind
// and the first frame inside the project, never the configuration.
// Precondition (assumption): the rhd modes require a discrete source
// distribution. Three probes with "PhotonSourceDistribution: type: None" are
// run; their outcome is only recorded (extra.probes_not_judged), never judged.
// quick: a pairwise covering subset per mode (every value of every component and
// every pair of values incl. the thread count at least once); thorough: all.
#include "c12_util.hpp"

#include <map>
#include <set>

using namespace c12;
using verif::fmt;

static std::string g_build;
static std::string g_base;
static bool g_keep = false;
static std::mutex g_probe_mtx;
static std::vector< std::string > g_probe_outcomes; // JSON objects, not judged

enum Mode { ION = 0, RHD_RAD, RHD_NORAD, RHD_RESTART, RHD_RAD_RESTART, NMODE };
static const char *MODE_NAME[] = {"ion", "rhd-rad", "rhd-norad", "rhd-restart", "rhd-rad-restart"};
static bool is_restart(int m) { return m == RHD_RESTART || m == RHD_RAD_RESTART; }
static bool has_radiation(int m) { return m == RHD_RAD || m == RHD_RAD_RESTART; }

// grid layouts: cells of the whole grid / number of subgrids
struct GridLayout {
  int cells[3], nsub[3];
};
static GridLayout LAYOUTS[2] = {{{4, 4, 4}, {2, 2, 1}}, {{8, 8, 8}, {4, 4, 4}}};

struct Config {
  int mode = 0;
  int threads = 1;
  // rhd factors
  int live = 0;    // 0 off, 1 default outputs, 2 all outputs
  int mask = 0;    // 0 off, 1 RescaledIC, 2 BlockSyntax
  int turb = 0;
  // both
  int diffuse = 0;
  int cont = 0;    // 0 off, 1 normal, 2 present with zero luminosity (ion only)
  int layout = 0;  // index into LAYOUTS
  // ion
  int trackers = 0;
  // probe outside the lattice: "PhotonSourceDistribution: type: None"
  int nosource = 0;
  // restart modes: thread count of the restarted leg (0: the same as the first leg)
  int rthreads = 0;
  int restart_threads() const { return rthreads ? rthreads : threads; }

  std::string label() const {
    std::string s = fmt("%s/t%d/grid%d", MODE_NAME[mode], threads, layout);
    if (mode == ION) {
      s += fmt("/trackers=%d", trackers);
    } else {
      s += fmt("/live=%d/mask=%d/turb=%d", live, mask, turb);
    }
    s += fmt("/diffuse=%d/cont=%d", diffuse, cont);
    if (nosource)
      s += "/no-discrete-source";
    if (rthreads)
      s += fmt("/restarted-with-t%d", rthreads);
    return s;
  }
  std::string json(const std::string &tool) const {
    return fmt("{\"mode\": %d, \"threads\": %d, \"live\": %d, \"mask\": %d, \"turb\": %d, \"diffuse\": %d, "
               "\"cont\": %d, \"trackers\": %d, \"nosource\": %d, \"layout\": %d, \"rthreads\": %d, \"tool\": \"%s\", "
               "\"label\": \"%s\"}",
               mode, threads, live, mask, turb, diffuse, cont, trackers, nosource, layout, rthreads, tool.c_str(),
               label().c_str());
  }
  std::vector< int > factors() const {
    if (mode == ION)
      return {threads - 1, trackers, diffuse, cont, layout};
    if (mode == 3 || mode == 4) // restart modes: the restarted leg may use another thread count
      return {threads - 1, live, mask, turb, diffuse, cont, layout, rthreads};
    return {threads - 1, live, mask, turb, diffuse, cont, layout};
  }
};

// ---------------------------------------------------------------------------
// parameter files
// ---------------------------------------------------------------------------
static const char *FIXED_RATES =
    "CrossSections:\n  type: FixedValue\n  hydrogen_0: 6.3e-18 cm^2\n  helium_0: 0. m^2\n"
    "  carbon_1: 0. m^2\n  carbon_2: 0. m^2\n  nitrogen_0: 0. m^2\n  nitrogen_1: 0. m^2\n"
    "  nitrogen_2: 0. m^2\n  oxygen_0: 0. m^2\n  oxygen_1: 0. m^2\n  neon_0: 0. m^2\n"
    "  neon_1: 0. m^2\n  sulphur_1: 0. m^2\n  sulphur_2: 0. m^2\n  sulphur_3: 0. m^2\n"
    "RecombinationRates:\n  type: FixedValue\n  hydrogen_1: 2.7e-13 cm^3 s^-1\n"
    "  helium_1: 0. m^3 s^-1\n  carbon_2: 0. m^3 s^-1\n  carbon_3: 0. m^3 s^-1\n"
    "  nitrogen_1: 0. m^3 s^-1\n  nitrogen_2: 0. m^3 s^-1\n  nitrogen_3: 0. m^3 s^-1\n"
    "  oxygen_1: 0. m^3 s^-1\n  oxygen_2: 0. m^3 s^-1\n  neon_1: 0. m^3 s^-1\n"
    "  neon_2: 0. m^3 s^-1\n  sulphur_2: 0. m^3 s^-1\n  sulphur_3: 0. m^3 s^-1\n"
    "  sulphur_4: 0. m^3 s^-1\n";

static const double TOTAL_TIME = 8.e10; // s; four steps of 2e10 s

static std::string common_text(const Config &c) {
  std::string t = FIXED_RATES;
  t += "SimulationBox:\n  anchor: [-1. pc, -1. pc, -1. pc]\n  sides: [2. pc, 2. pc, 2. pc]\n"
       "  periodicity: [false, false, false]\n";
  const GridLayout &gl = LAYOUTS[c.layout];
  t += fmt("DensityGrid:\n  type: Cartesian\n  number of cells: [%d, %d, %d]\n  periodicity: [false, false, false]\n",
           gl.cells[0], gl.cells[1], gl.cells[2]);
  t += fmt("DensitySubGridCreator:\n  number of subgrids: [%d, %d, %d]\n  periodicity: [false, false, false]\n",
           gl.nsub[0], gl.nsub[1], gl.nsub[2]);
  if (c.mode == ION)
    t += "DensityFunction:\n  type: Homogeneous\n  density: 100. cm^-3\n  temperature: 8000. K\n"
         "  neutral fraction H: 1.\n";
  else
    t += "DensityFunction:\n  type: BlockSyntax\n  filename: ic_blocks.yml\n";
  t += "DensityGridWriter:\n  type: Gadget\n  padding: 3\n  prefix: snap_\n";
  t += "TemperatureCalculator:\n  do temperature calculation: false\n";
  t += "Abundances:\n  helium: 0.\n";
  if (c.nosource)
    t += "PhotonSourceDistribution:\n  type: None\nPhotonSourceSpectrum:\n  type: None\n";
  else
    t += "PhotonSourceDistribution:\n  type: SingleStar\n  position: [0.1 pc, 0.2 pc, -0.1 pc]\n"
         "  luminosity: 1.e+48 s^-1\n"
         "PhotonSourceSpectrum:\n  type: Monochromatic\n  frequency: 3.28847e+15 Hz\n";
  if (c.diffuse)
    t += "DiffuseReemissionHandler:\n  type: FixedValue\n  reemission probability: 0.5\n"
         "  reemission frequency: 3.4e15 Hz\n";
  if (c.cont)
    t += fmt("ContinuousPhotonSource:\n  type: Isotropic\n"
             "ContinuousPhotonSourceSpectrum:\n  type: Monochromatic\n  frequency: 3.28847e+15 Hz\n"
             "  total flux: %s m^-2 s^-1\n",
             c.cont == 2 ? "0." : "1.e13");
  return t;
}

static std::string ion_text(const Config &c) {
  std::string t = common_text(c);
  t += "TaskBasedIonizationSimulation:\n  number of buffers: 256\n  number of tasks: 4096\n"
       "  queue size per thread: 1024\n  shared queue size: 1024\n  number of photons: 300\n"
       "  number of iterations: 2\n  random seed: 42\n";
  t += fmt("  source copy level: %d\n", c.threads == 2 ? 1 : 0);
  if (c.diffuse)
    t += "  diffuse field: true\n";
  if (c.trackers) {
    t += "  enable trackers: true\n";
    t += fmt("TrackerManager:\n  filename: trackers.yml\n  minimum number of photon packets: 0\n"
             "  HDF5 output: %s\n  HDF5 output name: trackers.hdf5\n",
             c.threads == 2 ? "true" : "false");
  }
  return t;
}

/// text output (1 thread): all tracker types, two of them in one cell; HDF5
/// output (2 threads): the two types that implement it (Tracker::create_group
/// of the others is an explicit "not implemented" error), two per group, two in
/// one cell
static std::string trackers_text(const Config &c) {
  if (c.threads == 2)
    return "number of trackers: 4\n"
           "tracker[0]:\n  type: Absorption\n  position: [0.3 pc, 0.3 pc, 0.3 pc]\n"
           "tracker[1]:\n  type: Absorption\n  position: [0.35 pc, 0.3 pc, 0.3 pc]\n"
           "tracker[2]:\n  type: WeightedSpectrum\n  position: [-0.7 pc, 0.6 pc, 0.3 pc]\n"
           "  output name: special_tracker\n"
           "tracker[3]:\n  type: WeightedSpectrum\n  position: [0.15 pc, 0.15 pc, -0.15 pc]\n";
  return "number of trackers: 4\n"
         "tracker[0]:\n  type: Spectrum\n  position: [0.3 pc, 0.3 pc, 0.3 pc]\n  number of bins: 20\n"
         "tracker[1]:\n  type: Spectrum\n  position: [0.35 pc, 0.3 pc, 0.3 pc]\n  number of bins: 20\n"
         "tracker[2]:\n  type: WeightedSpectrum\n  position: [-0.7 pc, 0.6 pc, 0.3 pc]\n"
         "  output name: special_tracker.txt\n"
         "tracker[3]:\n  type: Absorption\n  position: [0.15 pc, 0.15 pc, -0.15 pc]\n";
}

static std::string rhd_text(const Config &c) {
  std::string t = common_text(c);
  t += "Hydro:\n  polytropic index: 1.6666667\n";
  t += "HydroBoundaryManager:\n  boundary x high: reflective\n  boundary x low: reflective\n"
       "  boundary y high: reflective\n  boundary y low: reflective\n"
       "  boundary z high: reflective\n  boundary z low: reflective\n";
  t += "TaskBasedRadiationHydrodynamicsSimulation:\n  number of iterations: 2\n  number of photons: 200\n"
       "  random seed: 42\n  number of buffers: 256\n  number of tasks: 4096\n  queue size per thread: 1024\n"
       "  shared queue size: 1024\n";
  t += fmt("  source copy level: %d\n", c.threads == 2 ? 1 : 0);
  t += fmt("  total time: %.17g s\n  maximum timestep: %.17g s\n  snapshot time: %.17g s\n", TOTAL_TIME,
           TOTAL_TIME / 4., TOTAL_TIME / 2.);
  t += fmt("  do radiation: %s\n", has_radiation(c.mode) ? "true" : "false");
  if (c.mask)
    t += "  use mask: true\n";
  if (c.turb)
    t += "  turbulent forcing: true\n";
  if (c.diffuse)
    t += "  diffuse field: true\n";
  if (c.mask == 1)
    t += "HydroMask:\n  type: RescaledIC\n  center: [0.2 pc, 0.2 pc, 0.1 pc]\n  radius: 0.6 pc\n"
         "  scale factor density: 0.5\n  scale factor velocity: 1.\n  scale factor pressure: 0.5\n  delta t: 0. s\n";
  if (c.mask == 2)
    t += "HydroMask:\n  type: BlockSyntax\n  filename: maskblocks.yml\n";
  if (c.turb)
    t += fmt("TurbulenceForcing:\n  time step: %.17g s\n  forcing power: 1.e-6 m^2 s^-3\n  random seed: 17\n"
             "  minimum wave number: 1.\n  maximum wave number: 2.\n  peak forcing wave number: 1.5\n",
             TOTAL_TIME / 10.);
  if (c.live == 1) // default outputs, default (wide) ranges
    t += fmt("LiveOutputManager:\n  enabled: true\n  output interval: %.17g s\n  number of density bins: 10\n"
             "  number of velocity bins: 10\n",
             TOTAL_TIME / 4.);
  if (c.live == 2) // all outputs; PDF ranges tight around the gas: see ic_blocks_text()
    t += fmt("LiveOutputManager:\n  enabled: true\n  output interval: %.17g s\n"
             "  output ionized surface density: true\n"
             "  number of velocity bins: 4\n  maximum velocity: 2. km s^-1\n"
             "  number of density bins: 3\n  minimum density: 1.6726e-22 g cm^-3\n"
             "  maximum density: 1.3381e-21 g cm^-3\n",
             TOTAL_TIME / 4.);
  if (is_restart(c.mode))
    t += "RestartManager:\n  output interval: 0. s\n";
  return t;
}

/// initial condition of the rhd modes: the eight octants of the box hold gas
/// of different density and speed at equal pressure. With the "tight" live
/// output ranges (vmax = 2 km/s in 4(+1 dropped) bins; densities 100..800 cm^-3
/// in 3 bins) the speeds 0, 0.1, 0.3, 0.5, 0.7 vmax fall into the bins 0..3,
/// 0.9 vmax into the deliberately dropped last bin, 1.0 and 1.5 vmax at and
/// above the range; the densities lie below, at the lower limit, inside, at the
/// upper limit and above the density range.
static std::string ic_blocks_text() {
  struct Oct {
    double n, v[3];
  };
  const Oct o[8] = {{50., {0., 0., 0.}},      {100., {0.2, 0., 0.}},   {200., {0., 0.6, 0.}},
                    {400., {0., 0., -1.}},    {800., {-1.4, 0., 0.}},  {1600., {0., -1.8, 0.}},
                    {100., {0., 0., 2.}},     {100., {1.8, -1.8, 1.6970562748477141}}};
  std::string t = "number of blocks: 8\n";
  for (int i = 0; i < 8; ++i) {
    const double cx = (i & 1) ? 0.5 : -0.5, cy = (i & 2) ? 0.5 : -0.5, cz = (i & 4) ? 0.5 : -0.5;
    t += fmt("block[%d]:\n  origin: [%g pc, %g pc, %g pc]\n  sides: [1. pc, 1. pc, 1. pc]\n  type: cube\n"
             "  number density: %g cm^-3\n  initial temperature: %.17g K\n  neutral fraction H: 1.\n"
             "  initial velocity: [%.17g km s^-1, %.17g km s^-1, %.17g km s^-1]\n",
             i, cx, cy, cz, o[i].n, 8000. * 100. / o[i].n, o[i].v[0], o[i].v[1], o[i].v[2]);
  }
  return t;
}

static std::string maskblocks_text() {
  return "number of blocks: 1\n"
         "block[0]:\n  origin: [0.5 pc, 0.5 pc, 0.5 pc]\n  sides: [0.9 pc, 0.9 pc, 0.9 pc]\n  type: cube\n"
         "  number density: 10. cm^-3\n  initial temperature: 500. K\n"
         "  initial velocity: [0.5 km s^-1, 0. km s^-1, 0. km s^-1]\n";
}

// ---------------------------------------------------------------------------
// reports of the tools
// ---------------------------------------------------------------------------
struct Finding {
  std::string key, detail;
};

static bool foreign_function(const std::string &f) {
  static const char *pre[] = {"std::", "operator ", "__", "free", "malloc", "calloc", "realloc", "mem", "str",
                              "_IO_", "_int_", "operator", "gomp", "GOMP", "start_thread", "clone", "(below",
                              "void std::", "char* std::", "_dl_", "H5"};
  for (auto p : pre)
    if (f.compare(0, strlen(p), p) == 0)
      return true;
  return f.empty() || f == "???";
}

/// "ns::Class::method(args) const [clone]" -> "ns::Class::method"
static std::string bare_function(std::string f) {
  // drop a leading return type of template instantiations ("void foo<...>(...)")
  size_t par = std::string::npos;
  int depth = 0;
  for (size_t i = 0; i < f.size(); ++i) {
    if (f[i] == '<')
      ++depth;
    else if (f[i] == '>')
      --depth;
    else if (f[i] == '(' && depth == 0) {
      par = i;
      break;
    }
  }
  if (par != std::string::npos)
    f = f.substr(0, par);
  // remove template argument lists
  std::string o;
  depth = 0;
  for (char ch : f) {
    if (ch == '<')
      ++depth;
    else if (ch == '>')
      --depth;
    else if (depth == 0)
      o += ch;
  }
  size_t sp = o.rfind(' ');
  if (sp != std::string::npos && o.find("operator") == std::string::npos)
    o = o.substr(sp + 1);
  while (!o.empty() && (o.back() == ' ' || o.back() == ':'))
    o.pop_back();
  return o;
}

static std::string vg_kind(const std::string &h) {
  if (h.find("Conditional jump") == 0)
    return "uninit";
  if (h.find("Use of uninitialised") == 0)
    return "uninit-use";
  if (h.find("Invalid read") == 0)
    return "invalid-read";
  if (h.find("Invalid write") == 0)
    return "invalid-write";
  if (h.find("Invalid free") == 0)
    return "invalid-free";
  if (h.find("Mismatched free") == 0)
    return "mismatched-free";
  if (h.find("Syscall param") == 0)
    return "syscall-param";
  if (h.find("Source and destination overlap") == 0)
    return "overlap";
  if (h.find("Jump to the invalid address") == 0)
    return "invalid-jump";
  if (h.find("Argument") == 0 && h.find("fishy") != std::string::npos)
    return "fishy-size";
  if (h.find("Process terminating") == 0)
    return "fatal-signal";
  return "";
}

/// parse a memcheck log; syscall-param reports are counted, not returned
static std::vector< Finding > parse_valgrind(const std::string &log, uint64_t &syscall_param) {
  std::vector< Finding > out;
  std::vector< std::string > lines;
  {
    size_t p = 0;
    while (p < log.size()) {
      size_t e = log.find('\n', p);
      if (e == std::string::npos)
        e = log.size();
      lines.push_back(log.substr(p, e - p));
      p = e + 1;
    }
  }
  auto strip = [](const std::string &l) -> std::string {
    // "==123== text" or "==123==" -> text
    if (l.compare(0, 2, "==") != 0)
      return "\x01";
    size_t e = l.find("==", 2);
    if (e == std::string::npos)
      return "\x01";
    std::string r = l.substr(e + 2);
    if (!r.empty() && r[0] == ' ')
      r = r.substr(1);
    return r;
  };
  for (size_t i = 0; i < lines.size(); ++i) {
    std::string h = strip(lines[i]);
    std::string kind = vg_kind(h);
    if (kind.empty())
      continue;
    std::string site, frames, fallback;
    size_t j = i + 1;
    for (; j < lines.size(); ++j) {
      std::string l = strip(lines[j]);
      if (l.empty() || l == "\x01")
        break;
      size_t at = l.find("at 0x");
      size_t by = l.find("by 0x");
      size_t pos = (at != std::string::npos && at < 6) ? at : ((by != std::string::npos && by < 6) ? by : std::string::npos);
      if (pos == std::string::npos)
        break; // next paragraph of the same report ("Address ... is ...")
      size_t colon = l.find(": ", pos);
      if (colon == std::string::npos)
        continue;
      std::string rest = l.substr(colon + 2);
      // function text = up to the last " (" group
      size_t lp = rest.rfind(" (");
      std::string func = lp == std::string::npos ? rest : rest.substr(0, lp);
      std::string loc = lp == std::string::npos ? "" : rest.substr(lp + 1);
      if (frames.size() < 700)
        frames += (frames.empty() ? "" : " <- ") + bare_function(func) + loc;
      // project sources are *.hpp / *.cpp (the standard library's are not)
      if (site.empty() && (loc.find(".hpp:") != std::string::npos || loc.find(".cpp:") != std::string::npos))
        site = bare_function(func);
      if (fallback.empty() && !foreign_function(func) && loc.find("vg_replace") == std::string::npos &&
          loc.find("(in /usr") == std::string::npos && loc.find("(in /lib") == std::string::npos)
        fallback = bare_function(func);
    }
    if (site.empty())
      site = fallback;
    if (kind == "syscall-param") {
      ++syscall_param;
      continue;
    }
    if ((kind == "invalid-read" || kind == "invalid-write") && j < lines.size() &&
        strip(lines[j]).find("Address 0x0 is not") != std::string::npos)
      kind = "null-deref";
    if (kind == "fatal-signal" && !out.empty())
      continue; // consequence of an error already reported
    if (site.empty())
      site = "unknown-site";
    out.push_back({"C12:valgrind:" + kind + ":" + site, h + " | " + frames});
    i = j;
  }
  return out;
}

/// parse AddressSanitizer / UBSan output found in the program's stderr
static std::vector< Finding > parse_sanitizer(const std::string &log) {
  std::vector< Finding > out;
  std::vector< std::string > lines;
  size_t p = 0;
  while (p < log.size()) {
    size_t e = log.find('\n', p);
    if (e == std::string::npos)
      e = log.size();
    lines.push_back(log.substr(p, e - p));
    p = e + 1;
  }
  for (size_t i = 0; i < lines.size(); ++i) {
    const std::string &l = lines[i];
    size_t a = l.find("ERROR: AddressSanitizer: ");
    if (a != std::string::npos) {
      std::string rest = l.substr(a + 25);
      std::string kind = rest.substr(0, rest.find(' '));
      if (rest.find("attempting free on address which was not malloc") == 0)
        kind = "bad-free";
      if (rest.find("attempting double-free") == 0)
        kind = "double-free";
      if (kind == "SEGV")
        for (size_t j = i + 1; j < lines.size() && j < i + 6; ++j)
          if (lines[j].find("address points to the zero page") != std::string::npos)
            kind = "null-deref";
      std::string site, frames, fallback;
      for (size_t j = i + 1; j < lines.size() && j < i + 40; ++j) {
        const std::string &f = lines[j];
        size_t h = f.find("#");
        size_t in = f.find(" in ");
        if (h == std::string::npos || in == std::string::npos) {
          if (!frames.empty())
            break;
          continue;
        }
        std::string fn = f.substr(in + 4);
        // "func(args) file:line" or "func (/lib/...)"
        size_t sp = fn.rfind(' ');
        std::string loc = sp == std::string::npos ? "" : fn.substr(sp + 1);
        std::string func = sp == std::string::npos ? fn : fn.substr(0, sp);
        if (frames.size() < 700)
          frames += (frames.empty() ? "" : " <- ") + bare_function(func) + " " + loc;
        if (site.empty() && (loc.find(".hpp:") != std::string::npos || loc.find(".cpp:") != std::string::npos) &&
            loc.find("libsanitizer") == std::string::npos)
          site = bare_function(func);
        if (fallback.empty() && !foreign_function(func) && loc.find("(/") != 0 &&
            loc.find("/usr/") == std::string::npos && loc.find("libsanitizer") == std::string::npos)
          fallback = bare_function(func);
      }
      if (site.empty())
        site = fallback;
      if (site.empty())
        site = "unknown-site";
      out.push_back({"C12:asan:" + kind + ":" + site, rest + " | " + frames});
      continue;
    }
    size_t u = l.find(": runtime error: ");
    if (u != std::string::npos) {
      std::string where = l.substr(0, u);
      std::string msg = l.substr(u + 17);
      size_t sl = where.rfind('/');
      if (sl != std::string::npos)
        where = where.substr(sl + 1);
      // file.hpp:line:col -> file.hpp
      std::string file = where.substr(0, where.find(':'));
      std::string cls;
      int words = 0;
      for (char ch : msg) {
        if (ch == ' ') {
          if (++words >= 4)
            break;
          cls += '-';
        } else if (isalpha((unsigned char)ch))
          cls += ch;
      }
      out.push_back({"C12:ubsan:" + file + ":" + cls, l});
    }
  }
  return out;
}

/// "file:function():line: Error:" written by cmac_error
static std::string cmac_error_site(const std::string &log) {
  size_t e = log.find(": Error:");
  if (e == std::string::npos)
    return "";
  size_t b = log.rfind('\n', e);
  std::string head = log.substr(b == std::string::npos ? 0 : b + 1, e - (b == std::string::npos ? 0 : b + 1));
  // /path/File.cpp:function():123
  size_t c1 = head.find(':');
  size_t c2 = head.rfind(':');
  std::string file = head.substr(0, c1);
  size_t sl = file.rfind('/');
  if (sl != std::string::npos)
    file = file.substr(sl + 1);
  std::string func = (c1 != std::string::npos && c2 > c1) ? head.substr(c1 + 1, c2 - c1 - 1) : "";
  size_t par = func.find('(');
  if (par != std::string::npos)
    func = func.substr(0, par);
  return file + ":" + func;
}

// ---------------------------------------------------------------------------
// one job = one configuration under one tool
// ---------------------------------------------------------------------------
struct Counters {
  std::atomic< uint64_t > runs{0}, processes{0}, syscall_param{0}, clean{0}, files_checked{0};
  std::atomic< uint64_t > wall_ms{0};
};

static std::vector< std::string > tool_prefix(const std::string &tool) {
  if (tool == "valgrind")
    return {"/usr/bin/valgrind", "--tool=memcheck", "--error-exitcode=77", "--errors-for-leak-kinds=none",
            "--leak-check=no", "--num-callers=14", "--read-inline-info=yes", "--fair-sched=yes",
            "--log-file=vg.%p.log", "-q"};
  return {};
}

static std::string exe_for(const std::string &tool, int threads) {
  if (tool == "valgrind")
    return g_build + "/omp/CMacIonize";
  return g_build + (threads == 1 ? "/asan/CMacIonize" : "/ompasan/CMacIonize");
}

static void check_files(verif::Result &R, Counters &cn, const Config &c, const std::string &dir,
                        const std::string &tool, bool first_leg_only) {
  std::vector< std::string > files = list_dir(dir);
  auto have = [&](const std::string &name) {
    for (auto &f : files)
      if (f == name) {
        struct stat st;
        return stat((dir + "/" + f).c_str(), &st) == 0 && st.st_size > 0;
      }
    return false;
  };
  std::vector< std::string > want = {"snap_000.hdf5", "memory.txt", "time_log.txt", "p.param.used-values"};
  if (c.mode == ION) {
    want.push_back("snap_002.hdf5"); // after the second (last) iteration
    if (c.trackers) {
      if (c.threads == 2)
        want.push_back("trackers.hdf5");
      else {
        want.push_back("Tracker0.txt");
        want.push_back("Tracker1.txt");
        want.push_back("special_tracker.txt");
        want.push_back("Tracker3.txt");
      }
    }
  } else {
    want.push_back("snap_001.hdf5");
    want.push_back("snap_002.hdf5"); // the final snapshot
    if (is_restart(c.mode))
      want.push_back("restart.dump");
    if (c.live) {
      want.push_back("surface_density_0000.txt");
      want.push_back("density_PDF_0001.txt");
      want.push_back("velocity_PDF_0001.txt");
      if (c.live == 2)
        want.push_back("ionized_surface_density_0001.txt");
    }
  }
  (void)first_leg_only;
  for (auto &w : want) {
    ++cn.files_checked;
    if (!have(w)) {
      std::string pat = w;
      for (auto &ch : pat)
        if (isdigit((unsigned char)ch))
          ch = 'N';
      R.violation("C12:missing-output:" + std::string(MODE_NAME[c.mode]) + ":" + pat,
                  fmt("%s under %s: exit status 0 but output file %s is missing or empty", c.label().c_str(),
                      tool.c_str(), w.c_str()),
                  c.json(tool));
    }
  }
}

static void run_job(verif::Result &R, Counters &cn, const Config &c, const std::string &tool, size_t id,
                    bool verbose) {
  const std::string dir = g_base + fmt("/j%zu", id);
  rm_rf(dir);
  mkdir_p(dir);
  write_file(dir + "/p.param", c.mode == ION ? ion_text(c) : rhd_text(c));
  if (c.mode == ION && c.trackers)
    write_file(dir + "/trackers.yml", trackers_text(c));
  if (c.mode != ION && c.mask == 2)
    write_file(dir + "/maskblocks.yml", maskblocks_text());
  if (c.mode != ION)
    write_file(dir + "/ic_blocks.yml", ic_blocks_text());

  std::vector< std::vector< std::string > > legs;
  {
    std::vector< std::string > a = tool_prefix(tool);
    a.push_back(exe_for(tool, c.threads));
    a.push_back("--params");
    a.push_back("p.param");
    a.push_back("--threads");
    a.push_back(fmt("%d", c.threads));
    a.push_back(c.mode == ION ? "--task-based" : "--task-based-rhd");
    if (is_restart(c.mode)) {
      std::vector< std::string > first = a;
      first.push_back("--number-of-steps");
      first.push_back("2");
      legs.push_back(first);
      if (c.rthreads) {
        // the restarted run is started with another number of threads
        a[tool_prefix(tool).size()] = exe_for(tool, c.rthreads);
        for (size_t k = 0; k + 1 < a.size(); ++k)
          if (a[k] == "--threads")
            a[k + 1] = fmt("%d", c.rthreads);
      }
      a.push_back("--restart");
      a.push_back(".");
    }
    legs.push_back(a);
  }
  const std::vector< std::string > env = {
      "ASAN_OPTIONS=detect_leaks=0:abort_on_error=0:exitcode=78:halt_on_error=1:allocator_may_return_null=1",
      "UBSAN_OPTIONS=print_stacktrace=1:halt_on_error=1:exitcode=79", "OMP_WAIT_POLICY=passive",
      "OMP_PROC_BIND=false"};
  if (!c.nosource)
    ++cn.runs;
  bool clean = true;
  for (size_t li = 0; li < legs.size(); ++li) {
    const std::string logname = fmt("log%zu.txt", li);
    RunResult rr = run_in(dir, legs[li], logname, tool == "valgrind" ? 600. : 300., env);
    if (!c.nosource)
      ++cn.processes;
    cn.wall_ms += (uint64_t)(rr.wall * 1000.);
    const std::string log = verif::read_file(dir + "/" + logname);
    const std::string legname = legs.size() > 1 ? (li == 0 ? " (first leg, to step 2)" : " (restarted leg)") : "";
    std::vector< Finding > found;
    if (tool == "valgrind") {
      uint64_t sp = 0;
      for (auto &f : list_dir(dir))
        if (f.compare(0, 3, "vg.") == 0) {
          std::vector< Finding > fs = parse_valgrind(verif::read_file(dir + "/" + f), sp);
          found.insert(found.end(), fs.begin(), fs.end());
          unlink((dir + "/" + f).c_str());
        }
      cn.syscall_param += sp;
      // exit code 77 with nothing but syscall-param reports is accepted
      if (rr.exit_code == 77 && found.empty() && sp > 0)
        rr.exit_code = 0;
    } else {
      found = parse_sanitizer(log);
    }
    if (c.nosource) {
      // outside the property's precondition (the RHD modes require a discrete
      // source distribution): the outcome is recorded, never judged
      std::string what = rr.describe();
      const std::string site = cmac_error_site(log);
      if (!site.empty())
        what += ", refused by cmac_error in " + site;
      for (auto &f : found)
        what += ", " + f.key;
      {
        std::lock_guard< std::mutex > g(g_probe_mtx);
        g_probe_outcomes.push_back(fmt("{\"probe\": \"%s\", \"tool\": \"%s\", \"outcome\": \"%s\"}",
                                       c.label().c_str(), tool.c_str(), verif::json_escape(what).c_str()));
      }
      if (verbose)
        printf("--- probe (not judged) %s under %s: %s\n", c.label().c_str(), tool.c_str(), what.c_str());
      clean = false; // not part of the "jobs without any report" count either
      break;
    }
    for (auto &f : found) {
      clean = false;
      R.violation(f.key, fmt("%s under %s%s: %s", c.label().c_str(), tool.c_str(), legname.c_str(), f.detail.c_str()),
                  c.json(tool));
    }
    if (verbose) {
      printf("--- %s under %s%s: %s, %.1f s, %zu tool report(s)\n", c.label().c_str(), tool.c_str(),
             legname.c_str(), rr.describe().c_str(), rr.wall, found.size());
      for (auto &f : found)
        printf("    %s :: %s\n", f.key.c_str(), f.detail.c_str());
    }
    if (rr.timed_out) {
      clean = false;
      R.violation(std::string("C12:timeout:") + MODE_NAME[c.mode],
                  fmt("%s under %s%s did not end within the time limit; log tail: %s", c.label().c_str(),
                      tool.c_str(), legname.c_str(), tail_of(dir + "/" + logname, 400).c_str()),
                  c.json(tool));
      break;
    }
    if (rr.exit_code != 0) {
      clean = false;
      if (found.empty()) {
        std::string site = cmac_error_site(log);
        std::string key = site.empty() ? fmt("C12:exit-status:%s:%s", MODE_NAME[c.mode], rr.describe().c_str())
                                       : "C12:abort:" + site;
        for (auto &ch : key)
          if (ch == ' ')
            ch = '-';
        R.violation(key,
                    fmt("%s under %s%s ended with %s; log tail: %s", c.label().c_str(), tool.c_str(),
                        legname.c_str(), rr.describe().c_str(), tail_of(dir + "/" + logname, 500).c_str()),
                    c.json(tool));
      }
      break; // no point in restarting from a failed first leg
    }
    if (li + 1 == legs.size())
      check_files(R, cn, c, dir, tool, false);
  }
  if (clean)
    ++cn.clean;
  if (!g_keep)
    rm_rf(dir);
}

// ---------------------------------------------------------------------------
// enumeration
// ---------------------------------------------------------------------------
static std::vector< Config > all_configs(int mode) {
  std::vector< Config > v;
  for (int th = 1; th <= 2; ++th)
    for (int lay = 0; lay < 2; ++lay) {
      if (mode == ION) {
        for (int tr = 0; tr < 2; ++tr)
          for (int d = 0; d < 2; ++d)
            for (int cs = 0; cs < 3; ++cs) {
              Config c;
              c.mode = mode;
              c.threads = th;
              c.layout = lay;
              c.trackers = tr;
              c.diffuse = d;
              c.cont = cs;
              v.push_back(c);
            }
      } else {
        const int nmask = is_restart(mode) ? 2 : 3;
        for (int lv = 0; lv < 3; ++lv)
          for (int m = 0; m < nmask; ++m)
            for (int tu = 0; tu < 2; ++tu)
              for (int d = 0; d < 2; ++d)
                for (int cs = 0; cs < 2; ++cs) {
                  Config c;
                  c.mode = mode;
                  c.threads = th;
                  c.layout = lay;
                  c.live = lv;
                  c.mask = m;
                  c.turb = tu;
                  c.diffuse = d;
                  c.cont = cs;
                  v.push_back(c);
                  if (is_restart(mode)) {
                    // restarted with the other thread count (1 <-> 2), and 4 -> 1 is added separately
                    c.rthreads = th == 1 ? 2 : 1;
                    v.push_back(c);
                  }
                }
      }
    }
  return v;
}

/// greedy pairwise covering subset; `rot` rotates the tie breaking
static std::vector< Config > pairwise(const std::vector< Config > &all, size_t rot) {
  typedef std::tuple< int, int, int, int > Pair; // factor i, value, factor j, value
  std::set< Pair > need;
  auto pairs_of = [](const Config &c) {
    std::vector< Pair > ps;
    std::vector< int > f = c.factors();
    for (size_t i = 0; i < f.size(); ++i)
      for (size_t j = i + 1; j < f.size(); ++j)
        ps.push_back(Pair((int)i, f[i], (int)j, f[j]));
    return ps;
  };
  for (auto &c : all)
    for (auto &p : pairs_of(c))
      need.insert(p);
  std::vector< Config > out;
  while (!need.empty()) {
    size_t best = 0, bestn = 0;
    for (size_t k = 0; k < all.size(); ++k) {
      size_t idx = (k + rot) % all.size();
      size_t n = 0;
      for (auto &p : pairs_of(all[idx]))
        n += need.count(p);
      if (n > bestn) {
        bestn = n;
        best = idx;
      }
    }
    if (bestn == 0)
      break;
    for (auto &p : pairs_of(all[best]))
      need.erase(p);
    out.push_back(all[best]);
  }
  return out;
}

int main(int argc, char **argv) {
  verif::Args A = verif::parse_args(argc, argv);
  verif::Result R(A);
  const char *vb = getenv("VERIF_BUILD");
  g_build = vb && *vb ? vb : "/verif/build";
  for (const char *e : {"/omp/CMacIonize", "/asan/CMacIonize", "/ompasan/CMacIonize"})
    if (!file_exists(g_build + e)) {
      fprintf(stderr, "executable %s%s not found\n", g_build.c_str(), e);
      return 3;
    }
  const std::string tmp = verif::fast_tmpdir();
  g_base = tmp + "/c12_runs";
  rm_rf(g_base);
  mkdir_p(g_base);
  g_keep = getenv("C12_KEEP") != nullptr;
  Counters cn;

  if (!A.replay.empty()) {
    std::string txt = verif::read_file(A.replay);
    Config c;
    c.mode = atoi(verif::replay_field(txt, "mode").c_str());
    c.threads = atoi(verif::replay_field(txt, "threads").c_str());
    c.live = atoi(verif::replay_field(txt, "live").c_str());
    c.mask = atoi(verif::replay_field(txt, "mask").c_str());
    c.turb = atoi(verif::replay_field(txt, "turb").c_str());
    c.diffuse = atoi(verif::replay_field(txt, "diffuse").c_str());
    c.cont = atoi(verif::replay_field(txt, "cont").c_str());
    c.trackers = atoi(verif::replay_field(txt, "trackers").c_str());
    c.nosource = atoi(verif::replay_field(txt, "nosource").c_str());
    c.layout = atoi(verif::replay_field(txt, "layout").c_str()) ? 1 : 0;
    c.rthreads = atoi(verif::replay_field(txt, "rthreads").c_str());
    std::string tool = verif::replay_field(txt, "tool");
    if (c.threads < 1)
      c.threads = 1;
    run_job(R, cn, c, tool.empty() ? "valgrind" : tool, 0, true);
    if (g_keep)
      printf("run directory kept: %s/j0\n", g_base.c_str());
    else {
      printf("(set C12_KEEP=1 to keep the run directory)\n");
      rm_rf(g_base);
      verif::remove_fast_tmpdir(tmp);
    }
    R.evaluations = cn.processes;
    R.nontrivial = cn.runs;
    return R.finish(A);
  }

  struct Job {
    Config c;
    std::string tool;
  };
  std::vector< Job > jobs;
  size_t nconfig = 0, nall = 0;
  for (int m = 0; m < NMODE; ++m) {
    std::vector< Config > all = all_configs(m);
    nall += all.size();
    std::vector< Config > sel = A.thorough() ? all : pairwise(all, (size_t)A.seed);
    nconfig += sel.size();
    for (auto &c : sel) {
      jobs.push_back({c, "valgrind"});
      jobs.push_back({c, "asan"});
    }
  }
  // a dump written by a run with four threads, restarted with one thread (subgrids
  // owned by threads that do not exist in the restarted run)
  for (int m : {(int)RHD_RESTART, (int)RHD_RAD_RESTART})
    for (int lay = 0; lay < 2; ++lay) {
      Config c;
      c.mode = m;
      c.threads = 4;
      c.rthreads = 1;
      c.layout = lay;
      ++nconfig;
      ++nall;
      jobs.push_back({c, "valgrind"});
      jobs.push_back({c, "asan"});
    }
  // probes outside the property's precondition: no discrete source
  // (PhotonSourceDistribution type None). do_simulation dereferences the source
  // distribution unconditionally, so such a file is not a valid parameter file
  // for the RHD modes; the outcomes go to extra.probes_not_judged only
  {
    Config a;
    a.mode = RHD_NORAD;
    a.nosource = 1;
    Config b;
    b.mode = RHD_RAD;
    b.nosource = 1;
    b.cont = 1;
    Config d;
    d.mode = ION;
    d.nosource = 1;
    d.cont = 1;
    for (auto &c : {a, b, d}) {
      jobs.push_back({c, "valgrind"});
      jobs.push_back({c, "asan"});
    }
  }
  // long jobs first: valgrind, two threads, radiation
  std::stable_sort(jobs.begin(), jobs.end(), [](const Job &a, const Job &b) {
    auto w = [](const Job &j) {
      return (j.tool == "valgrind" ? 16 : 0) + (j.c.layout ? 8 : 0) + (j.c.threads == 2 ? 2 : 0) +
             (has_radiation(j.c.mode) ? 4 : 0) + (is_restart(j.c.mode) ? 1 : 0);
    };
    return w(a) > w(b);
  });

  std::atomic< size_t > skipped(0);
  std::mutex smtx;
  parallel_for(jobs.size(), 16, [&](size_t i) {
    if (R.out_of_time()) {
      ++skipped;
      return;
    }
    run_job(R, cn, jobs[i].c, jobs[i].tool, i, false);
    if (i % 37 == 0) {
      std::lock_guard< std::mutex > g(smtx);
      R.sample(jobs[i].c.json(jobs[i].tool));
    }
  });
  if (skipped.load())
    R.hit_deadline(fmt("%zu of %zu (configuration, tool) jobs not run", skipped.load(), jobs.size()));

  R.evaluations = cn.processes;
  R.nontrivial = cn.runs - skipped.load() > 0 ? cn.runs.load() : 0;
  R.rule = "evaluation = one complete process of the simulation executable under AddressSanitizer or valgrind "
           "(restart configurations: two); non-trivial case = one (mode, component subset, thread count, tool) "
           "job that was started (all run a real simulation to its end)";
  R.set("configurations", (double)nconfig);
  R.set("configurations_in_full_lattice", (double)nall);
  R.set("jobs", (double)(jobs.size() - 6));
  {
    std::sort(g_probe_outcomes.begin(), g_probe_outcomes.end());
    std::string arr = "[";
    for (size_t i = 0; i < g_probe_outcomes.size(); ++i)
      arr += (i ? ", " : "") + g_probe_outcomes[i];
    R.set_json("probes_not_judged", arr + "]");
  }
  R.set("jobs_without_any_report", (double)cn.clean.load());
  R.set("valgrind_syscall_param_reports_not_counted_as_errors", (double)cn.syscall_param.load());
  R.set("output_files_checked", (double)cn.files_checked.load());
  R.set("process_wall_sum_s", cn.wall_ms.load() / 1000.);
  R.assumptions.push_back("memcheck reports 'Syscall param write(buf) points to uninitialised byte(s)' (raw structs "
                          "with padding written to dump/HDF5 files) are counted but are not violations: the property "
                          "speaks of decisions depending on uninitialised memory");
  R.assumptions.push_back("the task-based RHD modes require a discrete source distribution: do_simulation "
                          "dereferences it unconditionally (TemperatureCalculator construction, copy levels, update(), "
                          "DistributedPhotonSource, stellar feedback, restart dump), so 'PhotonSourceDistribution: type: "
                          "None' is not a valid parameter file for them; three such probes are run, their outcome is "
                          "recorded in extra.probes_not_judged and no oracle looks at them");
  R.assumptions.push_back("leak checking is off (valgrind --errors-for-leak-kinds=none --leak-check=no, ASan "
                          "detect_leaks=0): leaks are not part of the property");
  R.assumptions.push_back("BlockSyntaxHydroMask is not combined with the restart mode: the code refuses to dump it "
                          "(cmac_error 'Restarting not supported for this mask')");
  R.assumptions.push_back("with 2 threads the photoionization mode uses source copy level 1 and HDF5 tracker output, "
                          "with 1 thread copy level 0 and text tracker output (the two tracker output paths are tied "
                          "to the thread count, not enumerated independently)");
  R.assumptions.push_back("valgrind runs use the omp build (-g -fopenmp) for both thread counts so that inlined "
                          "frames carry function names; ASan runs use asan (1 thread) and ompasan (2 threads)");
  if (!g_keep) {
    rm_rf(g_base);
    verif::remove_fast_tmpdir(tmp);
  }
  return R.finish(A);
}
