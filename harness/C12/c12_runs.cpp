// C12 - complete runs end normally without touching invalid or uninitialised
// memory.
//
// Enumerated: run modes
//   ion              --task-based            (TaskBasedIonizationSimulation)
//   rhd-rad          --task-based-rhd, radiation on
//   rhd-norad        --task-based-rhd, radiation off
//   rhd-restart      rhd-norad stopped after step 2 (dumps on) and restarted to the end
//   rhd-rad-restart  the same with radiation on
// x optional components with value variants (tables LIVE[], tracker populations,
// LAYOUTS[] below; NOTES.md has the full list)
//   ion : tracker population {off, file with 0 trackers, 1 tracker, 4 trackers
//         (cells with 2,1,1), 10 trackers (cells with 3,4,2,1; one of the cells
//         in the subgrid that is copied), Multi-type tracker sharing a cell}
//         x tracker output {text, HDF5} x source copy level {0,1,2} x diffuse
//         field x continuous source {off, normal, zero luminosity}
//   rhd : live output {off, default outputs, all four outputs with tight PDF
//         ranges, only the ionized surface density, enabled with no output,
//         surface density + velocity PDF (1 bin, one output time), ionized
//         surface density + density PDF (1 bin)}, hydro mask {off, RescaledIC,
//         BlockSyntax (not in the restart modes)}, turbulence forcing, diffuse
//         field, continuous source, thread count of the restarted leg
// x capacity regime {generous; tight = measured peak demand of the unchanged
// tree + margin, table c12_tight_table.inc: the ring cursors of the task vector
// and of the buffer pool wrap around onto slots that are still in use}
// x snapshot field selection (FIELDSEL[]: defaults, everything on, three
// non-contiguous per-ion selections, one vector field, one scalar field, a
// prefix of the ion list, nothing)
// x threads {1, 2} x grid layout {4^3 cells in 2x2x1 subgrids, 8^3 in 4x4x4,
// 16x9x4 in 4x3x2 (4x3x2 cells per subgrid: nx > ny > nz), 4x9x16 in 2x3x4
// (2x3x4 per subgrid: nx < ny < nz), and the two crossed ones 8x9x8 in 2x3x4 /
// 4x3x2 subgrids}. The rhd modes start from eight octants of different density
// and velocity at equal pressure (ic_blocks_text).
// Tools: (1) the AddressSanitizer build (asan for one thread, ompasan for more)
// and (2) the omp build (-g, for inlined frame names) under valgrind memcheck.
// Oracle: exit status 0, expected output files present and not empty, no
// AddressSanitizer/UBSan report, no memcheck error other than "Syscall param
// ... uninitialised byte(s)" (padding of raw structs written to files is not a
// decision; those are counted in `extra`). Violation keys name the error kind
// and the first frame inside the project, never the configuration (exception:
// the two degenerate tracker files and the non-contiguous ion selections carry
// a regime suffix, see key_suffix()).
// Precondition (assumption): the rhd modes require a discrete source
// distribution. Three probes with "PhotonSourceDistribution: type: None" are
// run; their outcome is only recorded (extra.probes_not_judged), never judged.
// Selection (covering arrays built by a deterministic greedy, see cover()):
// quick   : both tools on a strength-2 array of the rhd family with the mode as
//           one of the factors (plus every pair of first-version values with
//           every mode) and a strength-2 array of the ion mode (layouts 0-3);
//           field selections 0-1 only; AddressSanitizer alone additionally on a
//           strength-2 array PER MODE over the whole alphabet (all six layouts,
//           all field selections).
// thorough: both tools on a strength-3 array per mode over the whole alphabet
//           (the field selection takes part in pairs only) that also contains
//           every on/off subset of the optional components with every mode and
//           thread count and with every mode and layout.
// C12_CALIBRATE=<build dir of an instrumented tree>: not a check, measures the
// demand of every base configuration (NOTES.md).
#include "c12_util.hpp"

#include <map>
#include <queue>
#include <set>
#include <tuple>
#include <unordered_set>

using namespace c12;
using verif::fmt;

static std::string g_build;
static std::string g_base;
static bool g_keep = false;
static std::mutex g_probe_mtx;
static std::vector< std::string > g_probe_outcomes; // JSON objects, not judged

enum Mode { ION = 0, RHD_RAD, RHD_NORAD, RHD_RESTART, RHD_RAD_RESTART, NMODE };
static const char *MODE_NAME[] = {"ion", "rhd-rad", "rhd-norad", "rhd-restart", "rhd-rad-restart"};
static bool is_restart(int m) { return m == RHD_RESTART || m == RHD_RAD_RESTART; }
static bool has_radiation(int m) { return m == RHD_RAD || m == RHD_RAD_RESTART; }

// grid layouts: cells of the whole grid / number of subgrids. The box is the
// cube [-1 pc, 1 pc]^3 for all of them (the turbulence forcing demands a cubic
// box), so the cells of layouts 2-5 are not cubic.
struct GridLayout {
  int cells[3], nsub[3];
  int per_subgrid(int d) const { return cells[d] / nsub[d]; }
};
static const int NLAYOUT = 6;       // whole alphabet
static const int NLAYOUT_QUICK = 4; // layouts run under both tools in the quick tier
static const GridLayout LAYOUTS[NLAYOUT] = {
    {{4, 4, 4}, {2, 2, 1}},  // 2x2x4 cells per subgrid, 4 subgrids
    {{8, 8, 8}, {4, 4, 4}},  // 2x2x2 cells per subgrid, 64 subgrids (most never reached by a photon buffer)
    {{16, 9, 4}, {4, 3, 2}}, // 4x3x2 cells per subgrid (nx > ny > nz), subgrid counts descending, 24 subgrids
    {{4, 9, 16}, {2, 3, 4}}, // 2x3x4 cells per subgrid (nx < ny < nz), subgrid counts ascending
    {{8, 9, 8}, {2, 3, 4}},  // 4x3x2 cells per subgrid, subgrid counts ascending
    {{8, 9, 8}, {4, 3, 2}}}; // 2x3x4 cells per subgrid, subgrid counts descending

// live output variants (rhd modes). S: surface density, I: ionized surface
// density, D: density PDF, V: velocity PDF. "tight": PDF ranges tight around the
// gas of ic_blocks_text(). interval: 0 = a quarter of the run (every step),
// 1 = the default of the code (1 s: at every step), 2 = three times the run
// (only output 0 is written).
struct LiveVariant {
  bool S, I, D, V;
  int dbins, vbins; // 0: default of the code (100)
  bool tight;
  int interval;
  const char *what;
};
static const int NLIVE = 7;
static const LiveVariant LIVE[NLIVE] = {
    {false, false, false, false, 0, 0, false, 0, "off (LiveOutputManager absent)"},
    {true, false, true, true, 10, 10, false, 0, "default outputs S+D+V, default wide ranges, 10+10 bins"},
    {true, true, true, true, 3, 4, true, 0, "all outputs S+I+D+V, tight ranges, 3 density / 4 velocity bins"},
    {false, true, false, false, 0, 0, false, 1, "only I (the three default outputs switched off), default interval"},
    {false, false, false, false, 0, 0, false, 0, "enabled with every output switched off"},
    {true, false, false, true, 0, 1, true, 2, "S+V, 1 velocity bin, interval longer than the run (one output)"},
    {false, true, true, false, 1, 0, true, 0, "I+D, 1 density bin"}};

// tracker populations (ion mode); per-cell counts in brackets
enum TrackerPop { TP_OFF = 0, TP_EMPTY, TP_ONE, TP_FOUR, TP_DENSE, TP_MULTI, NTPOP };
static const char *TPOP_WHAT[NTPOP] = {
    "trackers disabled",
    "enabled, tracker file with 'number of trackers: 0'",
    "1 tracker [1]",
    "4 trackers in 3 cells [2,1,1], two subgrids",
    "10 trackers in 4 cells [3,4,2,1], file order interleaved; the cells with 3 and 1 lie in the subgrid of the "
    "source (copied for copy level > 0), the cells with 4 and 2 in the first and the last cell of the grid",
    "3 trackers [2,1]: a tracker of type Multi (2 members) followed by a Spectrum tracker in the same cell, "
    "and a Multi tracker alone in another cell (text output only)"};

// capacity regimes of the task-based machinery: `number of buffers` (MemorySpace
// ring), `number of tasks` (ThreadSafeVector< Task > ring), `queue size per
// thread`, `shared queue size`. The four values of one regime are all
// different, so that a capacity used in the role of another one is visible.
// 0: generous (no ring cursor ever reaches the end of its pool);
// 1: tight but sufficient (table TIGHT below, from the calibration described in
//    NOTES.md: measured peak demand of the unchanged tree + margin; the number
//    of requests between two resets of a pool exceeds its capacity, so the ring
//    cursor wraps around onto slots that are still in use)
struct Capacities {
  int buffers, tasks, per_thread, shared;
};
static const int NCAP = 2;
static const Capacities GENEROUS = {256, 4096, 1024, 640};
// Measured peak demand of the unchanged tree per demand class (generated by the
// calibration mode, see NOTES.md): family (0 ion, 1 rhd with radiation, 2 rhd
// without), layout, threads of the first leg, threads of the last leg, diffuse
// field, source copy level and continuous source (ion family only, else 0);
// off = number of permanent hydro tasks, tasks/buffers/per_thread/shared = peak
// number of simultaneously used elements (maximum over every configuration of
// the class, 2-thread classes: over repeated runs).
struct Demand {
  int fam, layout, th, rt, diffuse, copy, cont;
  int off, tasks, buffers, per_thread, shared;
};
static const Demand DEMAND[] = {
#include "c12_tight_table.inc"
};
static const size_t NDEMAND = sizeof(DEMAND) / sizeof(DEMAND[0]);

// snapshot field selections (block DensityGridWriterFields of the parameter
// file). Ion properties: NeutralFraction<ion> for the 14 ions H He C+ C++ N N+
// N++ O O+ Ne Ne+ S+ S++ S+++ (bits 0..13 of one flag word).
struct FieldSelection {
  const char *what;
  const char *text;      // lines below "DensityGridWriterFields:" ("" = block absent)
  bool noncontiguous;    // the selected ions are not a prefix H, He, ... of the ion list
};
static const char *ALL_IONS_ON =
    "  NeutralFractionH: 1\n  NeutralFractionHe: 1\n  NeutralFractionC+: 1\n  NeutralFractionC++: 1\n"
    "  NeutralFractionN: 1\n  NeutralFractionN+: 1\n  NeutralFractionN++: 1\n  NeutralFractionO: 1\n"
    "  NeutralFractionO+: 1\n  NeutralFractionNe: 1\n  NeutralFractionNe+: 1\n  NeutralFractionS+: 1\n"
    "  NeutralFractionS++: 1\n  NeutralFractionS+++: 1\n";
static const int NFIELDSEL = 9;
static const FieldSelection FIELDSEL[NFIELDSEL] = {
    {"defaults (block absent)", "", false},
    {"everything on: 5 vector fields, 10 scalar fields + 14 ions", "ALL", false},
    {"H off, He on (one ion, not the first)", "  NeutralFractionH: 0\n  NeutralFractionHe: 1\n", true},
    {"H on, He off, O+ on, S+++ (the last ion) on, NumberDensity and Temperature on",
     "  NumberDensity: 1\n  Temperature: 1\n  NeutralFractionH: 1\n  NeutralFractionHe: 0\n  NeutralFractionO+: 1\n"
     "  NeutralFractionS+++: 1\n",
     true},
    {"only Coordinates (1 vector field, 0 scalar fields)",
     "  Coordinates: 1\n  NumberDensity: 0\n  Temperature: 0\n  NeutralFractionH: 0\n  Density: 0\n  Velocities: 0\n"
     "  Pressure: 0\n",
     false},
    {"only Temperature (0 vector fields, 1 scalar field)",
     "  Coordinates: 0\n  NumberDensity: 0\n  Temperature: 1\n  NeutralFractionH: 0\n  Density: 0\n  Velocities: 0\n"
     "  Pressure: 0\n",
     false},
    {"only NeutralFractionS+++ (the last ion alone)",
     "  Coordinates: 0\n  NumberDensity: 0\n  Temperature: 0\n  NeutralFractionH: 0\n  NeutralFractionS+++: 1\n"
     "  Density: 0\n  Velocities: 0\n  Pressure: 0\n",
     true},
    {"a prefix of the ion list: H, He, C+ (3 ions) + the defaults",
     "  NeutralFractionH: 1\n  NeutralFractionHe: 1\n  NeutralFractionC+: 1\n", false},
    {"no field at all (0 datasets)",
     "  Coordinates: 0\n  NumberDensity: 0\n  Temperature: 0\n  NeutralFractionH: 0\n  Density: 0\n  Velocities: 0\n"
     "  Pressure: 0\n",
     false}};

static std::string fields_text(int sel) {
  const FieldSelection &f = FIELDSEL[sel];
  if (!*f.text)
    return "";
  std::string t = "DensityGridWriterFields:\n";
  if (std::string(f.text) == "ALL")
    t += std::string("  Coordinates: 1\n  NumberDensity: 1\n  Temperature: 1\n") + ALL_IONS_ON +
         "  CosmicRayFactor: 1\n  Density: 1\n  Velocities: 1\n  Pressure: 1\n  Mass: 1\n  Momentum: 1\n"
         "  TotalEnergy: 1\n  Acceleration: 1\n";
  else
    t += f.text;
  return t;
}

struct Config {
  int mode = 0;
  int threads = 1;
  // rhd factors
  int live = 0;    // index into LIVE
  int mask = 0;    // 0 off, 1 RescaledIC, 2 BlockSyntax
  int turb = 0;
  // both
  int diffuse = 0;
  int cont = 0;    // 0 off, 1 normal, 2 present with zero luminosity (ion only)
  int layout = 0;  // index into LAYOUTS
  // ion
  int tpop = 0;    // TrackerPop
  int tfmt = 0;    // 0 text files, 1 one HDF5 file (meaningless and 0 when tpop == TP_OFF)
  int copy = 0;    // source copy level: 2^copy - 1 copies of the subgrid that holds the source
  // both: capacity regime (0 generous, 1 tight) and snapshot field selection (index into FIELDSEL)
  int cap = 0;
  int fields = 0;
  // probe outside the lattice: "PhotonSourceDistribution: type: None"
  int nosource = 0;
  // restart modes: thread count of the restarted leg (0: the same as the first leg)
  int rthreads = 0;
  int restart_threads() const { return rthreads ? rthreads : threads; }
  /// source copy level written to the parameter file
  int copy_level() const { return mode == ION ? copy : (threads == 2 ? 1 : 0); }
  /// position of the snapshot field selection in factors()
  size_t fields_factor() const { return mode == ION ? 8 : 10; }
  int family() const { return mode == ION ? 0 : (mode == RHD_RAD || mode == RHD_RAD_RESTART) ? 1 : 2; }
  int thread_class() const { return std::max(threads, restart_threads()) >= 2 ? 1 : 0; }
  /// demand class of this configuration (the factors the demand depends on)
  Demand demand_key() const {
    Demand d = {family(), layout, threads, restart_threads(), diffuse, 0, 0, 0, 0, 0, 0, 0};
    if (mode == ION) {
      d.copy = copy;
      d.cont = cont;
    }
    return d;
  }
  const Demand *demand() const {
    const Demand k = demand_key();
    for (size_t i = 0; i < NDEMAND; ++i) {
      const Demand &d = DEMAND[i];
      if (d.fam == k.fam && d.layout == k.layout && d.th == k.th && d.rt == k.rt && d.diffuse == k.diffuse &&
          d.copy == k.copy && d.cont == k.cont)
        return &d;
    }
    return nullptr;
  }
  /// Tight capacities: measured peak + margin.
  /// Every leg has one thread (the demand is deterministic): +8 tasks, +8
  /// buffers, +4 entries of the queue of the thread, +3 of the shared queue;
  /// rhd without radiation: the task vector is exactly full (the demand is the
  /// number of hydro tasks, a function of the layout alone).
  /// Some leg has two threads (the demand depends on the schedule): tasks
  /// +24 + half of the non-permanent tasks, buffers +24 + 100 %; the two queues
  /// get a bound that no schedule can exceed instead of a measured one (a queue
  /// holds distinct live tasks: at most all tasks / all non-permanent tasks),
  /// because the peak length of the shared queue has a long tail: measured
  /// maximum 2 in 6 runs of every configuration, but 15 of 33 000 runs needed
  /// more than 6.
  /// The four values are made pairwise different.
  Capacities capacities() const {
    // coordinator: tight capacities only where the demand is deterministic (one thread in every
    // leg). With two threads the peak demand depends on the schedule; the calibrated margins held in
    // 40 080 runs, but an exhausted pool makes the unchanged code spin for ever, which this check would
    // report - a false alarm the property does not allow. Two-thread configurations of the "tight"
    // regime therefore run with the generous capacities (counted as such in the evidence).
    if (!cap || thread_class() != 0)
      return GENEROUS;
    const Demand *d = demand();
    if (!d) {
      fprintf(stderr, "no demand class for %s\n", label().c_str());
      exit(3);
    }
    Capacities c;
    if (thread_class() == 0) {
      c.tasks = family() == 2 ? d->tasks : d->tasks + 8;
      c.buffers = d->buffers + 8;
      c.per_thread = d->per_thread + 4;
      c.shared = d->shared + 3;
    } else {
      c.tasks = d->tasks + 24 + (d->tasks - d->off) / 2;
      c.buffers = 2 * d->buffers + 24;
      c.per_thread = c.tasks + 3;
      c.shared = c.tasks - d->off + 5;
    }
    while (c.buffers == c.tasks)
      ++c.buffers;
    while (c.per_thread == c.tasks || c.per_thread == c.buffers)
      ++c.per_thread;
    while (c.shared == c.tasks || c.shared == c.buffers || c.shared == c.per_thread)
      ++c.shared;
    return c;
  }

  std::string label() const {
    std::string s = fmt("%s/t%d/grid%d", MODE_NAME[mode], threads, layout);
    if (mode == ION) {
      s += fmt("/trackers=%d%s/copy=%d", tpop, tpop ? (tfmt ? "hdf5" : "text") : "", copy);
    } else {
      s += fmt("/live=%d/mask=%d/turb=%d", live, mask, turb);
    }
    s += fmt("/diffuse=%d/cont=%d/cap=%d/fields=%d", diffuse, cont, cap, fields);
    if (nosource)
      s += "/no-discrete-source";
    if (rthreads)
      s += fmt("/restarted-with-t%d", rthreads);
    return s;
  }
  std::string json(const std::string &tool) const {
    return fmt("{\"mode\": %d, \"threads\": %d, \"live\": %d, \"mask\": %d, \"turb\": %d, \"diffuse\": %d, "
               "\"cont\": %d, \"tpop\": %d, \"tfmt\": %d, \"copy\": %d, \"nosource\": %d, \"layout\": %d, "
               "\"rthreads\": %d, \"cap\": %d, \"fields\": %d, \"tool\": \"%s\", \"label\": \"%s\"}",
               mode, threads, live, mask, turb, diffuse, cont, tpop, tfmt, copy, nosource, layout, rthreads, cap,
               fields, tool.c_str(), label().c_str());
  }
  /// factor values; the rhd family shares one factor list with the mode in front
  std::vector< int > factors() const {
    if (mode == ION)
      return {threads - 1, tpop, tfmt, copy, diffuse, cont, layout, cap, fields};
    return {mode, threads - 1, live, mask, turb, diffuse, cont, layout, rthreads, cap, fields};
  }
  /// on/off pattern of the optional components (one bit per component)
  int subset_bits() const {
    if (mode == ION)
      return (tpop ? 1 : 0) | (diffuse ? 2 : 0) | (cont ? 4 : 0);
    return (live ? 1 : 0) | (mask ? 2 : 0) | (turb ? 4 : 0) | (diffuse ? 8 : 0) | (cont ? 16 : 0);
  }
  bool operator<(const Config &o) const {
    auto key = [](const Config &c) {
      return std::make_tuple(c.mode, c.threads, c.live, c.mask, c.turb, c.diffuse, c.cont, c.layout, c.tpop, c.tfmt,
                             c.copy, c.nosource, c.rthreads, c.cap, c.fields);
    };
    return key(*this) < key(o);
  }
};

/// regime suffix of violation keys for the two degenerate tracker files, so
/// that a defect that only these inputs reach never shares its key with a
/// defect seen with ordinary tracker files
static std::string key_suffix(const Config &c) {
  if (FIELDSEL[c.fields].noncontiguous)
    return "@noncontiguous-ion-fields";
  if (c.mode == ION && c.tpop == TP_EMPTY)
    return "@empty-tracker-file";
  if (c.mode == ION && c.tpop == TP_MULTI)
    return "@multi-type-tracker";
  return "";
}

// ---------------------------------------------------------------------------
// parameter files
// ---------------------------------------------------------------------------
static const char *FIXED_RATES =
    "CrossSections:\n  type: FixedValue\n  hydrogen_0: 6.3e-18 cm^2\n  helium_0: 0. m^2\n"
    "  carbon_1: 0. m^2\n  carbon_2: 0. m^2\n  nitrogen_0: 0. m^2\n  nitrogen_1: 0. m^2\n"
    "  nitrogen_2: 0. m^2\n  oxygen_0: 0. m^2\n  oxygen_1: 0. m^2\n  neon_0: 0. m^2\n"
    "  neon_1: 0. m^2\n  sulphur_1: 0. m^2\n  sulphur_2: 0. m^2\n  sulphur_3: 0. m^2\n"
    "RecombinationRates:\n  type: FixedValue\n  hydrogen_1: 2.7e-13 cm^3 s^-1\n"
    "  helium_1: 0. m^3 s^-1\n  carbon_2: 0. m^3 s^-1\n  carbon_3: 0. m^3 s^-1\n"
    "  nitrogen_1: 0. m^3 s^-1\n  nitrogen_2: 0. m^3 s^-1\n  nitrogen_3: 0. m^3 s^-1\n"
    "  oxygen_1: 0. m^3 s^-1\n  oxygen_2: 0. m^3 s^-1\n  neon_1: 0. m^3 s^-1\n"
    "  neon_2: 0. m^3 s^-1\n  sulphur_2: 0. m^3 s^-1\n  sulphur_3: 0. m^3 s^-1\n"
    "  sulphur_4: 0. m^3 s^-1\n";

static const double TOTAL_TIME = 8.e10; // s; four steps of 2e10 s

static std::string common_text(const Config &c) {
  std::string t = FIXED_RATES;
  t += "SimulationBox:\n  anchor: [-1. pc, -1. pc, -1. pc]\n  sides: [2. pc, 2. pc, 2. pc]\n"
       "  periodicity: [false, false, false]\n";
  const GridLayout &gl = LAYOUTS[c.layout];
  t += fmt("DensityGrid:\n  type: Cartesian\n  number of cells: [%d, %d, %d]\n  periodicity: [false, false, false]\n",
           gl.cells[0], gl.cells[1], gl.cells[2]);
  t += fmt("DensitySubGridCreator:\n  number of subgrids: [%d, %d, %d]\n  periodicity: [false, false, false]\n",
           gl.nsub[0], gl.nsub[1], gl.nsub[2]);
  if (c.mode == ION)
    t += "DensityFunction:\n  type: Homogeneous\n  density: 100. cm^-3\n  temperature: 8000. K\n"
         "  neutral fraction H: 1.\n";
  else
    t += "DensityFunction:\n  type: BlockSyntax\n  filename: ic_blocks.yml\n";
  t += "DensityGridWriter:\n  type: Gadget\n  padding: 3\n  prefix: snap_\n";
  t += fields_text(c.fields);
  t += "TemperatureCalculator:\n  do temperature calculation: false\n";
  t += "Abundances:\n  helium: 0.\n";
  if (c.nosource)
    t += "PhotonSourceDistribution:\n  type: None\nPhotonSourceSpectrum:\n  type: None\n";
  else
    t += "PhotonSourceDistribution:\n  type: SingleStar\n  position: [0.1 pc, 0.2 pc, -0.1 pc]\n"
         "  luminosity: 1.e+48 s^-1\n"
         "PhotonSourceSpectrum:\n  type: Monochromatic\n  frequency: 3.28847e+15 Hz\n";
  if (c.diffuse)
    t += "DiffuseReemissionHandler:\n  type: FixedValue\n  reemission probability: 0.5\n"
         "  reemission frequency: 3.4e15 Hz\n";
  if (c.cont)
    t += fmt("ContinuousPhotonSource:\n  type: Isotropic\n"
             "ContinuousPhotonSourceSpectrum:\n  type: Monochromatic\n  frequency: 3.28847e+15 Hz\n"
             "  total flux: %s m^-2 s^-1\n",
             c.cont == 2 ? "0." : "1.e13");
  return t;
}

static std::string ion_text(const Config &c) {
  std::string t = common_text(c);
  const Capacities cp = c.capacities();
  t += fmt("TaskBasedIonizationSimulation:\n  number of buffers: %d\n  number of tasks: %d\n"
           "  queue size per thread: %d\n  shared queue size: %d\n  number of photons: 300\n"
           "  number of iterations: 2\n  random seed: 42\n",
           cp.buffers, cp.tasks, cp.per_thread, cp.shared);
  t += fmt("  source copy level: %d\n", c.copy_level());
  if (c.diffuse)
    t += "  diffuse field: true\n";
  if (c.tpop) {
    t += "  enable trackers: true\n";
    t += fmt("TrackerManager:\n  filename: trackers.yml\n  minimum number of photon packets: 0\n"
             "  HDF5 output: %s\n  HDF5 output name: trackers.hdf5\n",
             c.tfmt ? "true" : "false");
  }
  return t;
}

/// SOURCE_POS: position of the single star in pc (common_text)
static const double SOURCE_POS[3] = {0.1, 0.2, -0.1};

/// position (text, in pc) inside cell (i,j,k) of the whole grid; `which`
/// selects one of several distinct points of the cell, none of them on a face
static std::string cell_position(const GridLayout &gl, const int idx[3], int which) {
  static const double frac[4][3] = {{0.5, 0.5, 0.5}, {0.25, 0.625, 0.375}, {0.75, 0.375, 0.625}, {0.375, 0.75, 0.25}};
  double x[3];
  for (int d = 0; d < 3; ++d)
    x[d] = -1. + (idx[d] + frac[which & 3][d]) * 2. / gl.cells[d];
  return fmt("[%.17g pc, %.17g pc, %.17g pc]", x[0], x[1], x[2]);
}

struct TrackerSpec {
  std::string type_text; // the lines below "tracker[i]:" that select the type
  std::string position;
  std::string name;      // output name ("" = default Tracker<i>[.txt])
};

/// the trackers of a configuration, in file order.
/// Only the Absorption and WeightedSpectrum trackers implement HDF5 output
/// (Tracker::create_group of the others is an explicit "not implemented"
/// error), so the HDF5 variants use these two types (with three kinds of
/// frequency bins, i.e. several HDF5 groups of sizes 1, 2, 3 and 4); the text
/// variants use all types.
static std::vector< TrackerSpec > tracker_specs(const Config &c) {
  const GridLayout &gl = LAYOUTS[c.layout];
  const bool h5 = c.tfmt != 0;
  const std::string SPEC = "  type: Spectrum\n";
  const std::string ABS = "  type: Absorption\n";
  const std::string WS = "  type: WeightedSpectrum\n";
  const std::string WS7 = "  type: WeightedSpectrum\n  FrequencyBins:\n    type: Linear\n    number of bins: 7\n";
  const std::string WSL = "  type: WeightedSpectrum\n  FrequencyBins:\n    type: Level\n";
  const std::string MULTI2 = "  type: Multi\n  number of trackers: 2\n  tracker[0]:\n    type: Spectrum\n"
                             "    number of bins: 5\n  tracker[1]:\n    type: Absorption\n";
  std::vector< TrackerSpec > v;
  // cell of the source, another cell of the same subgrid, first and last cell
  int src[3], same[3], first[3] = {0, 0, 0}, last[3];
  for (int d = 0; d < 3; ++d) {
    src[d] = (int)std::floor((SOURCE_POS[d] + 1.) / 2. * gl.cells[d]);
    same[d] = src[d];
    last[d] = gl.cells[d] - 1;
  }
  same[0] += (src[0] % gl.per_subgrid(0)) + 1 < gl.per_subgrid(0) ? 1 : -1;
  switch (c.tpop) {
  case TP_EMPTY:
    break;
  case TP_ONE:
    v.push_back({h5 ? ABS : SPEC, cell_position(gl, same, 0), ""});
    break;
  case TP_FOUR:
    // as in the first version of this check: fixed positions, the first two in
    // one cell in every layout
    if (h5) {
      v.push_back({ABS, "[0.3 pc, 0.3 pc, 0.3 pc]", ""});
      v.push_back({ABS, "[0.35 pc, 0.3 pc, 0.3 pc]", ""});
      v.push_back({WS, "[-0.7 pc, 0.6 pc, 0.3 pc]", "special_tracker"});
      v.push_back({WS, "[0.15 pc, 0.15 pc, -0.15 pc]", ""});
    } else {
      v.push_back({SPEC + "  number of bins: 20\n", "[0.3 pc, 0.3 pc, 0.3 pc]", ""});
      v.push_back({SPEC + "  number of bins: 20\n", "[0.35 pc, 0.3 pc, 0.3 pc]", ""});
      v.push_back({WS, "[-0.7 pc, 0.6 pc, 0.3 pc]", "special_tracker.txt"});
      v.push_back({ABS, "[0.15 pc, 0.15 pc, -0.15 pc]", ""});
    }
    break;
  case TP_DENSE: {
    // A = `same` (3 trackers), B = first cell (4), C = last cell (2), D = cell of the source (1)
    const std::string A1 = h5 ? ABS : SPEC + "  number of bins: 1\n", A2 = WS7, A3 = h5 ? WSL : ABS;
    const std::string B1 = h5 ? WS : SPEC + "  number of bins: 20\n", B2 = h5 ? ABS : SPEC + "  number of bins: 2\n",
                      B3 = h5 ? WS7 : WSL, B4 = h5 ? WS : ABS;
    const std::string C1 = ABS, C2 = h5 ? WS7 : ABS, D1 = h5 ? ABS : WS;
    v.push_back({A1, cell_position(gl, same, 0), ""});
    v.push_back({B1, cell_position(gl, first, 0), ""});
    v.push_back({C1, cell_position(gl, last, 0), ""});
    v.push_back({A2, cell_position(gl, same, 1), ""});
    v.push_back({B2, cell_position(gl, first, 1), ""});
    v.push_back({D1, cell_position(gl, src, 1), h5 ? "special_tracker" : "special_tracker.txt"});
    v.push_back({B3, cell_position(gl, first, 2), ""});
    v.push_back({A3, cell_position(gl, same, 2), ""});
    v.push_back({C2, cell_position(gl, last, 1), ""});
    v.push_back({B4, cell_position(gl, first, 3), ""});
    break;
  }
  case TP_MULTI:
    v.push_back({MULTI2, cell_position(gl, same, 0), ""});
    v.push_back({SPEC, cell_position(gl, same, 1), ""});
    v.push_back({MULTI2, cell_position(gl, last, 0), ""});
    break;
  }
  return v;
}

static std::string trackers_text(const Config &c) {
  const std::vector< TrackerSpec > v = tracker_specs(c);
  std::string t = fmt("number of trackers: %zu\n", v.size());
  for (size_t i = 0; i < v.size(); ++i) {
    t += fmt("tracker[%zu]:\n", i) + v[i].type_text + "  position: " + v[i].position + "\n";
    if (!v[i].name.empty())
      t += "  output name: " + v[i].name + "\n";
  }
  return t;
}

static std::string rhd_text(const Config &c) {
  std::string t = common_text(c);
  t += "Hydro:\n  polytropic index: 1.6666667\n";
  t += "HydroBoundaryManager:\n  boundary x high: reflective\n  boundary x low: reflective\n"
       "  boundary y high: reflective\n  boundary y low: reflective\n"
       "  boundary z high: reflective\n  boundary z low: reflective\n";
  const Capacities cp = c.capacities();
  t += fmt("TaskBasedRadiationHydrodynamicsSimulation:\n  number of iterations: 2\n  number of photons: 200\n"
           "  random seed: 42\n  number of buffers: %d\n  number of tasks: %d\n  queue size per thread: %d\n"
           "  shared queue size: %d\n",
           cp.buffers, cp.tasks, cp.per_thread, cp.shared);
  t += fmt("  source copy level: %d\n", c.copy_level());
  t += fmt("  total time: %.17g s\n  maximum timestep: %.17g s\n  snapshot time: %.17g s\n", TOTAL_TIME,
           TOTAL_TIME / 4., TOTAL_TIME / 2.);
  t += fmt("  do radiation: %s\n", has_radiation(c.mode) ? "true" : "false");
  if (c.mask)
    t += "  use mask: true\n";
  if (c.turb)
    t += "  turbulent forcing: true\n";
  if (c.diffuse)
    t += "  diffuse field: true\n";
  if (c.mask == 1)
    t += "HydroMask:\n  type: RescaledIC\n  center: [0.2 pc, 0.2 pc, 0.1 pc]\n  radius: 0.6 pc\n"
         "  scale factor density: 0.5\n  scale factor velocity: 0.75\n  scale factor pressure: 0.375\n  delta t: 0. s\n";
  if (c.mask == 2)
    t += "HydroMask:\n  type: BlockSyntax\n  filename: maskblocks.yml\n";
  if (c.turb)
    t += fmt("TurbulenceForcing:\n  time step: %.17g s\n  forcing power: 1.e-6 m^2 s^-3\n  random seed: 17\n"
             "  minimum wave number: 1.\n  maximum wave number: 2.\n  peak forcing wave number: 1.5\n",
             TOTAL_TIME / 10.);
  if (c.live) {
    const LiveVariant &lv = LIVE[c.live];
    t += "LiveOutputManager:\n  enabled: true\n";
    if (lv.interval != 1)
      t += fmt("  output interval: %.17g s\n", lv.interval == 0 ? TOTAL_TIME / 4. : 3. * TOTAL_TIME);
    t += fmt("  output surface density: %s\n  output ionized surface density: %s\n  output density PDF: %s\n"
             "  output velocity PDF: %s\n",
             lv.S ? "true" : "false", lv.I ? "true" : "false", lv.D ? "true" : "false", lv.V ? "true" : "false");
    if (lv.dbins)
      t += fmt("  number of density bins: %d\n", lv.dbins);
    if (lv.vbins)
      t += fmt("  number of velocity bins: %d\n", lv.vbins);
    if (lv.tight) // PDF ranges tight around the gas: see ic_blocks_text()
      t += "  maximum velocity: 2. km s^-1\n  minimum density: 1.6726e-22 g cm^-3\n"
           "  maximum density: 1.3381e-21 g cm^-3\n";
  }
  if (is_restart(c.mode))
    t += "RestartManager:\n  output interval: 0. s\n";
  return t;
}

/// initial condition of the rhd modes: the eight octants of the box hold gas
/// of different density and speed at equal pressure. With the "tight" live
/// output ranges (vmax = 2 km/s in 4(+1 dropped) bins; densities 100..800 cm^-3
/// in 3 bins) the speeds 0, 0.1, 0.3, 0.5, 0.7 vmax fall into the bins 0..3,
/// 0.9 vmax into the deliberately dropped last bin, 1.0 and 1.5 vmax at and
/// above the range; the densities lie below, at the lower limit, inside, at the
/// upper limit and above the density range. The blocks overlap by 0.01 pc (a
/// later block wins): with an odd number of cells per axis a cell midpoint lies
/// exactly on an octant boundary, and "inside" must not depend on rounding.
static std::string ic_blocks_text() {
  struct Oct {
    double n, v[3];
  };
  const Oct o[8] = {{50., {0., 0., 0.}},      {100., {0.2, 0., 0.}},   {200., {0., 0.6, 0.}},
                    {400., {0., 0., -1.}},    {800., {-1.4, 0., 0.}},  {1600., {0., -1.8, 0.}},
                    {100., {0., 0., 2.}},     {100., {1.8, -1.8, 1.6970562748477141}}};
  std::string t = "number of blocks: 8\n";
  for (int i = 0; i < 8; ++i) {
    const double cx = (i & 1) ? 0.5 : -0.5, cy = (i & 2) ? 0.5 : -0.5, cz = (i & 4) ? 0.5 : -0.5;
    t += fmt("block[%d]:\n  origin: [%g pc, %g pc, %g pc]\n  sides: [1.02 pc, 1.02 pc, 1.02 pc]\n  type: cube\n"
             "  number density: %g cm^-3\n  initial temperature: %.17g K\n  neutral fraction H: 1.\n"
             "  initial velocity: [%.17g km s^-1, %.17g km s^-1, %.17g km s^-1]\n",
             i, cx, cy, cz, o[i].n, 8000. * 100. / o[i].n, o[i].v[0], o[i].v[1], o[i].v[2]);
  }
  return t;
}

static std::string maskblocks_text() {
  return "number of blocks: 1\n"
         "block[0]:\n  origin: [0.5 pc, 0.5 pc, 0.5 pc]\n  sides: [0.9 pc, 0.9 pc, 0.9 pc]\n  type: cube\n"
         "  number density: 10. cm^-3\n  initial temperature: 500. K\n"
         "  initial velocity: [0.5 km s^-1, 0. km s^-1, 0. km s^-1]\n";
}

// ---------------------------------------------------------------------------
// reports of the tools
// ---------------------------------------------------------------------------
struct Finding {
  std::string key, detail;
};

static bool foreign_function(const std::string &f) {
  static const char *pre[] = {"std::", "operator ", "__", "free", "malloc", "calloc", "realloc", "mem", "str",
                              "_IO_", "_int_", "operator", "gomp", "GOMP", "start_thread", "clone", "(below",
                              "void std::", "char* std::", "_dl_", "H5"};
  for (auto p : pre)
    if (f.compare(0, strlen(p), p) == 0)
      return true;
  return f.empty() || f == "???";
}

/// "ns::Class::method(args) const [clone]" -> "ns::Class::method"
static std::string bare_function(std::string f) {
  // drop a leading return type of template instantiations ("void foo<...>(...)")
  size_t par = std::string::npos;
  int depth = 0;
  for (size_t i = 0; i < f.size(); ++i) {
    if (f[i] == '<')
      ++depth;
    else if (f[i] == '>')
      --depth;
    else if (f[i] == '(' && depth == 0) {
      par = i;
      break;
    }
  }
  if (par != std::string::npos)
    f = f.substr(0, par);
  // remove template argument lists
  std::string o;
  depth = 0;
  for (char ch : f) {
    if (ch == '<')
      ++depth;
    else if (ch == '>')
      --depth;
    else if (depth == 0)
      o += ch;
  }
  size_t sp = o.rfind(' ');
  if (sp != std::string::npos && o.find("operator") == std::string::npos)
    o = o.substr(sp + 1);
  while (!o.empty() && (o.back() == ' ' || o.back() == ':'))
    o.pop_back();
  return o;
}

static std::string vg_kind(const std::string &h) {
  if (h.find("Conditional jump") == 0)
    return "uninit";
  if (h.find("Use of uninitialised") == 0)
    return "uninit-use";
  if (h.find("Invalid read") == 0)
    return "invalid-read";
  if (h.find("Invalid write") == 0)
    return "invalid-write";
  if (h.find("Invalid free") == 0)
    return "invalid-free";
  if (h.find("Mismatched free") == 0)
    return "mismatched-free";
  if (h.find("Syscall param") == 0)
    return "syscall-param";
  if (h.find("Source and destination overlap") == 0)
    return "overlap";
  if (h.find("Jump to the invalid address") == 0)
    return "invalid-jump";
  if (h.find("Argument") == 0 && h.find("fishy") != std::string::npos)
    return "fishy-size";
  if (h.find("Process terminating") == 0)
    return "fatal-signal";
  return "";
}

/// parse a memcheck log; syscall-param reports are counted, not returned
static std::vector< Finding > parse_valgrind(const std::string &log, uint64_t &syscall_param) {
  std::vector< Finding > out;
  std::vector< std::string > lines;
  {
    size_t p = 0;
    while (p < log.size()) {
      size_t e = log.find('\n', p);
      if (e == std::string::npos)
        e = log.size();
      lines.push_back(log.substr(p, e - p));
      p = e + 1;
    }
  }
  auto strip = [](const std::string &l) -> std::string {
    // "==123== text" or "==123==" -> text
    if (l.compare(0, 2, "==") != 0)
      return "\x01";
    size_t e = l.find("==", 2);
    if (e == std::string::npos)
      return "\x01";
    std::string r = l.substr(e + 2);
    if (!r.empty() && r[0] == ' ')
      r = r.substr(1);
    return r;
  };
  for (size_t i = 0; i < lines.size(); ++i) {
    std::string h = strip(lines[i]);
    std::string kind = vg_kind(h);
    if (kind.empty())
      continue;
    std::string site, frames, fallback;
    size_t j = i + 1;
    for (; j < lines.size(); ++j) {
      std::string l = strip(lines[j]);
      if (l.empty() || l == "\x01")
        break;
      size_t at = l.find("at 0x");
      size_t by = l.find("by 0x");
      size_t pos = (at != std::string::npos && at < 6) ? at : ((by != std::string::npos && by < 6) ? by : std::string::npos);
      if (pos == std::string::npos)
        break; // next paragraph of the same report ("Address ... is ...")
      size_t colon = l.find(": ", pos);
      if (colon == std::string::npos)
        continue;
      std::string rest = l.substr(colon + 2);
      // function text = up to the last " (" group
      size_t lp = rest.rfind(" (");
      std::string func = lp == std::string::npos ? rest : rest.substr(0, lp);
      std::string loc = lp == std::string::npos ? "" : rest.substr(lp + 1);
      if (frames.size() < 700)
        frames += (frames.empty() ? "" : " <- ") + bare_function(func) + loc;
      // project sources are *.hpp / *.cpp (the standard library's are not)
      if (site.empty() && (loc.find(".hpp:") != std::string::npos || loc.find(".cpp:") != std::string::npos))
        site = bare_function(func);
      if (fallback.empty() && !foreign_function(func) && loc.find("vg_replace") == std::string::npos &&
          loc.find("(in /usr") == std::string::npos && loc.find("(in /lib") == std::string::npos)
        fallback = bare_function(func);
    }
    if (site.empty())
      site = fallback;
    if (kind == "syscall-param") {
      ++syscall_param;
      continue;
    }
    if ((kind == "invalid-read" || kind == "invalid-write") && j < lines.size() &&
        strip(lines[j]).find("Address 0x0 is not") != std::string::npos)
      kind = "null-deref";
    if (kind == "fatal-signal" && !out.empty())
      continue; // consequence of an error already reported
    if (site.empty())
      site = "unknown-site";
    out.push_back({"C12:valgrind:" + kind + ":" + site, h + " | " + frames});
    i = j;
  }
  return out;
}

/// parse AddressSanitizer / UBSan output found in the program's stderr
static std::vector< Finding > parse_sanitizer(const std::string &log) {
  std::vector< Finding > out;
  std::vector< std::string > lines;
  size_t p = 0;
  while (p < log.size()) {
    size_t e = log.find('\n', p);
    if (e == std::string::npos)
      e = log.size();
    lines.push_back(log.substr(p, e - p));
    p = e + 1;
  }
  for (size_t i = 0; i < lines.size(); ++i) {
    const std::string &l = lines[i];
    size_t a = l.find("ERROR: AddressSanitizer: ");
    if (a != std::string::npos) {
      std::string rest = l.substr(a + 25);
      std::string kind = rest.substr(0, rest.find(' '));
      if (rest.find("attempting free on address which was not malloc") == 0)
        kind = "bad-free";
      if (rest.find("attempting double-free") == 0)
        kind = "double-free";
      if (kind == "SEGV")
        for (size_t j = i + 1; j < lines.size() && j < i + 6; ++j)
          if (lines[j].find("address points to the zero page") != std::string::npos)
            kind = "null-deref";
      std::string site, frames, fallback;
      for (size_t j = i + 1; j < lines.size() && j < i + 40; ++j) {
        const std::string &f = lines[j];
        size_t h = f.find("#");
        size_t in = f.find(" in ");
        if (h == std::string::npos || in == std::string::npos) {
          if (!frames.empty())
            break;
          continue;
        }
        std::string fn = f.substr(in + 4);
        // "func(args) file:line" or "func (/lib/...)"
        size_t sp = fn.rfind(' ');
        std::string loc = sp == std::string::npos ? "" : fn.substr(sp + 1);
        std::string func = sp == std::string::npos ? fn : fn.substr(0, sp);
        if (frames.size() < 700)
          frames += (frames.empty() ? "" : " <- ") + bare_function(func) + " " + loc;
        if (site.empty() && (loc.find(".hpp:") != std::string::npos || loc.find(".cpp:") != std::string::npos) &&
            loc.find("libsanitizer") == std::string::npos)
          site = bare_function(func);
        if (fallback.empty() && !foreign_function(func) && loc.find("(/") != 0 &&
            loc.find("/usr/") == std::string::npos && loc.find("libsanitizer") == std::string::npos)
          fallback = bare_function(func);
      }
      if (site.empty())
        site = fallback;
      if (site.empty())
        site = "unknown-site";
      out.push_back({"C12:asan:" + kind + ":" + site, rest + " | " + frames});
      continue;
    }
    size_t u = l.find(": runtime error: ");
    if (u != std::string::npos) {
      std::string where = l.substr(0, u);
      std::string msg = l.substr(u + 17);
      size_t sl = where.rfind('/');
      if (sl != std::string::npos)
        where = where.substr(sl + 1);
      // file.hpp:line:col -> file.hpp
      std::string file = where.substr(0, where.find(':'));
      std::string cls;
      int words = 0;
      for (char ch : msg) {
        if (ch == ' ') {
          if (++words >= 4)
            break;
          cls += '-';
        } else if (isalpha((unsigned char)ch))
          cls += ch;
      }
      out.push_back({"C12:ubsan:" + file + ":" + cls, l});
    }
  }
  return out;
}

/// "file:function():line: Error:" written by cmac_error
static std::string cmac_error_site(const std::string &log) {
  size_t e = log.find(": Error:");
  if (e == std::string::npos)
    return "";
  size_t b = log.rfind('\n', e);
  std::string head = log.substr(b == std::string::npos ? 0 : b + 1, e - (b == std::string::npos ? 0 : b + 1));
  // /path/File.cpp:function():123
  size_t c1 = head.find(':');
  size_t c2 = head.rfind(':');
  std::string file = head.substr(0, c1);
  size_t sl = file.rfind('/');
  if (sl != std::string::npos)
    file = file.substr(sl + 1);
  std::string func = (c1 != std::string::npos && c2 > c1) ? head.substr(c1 + 1, c2 - c1 - 1) : "";
  size_t par = func.find('(');
  if (par != std::string::npos)
    func = func.substr(0, par);
  return file + ":" + func;
}

// ---------------------------------------------------------------------------
// one job = one configuration under one tool
// ---------------------------------------------------------------------------
struct Counters {
  std::atomic< uint64_t > runs{0}, processes{0}, syscall_param{0}, clean{0}, files_checked{0};
  std::atomic< uint64_t > wall_ms{0}, cpu_ms{0}, cpu_ms_valgrind{0}, cpu_ms_tight{0}, cpu_ms_noncontiguous{0};
};

static std::vector< std::string > tool_prefix(const std::string &tool) {
  if (tool == "valgrind")
    return {"/usr/bin/valgrind", "--tool=memcheck", "--error-exitcode=77", "--errors-for-leak-kinds=none",
            "--leak-check=no", "--num-callers=14", "--read-inline-info=yes", "--fair-sched=yes",
            "--log-file=vg.%p.log", "-q"};
  return {};
}

static std::string g_calibrate; // C12_CALIBRATE: build directory of an instrumented tree (NOTES.md)
static std::mutex g_cal_mtx;
static std::vector< std::string > g_cal_lines;
static std::map< std::tuple< int, int, int, int, int, int, int >, std::vector< long > > g_cal_max;

/// calibration only: demand figures printed by an instrumented build
/// (TSVSTAT/TQSTAT lines, see NOTES.md "Calibration of the tight capacities")
static void calibration_record(const Config &c, const std::string &log, int exit_code) {
  long off = 0, tP = 0, tRmin = -1, tRmax = 0, bP = 0, bRmin = -1, bRmax = 0, q = 0, sh = 0;
  long twrap = 0, tresets = 0, bwrap = 0, bresets = 0;
  size_t p = 0;
  while (p < log.size()) {
    size_t e = log.find('\n', p);
    if (e == std::string::npos)
      e = log.size();
    const std::string l = log.substr(p, e - p);
    p = e + 1;
    auto num = [&](const char *k) -> long {
      size_t a = l.find(k);
      return a == std::string::npos ? -1 : atol(l.c_str() + a + strlen(k));
    };
    if (l.compare(0, 14, "TSVSTAT Tasks ") == 0) {
      if (l.find(" destroy ") != std::string::npos) {
        off = std::max(off, num("cur="));
        continue;
      }
      ++tresets;
      tP = std::max(tP, num("max="));
      const long r = num("cur=");
      tRmin = tRmin < 0 ? r : std::min(tRmin, r);
      tRmax = std::max(tRmax, r);
      twrap += r > num("size=");
    } else if (l.compare(0, 20, "TSVSTAT MemorySpace ") == 0 && l.find(" clear_fast ") != std::string::npos) {
      ++bresets;
      bP = std::max(bP, num("max="));
      const long r = num("cur=");
      bRmin = bRmin < 0 ? r : std::min(bRmin, r);
      bRmax = std::max(bRmax, r);
      bwrap += r > num("size=");
    } else if (l.compare(0, 23, "TQSTAT Queue for Thread") == 0)
      q = std::max(q, num("max="));
    else if (l.compare(0, 19, "TQSTAT Shared queue") == 0)
      sh = std::max(sh, num("max="));
  }
  std::lock_guard< std::mutex > g(g_cal_mtx);
  {
    const Demand k = c.demand_key();
    std::vector< long > &m = g_cal_max[std::make_tuple(k.fam, k.layout, k.th, k.rt, k.diffuse, k.copy, k.cont)];
    m.resize(6, 0);
    const long v[6] = {off, std::max(tP, off), bP, q, sh, exit_code != 0};
    for (int i = 0; i < 6; ++i)
      m[i] = std::max(m[i], v[i]);
  }
  g_cal_lines.push_back(fmt("CAL %d %d %d exit=%d off=%ld tP=%ld tRmin=%ld tRmax=%ld twrap=%ld/%ld bP=%ld bRmin=%ld bRmax=%ld "
                            "bwrap=%ld/%ld q=%ld sh=%ld %s",
                            c.family(), c.layout, c.thread_class(), exit_code, off, tP, tRmin, tRmax, twrap, tresets, bP,
                            bRmin, bRmax, bwrap, bresets, q, sh, c.label().c_str()) +
                        (log.find("EXHAUSTED ") == std::string::npos
                             ? std::string()
                             : " " + log.substr(log.find("EXHAUSTED "), log.find('\n', log.find("EXHAUSTED ")) -
                                                                            log.find("EXHAUSTED "))));
}

static std::string exe_for(const std::string &tool, int threads) {
  if (tool == "calib")
    return g_calibrate + (threads == 1 ? "/plain/CMacIonize" : "/omp/CMacIonize");
  if (tool == "valgrind")
    return g_build + "/omp/CMacIonize";
  return g_build + (threads == 1 ? "/asan/CMacIonize" : "/ompasan/CMacIonize");
}

static void check_files(verif::Result &R, Counters &cn, const Config &c, const std::string &dir,
                        const std::string &tool, bool first_leg_only) {
  std::vector< std::string > files = list_dir(dir);
  auto have = [&](const std::string &name) {
    for (auto &f : files)
      if (f == name) {
        struct stat st;
        return stat((dir + "/" + f).c_str(), &st) == 0 && st.st_size > 0;
      }
    return false;
  };
  std::vector< std::string > want = {"snap_000.hdf5", "memory.txt", "time_log.txt", "p.param.used-values"};
  if (c.mode == ION) {
    want.push_back("snap_002.hdf5"); // after the second (last) iteration
    if (c.tpop) {
      const std::vector< TrackerSpec > specs = tracker_specs(c);
      if (c.tfmt) {
        if (!specs.empty())
          want.push_back("trackers.hdf5");
      } else {
        for (size_t i = 0; i < specs.size(); ++i)
          want.push_back(specs[i].name.empty() ? fmt("Tracker%zu.txt", i) : specs[i].name);
      }
    }
  } else {
    want.push_back("snap_001.hdf5");
    want.push_back("snap_002.hdf5"); // the final snapshot
    if (is_restart(c.mode))
      want.push_back("restart.dump");
    if (c.live) {
      // output 0 is written at time 0, output 1 after the first step unless the
      // interval is longer than the run
      const LiveVariant &lv = LIVE[c.live];
      const char *prefix[4] = {"surface_density_", "ionized_surface_density_", "density_PDF_", "velocity_PDF_"};
      const bool on[4] = {lv.S, lv.I, lv.D, lv.V};
      for (int k = 0; k < 4; ++k)
        if (on[k]) {
          want.push_back(std::string(prefix[k]) + "0000.txt");
          if (lv.interval != 2)
            want.push_back(std::string(prefix[k]) + "0001.txt");
        }
    }
  }
  (void)first_leg_only;
  for (auto &w : want) {
    ++cn.files_checked;
    if (!have(w)) {
      std::string pat = w;
      for (auto &ch : pat)
        if (isdigit((unsigned char)ch))
          ch = 'N';
      R.violation("C12:missing-output:" + std::string(MODE_NAME[c.mode]) + ":" + pat + key_suffix(c),
                  fmt("%s under %s: exit status 0 but output file %s is missing or empty", c.label().c_str(),
                      tool.c_str(), w.c_str()),
                  c.json(tool));
    }
  }
}

static void run_job(verif::Result &R, Counters &cn, const Config &c, const std::string &tool, size_t id,
                    bool verbose) {
  const std::string dir = g_base + fmt("/j%zu", id);
  rm_rf(dir);
  mkdir_p(dir);
  write_file(dir + "/p.param", c.mode == ION ? ion_text(c) : rhd_text(c));
  if (c.mode == ION && c.tpop)
    write_file(dir + "/trackers.yml", trackers_text(c));
  if (c.mode != ION && c.mask == 2)
    write_file(dir + "/maskblocks.yml", maskblocks_text());
  if (c.mode != ION)
    write_file(dir + "/ic_blocks.yml", ic_blocks_text());

  std::vector< std::vector< std::string > > legs;
  {
    std::vector< std::string > a = tool_prefix(tool);
    a.push_back(exe_for(tool, c.threads));
    a.push_back("--params");
    a.push_back("p.param");
    a.push_back("--threads");
    a.push_back(fmt("%d", c.threads));
    a.push_back(c.mode == ION ? "--task-based" : "--task-based-rhd");
    if (is_restart(c.mode)) {
      std::vector< std::string > first = a;
      first.push_back("--number-of-steps");
      first.push_back("2");
      legs.push_back(first);
      if (c.rthreads) {
        // the restarted run is started with another number of threads
        a[tool_prefix(tool).size()] = exe_for(tool, c.rthreads);
        for (size_t k = 0; k + 1 < a.size(); ++k)
          if (a[k] == "--threads")
            a[k + 1] = fmt("%d", c.rthreads);
      }
      a.push_back("--restart");
      a.push_back(".");
    }
    legs.push_back(a);
  }
  const std::vector< std::string > env = {
      "ASAN_OPTIONS=detect_leaks=0:abort_on_error=0:exitcode=78:halt_on_error=1:allocator_may_return_null=1",
      "UBSAN_OPTIONS=print_stacktrace=1:halt_on_error=1:exitcode=79", "OMP_WAIT_POLICY=passive",
      "OMP_PROC_BIND=false"};
  if (!c.nosource)
    ++cn.runs;
  bool clean = true;
  std::string cal_log;
  int cal_exit = 0;
  for (size_t li = 0; li < legs.size(); ++li) {
    const std::string logname = fmt("log%zu.txt", li);
    RunResult rr = run_in(dir, legs[li], logname, tool == "valgrind" ? 600. : 300., env);
    if (!c.nosource)
      ++cn.processes;
    cn.wall_ms += (uint64_t)(rr.wall * 1000.);
    cn.cpu_ms += (uint64_t)(rr.cpu * 1000.);
    if (tool == "valgrind")
      cn.cpu_ms_valgrind += (uint64_t)(rr.cpu * 1000.);
    if (c.cap)
      cn.cpu_ms_tight += (uint64_t)(rr.cpu * 1000.);
    if (FIELDSEL[c.fields].noncontiguous)
      cn.cpu_ms_noncontiguous += (uint64_t)(rr.cpu * 1000.);
    const std::string log = verif::read_file(dir + "/" + logname);
    if (tool == "calib") {
      cal_log += log;
      cal_exit = std::max(cal_exit, rr.exit_code < 0 ? 999 : rr.exit_code);
    }
    const std::string legname = legs.size() > 1 ? (li == 0 ? " (first leg, to step 2)" : " (restarted leg)") : "";
    std::vector< Finding > found;
    if (tool == "valgrind") {
      uint64_t sp = 0;
      for (auto &f : list_dir(dir))
        if (f.compare(0, 3, "vg.") == 0) {
          std::vector< Finding > fs = parse_valgrind(verif::read_file(dir + "/" + f), sp);
          found.insert(found.end(), fs.begin(), fs.end());
          unlink((dir + "/" + f).c_str());
        }
      cn.syscall_param += sp;
      // exit code 77 with nothing but syscall-param reports is accepted
      if (rr.exit_code == 77 && found.empty() && sp > 0)
        rr.exit_code = 0;
    } else {
      found = parse_sanitizer(log);
    }
    if (c.nosource) {
      // outside the property's precondition (the RHD modes require a discrete
      // source distribution): the outcome is recorded, never judged
      std::string what = rr.describe();
      const std::string site = cmac_error_site(log);
      if (!site.empty())
        what += ", refused by cmac_error in " + site;
      for (auto &f : found)
        what += ", " + f.key;
      {
        std::lock_guard< std::mutex > g(g_probe_mtx);
        g_probe_outcomes.push_back(fmt("{\"probe\": \"%s\", \"tool\": \"%s\", \"outcome\": \"%s\"}",
                                       c.label().c_str(), tool.c_str(), verif::json_escape(what).c_str()));
      }
      if (verbose)
        printf("--- probe (not judged) %s under %s: %s\n", c.label().c_str(), tool.c_str(), what.c_str());
      clean = false; // not part of the "jobs without any report" count either
      break;
    }
    for (auto &f : found) {
      clean = false;
      R.violation(f.key + key_suffix(c),
                  fmt("%s under %s%s: %s", c.label().c_str(), tool.c_str(), legname.c_str(), f.detail.c_str()),
                  c.json(tool));
    }
    if (verbose) {
      printf("--- %s under %s%s: %s, %.1f s, %zu tool report(s)\n", c.label().c_str(), tool.c_str(),
             legname.c_str(), rr.describe().c_str(), rr.wall, found.size());
      for (auto &f : found)
        printf("    %s%s :: %s\n", f.key.c_str(), key_suffix(c).c_str(), f.detail.c_str());
    }
    if (rr.timed_out) {
      clean = false;
      R.violation(std::string("C12:timeout:") + MODE_NAME[c.mode],
                  fmt("%s under %s%s did not end within the time limit; log tail: %s", c.label().c_str(),
                      tool.c_str(), legname.c_str(), tail_of(dir + "/" + logname, 400).c_str()),
                  c.json(tool));
      break;
    }
    if (rr.exit_code != 0) {
      clean = false;
      if (found.empty()) {
        std::string site = cmac_error_site(log);
        std::string key = site.empty() ? fmt("C12:exit-status:%s:%s", MODE_NAME[c.mode], rr.describe().c_str())
                                       : "C12:abort:" + site;
        for (auto &ch : key)
          if (ch == ' ')
            ch = '-';
        R.violation(key + key_suffix(c),
                    fmt("%s under %s%s ended with %s; log tail: %s", c.label().c_str(), tool.c_str(),
                        legname.c_str(), rr.describe().c_str(), tail_of(dir + "/" + logname, 500).c_str()),
                    c.json(tool));
      }
      break; // no point in restarting from a failed first leg
    }
    if (li + 1 == legs.size())
      check_files(R, cn, c, dir, tool, false);
  }
  if (tool == "calib")
    calibration_record(c, cal_log, cal_exit);
  if (clean)
    ++cn.clean;
  if (!g_keep)
    rm_rf(dir);
}

// ---------------------------------------------------------------------------
// enumeration
// ---------------------------------------------------------------------------
/// every configuration of one mode with layouts 0..nlayout-1 (the full lattice)
static std::vector< Config > all_configs_base(int mode, int nlayout) {
  std::vector< Config > v;
  for (int th = 1; th <= 2; ++th)
    for (int lay = 0; lay < nlayout; ++lay) {
      if (mode == ION) {
        for (int tp = 0; tp < NTPOP; ++tp)
          for (int tf = 0; tf < 2; ++tf) {
            if (tp == TP_OFF && tf)
              continue; // no tracker output without trackers
            if (tp == TP_MULTI && tf)
              continue; // Multi/Spectrum trackers have no HDF5 output ("not implemented" error)
            for (int cp = 0; cp < 3; ++cp)
              for (int d = 0; d < 2; ++d)
                for (int cs = 0; cs < 3; ++cs) {
                  Config c;
                  c.mode = mode;
                  c.threads = th;
                  c.layout = lay;
                  c.tpop = tp;
                  c.tfmt = tf;
                  c.copy = cp;
                  c.diffuse = d;
                  c.cont = cs;
                  v.push_back(c);
                }
          }
      } else {
        const int nmask = is_restart(mode) ? 2 : 3;
        for (int lv = 0; lv < NLIVE; ++lv)
          for (int m = 0; m < nmask; ++m)
            for (int tu = 0; tu < 2; ++tu)
              for (int d = 0; d < 2; ++d)
                for (int cs = 0; cs < 2; ++cs) {
                  Config c;
                  c.mode = mode;
                  c.threads = th;
                  c.layout = lay;
                  c.live = lv;
                  c.mask = m;
                  c.turb = tu;
                  c.diffuse = d;
                  c.cont = cs;
                  v.push_back(c);
                  if (is_restart(mode)) {
                    // restarted with the other thread count (1 <-> 2), and 4 -> 1 is added separately
                    c.rthreads = th == 1 ? 2 : 1;
                    v.push_back(c);
                  }
                }
      }
    }
  return v;
}

/// the lattice of one mode: all_configs_base x capacity regime x the given
/// snapshot field selections
static std::vector< Config > all_configs(int mode, int nlayout, const std::vector< int > &fieldsels) {
  std::vector< Config > v;
  for (const Config &b : all_configs_base(mode, nlayout))
    for (int cap = 0; cap < NCAP; ++cap)
      for (int f : fieldsels) {
        Config c = b;
        c.cap = cap;
        c.fields = f;
        v.push_back(c);
      }
  return v;
}

/// values of the first version of this check ("core" values): live output
/// variants 0-2, layouts 0-1, tracker populations off / 4 trackers; every value
/// of the other factors
static bool core_value(const Config &c, size_t factor, int value) {
  if (factor == c.fields_factor())
    return value <= 1; // defaults, everything on
  if (c.mode == ION)
    return factor == 1 ? (value == TP_OFF || value == TP_FOUR) : factor == 6 ? value <= 1 : true;
  return factor == 2 ? value <= 2 : factor == 7 ? value <= 1 : true;
}

/// what a covering array has to contain
struct Goal {
  int strength = 2;          // every `strength`-tuple of factor values (rhd family: the mode is a factor)
  bool core_per_mode = false; // rhd family: additionally every pair of core values with every mode
  int subsets = 0;           // 1: every (mode, thread count, on/off pattern of the components);
                             // 2: also every (mode, layout, on/off pattern of the components)
};

/// Requirements a configuration satisfies (factor position and value packed
/// into one byte each).
static void requirements_of(const Config &c, const Goal &g, std::vector< uint64_t > &out) {
  out.clear();
  const std::vector< int > f = c.factors();
  const size_t n = f.size();
  auto code = [&](size_t i) { return (uint64_t)((i << 4) | (unsigned)f[i]) + 1; };
  // the snapshot field selection is the last factor. It takes part in PAIRS
  // only (also in the strength-3 arrays), and a configuration with a
  // non-contiguous ion selection is credited only with the pairs that contain
  // its selection: on a tree with the ion_present() defect (NOTES.md, finding 6)
  // such a run ends at its first snapshot and exercises nothing else
  const size_t ff = c.fields_factor();
  const bool only_fields = FIELDSEL[c.fields].noncontiguous;
  if (g.strength == 2) {
    for (size_t i = 0; i < n; ++i)
      for (size_t j = i + 1; j < n; ++j)
        if (!only_fields || j == ff)
          out.push_back(code(i) | code(j) << 8);
  } else {
    for (size_t i = 0; i < ff; ++i)
      out.push_back(code(i) | code(ff) << 8);
    if (!only_fields)
      for (size_t i = 0; i < ff; ++i)
        for (size_t j = i + 1; j < ff; ++j)
          for (size_t k = j + 1; k < ff; ++k)
            out.push_back(code(i) | code(j) << 8 | code(k) << 16);
  }
  if (only_fields)
    return;
  if (g.core_per_mode && g.strength == 2 && c.mode != ION)
    for (size_t i = 1; i < n; ++i)
      for (size_t j = i + 1; j < n; ++j)
        if (core_value(c, i, f[i]) && core_value(c, j, f[j]))
          out.push_back(code(0) | code(i) << 8 | code(j) << 16);
  if (g.subsets) {
    out.push_back((uint64_t)1 << 40 | (uint64_t)c.mode << 32 | (uint64_t)c.threads << 24 | (uint64_t)c.subset_bits());
    if (g.subsets == 2)
      out.push_back((uint64_t)2 << 40 | (uint64_t)c.mode << 32 | (uint64_t)(c.layout + 1) << 16 |
                    (uint64_t)c.subset_bits());
  }
}

struct CoverStats {
  size_t candidates = 0, requirements = 0, chosen = 0;
};

/// Deterministic greedy covering array: choose configurations from `all` until
/// every requirement that some member of `all` satisfies is satisfied by a
/// chosen one; `given` are configurations that are run anyway. Lazy evaluation:
/// the number of new requirements of a candidate only ever decreases. `rot`
/// rotates the tie breaking.
static std::vector< Config > cover(const std::vector< Config > &all, const Goal &goal, size_t rot,
                                   const std::vector< Config > &given, CoverStats &st) {
  std::unordered_set< uint64_t > need;
  std::vector< uint64_t > rq;
  for (auto &c : all) {
    requirements_of(c, goal, rq);
    need.insert(rq.begin(), rq.end());
  }
  st.candidates += all.size();
  st.requirements += need.size();
  for (auto &c : given) {
    requirements_of(c, goal, rq);
    for (auto r : rq)
      need.erase(r);
  }
  const size_t N = all.size();
  typedef std::tuple< size_t, size_t, size_t > Entry; // new requirements, N - rotated order, index
  std::priority_queue< Entry > pq;
  auto count = [&](size_t idx) {
    requirements_of(all[idx], goal, rq);
    size_t n = 0;
    for (auto r : rq)
      n += need.count(r);
    return n;
  };
  for (size_t k = 0; k < N; ++k) {
    const size_t n = count(k);
    if (n)
      pq.push(Entry(n, N - (k + N - rot % N) % N, k));
  }
  std::vector< Config > out;
  while (!need.empty() && !pq.empty()) {
    Entry e = pq.top();
    pq.pop();
    const size_t idx = std::get< 2 >(e);
    const size_t n = count(idx);
    if (n == 0)
      continue;
    if (n < std::get< 0 >(e)) { // stale: re-insert with the current value
      pq.push(Entry(n, std::get< 1 >(e), idx));
      continue;
    }
    requirements_of(all[idx], goal, rq);
    for (auto r : rq)
      need.erase(r);
    out.push_back(all[idx]);
  }
  st.chosen += out.size();
  return out;
}

int main(int argc, char **argv) {
  verif::Args A = verif::parse_args(argc, argv);
  verif::Result R(A);
  const char *vb = getenv("VERIF_BUILD");
  g_build = vb && *vb ? vb : "/verif/build";
  for (const char *e : {"/omp/CMacIonize", "/asan/CMacIonize", "/ompasan/CMacIonize"})
    if (!file_exists(g_build + e)) {
      fprintf(stderr, "executable %s%s not found\n", g_build.c_str(), e);
      return 3;
    }
  const std::string tmp = verif::fast_tmpdir();
  g_base = tmp + "/c12_runs";
  rm_rf(g_base);
  mkdir_p(g_base);
  g_keep = getenv("C12_KEEP") != nullptr;
  Counters cn;

  if (const char *cal = getenv("C12_CALIBRATE")) {
    // not a check: demand figures of an instrumented build for every base
    // configuration of the lattice (capacity regime C12_CALIBRATE_CAP, default 0)
    g_calibrate = cal;
    const int cap = getenv("C12_CALIBRATE_CAP") ? atoi(getenv("C12_CALIBRATE_CAP")) : 0;
    const int reps = getenv("C12_CALIBRATE_REPS") ? atoi(getenv("C12_CALIBRATE_REPS")) : 1;
    std::vector< Config > all;
    for (int m = 0; m < NMODE; ++m)
      for (Config c : all_configs_base(m, NLAYOUT)) {
        c.cap = cap;
        for (int r = 0; r < (c.thread_class() ? reps : 1); ++r)
          all.push_back(c);
      }
    parallel_for(all.size(), 16, [&](size_t i) { run_job(R, cn, all[i], "calib", i, false); });
    std::sort(g_cal_lines.begin(), g_cal_lines.end());
    for (auto &l : g_cal_lines)
      printf("%s\n", l.c_str());
    // the table for c12_tight_table.inc (only meaningful for a run with generous capacities)
    for (auto &e : g_cal_max) {
      const auto &k = e.first;
      const auto &m = e.second;
      printf("TABLE {%d, %d, %d, %d, %d, %d, %d, %ld, %ld, %ld, %ld, %ld},%s\n", std::get< 0 >(k), std::get< 1 >(k),
             std::get< 2 >(k), std::get< 3 >(k), std::get< 4 >(k), std::get< 5 >(k), std::get< 6 >(k), m[0], m[1], m[2],
             m[3], m[4], m[5] ? " // SOME RUN FAILED" : "");
    }
    rm_rf(g_base);
    verif::remove_fast_tmpdir(tmp);
    return 0;
  }
  if (!A.replay.empty()) {
    std::string txt = verif::read_file(A.replay);
    Config c;
    c.mode = atoi(verif::replay_field(txt, "mode").c_str());
    c.threads = atoi(verif::replay_field(txt, "threads").c_str());
    c.live = atoi(verif::replay_field(txt, "live").c_str());
    c.mask = atoi(verif::replay_field(txt, "mask").c_str());
    c.turb = atoi(verif::replay_field(txt, "turb").c_str());
    c.diffuse = atoi(verif::replay_field(txt, "diffuse").c_str());
    c.cont = atoi(verif::replay_field(txt, "cont").c_str());
    c.tpop = atoi(verif::replay_field(txt, "tpop").c_str());
    c.tfmt = atoi(verif::replay_field(txt, "tfmt").c_str());
    c.copy = atoi(verif::replay_field(txt, "copy").c_str());
    c.nosource = atoi(verif::replay_field(txt, "nosource").c_str());
    c.layout = std::max(0, std::min(NLAYOUT - 1, atoi(verif::replay_field(txt, "layout").c_str())));
    c.live = std::max(0, std::min(NLIVE - 1, c.live));
    c.tpop = std::max(0, std::min(NTPOP - 1, c.tpop));
    c.rthreads = atoi(verif::replay_field(txt, "rthreads").c_str());
    c.cap = std::max(0, std::min(NCAP - 1, atoi(verif::replay_field(txt, "cap").c_str())));
    c.fields = std::max(0, std::min(NFIELDSEL - 1, atoi(verif::replay_field(txt, "fields").c_str())));
    std::string tool = verif::replay_field(txt, "tool");
    if (c.threads < 1)
      c.threads = 1;
    run_job(R, cn, c, tool.empty() ? "valgrind" : tool, 0, true);
    if (g_keep)
      printf("run directory kept: %s/j0\n", g_base.c_str());
    else {
      printf("(set C12_KEEP=1 to keep the run directory)\n");
      rm_rf(g_base);
      verif::remove_fast_tmpdir(tmp);
    }
    R.evaluations = cn.processes;
    R.nontrivial = cn.runs;
    return R.finish(A);
  }

  struct Job {
    Config c;
    std::string tool;
  };
  std::vector< Job > jobs;
  size_t nconfig = 0, nconfig_asan_only = 0, nall = 0;
  CoverStats st_both, st_asan;
  const size_t rot = (size_t)A.seed;
  std::vector< Config > both, asan_only;
  Goal goal_thorough, goal_quick_both, goal_quick_asan;
  goal_thorough.strength = 3;
  goal_thorough.subsets = 2;
  goal_quick_both.core_per_mode = true;
  std::vector< int > fields_all;
  for (int i = 0; i < NFIELDSEL; ++i)
    fields_all.push_back(i);
  // field selections run under valgrind as well in the quick tier: defaults, everything on
  const std::vector< int > fields_quick_both = {0, 1};
  if (A.thorough()) {
    // per mode: strength 3 over the whole alphabet + every on/off subset of the
    // components with every thread count and with every layout
    for (int m = 0; m < NMODE; ++m) {
      const std::vector< Config > all = all_configs(m, NLAYOUT, fields_all);
      nall += all.size();
      const std::vector< Config > sel = cover(all, goal_thorough, rot, {}, st_both);
      both.insert(both.end(), sel.begin(), sel.end());
    }
  } else {
    // both tools: strength 2, layouts 0..3, the four rhd modes as ONE family with
    // the mode as a factor; the ion mode on its own
    std::vector< Config > family;
    for (int m = 0; m < NMODE; ++m) {
      const std::vector< Config > all = all_configs(m, NLAYOUT_QUICK, fields_quick_both);
      if (m == ION) {
        const std::vector< Config > sel = cover(all, goal_quick_both, rot, {}, st_both);
        both.insert(both.end(), sel.begin(), sel.end());
      } else
        family.insert(family.end(), all.begin(), all.end());
    }
    {
      const std::vector< Config > sel = cover(family, goal_quick_both, rot, {}, st_both);
      both.insert(both.end(), sel.begin(), sel.end());
    }
    // AddressSanitizer alone: strength 2 PER MODE over the whole alphabet
    for (int m = 0; m < NMODE; ++m) {
      const std::vector< Config > all = all_configs(m, NLAYOUT, fields_all);
      nall += all.size();
      std::vector< Config > given;
      for (auto &c : both)
        if (c.mode == m)
          given.push_back(c);
      const std::vector< Config > sel = cover(all, goal_quick_asan, rot, given, st_asan);
      asan_only.insert(asan_only.end(), sel.begin(), sel.end());
    }
  }
  nconfig = both.size();
  nconfig_asan_only = asan_only.size();
  for (auto &c : both) {
    jobs.push_back({c, "valgrind"});
    jobs.push_back({c, "asan"});
  }
  for (auto &c : asan_only)
    jobs.push_back({c, "asan"});
  // a dump written by a run with four threads, restarted with one thread (subgrids
  // owned by threads that do not exist in the restarted run)
  for (int m : {(int)RHD_RESTART, (int)RHD_RAD_RESTART})
    for (int lay = 0; lay < 2; ++lay) {
      Config c;
      c.mode = m;
      c.threads = 4;
      c.rthreads = 1;
      c.layout = A.thorough() ? lay + 2 * (m == RHD_RESTART) : lay;
      ++nall;
      if (A.thorough() || lay == 0) {
        ++nconfig;
        both.push_back(c);
        jobs.push_back({c, "valgrind"});
      } else {
        // quick tier: the 64-subgrid layout under AddressSanitizer only (two 4-thread legs cost 15 s under valgrind)
        ++nconfig_asan_only;
        asan_only.push_back(c);
      }
      jobs.push_back({c, "asan"});
    }
  if (getenv("C12_LIST")) {
    printf("both tools: %zu configurations (candidates %zu, requirements %zu); asan only: %zu (candidates %zu, "
           "requirements %zu)\n",
           nconfig, st_both.candidates, st_both.requirements, nconfig_asan_only, st_asan.candidates,
           st_asan.requirements);
    for (auto &c : both)
      printf("both  %s\n", c.label().c_str());
    for (auto &c : asan_only)
      printf("asan  %s\n", c.label().c_str());
    return 0;
  }
  // probes outside the property's precondition: no discrete source
  // (PhotonSourceDistribution type None). do_simulation dereferences the source
  // distribution unconditionally, so such a file is not a valid parameter file
  // for the RHD modes; the outcomes go to extra.probes_not_judged only
  {
    Config a;
    a.mode = RHD_NORAD;
    a.nosource = 1;
    Config b;
    b.mode = RHD_RAD;
    b.nosource = 1;
    b.cont = 1;
    Config d;
    d.mode = ION;
    d.nosource = 1;
    d.cont = 1;
    for (auto &c : {a, b, d}) {
      jobs.push_back({c, "valgrind"});
      jobs.push_back({c, "asan"});
    }
  }
  // the cheap AddressSanitizer jobs first (0.3-0.7 s each; if the deadline cuts the run short it cuts the
  // valgrind tail, not a whole tool), then the valgrind jobs, long ones first: restart (two processes), many
  // threads, large grids, radiation
  std::stable_sort(jobs.begin(), jobs.end(), [](const Job &a, const Job &b) {
    auto w = [](const Job &j) {
      return (j.tool == "valgrind" ? 0 : 64) + (is_restart(j.c.mode) ? 32 : 0) + (j.c.threads >= 4 ? 16 : 0) +
             (j.c.layout ? 8 : 0) + (has_radiation(j.c.mode) ? 4 : 0) + (j.c.threads == 2 ? 2 : 0);
    };
    return w(a) > w(b);
  });

  std::atomic< size_t > skipped(0);
  std::mutex smtx;
  parallel_for(jobs.size(), 16, [&](size_t i) {
    if (R.out_of_time()) {
      ++skipped;
      return;
    }
    run_job(R, cn, jobs[i].c, jobs[i].tool, i, false);
    if (i % 37 == 0) {
      std::lock_guard< std::mutex > g(smtx);
      R.sample(jobs[i].c.json(jobs[i].tool));
    }
  });
  if (skipped.load())
    R.hit_deadline(fmt("%zu of %zu (configuration, tool) jobs not run", skipped.load(), jobs.size()));

  R.evaluations = cn.processes;
  R.nontrivial = cn.runs - skipped.load() > 0 ? cn.runs.load() : 0;
  R.rule = "evaluation = one complete process of the simulation executable under AddressSanitizer or valgrind "
           "(restart configurations: two); non-trivial case = one (configuration, tool) job that was started (all "
           "run a real simulation to its end); configuration = (mode, value of every optional component, thread "
           "count, grid layout)";
  R.set("configurations", (double)(nconfig + nconfig_asan_only));
  R.set("configurations_under_both_tools", (double)nconfig);
  R.set("configurations_under_asan_only", (double)nconfig_asan_only);
  R.set("configurations_in_full_lattice", (double)nall);
  R.set("jobs", (double)(jobs.size() - 6));
  R.set("covering_requirements_both_tools", (double)st_both.requirements);
  R.set("covering_requirements_asan_only", (double)st_asan.requirements);
  R.set_str("selection",
            A.thorough()
                ? "per mode: greedy covering array of strength 3 over all factors but the snapshot field selection (every "
                  "triple of factor values that the lattice contains; the capacity regime is one of the factors), every "
                  "pair of a field selection with a value of another factor, every (mode, thread count, on/off subset of "
                  "the optional components) and every (mode, grid layout, on/off subset); both tools; plus 4 restarts of "
                  "a 4-thread dump with 1 thread. Configurations with a non-contiguous ion selection are credited only "
                  "with the pairs that contain the selection"
                : "both tools: greedy covering array of strength 2 over the four rhd modes with the mode as a factor, "
                  "extended by every pair of first-version values (live 0-2, layouts 0-1, all values of the other "
                  "factors) with every mode; strength 2 over the ion mode; layouts 0-3; plus 4 restarts of a 4-thread "
                  "dump with 1 thread (layout 1 of these: AddressSanitizer only); capacity regimes 0-1, field selections 0, 1. "
                  "AddressSanitizer only: strength 2 "
                  "per mode over the whole alphabet (6 layouts, 9 field selections). Configurations with a non-contiguous "
                  "ion selection are credited only with the pairs that contain the selection");
  {
    // the alphabet, as it was run
    std::string a = "{\"layouts\": [";
    for (int i = 0; i < NLAYOUT; ++i) {
      const GridLayout &g = LAYOUTS[i];
      a += fmt("%s{\"index\": %d, \"cells\": [%d, %d, %d], \"subgrids\": [%d, %d, %d], \"cells_per_subgrid\": [%d, %d, "
               "%d]}",
               i ? ", " : "", i, g.cells[0], g.cells[1], g.cells[2], g.nsub[0], g.nsub[1], g.nsub[2],
               g.per_subgrid(0), g.per_subgrid(1), g.per_subgrid(2));
    }
    a += "], \"live_output_variants\": [";
    for (int i = 0; i < NLIVE; ++i)
      a += fmt("%s\"%d: %s\"", i ? ", " : "", i, LIVE[i].what);
    a += "], \"tracker_populations\": [";
    for (int i = 0; i < NTPOP; ++i)
      a += fmt("%s\"%d: %s\"", i ? ", " : "", i, TPOP_WHAT[i]);
    a += "], \"tracker_output\": [\"text files (Spectrum with 1/2/5/20/100 bins, WeightedSpectrum with Linear "
         "100/7 and Level bins, Absorption, Multi)\", \"one HDF5 file (Absorption, WeightedSpectrum; dense "
         "population: 4 groups of 4, 3, 1, 2 members)\"]";
    a += ", \"source_copy_levels_ion\": [0, 1, 2], \"threads\": [1, 2], \"restart_thread_counts\": \"1->1, 1->2, "
         "2->2, 2->1, 4->1\"";
    a += ", \"hydro_mask\": [\"off\", \"RescaledIC (scale factors 0.5 / 0.75 / 0.375)\", \"BlockSyntax (not with "
         "restart)\"], \"continuous_source\": [\"off\", \"on\", \"on with zero luminosity (ion)\"]";
    a += ", \"snapshot_field_selections\": [";
    for (int i = 0; i < NFIELDSEL; ++i)
      a += fmt("%s\"%d: %s%s\"", i ? ", " : "", i, FIELDSEL[i].what,
               FIELDSEL[i].noncontiguous ? " [non-contiguous ion selection]" : "");
    a += "], \"snapshot_field_selections_under_valgrind\": [";
    {
      const std::vector< int > &fv = A.thorough() ? fields_all : fields_quick_both;
      for (size_t i = 0; i < fv.size(); ++i)
        a += fmt("%s%d", i ? ", " : "", fv[i]);
    }
    a += fmt("], \"capacity_regimes\": [\"0: generous (buffers %d, tasks %d, queue per thread %d, shared queue %d)\", "
             "\"1: tight: measured peak demand of the demand class (%zu classes: family x layout x threads of both legs x "
             "diffuse field, ion: x copy level x continuous source) + margin; one thread: +8 tasks, +8 buffers, +4 / +3 "
             "queue entries, rhd without radiation: task vector exactly full; a leg with two threads: tasks +24 +50 %% of "
             "the non-permanent ones, buffers x2 +24, queues bounded by the number of tasks\"]",
             GENEROUS.buffers, GENEROUS.tasks, GENEROUS.per_thread, GENEROUS.shared, NDEMAND);
    {
      // the tight capacities that were actually written to parameter files
      int lo[4] = {1 << 30, 1 << 30, 1 << 30, 1 << 30}, hi[4] = {0, 0, 0, 0};
      size_t ntight = 0, ntight1 = 0, nnoncont = 0;
      std::set< Config > seen;
      for (auto &j : jobs) {
        if (!seen.insert(j.c).second)
          continue;
        nnoncont += FIELDSEL[j.c.fields].noncontiguous;
        if (!j.c.cap || j.c.thread_class() != 0)
          continue; // two-thread configurations run with the generous capacities (see capacities())
        ++ntight;
        ntight1 += j.c.thread_class() == 0;
        const Capacities cp = j.c.capacities();
        const int v[4] = {cp.buffers, cp.tasks, cp.per_thread, cp.shared};
        for (int k = 0; k < 4; ++k) {
          lo[k] = std::min(lo[k], v[k]);
          hi[k] = std::max(hi[k], v[k]);
        }
      }
      a += fmt(", \"configurations_with_tight_capacities\": %zu, \"of_which_every_leg_has_one_thread\": %zu, "
               "\"tight_capacity_ranges\": {\"buffers\": [%d, %d], \"tasks\": [%d, %d], \"queue_per_thread\": [%d, %d], "
               "\"shared_queue\": [%d, %d]}, \"configurations_with_noncontiguous_ion_selection\": %zu",
               ntight, ntight1, ntight ? lo[0] : 0, hi[0], ntight ? lo[1] : 0, hi[1], ntight ? lo[2] : 0, hi[2],
               ntight ? lo[3] : 0, hi[3], nnoncont);
    }
    a += fmt(", \"layouts_under_valgrind\": %d}", A.thorough() ? NLAYOUT : NLAYOUT_QUICK);
    R.set_json("alphabet", a);
  }
  {
    std::sort(g_probe_outcomes.begin(), g_probe_outcomes.end());
    std::string arr = "[";
    for (size_t i = 0; i < g_probe_outcomes.size(); ++i)
      arr += (i ? ", " : "") + g_probe_outcomes[i];
    R.set_json("probes_not_judged", arr + "]");
  }
  R.set("jobs_without_any_report", (double)cn.clean.load());
  R.set("valgrind_syscall_param_reports_not_counted_as_errors", (double)cn.syscall_param.load());
  R.set("output_files_checked", (double)cn.files_checked.load());
  R.set("process_wall_sum_s", cn.wall_ms.load() / 1000.);
  R.set("process_cpu_sum_s", cn.cpu_ms.load() / 1000.); // nearly independent of the load of the machine
  R.set("process_cpu_sum_valgrind_s", cn.cpu_ms_valgrind.load() / 1000.);
  R.set("process_cpu_sum_tight_capacities_s", cn.cpu_ms_tight.load() / 1000.);
  R.set("process_cpu_sum_noncontiguous_ion_selection_s", cn.cpu_ms_noncontiguous.load() / 1000.);
  R.assumptions.push_back("memcheck reports 'Syscall param write(buf) points to uninitialised byte(s)' (raw structs "
                          "with padding written to dump/HDF5 files) are counted but are not violations: the property "
                          "speaks of decisions depending on uninitialised memory");
  R.assumptions.push_back("the task-based RHD modes require a discrete source distribution: do_simulation "
                          "dereferences it unconditionally (TemperatureCalculator construction, copy levels, update(), "
                          "DistributedPhotonSource, stellar feedback, restart dump), so 'PhotonSourceDistribution: type: "
                          "None' is not a valid parameter file for them; three such probes are run, their outcome is "
                          "recorded in extra.probes_not_judged and no oracle looks at them");
  R.assumptions.push_back("leak checking is off (valgrind --errors-for-leak-kinds=none --leak-check=no, ASan "
                          "detect_leaks=0): leaks are not part of the property");
  R.assumptions.push_back("BlockSyntaxHydroMask is not combined with the restart mode: the code refuses to dump it "
                          "(cmac_error 'Restarting not supported for this mask')");
  R.assumptions.push_back("the rhd modes use source copy level 1 with 2 threads and 0 otherwise (in the "
                          "photoionization mode the copy level 0/1/2 is a factor of its own); Spectrum and Multi "
                          "trackers are only combined with text output (their HDF5 output is an explicit 'not "
                          "implemented' error)");
  R.assumptions.push_back("a tracker file with 'number of trackers: 0' and a tracker of type Multi that shares its "
                          "cell with a later tracker are taken to be valid input (nothing in the code or its "
                          "documentation refuses them); violations seen with these two files carry the key suffixes "
                          "@empty-tracker-file / @multi-type-tracker");
  R.assumptions.push_back("tight capacities come from a calibration of the UNCHANGED tree (instrumented build, whole "
                          "lattice, two-thread runs repeated 6 times; table c12_tight_table.inc, procedure in NOTES.md): "
                          "a change of the tree that raises the demand of a run above measured peak + margin exhausts a "
                          "pool and is reported (exhaustion of a sufficient capacity is a violation of the property, "
                          "exhaustion of an insufficient one would not be)");
  R.assumptions.push_back("violations of configurations whose ion selection is not a prefix of the ion list carry the key "
                          "suffix @noncontiguous-ion-fields (finding 6 of NOTES.md)");
  R.assumptions.push_back("valgrind runs use the omp build (-g -fopenmp) for both thread counts so that inlined "
                          "frames carry function names; ASan runs use asan (1 thread) and ompasan (2 threads)");
  if (!g_keep) {
    rm_rf(g_base);
    verif::remove_fast_tmpdir(tmp);
  }
  return R.finish(A);
}
