import os as _os

_B = _os.environ.get("VERIF_BUILD") or "/verif/build"

CHECK = {
    "id": "C12",
    "level": "exploration",
    "engine": "E3",
    "technique": "bounded-exhaustive enumeration of the run-mode x optional-component (with value variants) x "
                 "thread-count x grid-layout x capacity-regime x snapshot-field-selection lattice by covering arrays (deterministic greedy; strength 2 in the "
                 "quick tier, strength 3 plus every on/off subset of the components in the thorough tier); every "
                 "chosen configuration is a complete run of the real executable under AddressSanitizer and under "
                 "valgrind memcheck",
    "level_text": "The property quantifies over run configurations, a finite lattice of 208 224 configurations: "
                  "5 run modes x optional components with parameter-value variants (7 live output variants: off, "
                  "default outputs, all four outputs with ranges tight around the gas, each non-default output "
                  "alone or paired, enabled with no output, 1-bin PDFs, one output time; 3 mask settings; turbulence; "
                  "diffuse field; continuous source off / on / with zero luminosity; 6 tracker populations with "
                  "0, 1, 2, 3 and 4 trackers per cell, a tracker file with 0 trackers and a Multi-type tracker that "
                  "shares its cell; text and HDF5 tracker output with 1-4 HDF5 groups of 1-4 members; source copy "
                  "levels 0, 1, 2; thread count of the restarted leg) x 2 capacity regimes of the task-based machinery "
                  "(number of buffers / tasks / queue sizes generous, or tight: peak demand of the unchanged tree measured "
                  "per demand class with an instrumented build + margin, so that the ring cursors of both pools wrap "
                  "around onto slots that are still in use; all four values different) x 9 snapshot field selections "
                  "(defaults, everything on, three non-contiguous per-ion selections, only one vector field, only one "
                  "scalar field, a prefix of the ion list, no field) x 1-2 threads x 6 grid layouts (cubic ones and "
                  "layouts whose cell counts per subgrid and subgrid counts per axis are all different, descending and "
                  "ascending in x, y, z). A chosen configuration is executed to its normal end under the ASan build and "
                  "under the omp build in memcheck; exit status, expected output files and the tools' reports are "
                  "the oracle. Thorough tier: per mode a covering array of strength 3 (every triple of factor values; the "
                  "field selection takes part in pairs only) "
                  "that also contains every on/off subset of the components with every mode and thread count and with "
                  "every mode and grid layout, both tools (1 082 configurations). Quick tier: both tools on a strength-2 array of the four RHD modes with the mode as a "
                  "factor (plus every pair of first-version values with every mode) and on a strength-2 array of "
                  "the photoionization mode, layouts 0-3, both capacity regimes, field selections defaults / everything "
                  "on (84 configurations); ASan alone on a strength-2 array per mode "
                  "over all six layouts and all nine field selections (277 more). Nothing is searched or interleaved, so "
                  "this is exploration.",
    "level_note": "One default thread schedule per configuration; grids of 64 to 576 cells in 4 to 64 subgrids, "
                  "4 hydro steps, 2 photoionization iterations. Interactions of four or more specific factor values "
                  "are covered only as far as the covering arrays happen to contain them (the complete product is "
                  "not run any more). The tight capacities are derived from a calibration of the unchanged tree "
                  "(harness/C12/c12_tight_table.inc, NOTES.md); with a two-thread leg the margins are wide and the queue "
                  "sizes are schedule-independent bounds, so the rings wrap in 70 % / 25 % of those configurations only; the "
                  "code's default capacities (1 GB of buffers) are not run. Leak checking off. Assumption: the task-based RHD "
                  "modes require a discrete source distribution (do_simulation dereferences it unconditionally), so "
                  "'PhotonSourceDistribution: type: None' is outside the property's precondition; three such probes are "
                  "run and recorded in extra.probes_not_judged without being judged.",
    "quick_deadline": 90,
    "thorough_deadline": 1200,
    "parts": [
        {"name": "runs", "bin": "c12_runs",
         "needs": [_os.path.join(_B, "asan", "CMacIonize"), _os.path.join(_B, "ompasan", "CMacIonize"),
                   _os.path.join(_B, "omp", "CMacIonize")]},
    ],
    "assumptions": [],
}
