import os as _os

_B = _os.environ.get("VERIF_BUILD") or "/verif/build"

CHECK = {
    "id": "C12",
    "level": "exploration",
    "engine": "E3",
    "technique": "exhaustive enumeration of the run-mode x optional-component x thread-count lattice; every "
                 "configuration is a complete run of the real executable under AddressSanitizer and under valgrind "
                 "memcheck",
    "level_text": "The property quantifies over run configurations, a finite lattice: 5 run modes x every subset of "
                  "the optional components the mode reads, with parameter-value variants (live output ranges tight "
                  "around the gas, zero-luminosity continuous source, two mask types) x 1-2 threads x 2 grid layouts "
                  "(1 008 configurations). Each one "
                  "is executed to its normal end twice (ASan build, omp build under memcheck); exit status, expected "
                  "output files and the tools' reports are the oracle. Nothing is searched or interleaved, so this is "
                  "exploration, exhaustive over the lattice in the thorough tier and pairwise-covering in the quick "
                  "tier.",
    "level_note": "One default thread schedule per configuration; grids 4^3 cells in 2x2x1 and 8^3 cells in 4x4x4 subgrids, "
                  "4 hydro steps, 2 photoionization iterations. Leak checking off. Assumption: the task-based RHD "
                  "modes require a discrete source distribution (do_simulation dereferences it unconditionally), so "
                  "'PhotonSourceDistribution: type: None' is outside the property's precondition; three such probes are "
                  "run and recorded in extra.probes_not_judged without being judged.",
    "quick_deadline": 90,
    "thorough_deadline": 1200,
    "parts": [
        {"name": "runs", "bin": "c12_runs",
         "needs": [_os.path.join(_B, "asan", "CMacIonize"), _os.path.join(_B, "ompasan", "CMacIonize"),
                   _os.path.join(_B, "omp", "CMacIonize")]},
    ],
    "assumptions": [],
}
