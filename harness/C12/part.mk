# harness executables (name, sources, flavour, extra compile flags, extra link flags)
$(eval $(call HARNESS,c12_runs,$(V)/harness/C12/c12_runs.cpp,plain,-pthread,-pthread))
$(B)/bin/c12_runs: $(V)/harness/C12/c12_util.hpp $(V)/harness/C12/c12_tight_table.inc
