// Helpers of the C12 harness: run an executable in a private directory with a
// time limit, small file utilities, a work queue.
#ifndef C12_UTIL_HPP
#define C12_UTIL_HPP

#include "verif_common.hpp"

#include <dirent.h>
#include <fcntl.h>
#include <signal.h>
#include <sys/resource.h>
#include <sys/stat.h>
#include <sys/types.h>
#include <sys/wait.h>
#include <unistd.h>

#include <algorithm>
#include <cstring>
#include <atomic>
#include <functional>
#include <mutex>
#include <string>
#include <thread>
#include <vector>


namespace c12 {

inline void mkdir_p(const std::string &d) {
  std::string cur;
  for (size_t i = 0; i < d.size(); ++i) {
    cur += d[i];
    if (d[i] == '/' || i + 1 == d.size())
      mkdir(cur.c_str(), 0700);
  }
}

inline void rm_rf(const std::string &d) {
  DIR *dir = opendir(d.c_str());
  if (!dir) {
    unlink(d.c_str());
    return;
  }
  while (struct dirent *e = readdir(dir)) {
    std::string n = e->d_name;
    if (n == "." || n == "..")
      continue;
    std::string p = d + "/" + n;
    struct stat st;
    if (lstat(p.c_str(), &st) == 0 && S_ISDIR(st.st_mode))
      rm_rf(p);
    else
      unlink(p.c_str());
  }
  closedir(dir);
  rmdir(d.c_str());
}

inline std::vector< std::string > list_dir(const std::string &d) {
  std::vector< std::string > out;
  DIR *dir = opendir(d.c_str());
  if (!dir)
    return out;
  while (struct dirent *e = readdir(dir)) {
    std::string n = e->d_name;
    if (n != "." && n != "..")
      out.push_back(n);
  }
  closedir(dir);
  std::sort(out.begin(), out.end());
  return out;
}

inline bool file_exists(const std::string &f) {
  struct stat st;
  return stat(f.c_str(), &st) == 0;
}

inline void write_file(const std::string &name, const std::string &content) {
  FILE *f = fopen(name.c_str(), "wb");
  if (!f) {
    perror(name.c_str());
    exit(3);
  }
  fwrite(content.data(), 1, content.size(), f);
  fclose(f);
}

struct RunResult {
  int exit_code = -1; // exit status, or 128+signal, or -2 for timeout
  bool timed_out = false;
  double wall = 0.;
  double cpu = 0.; // user + system time of the process (and the children it waited for)
  std::string describe() const {
    if (timed_out)
      return "timeout (killed)";
    if (exit_code >= 128)
      return verif::fmt("killed by signal %d", exit_code - 128);
    return verif::fmt("exit status %d", exit_code);
  }
};

/// run argv in directory dir with stdout+stderr appended to dir/logname
inline RunResult run_in(const std::string &dir, const std::vector< std::string > &argv,
                        const std::string &logname, double timeout_s,
                        const std::vector< std::string > &env_extra = {}) {
  RunResult r;
  std::vector< char * > av;
  for (auto &a : argv)
    av.push_back(const_cast< char * >(a.c_str()));
  av.push_back(nullptr);
  std::string logpath = dir + "/" + logname;
  auto t0 = std::chrono::steady_clock::now();
  pid_t pid = fork();
  if (pid < 0) {
    perror("fork");
    exit(3);
  }
  if (pid == 0) {
    // child: only async-signal-safe calls
    if (chdir(dir.c_str()) != 0)
      _exit(126);
    int fd = open(logpath.c_str(), O_WRONLY | O_CREAT | O_APPEND, 0600);
    if (fd >= 0) {
      dup2(fd, 1);
      dup2(fd, 2);
      close(fd);
    }
    int nul = open("/dev/null", O_RDONLY);
    if (nul >= 0) {
      dup2(nul, 0);
      close(nul);
    }
    for (auto &e : env_extra)
      putenv(const_cast< char * >(e.c_str()));
    execv(av[0], av.data());
    _exit(127);
  }
  int status = 0;
  struct rusage ru;
  memset(&ru, 0, sizeof(ru));
  for (;;) {
    pid_t w = wait4(pid, &status, WNOHANG, &ru);
    if (w == pid)
      break;
    double el =
        std::chrono::duration< double >(std::chrono::steady_clock::now() - t0).count();
    if (el > timeout_s) {
      kill(pid, SIGKILL);
      wait4(pid, &status, 0, &ru);
      r.timed_out = true;
      break;
    }
    usleep(el < 0.2 ? 1000 : 10000);
  }
  r.wall = std::chrono::duration< double >(std::chrono::steady_clock::now() - t0).count();
  r.cpu = ru.ru_utime.tv_sec + ru.ru_stime.tv_sec + 1.e-6 * (ru.ru_utime.tv_usec + ru.ru_stime.tv_usec);
  if (r.timed_out)
    r.exit_code = -2;
  else if (WIFEXITED(status))
    r.exit_code = WEXITSTATUS(status);
  else if (WIFSIGNALED(status))
    r.exit_code = 128 + WTERMSIG(status);
  return r;
}

inline std::string tail_of(const std::string &file, size_t n = 600) {
  std::string s = verif::read_file(file);
  if (s.size() > n)
    s = s.substr(s.size() - n);
  return s;
}

/// simple work queue over 0..n-1 with nthread std::threads
inline void parallel_for(size_t n, unsigned nthread, const std::function< void(size_t) > &f) {
  std::atomic< size_t > next(0);
  std::vector< std::thread > th;
  nthread = std::max(1u, std::min< unsigned >(nthread, (unsigned)std::max< size_t >(n, 1)));
  for (unsigned t = 0; t < nthread; ++t)
    th.emplace_back([&]() {
      for (;;) {
        size_t i = next.fetch_add(1);
        if (i >= n)
          return;
        f(i);
      }
    });
  for (auto &t : th)
    t.join();
}

} // namespace c12

#endif
