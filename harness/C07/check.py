CHECK = {
    "id": "C07",
    "level": "model_checking",
    "engine": "E1",
    "technique": "stateless model checking of the implementation (deviation-bounded schedule exploration of the real hydro loop) plus explicit-state search of a task-level TAKE/STOP model generated from the real task tables, every model transition replayed on the real Task objects",
    "level_text": "Every thread schedule with at most 1 deviation (2 on selected layouts) of the real hydro loop of "
                  "TaskBasedRadiationHydrodynamicsSimulation::do_simulation is executed for 12 layouts/periodicity "
                  "combinations (including periodic axes with one subgrid), 2-3 threads, 1-2 consecutive steps; the thorough tier "
                  "adds a state-pruned search to deviation bound 3 on the single-subgrid layout (reported as state-pruned). A monitor "
                  "built from the task tables the real code constructed checks on every execution: each task starts "
                  "exactly once per step, only after all tasks that list it as child have finished, no two running tasks "
                  "touch the same subgrid (the touched set comes from the task's subgrid/neighbour fields, not from its "
                  "locks), and every step ends (deadlock/livelock/horizon are violations). Second part: the task tables the real "
                  "make_hydro_tasks/set_dependencies/reset_hydro_tasks build are dumped for every layout up to 3^3 (thorough 4^3) x 8 "
                  "periodicities and checked (counter = incoming edges, every touched subgrid is locked, none twice, every "
                  "face handled by exactly one gradient and one flux task, acyclic, stage order along data flow); a TAKE/STOP model "
                  "instantiated from them is searched exhaustively for 1-3 workers on all layouts with <= 2 subgrids (state-capped "
                  "beyond) for exclusivity, deadlock freedom and reachability of the end from every state, and each model transition "
                  "is replayed on the real Task objects (lock_dependency, parent counters) to bind the model to the code.",
    "level_note": "Code between two hooked synchronisation points is atomic (a scheduling point is placed inside every "
                  "running task so that overlap is observable); sequential consistency; 2-3 threads; layouts up to 2x2x1 "
                  "and 3x1x1 with 2x2x2 cells per subgrid.",
    "quick_deadline": 100,
    "thorough_deadline": 2400,
    "parts": [{"name": "hydro-loop", "bin": "c07_hydroloop", "share": 2.0},
              {"name": "task-model", "bin": "c07_taskmodel", "share": 1.0}],
    "assumptions": [],
}
