CHECK = {
    "id": "C07",
    "level": "model_checking",
    "engine": "E1",
    "technique": "stateless model checking of the implementation: deviation-bounded exhaustive exploration of thread schedules of the real hydro task loop, monitor built from the task tables the code constructs",
    "level_text": "Every thread schedule with at most 1 deviation (2 on selected layouts) of the real hydro loop of "
                  "TaskBasedRadiationHydrodynamicsSimulation::do_simulation is executed for 10 layouts/periodicity "
                  "combinations (including periodic axes with one subgrid), 2-3 threads, 1-2 consecutive steps. A monitor "
                  "built from the task tables the real code constructed checks on every execution: each task starts "
                  "exactly once per step, only after all tasks that list it as child have finished, no two running tasks "
                  "touch the same subgrid (the touched set comes from the task's subgrid/neighbour fields, not from its "
                  "locks), and every step ends (deadlock/livelock/horizon are violations).",
    "level_note": "Code between two hooked synchronisation points is atomic (a scheduling point is placed inside every "
                  "running task so that overlap is observable); sequential consistency; 2-3 threads; layouts up to 2x2x1 "
                  "and 3x1x1 with 2x2x2 cells per subgrid.",
    "quick_deadline": 100,
    "thorough_deadline": 1200,
    "parts": [{"name": "hydro-loop", "bin": "c07_hydroloop"}],
    "assumptions": [],
}
