// C07 (b): task-level model of the hydro task protocol, instantiated from the
// task tables the REAL code builds (make_hydro_tasks / set_dependencies /
// reset_hydro_tasks) for every layout x periodicity, checked by explicit-state
// search, and bound to the implementation by replaying every model transition
// on the real Task objects (lock_dependency / unlock_dependency / parent
// counters).
//
// Model state   : (set of finished tasks, set of running tasks)
// Transitions   : TAKE(t)  - t has no unfinished parent, is neither running nor
//                            finished, and its lock sequence can be acquired
//                            (a lock that appears twice can never be acquired,
//                            exactly as Task::lock_dependency behaves)
//                 STOP(t)  - t finishes, releases its locks and its children
// Invariants    : running tasks touch disjoint subgrids (the touched set comes
//                 from the subgrid / neighbour fields of the task, not from its
//                 locks); a task is taken only after all tasks that list it as
//                 child finished; no task twice; no deadlock; from every
//                 reachable state the final state is reachable.
#include "TaskBasedRadiationHydrodynamicsSimulation.cpp"
#include "verif_common.hpp"

#include <algorithm>
#include <array>
#include <deque>
#include <unordered_map>
#include <unordered_set>

// pair tasks whose two locks are not in ascending subgrid order (information only, see check_tables)
static uint64_t g_lock_order_descending = 0;

using namespace verif;

static const int MAXT = 192; // 18 tasks x 8 subgrids = 144
typedef std::array< uint64_t, 3 > Bits;
static inline bool bget(const Bits &b, int i) { return (b[i >> 6] >> (i & 63)) & 1; }
static inline void bset(Bits &b, int i) { b[i >> 6] |= 1ull << (i & 63); }
static inline void bclr(Bits &b, int i) { b[i >> 6] &= ~(1ull << (i & 63)); }
static inline int bcount(const Bits &b) { return __builtin_popcountll(b[0]) + __builtin_popcountll(b[1]) + __builtin_popcountll(b[2]); }

struct State {
  Bits fin, run;
  bool operator==(const State &o) const { return fin == o.fin && run == o.run; }
};
struct StateHash {
  size_t operator()(const State &s) const {
    uint64_t h = 1469598103934665603ull;
    for (int i = 0; i < 3; ++i) {
      h = (h ^ s.fin[i]) * 1099511628211ull;
      h = (h ^ s.run[i]) * 1099511628211ull;
    }
    return (size_t)h;
  }
};

struct TaskRow {
  int type = -1;
  int subgrid = -1;
  int slot = -1;
  std::vector< int > locks;    // subgrid index of each lock, in acquisition order
  std::vector< int > touched;  // subgrids the task body reads/writes
  std::vector< int > children; // with multiplicity
  int counter = 0;             // unfinished parents after reset
  int nparents = 0;            // incoming child edges (with multiplicity)
  int face_dir = 0;            // interaction direction for sweeps
};

struct Layout {
  int n[3];
  bool p[3];
  std::string name() const {
    return fmt("%dx%dx%d-%c%c%c", n[0], n[1], n[2], p[0] ? 'p' : 'o', p[1] ? 'p' : 'o', p[2] ? 'p' : 'o');
  }
};

class NullDensityFunction : public DensityFunction {
public:
  virtual DensityValues operator()(const Cell &) {
    DensityValues v;
    v.set_number_density(1.);
    v.set_temperature(100.);
    v.set_ionic_fraction(ION_H_n, 1.);
    return v;
  }
};

struct World {
  DensitySubGridCreator< HydroDensitySubGrid > *grid = nullptr;
  ThreadSafeVector< Task > *tasks = nullptr;
  std::vector< TaskRow > rows;
  int nsub = 0;
  ~World() {
    delete tasks;
    delete grid;
  }
};

static bool is_gradient(int type) {
  return type == TASKTYPE_GRADIENTSWEEP_INTERNAL || type == TASKTYPE_GRADIENTSWEEP_EXTERNAL_NEIGHBOUR ||
         type == TASKTYPE_GRADIENTSWEEP_EXTERNAL_BOUNDARY;
}
static bool is_flux(int type) {
  return type == TASKTYPE_FLUXSWEEP_INTERNAL || type == TASKTYPE_FLUXSWEEP_EXTERNAL_NEIGHBOUR ||
         type == TASKTYPE_FLUXSWEEP_EXTERNAL_BOUNDARY;
}
static bool is_neighbour(int type) {
  return type == TASKTYPE_GRADIENTSWEEP_EXTERNAL_NEIGHBOUR || type == TASKTYPE_FLUXSWEEP_EXTERNAL_NEIGHBOUR;
}
static bool is_boundary(int type) {
  return type == TASKTYPE_GRADIENTSWEEP_EXTERNAL_BOUNDARY || type == TASKTYPE_FLUXSWEEP_EXTERNAL_BOUNDARY;
}

/// build the real objects and dump the task table
static std::string build(const Layout &L, World &W) {
  const Box<> box(CoordinateVector<>(0.), CoordinateVector<>(1. * L.n[0], 1. * L.n[1], 1. * L.n[2]));
  W.grid = new DensitySubGridCreator< HydroDensitySubGrid >(
      box, CoordinateVector< int_fast32_t >(2 * L.n[0], 2 * L.n[1], 2 * L.n[2]),
      CoordinateVector< int_fast32_t >(L.n[0], L.n[1], L.n[2]), CoordinateVector< bool >(L.p[0], L.p[1], L.p[2]));
  NullDensityFunction fn;
  W.grid->initialize(fn);
  W.nsub = (int)W.grid->number_of_original_subgrids();
  W.tasks = new ThreadSafeVector< Task >(18 * W.nsub + 2, "hydro tasks");
  // exactly what do_simulation does
  for (auto it = W.grid->begin(); it != W.grid->original_end(); ++it)
    make_hydro_tasks(*W.tasks, it.get_index(), *W.grid);
  for (auto it = W.grid->begin(); it != W.grid->original_end(); ++it)
    set_dependencies(it.get_index(), *W.grid, *W.tasks);
  for (auto it = W.grid->begin(); it != W.grid->original_end(); ++it)
    reset_hydro_tasks(*W.tasks, *it);
  const size_t nt = W.tasks->size();
  std::map< const ThreadLock *, int > lock_of;
  for (int s = 0; s < W.nsub; ++s)
    lock_of[(*W.grid->get_subgrid(s)).get_dependency()] = s;
  W.rows.assign(nt, TaskRow());
  std::vector< int > seen(nt, 0);
  for (int s = 0; s < W.nsub; ++s) {
    HydroDensitySubGrid &sg = *W.grid->get_subgrid(s);
    for (int i = 0; i < 18; ++i) {
      const size_t it = sg.get_hydro_task(i);
      if (it == NO_TASK)
        continue;
      if (it >= nt)
        return fmt("subgrid %d slot %d refers to task %zu of %zu", s, i, it, nt);
      if (seen[it]++)
        return fmt("task %zu is stored in two slots", it);
      Task &t = (*W.tasks)[it];
      TaskRow &r = W.rows[it];
      r.type = t.get_type();
      r.subgrid = (int)t.get_subgrid();
      r.slot = i;
      r.face_dir = t.get_interaction_direction();
      for (int k = 0; k < 2; ++k)
        if (t._dependency[k]) {
          auto f = lock_of.find(t._dependency[k]);
          if (f == lock_of.end())
            return fmt("task %zu uses a lock that belongs to no subgrid", it);
          r.locks.push_back(f->second);
        }
      r.touched.push_back(r.subgrid);
      if (is_neighbour(r.type) && (int)t.get_buffer() != r.subgrid)
        r.touched.push_back((int)t.get_buffer());
      for (uint_fast8_t c = 0; c < t.get_number_of_children(); ++c)
        r.children.push_back((int)t.get_child(c));
      r.counter = t.get_number_of_unfinished_parents();
    }
  }
  for (size_t it = 0; it < nt; ++it)
    if (!seen[it])
      return fmt("task %zu is not referenced by any subgrid", it);
  for (size_t it = 0; it < nt; ++it)
    for (int c : W.rows[it].children) {
      if (c < 0 || c >= (int)nt)
        return fmt("task %zu has child %d outside the table", it, c);
      W.rows[c].nparents++;
    }
  return "";
}

static const char *dirname(int d) {
  switch (d) {
  case TRAVELDIRECTION_FACE_X_P:
    return "+x";
  case TRAVELDIRECTION_FACE_X_N:
    return "-x";
  case TRAVELDIRECTION_FACE_Y_P:
    return "+y";
  case TRAVELDIRECTION_FACE_Y_N:
    return "-y";
  case TRAVELDIRECTION_FACE_Z_P:
    return "+z";
  case TRAVELDIRECTION_FACE_Z_N:
    return "-z";
  }
  return "?";
}
static int opposite(int d) {
  switch (d) {
  case TRAVELDIRECTION_FACE_X_P:
    return TRAVELDIRECTION_FACE_X_N;
  case TRAVELDIRECTION_FACE_X_N:
    return TRAVELDIRECTION_FACE_X_P;
  case TRAVELDIRECTION_FACE_Y_P:
    return TRAVELDIRECTION_FACE_Y_N;
  case TRAVELDIRECTION_FACE_Y_N:
    return TRAVELDIRECTION_FACE_Y_P;
  case TRAVELDIRECTION_FACE_Z_P:
    return TRAVELDIRECTION_FACE_Z_N;
  case TRAVELDIRECTION_FACE_Z_N:
    return TRAVELDIRECTION_FACE_Z_P;
  }
  return -1;
}

/// table level invariants; returns number of checks done
static uint64_t table_invariants(const Layout &L, World &W, Result &R) {
  uint64_t checks = 0;
  const std::string ln = L.name();
  const int nt = (int)W.rows.size();
  auto V = [&](const std::string &key, const std::string &detail) {
    R.violation("C07:table:" + key, detail + " [layout " + ln + "]", fmt("{\"layout\": \"%s\"}", ln.c_str()));
  };
  // face coverage: (subgrid, direction) -> number of gradient / flux tasks
  std::map< std::pair< int, int >, int > cov_g, cov_f;
  for (int t = 0; t < nt; ++t) {
    const TaskRow &r = W.rows[t];
    ++checks;
    if (r.counter != r.nparents)
      V("counter", fmt("task %d (type %d, subgrid %d) waits for %d parents but %d tasks list it as child", t, r.type, r.subgrid, r.counter, r.nparents));
    if (r.children.size() > 7)
      V("children", fmt("task %d has %zu children (capacity 7)", t, r.children.size()));
    // locks: exactly the touched subgrids, each once, ordered by subgrid index
    std::set< int > ls(r.locks.begin(), r.locks.end()), ts(r.touched.begin(), r.touched.end());
    if (ls.size() != r.locks.size())
      V("lock-twice", fmt("task %d (type %d, subgrid %d) needs the lock of subgrid %d twice", t, r.type, r.subgrid, r.locks[0]));
    // every touched subgrid must be locked; locking more than is touched is harmless and not judged
    if (!std::includes(ls.begin(), ls.end(), ts.begin(), ts.end()))
      V("lock-set", fmt("task %d (type %d, subgrid %d) touches %zu subgrids but locks %zu (first lock %d)", t, r.type, r.subgrid, ts.size(), ls.size(), r.locks.empty() ? -1 : r.locks[0]));
    // NOT judged: the two locks of a pair task are taken with try_lock and rollback
    // (Task::lock_dependency), so no acquisition order is needed for the property (no thread ever
    // waits while holding a lock); the ascending order the code uses is recorded only
    if (r.locks.size() == 2 && !(r.locks[0] < r.locks[1]))
      ++g_lock_order_descending;
    if (is_boundary(r.type) || is_neighbour(r.type)) {
      auto &cov = is_gradient(r.type) ? cov_g : cov_f;
      cov[std::make_pair(r.subgrid, r.face_dir)]++;
      if (is_neighbour(r.type)) {
        const int ngb = (int)(*W.tasks)[t].get_buffer();
        // must be the geometric neighbour in that direction
        const int geo = (int)(*W.grid->get_subgrid(r.subgrid)).get_neighbour(r.face_dir);
        if (ngb != geo)
          V("neighbour", fmt("task %d sweeps subgrid %d against %d but the %s neighbour is %d", t, r.subgrid, ngb, dirname(r.face_dir), geo));
        cov[std::make_pair(ngb, opposite(r.face_dir))]++;
      } else {
        const unsigned geo = (*W.grid->get_subgrid(r.subgrid)).get_neighbour(r.face_dir);
        if (geo != NEIGHBOUR_OUTSIDE)
          V("boundary", fmt("task %d treats the %s face of subgrid %d as a box boundary but it has neighbour %u", t, dirname(r.face_dir), r.subgrid, geo));
      }
    }
  }
  const int dirs[6] = {TRAVELDIRECTION_FACE_X_P, TRAVELDIRECTION_FACE_X_N, TRAVELDIRECTION_FACE_Y_P,
                       TRAVELDIRECTION_FACE_Y_N, TRAVELDIRECTION_FACE_Z_P, TRAVELDIRECTION_FACE_Z_N};
  for (int s = 0; s < W.nsub; ++s)
    for (int d : dirs) {
      ++checks;
      if (cov_g[std::make_pair(s, d)] != 1)
        V("face-coverage", fmt("the %s face of subgrid %d is handled by %d gradient tasks", dirname(d), s, cov_g[std::make_pair(s, d)]));
      if (cov_f[std::make_pair(s, d)] != 1)
        V("face-coverage", fmt("the %s face of subgrid %d is handled by %d flux tasks", dirname(d), s, cov_f[std::make_pair(s, d)]));
    }
  // one of each per-subgrid task
  for (int s = 0; s < W.nsub; ++s) {
    int per[TASKTYPE_NUMBER] = {0};
    for (int t = 0; t < nt; ++t)
      if (W.rows[t].subgrid == s)
        per[W.rows[t].type]++;
    for (int ty : {(int)TASKTYPE_GRADIENTSWEEP_INTERNAL, (int)TASKTYPE_SLOPE_LIMITER, (int)TASKTYPE_PREDICT_PRIMITIVES,
                   (int)TASKTYPE_FLUXSWEEP_INTERNAL, (int)TASKTYPE_UPDATE_CONSERVED, (int)TASKTYPE_UPDATE_PRIMITIVES}) {
      ++checks;
      if (per[ty] != 1)
        V("per-subgrid", fmt("subgrid %d has %d tasks of type %d", s, per[ty], ty));
    }
  }
  // data-flow order: a task must (transitively) wait for the stage before it
  // on every subgrid it touches: gradient -> limiter -> predict -> flux ->
  // update conserved -> update primitives
  auto stage = [](int type) {
    if (is_gradient(type))
      return 0;
    if (type == TASKTYPE_SLOPE_LIMITER)
      return 1;
    if (type == TASKTYPE_PREDICT_PRIMITIVES)
      return 2;
    if (is_flux(type))
      return 3;
    if (type == TASKTYPE_UPDATE_CONSERVED)
      return 4;
    if (type == TASKTYPE_UPDATE_PRIMITIVES)
      return 5;
    return -1;
  };
  // ancestors by transitive closure
  const int nw = (nt + 63) / 64;
  std::vector< std::vector< uint64_t > > anc(nt, std::vector< uint64_t >(nw, 0));
  {
    std::vector< int > indeg(nt, 0), order;
    for (int t = 0; t < nt; ++t)
      indeg[t] = W.rows[t].nparents;
    std::deque< int > q;
    for (int t = 0; t < nt; ++t)
      if (!indeg[t])
        q.push_back(t);
    while (!q.empty()) {
      int t = q.front();
      q.pop_front();
      order.push_back(t);
      for (int c : W.rows[t].children) {
        for (int k = 0; k < nw; ++k)
          anc[c][k] |= anc[t][k];
        anc[c][t >> 6] |= 1ull << (t & 63);
        if (--indeg[c] == 0)
          q.push_back(c);
      }
    }
    ++checks;
    if ((int)order.size() != nt)
      V("cycle", fmt("only %zu of %d tasks can be ordered: the child edges contain a cycle or an unreachable task", order.size(), nt));
  }
  for (int a = 0; a < nt; ++a)
    for (int b = 0; b < nt; ++b) {
      if (stage(W.rows[b].type) != stage(W.rows[a].type) + 1)
        continue;
      bool share = false;
      for (int x : W.rows[a].touched)
        for (int y : W.rows[b].touched)
          share = share || x == y;
      if (!share)
        continue;
      ++checks;
      if (!((anc[b][a >> 6] >> (a & 63)) & 1))
        V("data-flow", fmt("task %d (type %d, subgrid %d) does not wait for task %d (type %d, subgrid %d) of the previous stage on a shared subgrid",
                           b, W.rows[b].type, W.rows[b].subgrid, a, W.rows[a].type, W.rows[a].subgrid));
    }
  return checks;
}

struct ModelStats {
  uint64_t states = 0, transitions = 0, replayed = 0;
  bool capped = false;
};

/// explicit-state search + replay of every transition on the real objects
static ModelStats model_search(const Layout &L, World &W, int workers, uint64_t cap, Result &R, bool replay_on_real) {
  ModelStats S;
  const std::string ln = L.name() + fmt("/workers=%d", workers);
  const int nt = (int)W.rows.size();
  auto V = [&](const std::string &key, const std::string &detail) {
    R.violation("C07:model:" + key, detail + " [layout " + ln + "]", fmt("{\"layout\": \"%s\"}", L.name().c_str()));
  };
  std::vector< int > parents_total(nt, 0);
  for (int t = 0; t < nt; ++t)
    parents_total[t] = W.rows[t].counter;
  // finished-parent counts are a function of the finished set
  auto ready = [&](const State &s, int t) {
    if (bget(s.fin, t) || bget(s.run, t))
      return false;
    int done = 0;
    // count finished parents with multiplicity
    for (int p = 0; p < nt; ++p)
      if (bget(s.fin, p))
        for (int c : W.rows[p].children)
          if (c == t)
            ++done;
    return done >= parents_total[t];
  };
  auto lockable = [&](const State &s, int t) {
    std::vector< int > held;
    for (int r = 0; r < nt; ++r)
      if (bget(s.run, r))
        for (int l : W.rows[r].locks)
          held.push_back(l);
    std::vector< int > mine;
    for (int l : W.rows[t].locks) {
      if (std::find(held.begin(), held.end(), l) != held.end())
        return false;
      if (std::find(mine.begin(), mine.end(), l) != mine.end())
        return false; // the same lock twice can never be taken
      mine.push_back(l);
    }
    return true;
  };
  // precompute parents list for speed
  std::vector< std::vector< int > > parents(nt);
  for (int p = 0; p < nt; ++p)
    for (int c : W.rows[p].children)
      parents[c].push_back(p);
  auto ready_fast = [&](const State &s, int t) {
    if (bget(s.fin, t) || bget(s.run, t))
      return false;
    int done = 0;
    for (int p : parents[t])
      if (bget(s.fin, p))
        ++done;
    return done >= parents_total[t];
  };
  (void)ready;

  std::unordered_map< State, uint32_t, StateHash > index;
  std::vector< State > states;
  std::vector< std::vector< uint32_t > > succ;
  State init{{0, 0, 0}, {0, 0, 0}};
  index[init] = 0;
  states.push_back(init);
  std::deque< uint32_t > frontier;
  frontier.push_back(0);
  Bits all{0, 0, 0};
  for (int t = 0; t < nt; ++t)
    bset(all, t);
  int final_index = -1;
  while (!frontier.empty()) {
    const uint32_t si = frontier.front();
    frontier.pop_front();
    const State s = states[si];
    if (succ.size() <= si)
      succ.resize(si + 1);
    if (s.fin == all) {
      final_index = (int)si;
      continue;
    }
    // invariant: running tasks touch disjoint subgrids
    {
      std::vector< int > owner(W.nsub, -1);
      for (int r = 0; r < nt; ++r)
        if (bget(s.run, r))
          for (int x : W.rows[r].touched) {
            if (owner[x] != -1)
              V("exclusivity", fmt("tasks %d (type %d) and %d (type %d) run together and both touch subgrid %d", owner[x], W.rows[owner[x]].type, r, W.rows[r].type, x));
            owner[x] = r;
          }
    }
    int nsucc = 0;
    const int nrun = bcount(s.run);
    for (int t = 0; t < nt; ++t) {
      if (bget(s.run, t)) {
        State n = s;
        bclr(n.run, t);
        bset(n.fin, t);
        auto f = index.find(n);
        uint32_t ni;
        if (f == index.end()) {
          ni = (uint32_t)states.size();
          index[n] = ni;
          states.push_back(n);
          frontier.push_back(ni);
        } else
          ni = f->second;
        succ[si].push_back(ni);
        ++nsucc;
        ++S.transitions;
      } else if (nrun < workers && ready_fast(s, t) && lockable(s, t)) {
        State n = s;
        bset(n.run, t);
        auto f = index.find(n);
        uint32_t ni;
        if (f == index.end()) {
          ni = (uint32_t)states.size();
          index[n] = ni;
          states.push_back(n);
          frontier.push_back(ni);
        } else
          ni = f->second;
        succ[si].push_back(ni);
        ++nsucc;
        ++S.transitions;
      }
    }
    if (nsucc == 0) {
      std::string stuck;
      for (int t = 0; t < nt && stuck.size() < 200; ++t)
        if (ready_fast(s, t))
          stuck += fmt(" task %d (type %d, subgrid %d, locks %zu)", t, W.rows[t].type, W.rows[t].subgrid, W.rows[t].locks.size());
      V("deadlock", fmt("no task can be taken or finished with %d of %d tasks finished; ready but not lockable:%s", bcount(s.fin), nt, stuck.c_str()));
      break;
    }
    if (states.size() > cap) {
      S.capped = true;
      break;
    }
    if ((states.size() & 0xfff) == 0 && R.out_of_time()) {
      S.capped = true;
      break;
    }
  }
  S.states = states.size();
  if (!S.capped && R.violation_keys.empty()) {
    if (final_index < 0)
      V("termination", "the final state (all tasks finished) is not reachable");
    else {
      // termination under fairness: every reachable state can reach the final state
      succ.resize(states.size());
      std::vector< std::vector< uint32_t > > pred(states.size());
      for (uint32_t a = 0; a < states.size(); ++a)
        for (uint32_t b : succ[a])
          pred[b].push_back(a);
      std::vector< char > can(states.size(), 0);
      std::deque< uint32_t > q;
      q.push_back((uint32_t)final_index);
      can[final_index] = 1;
      while (!q.empty()) {
        uint32_t b = q.front();
        q.pop_front();
        for (uint32_t a : pred[b])
          if (!can[a]) {
            can[a] = 1;
            q.push_back(a);
          }
      }
      for (uint32_t a = 0; a < states.size(); ++a)
        if (!can[a]) {
          V("termination", fmt("state with %d tasks finished and %d running cannot reach the end of the step", bcount(states[a].fin), bcount(states[a].run)));
          break;
        }
    }
  }
  // ---- binding: replay every model transition on the real Task objects
  if (replay_on_real && !S.capped) {
    // depth-first walk over the model graph with apply/undo on the real objects
    for (auto it = W.grid->begin(); it != W.grid->original_end(); ++it)
      reset_hydro_tasks(*W.tasks, *it);
    std::vector< char > visited(states.size(), 0);
    struct Frame {
      uint32_t state;
      int next_task;
      int applied_task; // transition that led here (for undo), -1 root
      bool applied_take;
    };
    std::vector< Frame > stack;
    stack.push_back({0, 0, -1, false});
    visited[0] = 1;
    auto real_ready = [&](int t) { return (*W.tasks)[t].get_number_of_unfinished_parents() == 0; };
    while (!stack.empty()) {
      Frame &fr = stack.back();
      const State s = states[fr.state];
      bool descended = false;
      for (int t = fr.next_task; t < nt && !descended; ++t) {
        fr.next_task = t + 1;
        const bool running = bget(s.run, t);
        const bool can_take = !running && !bget(s.fin, t) && bcount(s.run) < workers && ready_fast(s, t) && lockable(s, t);
        if (!running && !bget(s.fin, t)) {
          // the real objects must agree with the model about TAKE(t)
          const bool rr = real_ready(t);
          if (rr != ready_fast(s, t))
            V("binding:counter", fmt("task %d: real parent counter says %s, model says %s after %d finished tasks", t, rr ? "ready" : "waiting", ready_fast(s, t) ? "ready" : "waiting", bcount(s.fin)));
          if (rr && bcount(s.run) < workers) {
            const bool got = (*W.tasks)[t].lock_dependency();
            ++S.replayed;
            if (got != lockable(s, t))
              V("binding:locks", fmt("task %d (type %d): real lock_dependency %s, model says %s", t, W.rows[t].type, got ? "succeeds" : "fails", lockable(s, t) ? "lockable" : "not lockable"));
            if (got && !can_take)
              (*W.tasks)[t].unlock_dependency();
            if (!got && can_take)
              continue;
          }
        }
        if (can_take) {
          State n = s;
          bset(n.run, t);
          const uint32_t ni = index[n];
          if (!visited[ni]) {
            visited[ni] = 1;
            stack.push_back({ni, 0, t, true});
            descended = true;
          } else {
            (*W.tasks)[t].unlock_dependency();
          }
        } else if (running) {
          State n = s;
          bclr(n.run, t);
          bset(n.fin, t);
          const uint32_t ni = index[n];
          if (!visited[ni]) {
            visited[ni] = 1;
            // STOP(t) on the real objects
            (*W.tasks)[t].unlock_dependency();
            for (int c : W.rows[t].children)
              (*W.tasks)[c].decrement_number_of_unfinished_parents();
            ++S.replayed;
            stack.push_back({ni, 0, t, false});
            descended = true;
          }
        }
      }
      if (!descended) {
        // undo the transition that led here
        Frame done = stack.back();
        stack.pop_back();
        if (done.applied_task >= 0) {
          const int t = done.applied_task;
          if (done.applied_take) {
            (*W.tasks)[t].unlock_dependency();
          } else {
            for (int c : W.rows[t].children)
              (*W.tasks)[c].set_number_of_unfinished_parents((*W.tasks)[c].get_number_of_unfinished_parents() + 1);
            if (!(*W.tasks)[t].lock_dependency())
              V("binding:undo", fmt("could not re-acquire the locks of task %d while backtracking", t));
          }
        }
      }
    }
    for (uint32_t a = 0; a < states.size(); ++a)
      if (!visited[a]) {
        V("binding:unvisited", "a model state was not reached when replaying on the real objects");
        break;
      }
  }
  (void)ln;
  return S;
}

int main(int argc, char **argv) {
  Args A = parse_args(argc, argv);
  Result R(A);
  if (!freopen("/dev/null", "w", stderr)) {
  }
  const bool thorough = A.thorough();
  uint64_t table_checks = 0, layouts_tabled = 0, models = 0, states = 0, transitions = 0, replayed = 0, capped_models = 0;
  // table invariants: all layouts up to 3^3 (thorough 4^3) x 8 periodicities
  const int maxn = thorough ? 4 : 3;
  std::vector< Layout > layouts;
  for (int nx = 1; nx <= maxn; ++nx)
    for (int ny = 1; ny <= maxn; ++ny)
      for (int nz = 1; nz <= maxn; ++nz)
        for (int p = 0; p < 8; ++p) {
          if (nx * ny * nz * 18 + 2 > 4000)
            continue;
          layouts.push_back(Layout{{nx, ny, nz}, {(p & 1) != 0, (p & 2) != 0, (p & 4) != 0}});
        }
  if (!A.replay.empty()) {
    const std::string want = replay_field(read_file(A.replay), "layout");
    std::vector< Layout > keep;
    for (auto &l : layouts)
      if (l.name() == want)
        keep.push_back(l);
    layouts = keep;
  }
  std::rotate(layouts.begin(), layouts.begin() + (layouts.empty() ? 0 : A.seed % layouts.size()), layouts.end());
  // pass 1: table invariants on every layout
  for (const Layout &L : layouts) {
    if (R.out_of_time()) {
      R.hit_deadline("table invariants");
      break;
    }
    World W;
    std::string err = build(L, W);
    if (!err.empty()) {
      R.violation("C07:table:malformed", err + " [layout " + L.name() + "]", fmt("{\"layout\": \"%s\"}", L.name().c_str()));
      continue;
    }
    table_checks += table_invariants(L, W, R);
    ++layouts_tabled;
    ++R.evaluations;
    R.nontrivial++;
  }
  // pass 2: model search, smallest layouts first. Layouts with <= 2 subgrids
  // are searched completely; larger ones up to a state cap (the number of
  // down-sets of the task graph explodes with the number of subgrids)
  std::vector< Layout > model_layouts;
  for (const Layout &L : layouts) {
    const int nsub = L.n[0] * L.n[1] * L.n[2];
    if (nsub <= 4 || (thorough && nsub <= 8 && L.n[0] <= 2 && L.n[1] <= 2 && L.n[2] <= 2))
      model_layouts.push_back(L);
  }
  std::stable_sort(model_layouts.begin(), model_layouts.end(), [](const Layout &a, const Layout &b) {
    return a.n[0] * a.n[1] * a.n[2] < b.n[0] * b.n[1] * b.n[2];
  });
  for (const Layout &L : model_layouts) {
    const int nsub = L.n[0] * L.n[1] * L.n[2];
    if (R.out_of_time()) {
      R.hit_deadline(fmt("model search stopped before layout %s", L.name().c_str()));
      break;
    }
    World W;
    if (!build(L, W).empty() || (int)W.rows.size() > MAXT)
      continue;
    const bool small = nsub <= 2;
    for (int workers = 1; workers <= 3; ++workers) {
      if (!small && workers != 2 && !thorough)
        continue;
      if (R.out_of_time())
        break;
      const uint64_t cap = small ? 50000000ull : (thorough ? 1500000ull : 150000ull);
      ModelStats S = model_search(L, W, workers, cap, R, small);
      ++models;
      states += S.states;
      transitions += S.transitions;
      replayed += S.replayed;
      R.evaluations += S.states;
      R.nontrivial += S.states;
      if (S.capped) {
        if (small)
          R.cap(fmt("%s workers=%d: deadline hit after %" PRIu64 " states", L.name().c_str(), workers, S.states));
        else
          ++capped_models;
      }
      if (models % 23 == 1)
        R.sample(fmt("{\"layout\": \"%s\", \"workers\": %d, \"tasks\": %zu, \"model_states\": %" PRIu64 ", \"model_transitions\": %" PRIu64
                     ", \"transitions_replayed_on_real_tasks\": %" PRIu64 ", \"complete\": %s}",
                     L.name().c_str(), workers, W.rows.size(), S.states, S.transitions, S.replayed, S.capped ? "false" : "true"));
    }
  }
  R.set("model_instances_searched_to_the_state_cap_only", (double)capped_models);
  if (capped_models)
    R.cap(fmt("%" PRIu64 " model instances on layouts with 3 or more subgrids were searched breadth-first up to the state cap only "
              "(complete: all layouts with <= 2 subgrids)", capped_models));
  R.set("states", (double)states);
  R.set("transitions", (double)transitions);
  R.set("traces_validated_against_impl", (double)replayed);
  R.set("layouts_with_table_invariants", (double)layouts_tabled);
  R.set("table_invariant_checks", (double)table_checks);
  R.set("model_instances", (double)models);
  R.rule = "task tables dumped from the real make_hydro_tasks/set_dependencies/reset_hydro_tasks for every layout (1..3 per "
           "axis, thorough 1..4) x 8 periodicities; table invariants on all; explicit-state search of the TAKE/STOP model "
           "with 1..3 workers, complete on all layouts with <= 2 subgrids, up to a state cap on 3- and 4-subgrid layouts "
           "(thorough: up to 2x2x2); every model transition of the completely searched layouts replayed on the real Task "
           "objects; non-trivial = model states + layouts";
  R.assumptions.push_back("the model abstracts which queue a ready task sits in: any idle worker may take any ready, lockable task (superset of the implementation's choices)");
  R.set("pair_tasks_with_descending_lock_order_informational", (double)g_lock_order_descending);
  return R.finish(A);
}
