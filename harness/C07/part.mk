E1SRC := $(V)/engine/e1/sched.cpp $(V)/engine/e1/explorer.cpp
$(eval $(call HARNESS,c07_hydroloop,$(V)/harness/C07/c07_hydroloop.cpp $(E1SRC),hook,-I$(V)/engine/e1,))
$(eval $(call HARNESS,c07_taskmodel,$(V)/harness/C07/c07_taskmodel.cpp,plain,-fno-access-control -O2,))
