// C07 (a): every schedule (up to a deviation bound) of the real hydro task loop
// of TaskBasedRadiationHydrodynamicsSimulation::do_simulation on tiny layouts:
// each task exactly once per step, never before its parents finished, never
// two running tasks on one subgrid, the step always terminates.
// Also serves C04/C10: conserved totals and the full state after every step
// are compared over all explored schedules (see --mode).
#include "CommandLineParser.hpp"
#include "DensitySubGridCreator.hpp"
#include "HydroDensitySubGrid.hpp"
#include "Task.hpp"
#include "TaskQueue.hpp"
#include "TaskBasedRadiationHydrodynamicsSimulation.hpp"
#include "ThreadSafeVector.hpp"
#include "Timer.hpp"
#include "e1.hpp"
#include "../C01/c01_ledger.hpp"
#include "verif_common.hpp"

#include <sstream>
#include <sys/stat.h>
#include <unistd.h>

using namespace verif;

struct Config {
  std::string name;
  int nx, ny, nz;   // subgrids
  bool px, py, pz;  // periodic
  int steps;
};

static bool g_radiation = false;
static std::string param_text(const Config &c) {
  std::ostringstream o;
  auto b = [](bool p) { return p ? "true" : "false"; };
  auto bc = [](bool p) { return p ? "periodic" : "reflective"; };
  o << "CrossSections:\n  type: FixedValue\n  hydrogen_0: 6.3e-18 cm^2\n";
  for (const char *k : {"helium_0", "carbon_1", "carbon_2", "nitrogen_0", "nitrogen_1", "nitrogen_2",
                        "oxygen_0", "oxygen_1", "neon_0", "neon_1", "sulphur_1", "sulphur_2", "sulphur_3"})
    o << "  " << k << ": 0. m^2\n";
  // a blob in one corner so that the state is not uniform
  o << "DensityFunction:\n  type: BlockSyntax\n  filename: blocks.yml\n";
  o << "DensityGrid:\n  number of cells: [" << 2 * c.nx << ", " << 2 * c.ny << ", " << 2 * c.nz << "]\n";
  o << "DensitySubGridCreator:\n  number of subgrids: [" << c.nx << ", " << c.ny << ", " << c.nz
    << "]\n  periodicity: [" << b(c.px) << ", " << b(c.py) << ", " << b(c.pz) << "]\n";
  o << "DensityGridWriter:\n  type: AsciiFile\n  padding: 3\n  prefix: snap_\n";
  o << "Hydro:\n  polytropic index: 1.6666667\n";
  o << "HydroBoundaryManager:\n  boundary x high: " << bc(c.px) << "\n  boundary x low: " << bc(c.px)
    << "\n  boundary y high: " << bc(c.py) << "\n  boundary y low: " << bc(c.py)
    << "\n  boundary z high: " << bc(c.pz) << "\n  boundary z low: " << bc(c.pz) << "\n";
  o << "PhotonSourceDistribution:\n  type: SingleStar\n  luminosity: 1.e+49 Hz\n  position: [0. pc, 0. pc, 0. pc]\n";
  o << "PhotonSourceSpectrum:\n  type: Monochromatic\n  frequency: 3.28847e+15 Hz\n";
  if (g_radiation)
    o << "DiffuseReemissionHandler:\n  type: FixedValue\n  reemission probability: 0.5\n  reemission frequency: 3.4e15 Hz\n";
  o << "TaskBasedRadiationHydrodynamicsSimulation:\n  number of iterations: 2\n  number of photons: 7\n"
    << (g_radiation ? "  diffuse field: true\n" : "") <<
       "  random seed: 42\n  snapshot time: -1 s\n  total time: 0.01 Myr\n  do radiation: "
    << (g_radiation ? "true" : "false") << "\n"
       "  number of buffers: 64\n  number of tasks: 1024\n  queue size per thread: 256\n"
       "  shared queue size: 256\n  source copy level: 0\n";
  o << "RecombinationRates:\n  type: FixedValue\n  hydrogen_1: 2.7e-13 cm^3 s^-1\n";
  for (const char *k : {"helium_1", "carbon_2", "carbon_3", "nitrogen_1", "nitrogen_2", "nitrogen_3",
                        "oxygen_1", "oxygen_2", "neon_1", "neon_2", "sulphur_2", "sulphur_3", "sulphur_4"})
    o << "  " << k << ": 0. m^3 s^-1\n";
  o << "SimulationBox:\n  anchor: [-1. pc, -1. pc, -1. pc]\n  periodicity: [" << b(c.px) << ", " << b(c.py)
    << ", " << b(c.pz) << "]\n  sides: [2. pc, 2. pc, 2. pc]\n";
  o << "TemperatureCalculator:\n  do temperature calculation: false\n";
  return o.str();
}

static const char *blocks_text =
    "number of blocks: 2\n"
    "block[0]:\n  origin: [0. pc, 0. pc, 0. pc]\n  sides: [2. pc, 2. pc, 2. pc]\n  type: cube\n"
    "  number density: 100. cm^-3\n  initial temperature: 8000. K\n  neutral fraction H: 1.\n"
    "  initial velocity: [0. km s^-1, 0. km s^-1, 0. km s^-1]\n"
    "block[1]:\n  origin: [-0.55 pc, -0.45 pc, -0.65 pc]\n  sides: [0.9 pc, 1.1 pc, 0.7 pc]\n  type: cube\n"
    "  number density: 300. cm^-3\n  initial temperature: 4000. K\n  neutral fraction H: 1.\n"
    "  initial velocity: [2. km s^-1, -1. km s^-1, 0.5 km s^-1]\n";

// ------------------------------------------------------------------ monitor

struct TaskInfo {
  int type = -1;
  size_t subgrid = 0;
  std::vector< size_t > touched;
  std::vector< size_t > children, parents;
  int started = 0, stopped = 0;
};

static ThreadSafeVector< Task > *g_tasks = nullptr;
static DensitySubGridCreator< HydroDensitySubGrid > *g_creator = nullptr;
static std::map< size_t, TaskInfo > g_table;
static std::map< size_t, int > g_running; // task -> thread
static long g_step = -1;
static long g_steps_ended = 0;
static bool g_in_hydro = false;
static std::string g_outcome;
static int g_mode = 0; // 0: C07, 1: also record state digests (C04/C10)
static std::string g_state_lines;

static void viol(const std::string &key, const std::string &detail) { e1::add_violation("C07:" + key, detail); }

static void build_table() {
  g_table.clear();
  for (auto it = g_creator->begin(); it != g_creator->original_end(); ++it) {
    HydroDensitySubGrid &sg = *it;
    for (int i = 0; i < 18; ++i) {
      const size_t itask = sg.get_hydro_task(i);
      if (itask == NO_TASK)
        continue;
      Task &t = (*g_tasks)[itask];
      TaskInfo &ti = g_table[itask];
      ti.type = t.get_type();
      ti.subgrid = t.get_subgrid();
      ti.touched.push_back(t.get_subgrid());
      if (ti.type == TASKTYPE_GRADIENTSWEEP_EXTERNAL_NEIGHBOUR || ti.type == TASKTYPE_FLUXSWEEP_EXTERNAL_NEIGHBOUR) {
        if (t.get_buffer() != t.get_subgrid())
          ti.touched.push_back(t.get_buffer());
      }
      for (uint_fast8_t c = 0; c < t.get_number_of_children(); ++c)
        ti.children.push_back(t.get_child(c));
    }
  }
  for (auto &kv : g_table)
    for (size_t c : kv.second.children)
      g_table[c].parents.push_back(kv.first);
}

static void record_state(long step) {
  // conserved totals and a digest of the full state in global cell order
  double tot[5] = {0, 0, 0, 0, 0}, abs_[5] = {0, 0, 0, 0, 0};
  std::vector< double > full;
  uint64_t digest = 1469598103934665603ull;
  double minm = 1e300, mine = 1e300;
  bool finite = true;
  for (auto it = g_creator->begin(); it != g_creator->original_end(); ++it) {
    HydroDensitySubGrid &sg = *it;
    for (auto c = sg.hydro_begin(); c != sg.hydro_end(); ++c) {
      const HydroVariables &h = c.get_hydro_variables();
      const double v[5] = {h.get_conserved_mass(), h.get_conserved_momentum()[0], h.get_conserved_momentum()[1],
                           h.get_conserved_momentum()[2], h.get_conserved_total_energy()};
      for (int k = 0; k < 5; ++k) {
        tot[k] += v[k];
        abs_[k] += std::fabs(v[k]);
        full.push_back(v[k]);
        finite = finite && std::isfinite(v[k]);
      }
      minm = std::min(minm, v[0]);
      mine = std::min(mine, v[4]);
      const double p[2] = {h.get_primitives_density(), h.get_primitives_pressure()};
      finite = finite && std::isfinite(p[0]) && std::isfinite(p[1]);
      if (p[0] < 0. || p[1] < 0.)
        e1::add_violation("C04:negative-primitive", fmt("step %ld: density %g pressure %g", step, p[0], p[1]));
      digest = fnv1a(v, sizeof(v), digest);
    }
  }
  if (!finite)
    e1::add_violation("C04:not-finite", fmt("step %ld: non-finite hydro state", step));
  if (minm < 0. || mine < 0.)
    e1::add_violation("C04:negative-conserved", fmt("step %ld: min mass %g min energy %g", step, minm, mine));
  g_state_lines += fmt("S %ld %a %a %a %a %a %a %a %a %a %a %016llx;", step, tot[0], tot[1], tot[2], tot[3], tot[4],
                       abs_[0], abs_[1], abs_[2], abs_[3], abs_[4], (unsigned long long)digest);
  g_state_lines += fmt("F %ld", step);
  for (double x : full)
    g_state_lines += fmt(" %a", x);
  g_state_lines += ";";
}

static void monitor(const e1::Event &e) {
  const std::string w = e.what;
  if (g_mode == 2 && !g_in_hydro && w != "hydro_step_begin" && w != "hydro_tasks") {
    c01::ledger_monitor(e);
    return;
  }
  if (w == "hydro_step_begin") {
    g_creator = (DensitySubGridCreator< HydroDensitySubGrid > *)e.ptr;
    g_step = e.a;
    g_in_hydro = true;
    if (g_mode == 1 && g_steps_ended == 0)
      record_state(0);
  } else if (w == "hydro_tasks") {
    g_tasks = (ThreadSafeVector< Task > *)e.ptr;
    build_table();
    g_running.clear();
    if (g_step > 1)
      e1::mark_seen("second-step");
  } else if (!g_in_hydro) {
    return;
  } else if (w == "task_start") {
    const size_t task = (size_t)e.a;
    auto it = g_table.find(task);
    if (it == g_table.end()) {
      viol("unknown-task", fmt("step %ld: task %zu (type %ld) is not in the task table", g_step, task, e.b));
      return;
    }
    TaskInfo &ti = it->second;
    if (++ti.started > 1)
      viol("exactly-once", fmt("step %ld: task %zu (type %d, subgrid %zu) started %d times", g_step, task, ti.type, ti.subgrid, ti.started));
    for (size_t p : ti.parents)
      if (!g_table[p].stopped)
        viol("dependency-order", fmt("step %ld: task %zu (type %d, subgrid %zu) started before its parent %zu (type %d, subgrid %zu) finished",
                                     g_step, task, ti.type, ti.subgrid, p, g_table[p].type, g_table[p].subgrid));
    for (auto &r : g_running) {
      const TaskInfo &o = g_table[r.first];
      for (size_t a : ti.touched)
        for (size_t b : o.touched)
          if (a == b)
            viol("subgrid-exclusivity", fmt("step %ld: task %zu (type %d) on thread %d and task %zu (type %d) on thread %d both touch subgrid %zu",
                                            g_step, task, ti.type, e.thread, r.first, o.type, r.second, a));
    }
    if (!g_running.empty())
      e1::mark_seen("tasks-overlap-in-time");
    g_running[task] = e.thread;
    e1::mark_seen(fmt("tasktype-%d", ti.type));
  } else if (w == "task_stop") {
    const size_t task = (size_t)e.a;
    auto it = g_table.find(task);
    if (it != g_table.end())
      it->second.stopped++;
    g_running.erase(task);
  } else if (w == "hydro_step_end") {
    g_in_hydro = false;
    ++g_steps_ended;
    size_t n = 0;
    for (auto &kv : g_table) {
      ++n;
      if (kv.second.started != 1 || kv.second.stopped != 1)
        viol("exactly-once", fmt("step %ld: task %zu (type %d, subgrid %zu) started %d and finished %d times", g_step,
                                 kv.first, kv.second.type, kv.second.subgrid, kv.second.started, kv.second.stopped));
    }
    g_outcome += fmt("[step%ld tasks=%zu]", g_step, n);
    if (g_mode == 1)
      record_state(g_step);
  }
}

// ------------------------------------------------------------------ driver

struct Job {
  Config cfg;
  int threads, ownership, bound;
  bool prune; // bounded search pruned at states already visited with no more deviations used
};

int main(int argc, char **argv) {
  Args A = parse_args(argc, argv);
  Result R(A);
  g_mode = (int)A.geti("mode", 0);
  g_radiation = g_mode == 2;
  const bool c04_only = g_mode == 3; // C04: fully periodic layouts only
  if (c04_only)
    g_mode = 1;
  const std::string prop = c04_only ? "C04" : g_mode == 1 ? "C10" : g_mode == 2 ? "C01" : "C07";
  const std::string tmp = fast_tmpdir();
  const std::string workdir = tmp + fmt("/c07_%d", (int)getpid());
  mkdir(workdir.c_str(), 0700);

  std::vector< Config > cfgs = {
      {"1x1x1-open", 1, 1, 1, false, false, false, 2},
      {"2x1x1-open", 2, 1, 1, false, false, false, 2},
      {"1x1x2-open", 1, 1, 2, false, false, false, 2},
      {"2x1x1-periodic-x", 2, 1, 1, true, false, false, 2},
      {"2x2x1-open", 2, 2, 1, false, false, false, 1},
      {"2x2x1-periodic-xy", 2, 2, 1, true, true, false, 1},
      {"3x1x1-periodic-x", 3, 1, 1, true, false, false, 1},
      // periodic axes with a single subgrid (the neighbour is the subgrid itself)
      {"1x1x1-periodic-x", 1, 1, 1, true, false, false, 2},
      {"2x1x1-periodic-y", 2, 1, 1, false, true, false, 2},
      {"1x1x1-periodic-xyz", 1, 1, 1, true, true, true, 1},
      {"2x1x1-periodic-xyz", 2, 1, 1, true, true, true, 2},
      {"2x2x1-periodic-xyz", 2, 2, 1, true, true, true, 1},
  };
  if (!A.get("dump-params").empty()) {
    const std::string d = A.get("dump-params");
    for (const Config &c : cfgs) {
      const std::string sub = d + "/rhd-" + c.name;
      mkdir(sub.c_str(), 0700);
      FILE *f = fopen((sub + "/params.yml").c_str(), "w");
      fputs(param_text(c).c_str(), f);
      fclose(f);
      f = fopen((sub + "/blocks.yml").c_str(), "w");
      fputs(blocks_text, f);
      fclose(f);
    }
    return 0;
  }
  std::vector< Job > jobs;
  for (const Config &c : cfgs) {
    jobs.push_back({c, 2, 1, 1, false});
    if (A.thorough()) {
      jobs.push_back({c, 3, 1, 1, false});
      jobs.push_back({c, 2, 0, 1, false});
    }
  }
  if (A.thorough()) {
    // deviation bound 2: the smallest layout with two steps, two-subgrid layouts with one step
    jobs.push_back({cfgs[0], 2, 1, 2, false});
    Config one = cfgs[1];
    one.steps = 1;
    jobs.push_back({one, 2, 1, 2, false});
    one = cfgs[8];
    one.steps = 1;
    jobs.push_back({one, 2, 1, 2, false});
  } else {
    jobs.push_back({cfgs[1], 3, 1, 1, false});
    jobs.push_back({cfgs[4], 3, 0, 1, false});
  }
  if (A.thorough() && g_mode == 0) {
    // deep search of the smallest layouts, pruned at visited states (state = every atomic variable
    // seen + each thread's progress and what it observed, incl. task indices); reported as
    // state-pruned, not claimed exhaustive
    Config one = cfgs[0];
    one.steps = 1;
    jobs.push_back({one, 2, 1, 3, true});
  }
  if (!A.get("only").empty()) {
    std::vector< Job > keep;
    for (const Config &c : cfgs)
      if (c.name == A.get("only")) {
        Config cc = c;
        cc.steps = (int)A.geti("steps", c.steps);
        keep.push_back({cc, (int)A.geti("threads", 2), (int)A.geti("ownership", 1), (int)A.geti("bound", 1), A.geti("prune", 0) != 0});
      }
    jobs = keep;
  }
  if (c04_only && A.replay.empty()) {
    std::vector< Job > keep;
    for (auto &j : jobs)
      if (j.cfg.px && j.cfg.py && j.cfg.pz)
        keep.push_back(j);
    jobs = keep;
  }
  if (g_mode == 2 && A.replay.empty()) {
    jobs.clear();
    Config one_step = cfgs[1];
    one_step.steps = 1;
    jobs.push_back({A.thorough() ? cfgs[1] : one_step, 2, 1, 1, false});
    if (A.thorough()) {
      jobs.push_back({cfgs[3], 2, 0, 1, false});
      jobs.push_back({cfgs[4], 2, 1, 1, false});
      jobs.push_back({cfgs[1], 3, 1, 1, false});
    }
  }
  if (!A.replay.empty()) {
    jobs.clear();
    const std::string txt = read_file(A.replay);
    const std::string cname = replay_field(txt, "config");
    for (const Config &c : cfgs)
      if (c.name == cname)
        jobs.push_back({c, (int)atol(replay_field(txt, "threads").c_str()),
                        (int)atol(replay_field(txt, "ownership").c_str()), -1, false});
    if (jobs.empty()) {
      fprintf(stderr, "replay: unknown configuration '%s'\n", cname.c_str());
      return 2;
    }
  }
  if (!jobs.empty() && A.replay.empty())
    std::rotate(jobs.begin(), jobs.begin() + (A.seed % jobs.size()), jobs.end());

  uint64_t total_exec = 0, total_points = 0;
  std::set< std::string > seen_all;
  size_t jobs_done = 0;
  for (size_t ij = 0; ij < jobs.size(); ++ij) {
    const Job &J = jobs[ij];
    if (R.out_of_time()) {
      R.hit_deadline(fmt("%zu of %zu configuration runs not started", jobs.size() - ij, jobs.size()));
      break;
    }
    const std::string tag = fmt("%s/threads=%d/own=%d", J.cfg.name.c_str(), J.threads, J.ownership);
    const std::string dir = workdir + fmt("/job%zu", ij);
    mkdir(dir.c_str(), 0700);
    if (chdir(dir.c_str()) != 0)
      return 3;
    {
      FILE *f = fopen("params.yml", "w");
      fputs(param_text(J.cfg).c_str(), f);
      fclose(f);
      f = fopen("blocks.yml", "w");
      fputs(blocks_text, f);
      fclose(f);
    }
    auto body = [&](const std::vector< int > &) {
      e1::sched.ownership = J.ownership;
      e1::sched.monitor = monitor;
      e1::sched.max_steps = 400000;
      e1::sched.livelock_yields = 200;
      if (J.prune) {
        e1::sched.track_atomics = true;
        e1::sched.hash_states = true;
      }
      if (!freopen("/dev/null", "w", stdout)) {
      }
      if (A.replay.empty() && !freopen("/dev/null", "w", stderr)) {
      }
      CommandLineParser parser("CMacIonize");
      parser.add_required_option< std::string >("params", 'p', "param file");
      parser.add_option("threads", 't', "threads", COMMANDLINEOPTION_INTARGUMENT, "1");
      parser.add_option("dry-run", 'n', "dry", COMMANDLINEOPTION_NOARGUMENT, "false");
      TaskBasedRadiationHydrodynamicsSimulation::add_command_line_parameters(parser);
      const std::string nt = std::to_string(J.threads), ns = std::to_string(J.cfg.steps);
      const char *av[] = {"x", "--params", "params.yml", "--threads", nt.c_str(), "--number-of-steps", ns.c_str()};
      parser.parse_arguments(7, (char **)av);
      Timer programtimer;
      TaskBasedRadiationHydrodynamicsSimulation::do_simulation(parser, false, programtimer, nullptr);
      if (g_steps_ended != J.cfg.steps)
        viol("steps", fmt("%ld of %d hydro steps ended", g_steps_ended, J.cfg.steps));
      if (g_mode == 2 && c01::L.iterations_ended != 2 * J.cfg.steps)
        e1::add_violation("C01:iterations:rhd", fmt("%ld photon iterations ended in %d steps of 2 iterations", c01::L.iterations_ended, J.cfg.steps));
      e1::rec.outcome = g_outcome + g_state_lines + (g_mode == 2 ? c01::L.outcome : std::string());
      e1::finish_child(e1::V_OK);
    };

    if (!A.replay.empty()) {
      const std::string txt = read_file(A.replay);
      std::vector< int > prefix = e1::prefix_from_string(replay_field(txt, "schedule"));
      e1::ExecResult r = e1::run_one(body, prefix, 600.);
      printf("replay %s schedule %s: verdict=%s choice points=%zu outcome=%s\n", tag.c_str(),
             e1::prefix_to_string(prefix).c_str(), e1::verdict_name(r.verdict), r.choices.size(), r.outcome.c_str());
      for (auto &v : r.violations)
        printf("  violation: %s\n", v.c_str());
      fputs(r.events.c_str(), stdout);
      ++R.evaluations;
      R.nontrivial += 2;
      if (r.verdict != e1::V_OK || !r.violations.empty())
        R.violation(prop + ":replayed", fmt("verdict %s, %zu violations", e1::verdict_name(r.verdict), r.violations.size()));
      continue;
    }

    e1::ExecResult d1 = e1::run_one(body, {}, 120.), d2 = e1::run_one(body, {}, 120.);
    if (d1.trace_hash != d2.trace_hash) {
      fprintf(stderr, "CHECK-ERROR: default schedule of %s is not deterministic\n", tag.c_str());
      return 4;
    }
    e1::ExploreOptions opt;
    opt.max_bound = J.bound;
    opt.prune_bounded = J.prune;
    opt.jobs = 16;
    opt.exec_timeout = 60.;
    double remaining = A.deadline - R.elapsed();
    double wsum = 0.;
    auto weight = [](const Job &j) { return j.prune && j.bound >= 3 ? 60. : j.bound >= 2 ? 12. : 1.; };
    for (size_t k = ij; k < jobs.size(); ++k)
      wsum += weight(jobs[k]);
    opt.deadline = std::max(2., remaining * weight(J) / wsum);
    // a configuration whose default schedule already fails is not explored further
    if (d1.verdict != e1::V_OK || !d1.violations.empty())
      opt.max_bound = 0;
    e1::ExploreStats st = e1::explore(body, opt);
    total_exec += st.executions + 2;
    total_points += st.choice_points;
    for (auto &s : st.seen)
      seen_all.insert(s);
    R.evaluations += st.executions + 2;
    R.nontrivial += st.executions > 1 ? st.executions - 1 : 0;
    if (!st.complete)
      R.cap(fmt("%s: deadline cut the search inside bound %d (bound %d completed, %" PRIu64 " executions)", tag.c_str(),
                J.bound, st.bound_completed, st.executions));
    std::string verdicts;
    for (auto &kv : st.verdicts)
      verdicts += fmt("%s:%" PRIu64 " ", e1::verdict_name(kv.first), kv.second);
    R.set_json("run:" + tag + fmt("/bound=%d%s", J.bound, J.prune ? "/state-pruned" : ""),
               fmt("{\"executions\": %" PRIu64 ", \"choice_points_default\": %zu, \"max_choice_points\": %" PRIu64
                   ", \"distinct_outcomes\": %zu, \"bound_completed\": %d, \"verdicts\": \"%s\"}",
                   st.executions, d1.choices.size(), st.max_points, st.outcomes.size(), st.bound_completed,
                   verdicts.c_str()));
    if (ij < 3 && !st.sample_schedules.empty())
      R.sample(fmt("{\"config\": \"%s\", \"deviations(pos:choice;len)\": \"%s\", \"default_outcome\": \"%s\"}", tag.c_str(),
                   st.sample_schedules.back().c_str(), json_escape(d1.outcome.substr(0, 200)).c_str()));
    if (g_mode == 1) {
      // C10: every explored schedule must give the same cell states as the
      // default (sequential-like) schedule up to summation round-off; C04: in a
      // fully periodic box the conserved totals do not change from step to step
      auto parse = [](const std::string &o, std::map< long, std::vector< double > > &tot,
                      std::map< long, std::vector< double > > &full) {
        const char *s = o.c_str();
        while ((s = strchr(s, ';')) || true) {
          if (!s)
            break;
          ++s;
          if (!*s)
            break;
        }
        size_t pos = 0;
        while (pos < o.size()) {
          size_t e = o.find(';', pos);
          if (e == std::string::npos)
            break;
          const std::string item = o.substr(pos, e - pos);
          pos = e + 1;
          size_t q = item.find("S ");
          if (item.compare(0, 2, "S ") == 0 || (q != std::string::npos && item[0] == '[')) {
            const char *c = item.c_str() + (item.compare(0, 2, "S ") == 0 ? 0 : q);
            long step;
            double t[10];
            if (sscanf(c, "S %ld %la %la %la %la %la %la %la %la %la %la", &step, &t[0], &t[1], &t[2], &t[3], &t[4], &t[5],
                       &t[6], &t[7], &t[8], &t[9]) == 11)
              tot[step] = std::vector< double >(t, t + 10);
          } else if (item.compare(0, 2, "F ") == 0) {
            char *endp;
            const char *c = item.c_str() + 2;
            long step = strtol(c, &endp, 10);
            std::vector< double > v;
            while (*endp) {
              char *nx;
              double x = strtod(endp, &nx);
              if (nx == endp)
                break;
              v.push_back(x);
              endp = nx;
            }
            full[step] = v;
          }
        }
      };
      std::map< long, std::vector< double > > tot0, full0;
      parse(d1.outcome, tot0, full0);
      if (full0.empty())
        R.violation("C10:no-state-recorded:" + J.cfg.name, "the default schedule recorded no hydro state [" + tag + "]");
      const bool fully_periodic = J.cfg.px && J.cfg.py && J.cfg.pz;
      uint64_t distinct_states = 0;
      for (auto &kv : st.outcomes) {
        std::map< long, std::vector< double > > tot, full;
        parse(kv.first, tot, full);
        ++distinct_states;
        for (auto &fs : full) {
          auto ref = full0.find(fs.first);
          if (ref == full0.end() || ref->second.size() != fs.second.size())
            continue;
          double scale[5] = {0, 0, 0, 0, 0};
          for (size_t i = 0; i < fs.second.size(); ++i)
            scale[i % 5] = std::max(scale[i % 5], std::fabs(ref->second[i]));
          // momentum components share one scale
          const double ms = std::max(scale[1], std::max(scale[2], scale[3]));
          scale[1] = scale[2] = scale[3] = ms;
          for (size_t i = 0; i < fs.second.size(); ++i)
            if (std::fabs(fs.second[i] - ref->second[i]) > 1e-13 * scale[i % 5]) {
              R.violation("C10:schedule-dependent-state:" + J.cfg.name,
                          fmt("step %ld cell %zu variable %zu: %.17g under some schedule, %.17g under the default schedule [%s]",
                              fs.first, i / 5, i % 5, fs.second[i], ref->second[i], tag.c_str()));
              break;
            }
        }
        if (fully_periodic) {
          auto t0 = tot.find(0);
          for (auto &ts : tot) {
            if (t0 == tot.end() || ts.first == 0)
              continue;
            const double mscale = std::max(ts.second[6], std::max(ts.second[7], ts.second[8]));
            for (int k = 0; k < 5; ++k) {
              const double sc = (k >= 1 && k <= 3) ? mscale : ts.second[5 + k];
              if (std::fabs(ts.second[k] - t0->second[k]) > 1e-12 * sc)
                R.violation(fmt("C04:conservation:periodic:variable-%d:", k) + J.cfg.name,
                            fmt("total of conserved variable %d changes from %.17g to %.17g in step %ld [%s]", k, t0->second[k],
                                ts.second[k], ts.first, tag.c_str()));
            }
          }
        }
      }
      R.set("distinct_final_states:" + tag + fmt("/bound=%d", J.bound), (double)distinct_states);
    }
    for (const e1::ExecResult &f : st.failures) {
      std::string key, detail;
      if (!f.violations.empty()) {
        size_t bar = f.violations[0].find('|');
        key = f.violations[0].substr(0, bar);
        detail = f.violations[0].substr(bar == std::string::npos ? 0 : bar + 1);
      } else {
        key = prop + ":" + e1::verdict_name(f.verdict);
        detail = f.outcome;
      }
      R.violation(key + ":" + J.cfg.name,
                  fmt("%s [%s, schedule %s, verdict %s, %zu choice points]", detail.c_str(), tag.c_str(),
                      e1::prefix_to_string(f.prefix).c_str(), e1::verdict_name(f.verdict), f.choices.size()),
                  fmt("{\"config\": \"%s\", \"threads\": %d, \"ownership\": %d, \"schedule\": \"%s\"}",
                      J.cfg.name.c_str(), J.threads, J.ownership, e1::prefix_to_string(f.prefix).c_str()));
    }
    ++jobs_done;
    if (chdir("/") != 0) {
    }
    std::string cmd = "rm -rf '" + dir + "'";
    if (system(cmd.c_str())) {
    }
  }
  if (chdir("/") != 0) {
  }
  {
    std::string cmd = "rm -rf '" + workdir + "'";
    if (system(cmd.c_str())) {
    }
  }
  remove_fast_tmpdir(tmp);
  std::string seen;
  for (auto &s : seen_all)
    seen += s + " ";
  R.set_str("events_exercised", seen);
  R.set("states", (double)total_points);
  R.set("transitions", (double)total_points);
  R.set("traces_validated_against_impl", (double)total_exec);
  R.set("configuration_runs", (double)jobs_done);
  R.rule = "deviation-bounded exhaustive exploration of thread schedules of the real hydro task loop "
           "(TaskBasedRadiationHydrodynamicsSimulation::do_simulation, radiation off, 2x2x2-cell subgrids): every "
           "execution runs the real code under the cooperative scheduler; monitor built from the task tables the code "
           "constructed; non-trivial = executions with at least one deviation from the default schedule";
  R.assumptions.push_back("code between two hooked synchronisation points is atomic; sequential consistency");
  return R.finish(A);
}
