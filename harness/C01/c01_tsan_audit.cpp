// TSan audit pass (supports the E1 checks, decides nothing): the same real
// loops run free on real threads under ThreadSanitizer; reported data races are
// compared with the access sites that already carry a scheduling point. A site
// without one is written to the evidence as an assumption gap of the E1 checks.
#include "verif_common.hpp"
#include <algorithm>
#include <dirent.h>
#include <sys/wait.h>

using namespace verif;

static int run(const std::string &cmd) {
  int rc = system(cmd.c_str());
  return WIFEXITED(rc) ? WEXITSTATUS(rc) : 128 + WTERMSIG(rc);
}

int main(int argc, char **argv) {
  Args A = parse_args(argc, argv);
  Result R(A);
  const char *b = getenv("VERIF_BUILD");
  const std::string B = b ? b : "/verif/build";
  const std::string tmp = fast_tmpdir();
  const std::string dir = tmp + fmt("/tsan_%d", (int)getpid());
  mkdir(dir.c_str(), 0700);
  run(B + "/bin/c01_photon --dump-params " + dir + " > /dev/null 2>&1");
  run(B + "/bin/c07_hydroloop --dump-params " + dir + " > /dev/null 2>&1");
  std::vector< std::string > cfgs;
  if (DIR *d = opendir(dir.c_str())) {
    while (dirent *e = readdir(d))
      if (e->d_name[0] != '.')
        cfgs.push_back(e->d_name);
    closedir(d);
  }
  std::sort(cfgs.begin(), cfgs.end());
  const int seeds = A.thorough() ? 6 : 2;
  std::map< std::string, int > sites; // "function file:line" of the racing accesses -> count
  uint64_t runs = 0, failed = 0;
  for (const std::string &c : cfgs) {
    for (int threads : {2, 4}) {
      for (int s = 0; s < seeds; ++s) {
        if (R.out_of_time())
          break;
        const std::string mode = c.compare(0, 3, "ion") == 0 ? "ion" : "rhd";
        const std::string log = dir + "/" + c + fmt("/tsan_%d_%d", threads, s);
        const std::string cmd = "cd " + dir + "/" + c + " && TSAN_OPTIONS='halt_on_error=0 exitcode=0 report_signal_unsafe=0 history_size=3 log_path=" + log +
                                "' timeout 120 " + B + "/bin/c01_tsan_run " + mode + fmt(" %d %ld", threads, A.seed * 100 + s) + " > /dev/null 2>&1";
        const int rc = run(cmd);
        ++runs;
        ++R.evaluations;
        if (rc != 0)
          ++failed;
      }
    }
    // collect the reports of this configuration
    const std::string cdir = dir + "/" + c;
    if (DIR *d = opendir(cdir.c_str())) {
      while (dirent *e = readdir(d)) {
        if (strncmp(e->d_name, "tsan_", 5))
          continue;
        const std::string txt = read_file(cdir + "/" + e->d_name);
        size_t pos = 0;
        while ((pos = txt.find("WARNING: ThreadSanitizer: data race", pos)) != std::string::npos) {
          // first frame (#0) of the first access of the report
          size_t f = txt.find("#0 ", pos);
          size_t e2 = txt.find('\n', f);
          std::string frame = f == std::string::npos ? "?" : txt.substr(f + 3, e2 - f - 3);
          // strip the address prefix and the module suffix
          size_t sp = frame.find(' ');
          if (sp != std::string::npos && frame.compare(0, 2, "0x") == 0)
            frame = frame.substr(sp + 1);
          size_t par = frame.rfind(" (");
          if (par != std::string::npos)
            frame = frame.substr(0, par);
          sites[frame]++;
          pos += 10;
        }
      }
      closedir(d);
    }
  }
  // sites that already carry a scheduling point in the hook flavour
  const char *covered[] = {"get_largest_buffer_size", "TaskQueue::size", "Scheduler::get_task", "steal_task",
                           "global_run_flag", "operator()"};
  std::string listed, gaps;
  int ngaps = 0;
  for (auto &kv : sites) {
    bool cov = false;
    for (const char *c : covered)
      if (kv.first.find(c) != std::string::npos)
        cov = true;
    (cov ? listed : gaps) += fmt("%s x%d; ", kv.first.c_str(), kv.second);
    if (!cov)
      ++ngaps;
  }
  R.nontrivial = runs;
  R.set("tsan_runs", (double)runs);
  R.set("tsan_runs_not_ending_normally", (double)failed);
  R.set("race_sites_reported", (double)sites.size());
  R.set_str("race_sites_with_a_scheduling_point", listed);
  R.set_str("assumption_gaps(race sites without a scheduling point)", gaps);
  R.set("assumption_gap_count", (double)ngaps);
  if (ngaps)
    R.assumptions.push_back("TSan audit: unsynchronised accesses at sites without a scheduling point (the E1 coverage statement does not interleave them): " + gaps);
  R.sample(fmt("{\"configurations\": %zu, \"threads\": \"2,4\", \"jitter_seeds\": %d}", cfgs.size(), seeds));
  R.rule = "free-running executions of the same real loops (all C01 and C07 configurations, 2 and 4 real threads, seeded "
           "sched_yield jitter) under ThreadSanitizer; decides nothing: reported race sites are compared with the list of "
           "sites that carry a scheduling point in the E1 checks";
  run("rm -rf '" + dir + "'");
  remove_fast_tmpdir(tmp);
  return R.finish(A);
}
