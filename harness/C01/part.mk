E1SRC := $(V)/engine/e1/sched.cpp $(V)/engine/e1/explorer.cpp
$(eval $(call HARNESS,c01_photon,$(V)/harness/C01/c01_photon.cpp $(E1SRC),hook,-I$(V)/engine/e1 -fno-access-control,))
$(eval $(call HARNESS,c01_split,$(V)/harness/C01/c01_split.cpp,plain,-fno-access-control,))
$(eval $(call HARNESS,c01_tsan_run,$(V)/harness/C01/c01_tsan_run.cpp $(V)/engine/tsan/sched_free.cpp,tsan,,))
$(eval $(call HARNESS,c01_tsan_audit,$(V)/harness/C01/c01_tsan_audit.cpp,plain,,))
