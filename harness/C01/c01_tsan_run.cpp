// TSan audit body: one free-running execution of the real photon loop
// (TaskBasedIonizationSimulation::run) or of the real RHD loop on real threads.
// usage: c01_tsan_run ion|rhd <threads> <jitter seed>   (cwd holds params.yml)
#include "CommandLineParser.hpp"
#include "TaskBasedIonizationSimulation.hpp"
#include "TaskBasedRadiationHydrodynamicsSimulation.hpp"
#include "Timer.hpp"
#include <cstdio>
#include <cstdlib>
#include <cstring>
#include <string>

namespace cmi_verif {
extern unsigned g_jitter_seed;
}

int main(int argc, char **argv) {
  if (argc < 4)
    return 2;
  const int threads = atoi(argv[2]);
  cmi_verif::g_jitter_seed = (unsigned)atoi(argv[3]);
  if (!freopen("/dev/null", "w", stdout)) {
  }
  if (!strcmp(argv[1], "ion")) {
    TaskBasedIonizationSimulation sim(threads, "params.yml");
    sim.initialize(nullptr);
    sim.run(nullptr);
  } else {
    CommandLineParser parser("CMacIonize");
    parser.add_required_option< std::string >("params", 'p', "param file");
    parser.add_option("threads", 't', "threads", COMMANDLINEOPTION_INTARGUMENT, "1");
    parser.add_option("dry-run", 'n', "dry", COMMANDLINEOPTION_NOARGUMENT, "false");
    TaskBasedRadiationHydrodynamicsSimulation::add_command_line_parameters(parser);
    const std::string nt = std::to_string(threads);
    const char *av[] = {"x", "--params", "params.yml", "--threads", nt.c_str(), "--number-of-steps", "2"};
    parser.parse_arguments(7, (char **)av);
    Timer programtimer;
    TaskBasedRadiationHydrodynamicsSimulation::do_simulation(parser, false, programtimer, nullptr);
  }
  return 0;
}
