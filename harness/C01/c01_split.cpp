// C01 (sequential part): DistributedPhotonSource splits the requested number of
// packets exactly over sources and subgrid copies, for every packet number
// 0..N, every luminosity tuple with entries <= 5 of <= 4 sources and copy
// levels 0,1,2; batches handed out sum to the request, also after reset().
#include "DensitySubGrid.hpp"
#include "DensitySubGridCreator.hpp"
#include "DistributedPhotonSource.hpp"
#include "PhotonSourceDistribution.hpp"
#include "verif_common.hpp"

using namespace verif;

class NullDensityFunction : public DensityFunction {
public:
  virtual DensityValues operator()(const Cell &) {
    DensityValues v;
    v.set_number_density(1.);
    v.set_temperature(100.);
    v.set_ionic_fraction(ION_H_n, 1.);
    return v;
  }
};

class TupleDistribution : public PhotonSourceDistribution {
public:
  std::vector< CoordinateVector<> > pos;
  std::vector< double > lum;
  double total = 0.;
  virtual photonsourcenumber_t get_number_of_sources() const { return pos.size(); }
  virtual CoordinateVector<> get_position(photonsourcenumber_t i) { return pos[i]; }
  virtual double get_weight(photonsourcenumber_t i) const { return lum[i] / total; }
  virtual double get_total_luminosity() const { return total; }
};

int main(int argc, char **argv) {
  Args A = parse_args(argc, argv);
  Result R(A);
  if (!freopen("/dev/null", "w", stderr)) {
  }
  const int maxN = A.thorough() ? 60 : 25;
  const int maxL = A.thorough() ? 5 : 3;
  // source positions: in different subgrids, one exactly on a subgrid boundary
  const CoordinateVector<> positions[4] = {CoordinateVector<>(0.25, 0.25, 0.25), CoordinateVector<>(0.5, 0.5, 0.5),
                                           CoordinateVector<>(0.75, 0.25, 0.75), CoordinateVector<>(0.3, 0.8, 0.1)};
  const size_t batch_sizes[3] = {3, 1, 200};
  for (int level = 0; level <= 2; ++level) {
    const Box<> box(CoordinateVector<>(0.), CoordinateVector<>(1.));
    DensitySubGridCreator< DensitySubGrid > grid(box, CoordinateVector< int_fast32_t >(4, 4, 4),
                                                 CoordinateVector< int_fast32_t >(2, 2, 2), CoordinateVector< bool >(false));
    NullDensityFunction fn;
    grid.initialize(fn);
    std::vector< uint_fast8_t > levels(grid.number_of_original_subgrids(), 0);
    // copies for the subgrids that contain the first two sources
    levels[grid.get_subgrid(positions[0]).get_index()] = level;
    levels[grid.get_subgrid(positions[1]).get_index()] = level > 0 ? level - 1 : 0;
    grid.create_copies(levels);
    for (int nsrc = 1; nsrc <= 4; ++nsrc) {
      std::vector< int > L(nsrc, 1);
      for (;;) {
        TupleDistribution dist;
        for (int i = 0; i < nsrc; ++i) {
          dist.pos.push_back(positions[i]);
          dist.lum.push_back(L[i]);
          dist.total += L[i];
        }
        for (int N = 0; N <= maxN; ++N) {
          if (R.out_of_time())
            break;
          ++R.evaluations;
          const std::string tag = fmt("N=%d L=%s copy-level=%d", N, [&] {
            std::string s;
            for (int x : L)
              s += fmt("%d,", x);
            return s;
          }().c_str(), level);
          DistributedPhotonSource< DensitySubGrid > src(N, dist, grid);
          size_t total = 0;
          bool huge = false;
          for (size_t i = 0; i < src.get_number_of_sources(); ++i) {
            if (src._total_number_of_photons[i] > (size_t)N)
              huge = true;
            total += src._total_number_of_photons[i];
          }
          if (huge || total != (size_t)N) {
            R.violation("C01:split:sum", fmt("sources are assigned %zu packets for %d requested (%s)", total, N, tag.c_str()),
                        fmt("{\"case\": \"%s\"}", tag.c_str()));
            continue;
          }
          if (N > 0 && nsrc > 1)
            R.nontrivial++;
          for (int round = 0; round < 2; ++round) {
            const size_t B = batch_sizes[(N + round + level) % 3];
            size_t handed = 0, calls = 0;
            bool progress = true;
            while (progress && calls < 100000) {
              progress = false;
              for (size_t i = 0; i < src.get_number_of_sources(); ++i) {
                const size_t n = src.get_photon_batch(i, B);
                ++calls;
                if (n > B)
                  R.violation("C01:split:batch-size", fmt("batch of %zu packets for a maximum of %zu (%s)", n, B, tag.c_str()));
                if (n > 0)
                  progress = true;
                handed += n;
              }
            }
            if (handed != (size_t)N)
              R.violation("C01:split:handed-out", fmt("%zu packets handed out for %d requested in round %d (%s)", handed, N, round, tag.c_str()),
                          fmt("{\"case\": \"%s\"}", tag.c_str()));
            src.reset();
          }
          if (R.evaluations % 9973 == 1)
            R.sample_str(tag);
        }
        // next luminosity tuple
        int k = 0;
        while (k < nsrc && ++L[k] > maxL) {
          L[k] = 1;
          ++k;
        }
        if (k == nsrc)
          break;
      }
    }
  }
  if (R.out_of_time())
    R.hit_deadline("packet split enumeration");
  R.rule = "all packet numbers 0..N x all luminosity tuples (entries 1..L) of 1..4 sources (one on a subgrid boundary) x copy "
           "levels 0..2 through the real DistributedPhotonSource on a real 2x2x2 subgrid layout; non-trivial = N > 0 with at "
           "least two sources";
  return R.finish(A);
}
