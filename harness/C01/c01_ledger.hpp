// Packet ledger monitor of C01, fed by the CMI_VERIF events of the photon loops
// (shared by the TaskBasedIonizationSimulation harness and the RHD harness).
#ifndef C01_LEDGER_HPP
#define C01_LEDGER_HPP

#include "Task.hpp"
#include "e1.hpp"
#include "verif_common.hpp"
#include <map>
#include <unordered_map>

namespace c01 {
using verif::fmt;

// ------------------------------------------------------------------ monitor

struct Ledger {
  std::unordered_map< long, int > alive; // key -> state (1 travelling, 2 waiting for re-emission)
  long launched_primary = 0, launched_reemit = 0, terminated = 0;
  long iter = -1, requested = -1;
  int nthreads = 1;
  long tasks_started = 0;
  std::map< long, long > tasks_by_type;
  std::vector< long > term_in_task, absorbed_in_task, relaunched_in_task, running_task;
  long flush_tasks = 0;
  std::map< long, long > task_subgrid;          // task slot -> subgrid (traversal tasks)
  std::map< long, std::pair< long, int > > traversing; // subgrid -> (task, thread) of the running traversal task
  long iterations_ended = 0;
  std::string outcome;
};
static Ledger L;
static bool g_expect_continuous = false;

static void viol(const std::string &key, const std::string &detail) { e1::add_violation("C01:" + key, detail); }

static void ledger_monitor(const e1::Event &e) {
  const std::string w = e.what;
  const int t = e.thread;
  if (w == "iter_begin") {
    L.alive.clear();
    L.launched_primary = L.launched_reemit = L.terminated = 0;
    L.iter = e.a;
    L.requested = e.b;
    L.nthreads = (int)e.c;
    L.term_in_task.assign(L.nthreads, 0);
    L.absorbed_in_task.assign(L.nthreads, 0);
    L.relaunched_in_task.assign(L.nthreads, 0);
    L.running_task.assign(L.nthreads, -1);
    L.flush_tasks = 0;
    L.tasks_by_type.clear();
    L.task_subgrid.clear();
    L.traversing.clear();
    if (L.iter > 0)
      e1::mark_seen("second-iteration");
  } else if (w == "task_subgrid") {
    if (e.c == TASKTYPE_PHOTON_TRAVERSAL)
      L.task_subgrid[e.a] = e.b;
    else
      L.task_subgrid.erase(e.a);
  } else if (w == "task_start") {
    ++L.tasks_started;
    {
      auto sg = L.task_subgrid.find(e.a);
      if (e.b == TASKTYPE_PHOTON_TRAVERSAL && sg != L.task_subgrid.end()) {
        auto run = L.traversing.find(sg->second);
        if (run != L.traversing.end())
          viol("subgrid-exclusivity", fmt("traversal task %ld on thread %d starts on subgrid %ld while traversal task %ld on thread %d is running there",
                                          e.a, t, sg->second, run->second.first, run->second.second));
        else
          e1::mark_seen(L.traversing.empty() ? "traversal-alone" : "traversals-overlap-in-time");
        L.traversing[sg->second] = std::make_pair(e.a, t);
      }
    }
    L.tasks_by_type[e.b]++;
    if (t < (int)L.running_task.size()) {
      if (L.running_task[t] != -1)
        viol("task-overlap", fmt("thread %d starts task %ld while task %ld is running", t, e.a, L.running_task[t]));
      for (int o = 0; o < (int)L.running_task.size(); ++o)
        if (o != t && L.running_task[o] == e.a)
          viol("task-twice", fmt("task slot %ld started by thread %d while thread %d runs it", e.a, t, o));
      L.running_task[t] = e.a;
      L.term_in_task[t] = L.absorbed_in_task[t] = L.relaunched_in_task[t] = 0;
    }
    if (e.b == TASKTYPE_FLUSH_CONTINUOUS_PHOTON_BUFFERS)
      ++L.flush_tasks;
    e1::mark_seen(fmt("tasktype-%ld", e.b));
  } else if (w == "task_stop") {
    if (t < (int)L.running_task.size())
      L.running_task[t] = -1;
    if (e.b == TASKTYPE_PHOTON_TRAVERSAL) {
      auto sg = L.task_subgrid.find(e.a);
      if (sg != L.task_subgrid.end()) {
        auto run = L.traversing.find(sg->second);
        if (run != L.traversing.end() && run->second.first == e.a)
          L.traversing.erase(run);
      }
    }
  } else if (w == "pkt_launch") {
    if (L.alive.count(e.a))
      viol("ledger:launch-duplicate", fmt("packet %lx launched while alive (kind %ld, iteration %ld)", e.a, e.b, L.iter));
    L.alive[e.a] = 1;
    if (e.b == 2) {
      ++L.launched_reemit;
      if (t < (int)L.relaunched_in_task.size())
        ++L.relaunched_in_task[t];
      e1::mark_seen("re-emission");
    } else {
      ++L.launched_primary;
      e1::mark_seen(e.b == 1 ? "continuous-launch" : "discrete-launch");
    }
  } else if (w == "pkt_stored") {
    auto it = L.alive.find(e.a);
    if (it == L.alive.end() || it->second != 1)
      viol("ledger:stored-not-alive", fmt("packet %lx stored for direction %ld but is not travelling", e.a, e.b));
    else if (e.b == 0)
      it->second = 2; // absorbed, waits for the re-emission task
  } else if (w == "pkt_term") {
    auto it = L.alive.find(e.a);
    if (it == L.alive.end() || it->second != 1)
      viol("ledger:terminated-twice", fmt("packet %lx terminated (direction %ld) but is not travelling", e.a, e.b));
    else
      L.alive.erase(it);
    ++L.terminated;
    if (t < (int)L.term_in_task.size())
      ++L.term_in_task[t];
    e1::mark_seen(e.b == 0 ? "absorbed-final" : "escaped");
  } else if (w == "pkt_absorbed") {
    auto it = L.alive.find(e.a);
    if (it == L.alive.end() || it->second != 2)
      viol("ledger:reemit-not-absorbed", fmt("re-emission task handles packet %lx that is not waiting for it", e.a));
    else
      L.alive.erase(it);
    if (t < (int)L.absorbed_in_task.size())
      ++L.absorbed_in_task[t];
  } else if (w == "traversal_done") {
    // only over-counting is judged (a task that reports more packets done than it terminated lets the
    // iteration end early on some schedule); reporting fewer here and the rest elsewhere is an internal
    // matter, and a count that is never made up shows as an iteration that does not end
    if (t < (int)L.term_in_task.size() && e.a < L.term_in_task[t])
      e1::mark_seen("traversal-task-reports-fewer-than-terminated");
    if (t < (int)L.term_in_task.size() && e.a > L.term_in_task[t])
      viol("accounting:traversal", fmt("traversal task adds %ld to the done count but terminated %ld packets", e.a, L.term_in_task[t]));
  } else if (w == "reemit_done") {
    if (t < (int)L.absorbed_in_task.size()) {
      const long dropped = L.absorbed_in_task[t] - L.relaunched_in_task[t];
      if (e.a < dropped)
        e1::mark_seen("reemit-task-reports-fewer-than-dropped");
      if (e.a > dropped)
        viol("accounting:reemit", fmt("re-emission task adds %ld to the done count but dropped %ld packets", e.a, dropped));
      L.terminated += dropped;
      if (dropped > 0)
        e1::mark_seen("not-re-emitted");
    }
  } else if (w == "iter_end") {
    ++L.iterations_ended;
    if (e.b != e.c)
      viol("iteration-end:count", fmt("iteration %ld ended with %ld of %ld packets done", e.a, e.b, e.c));
    if (L.terminated != e.c)
      viol("iteration-end:ledger", fmt("iteration %ld: ledger saw %ld terminations for %ld requested packets", e.a, L.terminated, e.c));
    if (L.launched_primary != e.c)
      viol("iteration-end:launched", fmt("iteration %ld: %ld primary packets launched for %ld requested", e.a, L.launched_primary, e.c));
    if (!L.alive.empty())
      viol("iteration-end:alive", fmt("iteration %ld ended with %zu packets still alive", e.a, L.alive.size()));
    // recorded, not judged: how many flush tasks an iteration runs is an internal matter (the property
    // speaks about packets and about what is left behind; a dropped flush task shows up as a leftover
    // task and as packets that never terminate)
    if (g_expect_continuous && L.flush_tasks != L.nthreads)
      e1::mark_seen("flush-tasks-differ-from-thread-count");
    for (size_t i = 0; i < L.running_task.size(); ++i)
      if (L.running_task[i] != -1)
        viol("iteration-end:running", fmt("task %ld still running at the end of iteration %ld", L.running_task[i], e.a));
    std::string byt;
    for (auto &kv : L.tasks_by_type)
      byt += fmt(" %ld:%ld", kv.first, kv.second);
    L.outcome += fmt("[it%ld done=%ld/%ld reemit=%ld tasks%s]", e.a, e.b, e.c, L.launched_reemit, byt.c_str());
  } else if (w == "premature_launch") {
    e1::mark_seen("premature-launch");
  } else if (w == "buffer_full") {
    e1::mark_seen("buffer-full");
  } else if (w == "leftover") {
    if (e.a != 0)
      viol("leftover:buffers", fmt("%ld photon buffers still active after iteration %ld", e.a, L.iter));
    if (e.b != 0)
      viol("leftover:tasks", fmt("%ld tasks still allocated after iteration %ld", e.b, L.iter));
    if (e.c != 0)
      viol("leftover:shared-queue", fmt("%ld entries left in the shared queue after iteration %ld", e.c, L.iter));
  } else if (w == "queue_left") {
    if (e.b != 0)
      viol("leftover:thread-queue", fmt("%ld entries left in the queue of thread %ld after iteration %ld", e.b, e.a, L.iter));
  } else if (w == "subgrid_buffer_left") {
    viol("leftover:subgrid-buffer", fmt("subgrid %ld still has active buffer %ld for direction %ld after iteration %ld", e.a, e.c, e.b, L.iter));
  } else if (w == "continuous_buffer_left") {
    viol("leftover:continuous-buffer", fmt("continuous buffer (%ld,%ld) still holds %ld packets after iteration %ld", e.a, e.b, e.c, L.iter));
  }
}


} // namespace c01

#endif
