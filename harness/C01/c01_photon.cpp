// C01: every schedule (up to a deviation bound) of the real photon propagation
// loop of TaskBasedIonizationSimulation::run on tiny configurations, with a
// packet ledger: every launched packet terminates exactly once, requested =
// terminated, nothing is left in buffers / tasks / queues, the loop ends.
#include "TaskBasedIonizationSimulation.hpp"
#include "DensitySubGrid.hpp"
#include "DensitySubGridCreator.hpp"
#include "MemorySpace.hpp"
#include "PhotonBuffer.hpp"
#include "TaskQueue.hpp"
#include "ThreadSafeVector.hpp"
#include "e1.hpp"
#include "verif_common.hpp"

#include <sstream>
#include <sys/stat.h>
#include <unistd.h>
#include <unordered_map>

using namespace verif;

struct Config {
  std::string name;
  int nx, ny, nz;       // subgrid layout
  bool px, py, pz;      // periodicity
  int sources;          // 0: none, 1: single star centre, 2: two stars (one on a subgrid boundary)
  bool continuous;      // isotropic external source
  bool diffuse;         // fixed-value re-emission
  int copy_level;       // source copy level
  int photons;
  int iterations;
  double density;       // cm^-3
  int buffers = 256;    // size of the photon buffer pool
  bool post_points = false; // also schedule after every modifying atomic operation
};

static std::string param_text(const Config &c) {
  std::ostringstream o;
  o << "SimulationBox:\n  anchor: [-5. pc, -5. pc, -5. pc]\n  sides: [10. pc, 10. pc, 10. pc]\n"
    << "  periodicity: [" << (c.px ? "true" : "false") << ", " << (c.py ? "true" : "false") << ", "
    << (c.pz ? "true" : "false") << "]\n";
  o << "DensityGrid:\n  type: Cartesian\n  number of cells: [4, 4, 4]\n";
  o << "DensitySubGridCreator:\n  number of subgrids: [" << c.nx << ", " << c.ny << ", " << c.nz << "]\n";
  o << "DensityFunction:\n  type: Homogeneous\n  density: " << c.density
    << " cm^-3\n  temperature: 8000. K\n  neutral fraction H: 1.\n";
  o << "Abundances:\n  helium: 0.\n";
  o << "TemperatureCalculator:\n  do temperature calculation: false\n";
  if (c.sources == 0) {
    o << "PhotonSourceDistribution:\n  type: None\n";
  } else if (c.sources == 1) {
    o << "PhotonSourceDistribution:\n  type: SingleStar\n  position: [0.7 pc, 0.3 pc, 0.2 pc]\n"
         "  luminosity: 4.26e49 s^-1\n";
  } else if (c.sources == 2) {
    // first source exactly on the boundary between the two x subgrids
    o << "PhotonSourceDistribution:\n  type: AsciiFileTable\n  filename: sources.txt\n";
  }
  if (c.sources > 0)
    o << "PhotonSourceSpectrum:\n  type: Monochromatic\n  frequency: 3.28847e+15 Hz\n";
  if (c.continuous) {
    o << "ContinuousPhotonSource:\n  type: Isotropic\n";
    o << "ContinuousPhotonSourceSpectrum:\n  type: Monochromatic\n  frequency: 3.28847e+15 Hz\n"
         "  total flux: 1.e13 m^-2 s^-1\n";
  }
  o << "TaskBasedIonizationSimulation:\n  diffuse field: " << (c.diffuse ? "true" : "false")
    << "\n  number of buffers: " << c.buffers << "\n  number of tasks: 1024\n  queue size per thread: 256\n"
       "  shared queue size: 256\n  source copy level: "
    << c.copy_level << "\n  number of photons: " << c.photons
    << "\n  number of iterations: " << c.iterations << "\n  random seed: 42\n";
  o << "DensityGridWriter:\n  type: AsciiFile\n  prefix: snap\n";
  if (c.diffuse)
    o << "DiffuseReemissionHandler:\n  type: FixedValue\n  reemission probability: 0.5\n"
         "  reemission frequency: 3.4e15 Hz\n";
  o << "RecombinationRates:\n  type: FixedValue\n  hydrogen_1: 4.e-13 cm^3 s^-1\n";
  for (const char *k : {"helium_1", "carbon_2", "carbon_3", "nitrogen_1", "nitrogen_2", "nitrogen_3",
                        "oxygen_1", "oxygen_2", "neon_1", "neon_2", "sulphur_2", "sulphur_3", "sulphur_4"})
    o << "  " << k << ": 0. m^3 s^-1\n";
  o << "CrossSections:\n  type: FixedValue\n  hydrogen_0: 6.3e-18 cm^2\n";
  for (const char *k : {"helium_0", "carbon_1", "carbon_2", "nitrogen_0", "nitrogen_1", "nitrogen_2",
                        "oxygen_0", "oxygen_1", "neon_0", "neon_1", "sulphur_1", "sulphur_2", "sulphur_3"})
    o << "  " << k << ": 0. m^2\n";
  return o.str();
}

#include "c01_ledger.hpp"
using c01::L;
using c01::g_expect_continuous;
using c01::viol;
static void monitor(const e1::Event &e) { c01::ledger_monitor(e); }

// ------------------------------------------------------------------ state hash
// Plain (non-atomic) shared state of the photon loop for the state-pruned deep
// searches: queue contents, live task slots, live photon buffers with their
// packets, per-subgrid outgoing buffer indices and ownership.
static TaskBasedIonizationSimulation *g_sim = nullptr;
static uint64_t simulation_state_hash() {
  uint64_t h = e1::tracked_atomics_hash();
  auto mix = [&h](uint64_t v) { h = (h ^ v) * 1099511628211ull; };
  auto mixd = [&](double d) {
    uint64_t b;
    memcpy(&b, &d, 8);
    mix(b);
  };
  if (!g_sim)
    return h;
  auto hq = [&](TaskQueue *q) {
    mix(q->_current_queue_size);
    for (size_t i = 0; i < q->_current_queue_size; ++i)
      mix(q->_queue[i]);
  };
  hq(g_sim->_shared_queue);
  for (TaskQueue *q : g_sim->_queues)
    hq(q);
  ThreadSafeVector< Task > &tasks = *g_sim->_tasks;
  for (size_t i = 0; i < tasks._size; ++i)
    if (tasks._locks[i]._value._v.load()) {
      mix(i);
      mix((uint64_t)tasks._vector[i]._type);
      mix(tasks._vector[i]._subgrid);
      mix(tasks._vector[i]._buffer);
    }
  ThreadSafeVector< PhotonBuffer > &bufs = g_sim->_buffers->_memory_space;
  for (size_t i = 0; i < bufs._size; ++i)
    if (bufs._locks[i]._value._v.load()) {
      PhotonBuffer &b = bufs._vector[i];
      mix(i);
      mix(b._actual_size);
      mix((uint64_t)b._subgrid_index);
      mix((uint64_t)b._direction);
      for (uint_fast32_t k = 0; k < b._actual_size; ++k) {
        const PhotonPacket &ph = b._photons[k];
        for (int d = 0; d < 3; ++d) {
          mixd(ph._position[d]);
          mixd(ph._direction[d]);
        }
        mixd(ph._energy);
        mixd(ph._target_optical_depth);
      }
    }
  for (size_t i = 0; i < g_sim->_grid_creator->number_of_actual_subgrids(); ++i) {
    DensitySubGrid &sg = *g_sim->_grid_creator->get_subgrid(i);
    for (int d = 0; d < TRAVELDIRECTION_NUMBER; ++d)
      mix(sg._active_buffers[d]);
    mix((uint64_t)sg._owning_thread);
    mix((uint64_t)sg._largest_buffer_index);
    mix((uint64_t)sg._largest_buffer_size);
  }
  return h;
}

// ------------------------------------------------------------------ driver

static std::string g_workdir;

struct Job {
  Config cfg;
  int threads;
  int ownership;
  int bound;
  bool prune; // bounded search pruned at states already visited with no more deviations used
};

int main(int argc, char **argv) {
  Args A = parse_args(argc, argv);
  Result R(A);
  const std::string tmp = fast_tmpdir();
  g_workdir = tmp + fmt("/c01_%d", (int)getpid());
  mkdir(g_workdir.c_str(), 0700);

  // the configuration lattice
  std::vector< Config > cfgs;
  auto add = [&](const char *name, int nx, int ny, int nz, bool px, int sources, bool cont, bool diffuse,
                 int copy, int photons, int iters, double dens) {
    cfgs.push_back(Config{name, nx, ny, nz, px, false, false, sources, cont, diffuse, copy, photons, iters, dens});
  };
  auto tight = [&](const char *name, int base, int buffers) {
    Config c = cfgs[base];
    c.name = name;
    c.buffers = buffers;
    c.post_points = true;
    cfgs.push_back(c);
  };
  //   name             layout   px    src cont  diff  copy N  it  density
  // densities are chosen so that the optical depth of the box is of order one:
  // packets cross subgrid boundaries, some are absorbed, some escape
  add("plain-2x1x1", 2, 1, 1, false, 1, false, false, 0, 7, 1, 0.005);
  add("plain-2iter", 2, 1, 1, false, 1, false, false, 0, 7, 2, 0.005);
  add("diffuse", 2, 1, 1, false, 1, false, true, 0, 7, 1, 0.02);
  add("diffuse-2iter", 2, 1, 1, false, 1, false, true, 0, 5, 2, 0.02);
  add("two-sources-boundary", 2, 1, 1, false, 2, false, false, 0, 7, 1, 0.005);
  add("continuous", 2, 1, 1, false, 0, true, false, 0, 7, 1, 0.005);
  add("both-sources", 2, 1, 1, false, 1, true, false, 0, 8, 1, 0.005);
  add("both-diffuse-2iter", 2, 1, 1, false, 1, true, true, 0, 7, 2, 0.02);
  add("copy-level-1", 2, 1, 1, false, 1, false, false, 1, 7, 1, 0.005);
  add("copy-level-1-diffuse", 2, 1, 1, false, 1, false, true, 1, 7, 2, 0.02);
  add("periodic-2x2x1", 2, 2, 1, true, 1, false, false, 0, 7, 1, 0.005);
  add("periodic-2x2x1-diffuse", 2, 2, 1, true, 1, false, true, 0, 7, 1, 0.02);
  add("thin-1x1x2", 1, 1, 2, false, 1, false, false, 0, 10, 1, 0.002);
  add("single-subgrid", 1, 1, 1, false, 1, false, true, 0, 7, 2, 0.02);
  add("opaque-diffuse", 2, 1, 1, false, 1, false, true, 0, 7, 1, 100.);
  // continuous source whose thread-local buffers are exactly emptied by overflow
  // (all packets enter the single subgrid, 3 per batch = one full buffer): the
  // flush tasks have nothing to flush and can still be queued when all packets are done
  add("continuous-exact-fill", 1, 1, 1, false, 0, true, false, 0, 6, 2, 0.005);
  add("continuous-exact-fill-3", 1, 1, 1, false, 0, true, false, 0, 3, 2, 0.005);
  add("both-exact-fill", 1, 1, 1, false, 1, true, true, 0, 12, 2, 0.02);
  // tight buffer pools: the round-robin cursor wraps around, freed buffers are
  // re-used at once (capacity is still never exhausted, see NOTES)
  tight("tight-pool-plain", 0, (int)A.geti("tight", 8));
  tight("tight-pool-diffuse", 2, (int)A.geti("tight", 8));

  if (!A.get("dump-params").empty()) {
    // write the parameter files of all configurations (used by the TSan audit)
    const std::string d = A.get("dump-params");
    for (const Config &c : cfgs) {
      const std::string sub = d + "/ion-" + c.name;
      mkdir(sub.c_str(), 0700);
      FILE *f = fopen((sub + "/params.yml").c_str(), "w");
      fputs(param_text(c).c_str(), f);
      fclose(f);
      if (c.sources == 2) {
        f = fopen((sub + "/sources.txt").c_str(), "w");
        fputs("# sources\n2\n# total luminosity (s^-1)\n5.e49\n# x y z (m) weight\n", f);
        fputs("0.\t3.0857e15\t3.0857e15\t0.8\n", f);
        fputs("-6.1714e16\t-3.0857e16\t1.54285e16\t0.2\n", f);
        fclose(f);
      }
    }
    return 0;
  }
  std::vector< Job > jobs;
  const bool thorough = A.thorough();
  for (const Config &c : cfgs) {
    jobs.push_back({c, 2, 1, 1, false});
    if (thorough) {
      jobs.push_back({c, 2, 0, 1, false});
      jobs.push_back({c, 3, 1, 1, false});
    }
  }
  // deeper bound on selected configurations
  jobs.push_back({cfgs[0], 2, 1, 2, false});
  if (thorough) {
    jobs.push_back({cfgs[0], 3, 1, 2, false});
    jobs.push_back({cfgs[2], 2, 1, 2, false});
    jobs.push_back({cfgs[5], 2, 1, 2, false});
    jobs.push_back({cfgs[8], 2, 1, 2, false});
    jobs.push_back({cfgs[10], 2, 1, 2, false});
    jobs.push_back({cfgs[4], 2, 1, 2, false});
    for (const Config &c : cfgs)
      if (c.name == "tight-pool-plain") // with post-operation scheduling points
        jobs.push_back({c, 2, 1, 2, false});
  } else {
    jobs.push_back({cfgs[0], 3, 1, 1, false});
    jobs.push_back({cfgs[2], 3, 0, 1, false});
  }
  // deep searches pruned at visited states (state = every atomic variable seen + what each thread
  // observed, incl. task indices): the minimal continuous-source configuration whose flush tasks have
  // nothing to flush; deviation bound 5 in the thorough tier (about 5e5 executions), 3 in the quick tier
  for (const Config &c : cfgs)
    if (c.name == "continuous-exact-fill-3")
      jobs.push_back({c, 2, 1, thorough ? 5 : 3, true});
  if (!A.get("only").empty()) {
    std::vector< Job > keep;
    for (const Config &c : cfgs)
      if (c.name == A.get("only"))
        keep.push_back({c, (int)A.geti("threads", 2), (int)A.geti("ownership", 1), (int)A.geti("bound", 1), A.geti("prune", 0) != 0});
    jobs = keep;
  }
  if (!A.replay.empty()) {
    jobs.clear();
    const std::string txt = read_file(A.replay);
    const std::string cname = replay_field(txt, "config");
    for (const Config &c : cfgs)
      if (c.name == cname)
        jobs.push_back({c, (int)atol(replay_field(txt, "threads").c_str()),
                        (int)atol(replay_field(txt, "ownership").c_str()), -1, false});
    if (jobs.empty()) {
      fprintf(stderr, "replay: unknown configuration '%s'\n", cname.c_str());
      return 2;
    }
  }
  // VERIF_SEED rotates the order of the jobs only
  if (!jobs.empty() && A.replay.empty())
    std::rotate(jobs.begin(), jobs.begin() + (A.seed % jobs.size()), jobs.end());

  uint64_t total_exec = 0, total_points = 0, total_outcomes = 0;
  std::set< std::string > seen_all;
  const size_t njobs = jobs.size();
  size_t jobs_done = 0;
  for (size_t ij = 0; ij < jobs.size(); ++ij) {
    const Job &J = jobs[ij];
    if (R.out_of_time()) {
      R.hit_deadline(fmt("%zu of %zu configuration runs not started", njobs - ij, njobs));
      break;
    }
    const std::string tag = fmt("%s/threads=%d/own=%d", J.cfg.name.c_str(), J.threads, J.ownership);
    // build the real simulation once in the parent; every execution forks from here
    const std::string dir = g_workdir + "/" + fmt("job%zu", ij);
    mkdir(dir.c_str(), 0700);
    if (chdir(dir.c_str()) != 0) {
      perror("chdir");
      return 3;
    }
    {
      FILE *f = fopen("params.yml", "w");
      fputs(param_text(J.cfg).c_str(), f);
      fclose(f);
      if (J.cfg.sources == 2) {
        f = fopen("sources.txt", "w");
        // AsciiFileTable format: number of sources, total luminosity, then x y z (m) weight
        fputs("# sources\n2\n# total luminosity (s^-1)\n5.e49\n# x y z (m) weight\n", f);
        fputs("0.\t3.0857e15\t3.0857e15\t0.8\n", f);
        fputs("-6.1714e16\t-3.0857e16\t1.54285e16\t0.2\n", f);
        fclose(f);
      }
    }
    int saved_out = dup(1);
    if (!freopen("/dev/null", "w", stdout)) {
    }
    TaskBasedIonizationSimulation *sim = new TaskBasedIonizationSimulation(J.threads, "params.yml");
    g_sim = sim;
    sim->initialize(nullptr);
    fflush(stdout);
    dup2(saved_out, 1);
    close(saved_out);

    auto body = [&](const std::vector< int > &) {
      e1::sched.ownership = J.ownership;
      e1::sched.monitor = monitor;
      e1::sched.max_steps = 300000;
      e1::sched.livelock_yields = 200;
      e1::sched.post_points = J.cfg.post_points;
      if (J.prune) {
        e1::sched.track_atomics = true;
        e1::sched.hash_states = true;
        e1::sched.shared_hash = simulation_state_hash;
      }
      g_expect_continuous = J.cfg.continuous;
      if (!freopen("/dev/null", "w", stdout)) {
      }
      if (A.replay.empty() && !freopen("/dev/null", "w", stderr)) {
      }
      sim->run(nullptr);
      if (L.iterations_ended != J.cfg.iterations)
        viol("iterations", fmt("%ld of %d iterations ended", L.iterations_ended, J.cfg.iterations));
      e1::rec.outcome = L.outcome;
      e1::finish_child(e1::V_OK);
    };

    if (!A.replay.empty()) {
      const std::string txt = read_file(A.replay);
      std::vector< int > prefix = e1::prefix_from_string(replay_field(txt, "schedule"));
      e1::ExecResult r = e1::run_one(body, prefix, 600.);
      printf("replay %s schedule %s: verdict=%s choice points=%zu outcome=%s\n", tag.c_str(),
             e1::prefix_to_string(prefix).c_str(), e1::verdict_name(r.verdict), r.choices.size(),
             r.outcome.c_str());
      for (auto &v : r.violations)
        printf("  violation: %s\n", v.c_str());
      fputs(r.events.c_str(), stdout);
      ++R.evaluations;
      R.nontrivial += 2;
      if (r.verdict != e1::V_OK || !r.violations.empty())
        R.violation("C01:replayed", fmt("verdict %s, %zu violations", e1::verdict_name(r.verdict), r.violations.size()));
      delete sim;
      continue;
    }

    // determinism self test: the default schedule twice
    e1::ExecResult d1 = e1::run_one(body, {}, 120.), d2 = e1::run_one(body, {}, 120.);
    if (d1.trace_hash != d2.trace_hash) {
      fprintf(stderr, "CHECK-ERROR: default schedule of %s is not deterministic\n", tag.c_str());
      return 4;
    }

    e1::ExploreOptions opt;
    opt.max_bound = J.bound;
    if (A.geti("kinds", -1) >= 0)
      opt.kind_mask = (unsigned)A.geti("kinds", -1);
    opt.prune_bounded = J.prune;
    opt.jobs = 16;
    opt.exec_timeout = 60.;
    // share the remaining time over the remaining jobs, weighted by bound
    double remaining = A.deadline - R.elapsed();
    double wsum = 0.;
    for (size_t k = ij; k < jobs.size(); ++k)
      wsum += jobs[k].bound >= 5 ? 60. : jobs[k].bound >= 2 ? 12. : 1.;
    opt.deadline = std::max(2., remaining * (J.bound >= 5 ? 60. : J.bound >= 2 ? 12. : 1.) / wsum);
    e1::ExploreStats st = e1::explore(body, opt);
    total_exec += st.executions + 2;
    total_points += st.choice_points;
    total_outcomes += st.outcomes.size();
    for (auto &s : st.seen)
      seen_all.insert(s);
    R.evaluations += st.executions + 2;
    R.nontrivial += st.executions > 1 ? st.executions - 1 : 0; // every non-default schedule deviates
    if (!st.complete)
      R.cap(fmt("%s: deadline cut the search inside bound %d (bound %d completed, %" PRIu64 " executions)",
                tag.c_str(), J.bound, st.bound_completed, st.executions));
    std::string verdicts;
    for (auto &kv : st.verdicts)
      verdicts += fmt("%s:%" PRIu64 " ", e1::verdict_name(kv.first), kv.second);
    R.set_json("run:" + tag + fmt("/bound=%d%s", J.bound, J.prune ? "/state-pruned" : ""),
               fmt("{\"executions\": %" PRIu64 ", \"choice_points_default\": %zu, \"max_choice_points\": %" PRIu64
                   ", \"distinct_outcomes\": %zu, \"bound_completed\": %d, \"verdicts\": \"%s\"}",
                   st.executions, d1.choices.size(), st.max_points, st.outcomes.size(), st.bound_completed,
                   verdicts.c_str()));
    if (ij < 3 && !st.sample_schedules.empty())
      R.sample(fmt("{\"config\": \"%s\", \"deviations(pos:choice;len)\": \"%s\", \"default_outcome\": \"%s\"}",
                   tag.c_str(), st.sample_schedules.back().c_str(), json_escape(d1.outcome).c_str()));
    for (const e1::ExecResult &f : st.failures) {
      std::string key, detail;
      if (!f.violations.empty()) {
        size_t bar = f.violations[0].find('|');
        key = f.violations[0].substr(0, bar);
        detail = f.violations[0].substr(bar == std::string::npos ? 0 : bar + 1);
      } else {
        key = std::string("C01:") + e1::verdict_name(f.verdict);
        detail = f.outcome;
      }
      R.violation(key + ":" + J.cfg.name,
                  fmt("%s [%s, schedule %s, verdict %s, %zu choice points]", detail.c_str(), tag.c_str(),
                      e1::prefix_to_string(f.prefix).c_str(), e1::verdict_name(f.verdict), f.choices.size()),
                  fmt("{\"config\": \"%s\", \"threads\": %d, \"ownership\": %d, \"schedule\": \"%s\"}",
                      J.cfg.name.c_str(), J.threads, J.ownership, e1::prefix_to_string(f.prefix).c_str()));
    }
    if (st.failure_count > st.failures.size())
      R.set("failing_executions:" + tag, (double)st.failure_count);
    delete sim;
    ++jobs_done;
    if (chdir("/") != 0) {
    }
    std::string cmd = "rm -rf '" + dir + "'";
    if (system(cmd.c_str())) {
    }
  }
  if (chdir("/") != 0) {
  }
  {
    std::string cmd = "rm -rf '" + g_workdir + "'";
    if (system(cmd.c_str())) {
    }
  }
  remove_fast_tmpdir(tmp);
  std::string seen;
  for (auto &s : seen_all)
    seen += s + " ";
  R.set_str("events_exercised", seen);
  R.set("states", (double)total_points);
  R.set("transitions", (double)total_points);
  R.set("traces_validated_against_impl", (double)total_exec);
  R.set("configuration_runs", (double)jobs_done);
  R.set("distinct_outcomes_summed", (double)total_outcomes);
  // vacuity guard: the events the configurations exist to exercise
  if (A.replay.empty() && A.get("only").empty() && jobs_done == njobs) {
    for (const char *need : {"discrete-launch", "continuous-launch", "re-emission", "not-re-emitted", "escaped",
                             "absorbed-final", "second-iteration", "tasktype-17", "tasktype-3", "premature-launch",
                             "buffer-full"})
      if (!seen_all.count(need))
        R.cap(std::string("vacuity: event never exercised: ") + need);
  }
  R.rule = "deviation-bounded exhaustive exploration of thread schedules of the real photon loop "
           "(TaskBasedIonizationSimulation::run, hook flavour, buffer size 3): every execution is the real code "
           "forked from an initialised simulation under the cooperative scheduler; bound 0, then 1, (2 on selected "
           "configurations) run to completion; non-trivial = executions with at least one deviation from the default schedule; "
           "states/transitions = scheduling points visited (stateless search)";
  R.assumptions.push_back("code between two hooked synchronisation points is atomic; sequential consistency");
  R.assumptions.push_back("pool/queue capacities are large enough (256 buffers, 1024 tasks, 256 queue slots)");
  return R.finish(A);
}
