CHECK = {
    "id": "C01",
    "level": "model_checking",
    "engine": "E1",
    "technique": "stateless model checking of the implementation: deviation-bounded exhaustive exploration of thread schedules of the real photon loop under a cooperative scheduler, packet ledger oracle",
    "level_text": "Every thread schedule with at most 1 deviation from the default schedule (2 on selected configurations; "
                  "thorough: more threads/ownership variants and bound 2 on six configurations) of the real "
                  "TaskBasedIonizationSimulation::run photon loop (and of the duplicated loop inside "
                  "TaskBasedRadiationHydrodynamicsSimulation::do_simulation, radiation on, 2 iterations per hydro step) is executed on 20 tiny configurations (layouts, periodicity, "
                  "point/boundary/external sources, diffuse re-emission, copy level, 1-2 iterations, 3-12 packets, buffer size 3, "
                  "continuous-source batches that exactly fill a buffer, tight buffer pools with scheduling points after every "
                  "modifying atomic operation). On the minimal continuous-source configuration a state-pruned search (a state is "
                  "not expanded again when it was reached before with at least as many deviations left; state = every atomic "
                  "variable, queues, tasks, buffers incl. packets, subgrid fields) goes to deviation bound 3 (quick) / 5 (thorough, "
                  "about 5e5 executions); it is reported as state-pruned. The exhaustive enumeration of all integer splits of the "
                  "packets over the sources (DistributedPhotonSource) is a separate part. "
                  "A ledger fed by hooks checks on every execution that each launched packet terminates exactly once, "
                  "requested = terminated = done counter, no task reports more packets done than it terminated, that a subgrid is traversed by one task at a time, "
                  "and that no buffer, task, queue entry, subgrid or continuous buffer is left behind; deadlock, livelock and horizon overruns are violations. "
                  "Lost/duplicated packets and stale tasks are ordering bugs between threads: bounded-exhaustive schedule "
                  "enumeration on the real code is the level that can reach them.",
    "level_note": "Code between two hooked synchronisation points (every AtomicValue/ThreadLock operation, LockFree::add, the "
                  "unsynchronised reads of the run flag, queue sizes and largest-buffer size) is treated as atomic and memory as "
                  "sequentially consistent; 2-3 threads; capacities 256 buffers/1024 tasks/256 queue slots are assumed sufficient. "
                  "Bound completed per configuration is in the evidence.",
    "quick_deadline": 140,
    "thorough_deadline": 2400,
    "parts": [{"name": "photon-loop", "bin": "c01_photon", "share": 9.0},
              {"name": "rhd-photon-loop", "bin": "c07_hydroloop", "args": ["--mode", "2"], "share": 3.0},
              {"name": "packet-split", "bin": "c01_split", "share": 1.0},
              # ThreadSanitizer audit of the same loops running free (decides nothing, lists assumption gaps)
              {"name": "tsan-audit", "bin": "c01_tsan_audit", "needs": ["c01_tsan_run", "c01_photon", "c07_hydroloop"],
               "share": 1.0, "tiers": ["thorough"]}],
    "uses_parts": ["C07"],
    "assumptions": [],
}
