import os as _os
_B = _os.environ.get("VERIF_BUILD") or "/verif/build"
CHECK = {
    "id": "C13",
    "level": "model_checking",
    "engine": "E2",
    "technique": "explicit-state walk over the positions of the real random generator (save/restore in every state), "
                 "bit-exact comparison of its stream with an independent integer RANLUX over a seed alphabet, and "
                 "whole runs repeated with the same seed and compared byte for byte - the executable started several times "
                 "AND the simulation object / photon source / re-emission classes used several times inside one process "
                 "(histories of length 2-3 over the problem alphabet)",
    "level_text": "The generator is a small deterministic state machine (12 lagged 48-bit values, borrow, three indices): "
                  "for every seed of the alphabet every position 0..40 (three refill boundaries) is visited, its restart "
                  "image is compared with the state of an independent integer implementation of ranlxd2, it is saved, "
                  "restored, run 100 steps further and saved again, set_seed(b) is applied in every position of a sub-alphabet "
                  "of seed pairs (constructed and restored generators) and must give exactly the fresh generator of b, "
                  "and the first 600 outputs are compared bit for bit "
                  "with the reference (and with GSL's ranlxd2 on the documented seed domain). Whole task-based runs are "
                  "executed four times per (configuration, seed) and all snapshot files compared; the alphabet of 10 problems "
                  "has 1, 2, 3 and 7 sources (equal and unequal luminosities), packet numbers that leave 0, 1, 2 and 6 packets "
                  "over after rounding, copies of source subgrids, helium with the physical diffuse field, a continuous source, "
                  "non-cubic boxes. Because state hidden in a process (function-level statics, rand()) is invisible to separate "
                  "executions, the same problems are also run 3 times inside one process and once after every predecessor of a "
                  "history alphabet, DistributedPhotonSource is constructed repeatedly for an alphabet of (sources, weights, "
                  "packet number, grid copies), and every stand-alone consumer of random numbers (56: physical re-emission "
                  "in 18 states x both overloads, fixed-value re-emission x 3 probabilities, 13 spectra, 4 continuous sources) is replayed with the same seed on the same "
                  "object, on a second object and after all others (outputs and final generator state bit for bit). The state space walked "
                  "is finite and completely enumerated inside the stated bound, which is why model checking of the state "
                  "machine is the natural level; the whole-run part is exhaustive exploration of a small configuration alphabet.",
    "level_note": "Bound: 337 (quick) / 4 165 (thorough) of the 2^31 seeds with the full walk (600 outputs, save points 0..40), "
                  "thorough additionally seeds 4096..131071 stream only; re-seeding: 16 / 32 seeds a x 8 seeds b x positions 0..40 x "
                  "{constructed, restored} = 10 496 / 20 992 set_seed transitions; 57 024 / 215 424 boundary states injected through the "
                  "restart constructor (alphabet {0,1,2,2^47,2^48-2,2^48-1}, <=2 / <=3 marked positions, both borrows, 12 "
                  "alignments) so that every borrow decision sees exact ties. Nothing is claimed for other seeds beyond the "
                  "argument in NOTES.md. Whole runs: 10 configurations x 2 (quick) / 3 (thorough) seeds, one thread, on this "
                  "machine; the HDF5 'Creation time' attribute is the only field excluded from the content comparison, and the "
                  "byte comparison pins the calendar second with an LD_PRELOAD shim. In one process: 10 configurations x 1 / 2 "
                  "seeds x (3 consecutive runs + 3 / 10 predecessor histories: 2 / all 9 other problems and the same problem with "
                  "seed+1) = 100 / 480 simulation runs in 50 / 240 child processes, each first run also compared with the "
                  "executable; DistributedPhotonSource: 3 grid variants (no copies, 2 copies, 4/2/2 copies) x sources "
                  "{1,2,3,5,7,16} / {1,2,3,4,5,7,8,13,16} x 4 weight patterns x 2 layouts x up to 9 / 13 packet numbers (S, 2S+1, 97S, "
                  "97S+1, 97S+S-1, 1000, 1009, 4099, 65537, ...) = 1 248 / 2 760 inputs (those that would give an entry zero "
                  "packets are outside the class's precondition and skipped, counted), 4 constructions each; consumers: 56 x "
                  "3 / 6 seeds x 4 replays of 3 000 / 20 000 calls. Only repetitions inside one process and one thread are "
                  "covered, not other drivers (RHD steps) that build the same classes.",
    "quick_deadline": 90,
    "thorough_deadline": 600,
    "parts": [
        {"name": "ranlux", "bin": "c13_ranlux", "share": 1.0},
        {"name": "runs", "bin": "c13_runs", "share": 2.0,
         "needs": [_B + "/plain/CMacIonize", "c13_fixedtime.so"]},
        {"name": "inproc", "bin": "c13_inproc", "share": 1.5,
         "needs": [_B + "/plain/CMacIonize"]},
    ],
    "assumptions": [
        "GSL (when installed) is used as a third voice only for seeds 0..2^31-1, its documented domain",
        "whole runs: same machine, same executable, one thread; interval timers and diagnostics files are not snapshots and are not compared",
        "in-process repetitions: the driver does what CMacIonize.cpp does for --task-based --threads 1 (constructor, initialize, run; "
        "no log object); its first run is compared with the executable's output for every problem",
        "between in-process repetitions the C library generators (srand/srandom/srand48) are re-seeded differently: a result that "
        "depends on them is not a function of parameter file and seed",
    ],
}
