import os as _os
_B = _os.environ.get("VERIF_BUILD") or "/verif/build"
CHECK = {
    "id": "C13",
    "level": "model_checking",
    "engine": "E2",
    "technique": "explicit-state walk over the positions of the real random generator (save/restore in every state), "
                 "bit-exact comparison of its stream with an independent integer RANLUX over a seed alphabet, and "
                 "whole runs repeated with the same seed and compared byte for byte - the executable started several times "
                 "AND the simulation object / photon source / re-emission classes used several times inside one process "
                 "(histories of length 2-3 over the problem alphabet); the seed of the parameter file enumerated over an alphabet "
                 "closed under s -> s mod 2^k at simulation level (white-box comparison of the thread generators of the "
                 "constructed simulation object with RandomGenerator(seed), whole runs of all seeds compared pairwise, and each "
                 "run compared with a run whose thread-0 generator was replaced by a fresh RandomGenerator(seed))",
    "level_text": "The generator is a small deterministic state machine (12 lagged 48-bit values, borrow, three indices): "
                  "for every seed of the alphabet every position 0..40 (three refill boundaries) is visited, its restart "
                  "image is compared with the state of an independent integer implementation of ranlxd2, it is saved, "
                  "restored, run 100 steps further and saved again, set_seed(b) is applied in every position of a sub-alphabet "
                  "of seed pairs (constructed and restored generators) and must give exactly the fresh generator of b, "
                  "and the first 600 outputs are compared bit for bit "
                  "with the reference (and with GSL's ranlxd2 on the documented seed domain). Whole task-based runs are "
                  "executed four times per (configuration, seed) and all snapshot files compared; the alphabet of 10 problems "
                  "has 1, 2, 3 and 7 sources (equal and unequal luminosities), packet numbers that leave 0, 1, 2 and 6 packets "
                  "over after rounding, copies of source subgrids, helium with the physical diffuse field, a continuous source, "
                  "non-cubic boxes. Because state hidden in a process (function-level statics, rand()) is invisible to separate "
                  "executions, the same problems are also run 3 times inside one process and once after every predecessor of a "
                  "history alphabet, DistributedPhotonSource is constructed repeatedly for an alphabet of (sources, weights, "
                  "packet number, grid copies), and every stand-alone consumer of random numbers (56: physical re-emission "
                  "in 18 states x both overloads, fixed-value re-emission x 3 probabilities, 13 spectra, 4 continuous sources) is replayed with the same seed on the same "
                  "object, on a second object and after all others (outputs and final generator state bit for bit). The seed itself is an input of the simulation, not only of "
                  "the generator: a list of named seeds around and beyond every integer width (2^k, 2^k+42 for every k <= 30, 2^8/2^16/2^24 "
                  "-1/+0/+1, 2^31-2, 2^31-1, 16843050 = 2^24+2^16+2^8+42, 1000/1042, ...) is closed under s -> s mod 2^k (k = 1..31) and for every "
                  "seed of it (i) the real TaskBasedIonizationSimulation is constructed with 1, 2, 3, 4 threads and the state of the generator of "
                  "thread 0 after the constructor and after initialize() must be exactly that of RandomGenerator(seed), the generator of thread t "
                  "must differ between different seeds, (ii) the executable is run and no two different seeds (after 0 -> 1) may write the same "
                  "snapshots - in particular seed s and s mod 2^k -, (iii) the run must equal a run with another seed in the parameter "
                  "file whose thread-0 generator was replaced by RandomGenerator(seed) after the constructor. The state space walked "
                  "is finite and completely enumerated inside the stated bound, which is why model checking of the state "
                  "machine is the natural level; the whole-run part is exhaustive exploration of a small configuration alphabet.",
    "level_note": "Bound: 337 (quick) / 4 165 (thorough) of the 2^31 seeds with the full walk (600 outputs, save points 0..40), "
                  "thorough additionally seeds 4096..131071 stream only; re-seeding: 16 / 32 seeds a x 8 seeds b x positions 0..40 x "
                  "{constructed, restored} = 10 496 / 20 992 set_seed transitions; 57 024 / 215 424 boundary states injected through the "
                  "restart constructor (alphabet {0,1,2,2^47,2^48-2,2^48-1}, <=2 / <=3 marked positions, both borrows, 12 "
                  "alignments) so that every borrow decision sees exact ties. Nothing is claimed for other seeds beyond the "
                  "argument in NOTES.md. Whole runs: 10 configurations x seeds {42, 1} + 16843050 for every second configuration (quick) / "
                  "{42, 1, 16843050, 123456789, 2^31-1} (thorough), one thread, on this machine; the HDF5 'Creation time' attribute is the only field excluded from the content comparison, and the "
                  "byte comparison pins the calendar second with an LD_PRELOAD shim. In one process: 10 configurations x 1 / 3 "
                  "seeds (42 / 42, 1, 16843050) x (3 consecutive runs + 3 / 10 predecessor histories: 2 / all 9 other problems and the same problem with "
                  "seed+1) = 100 / 720 simulation runs in 50 / 360 child processes, each first run also compared with the "
                  "executable; DistributedPhotonSource: 3 grid variants (no copies, 2 copies, 4/2/2 copies) x sources "
                  "{1,2,3,5,7,16} / {1,2,3,4,5,7,8,13,16} x 4 weight patterns x 2 layouts x up to 9 / 13 packet numbers (S, 2S+1, 97S, "
                  "97S+1, 97S+S-1, 1000, 1009, 4099, 65537, ...) = 1 248 / 2 760 inputs (those that would give an entry zero "
                  "packets are outside the class's precondition and skipped, counted), 4 constructions each; consumers: 56 x "
                  "3 / 6 seeds x 4 replays of 3 000 / 20 000 calls. Only repetitions inside one process and one thread are "
                  "covered, not other drivers (RHD steps) that build the same classes. Seed at simulation level: 86 named seeds, "
                  "180 after closure under mod 2^k (quick) / 238 named, 302 closed (thorough); white box: all 10 problems x closed alphabet "
                  "x {1, 3} threads, the problems ascii-direct and hdf5-fixed-2sources additionally every seed 0..4095 x {1, 2, 3, 4} threads (thorough: "
                  "the closed alphabet also x {5, 16, 100} threads, and every seed 4096..66000 x {1, 2} threads on ascii-direct); whole runs quick: "
                  "ascii-direct x closed alphabet (injection for the named seeds), hdf5-fixed-2sources x named seeds (injection for every "
                  "third) = 266 + 115 runs; thorough: all 10 problems x closed alphabet swept (3 020 runs), injection for every seed on ascii-direct "
                  "and every second seed on the others (1 661 runs). Seeds outside 0..2^31-1 and negative seeds are "
                  "not part of the simulation-level alphabet; a non-power-of-two reduction of the seed (s mod 1000) is seen by the white-box and the "
                  "injection oracle for every seed it changes, by the pairwise comparison only for pairs inside the alphabet (1000/1042 vs 0/42). The comparisons of the per-thread generators and of whole runs with RandomGenerator(seed) are RECORDED, NOT JUDGED (the property does not prescribe how a simulation derives its generators from the seed); judged at simulation level are only: different seeds give different per-thread generator states and different snapshots.",
    "quick_deadline": 90,
    "thorough_deadline": 900,
    "parts": [
        {"name": "ranlux", "bin": "c13_ranlux", "share": 1.0},
        {"name": "runs", "bin": "c13_runs", "share": 2.5,
         "needs": [_B + "/plain/CMacIonize", "c13_fixedtime.so"]},
        {"name": "inproc", "bin": "c13_inproc", "share": 1.5,
         "needs": [_B + "/plain/CMacIonize"]},
        {"name": "simseed", "bin": "c13_simseed", "share": 2.5,
         "needs": [_B + "/plain/CMacIonize"]},
    ],
    "assumptions": [
        "GSL (when installed) is used as a third voice only for seeds 0..2^31-1, its documented domain",
        "whole runs: same machine, same executable, one thread; interval timers and diagnostics files are not snapshots and are not compared",
        "in-process repetitions: the driver does what CMacIonize.cpp does for --task-based --threads 1 (constructor, initialize, run; "
        "no log object); its first run is compared with the executable's output for every problem",
        "seed at simulation level: the white-box oracle 'generator of thread 0 == RandomGenerator(seed)' is the stream assignment the "
        "property's anchor states (seed + thread number); for threads >= 1 only 'different seeds give different generators' is demanded; "
        "that two threads of one simulation get the same stream for 'random seed: 0' (0+0 -> 1 and 0+1 = 1) is recorded in the evidence but "
        "is not a violation of a property about one thread",
        "the white-box constructions use the problem's parameter file with small buffer/task/queue numbers (the object is never run)",
        "between in-process repetitions the C library generators (srand/srandom/srand48) are re-seeded differently: a result that "
        "depends on them is not a function of parameter file and seed",
    ],
}
