import os as _os
_B = _os.environ.get("VERIF_BUILD") or "/verif/build"
CHECK = {
    "id": "C13",
    "level": "model_checking",
    "engine": "E2",
    "technique": "explicit-state walk over the positions of the real random generator (save/restore in every state), "
                 "bit-exact comparison of its stream with an independent integer RANLUX over a seed alphabet, and "
                 "whole runs repeated with the same seed and compared byte for byte",
    "level_text": "The generator is a small deterministic state machine (12 lagged 48-bit values, borrow, three indices): "
                  "for every seed of the alphabet every position 0..40 (three refill boundaries) is visited, its restart "
                  "image is compared with the state of an independent integer implementation of ranlxd2, it is saved, "
                  "restored, run 100 steps further and saved again, set_seed(b) is applied in every position of a sub-alphabet "
                  "of seed pairs (constructed and restored generators) and must give exactly the fresh generator of b, "
                  "and the first 600 outputs are compared bit for bit "
                  "with the reference (and with GSL's ranlxd2 on the documented seed domain). Whole task-based runs are "
                  "executed four times per (configuration, seed) and all snapshot files compared. The state space walked "
                  "is finite and completely enumerated inside the stated bound, which is why model checking of the state "
                  "machine is the natural level; the whole-run part is exhaustive exploration of a small configuration alphabet.",
    "level_note": "Bound: 337 (quick) / 4 165 (thorough) of the 2^31 seeds with the full walk (600 outputs, save points 0..40), "
                  "thorough additionally seeds 4096..131071 stream only; re-seeding: 16 / 32 seeds a x 8 seeds b x positions 0..40 x "
                  "{constructed, restored} = 10 496 / 20 992 set_seed transitions; 57 024 / 215 424 boundary states injected through the "
                  "restart constructor (alphabet {0,1,2,2^47,2^48-2,2^48-1}, <=2 / <=3 marked positions, both borrows, 12 "
                  "alignments) so that every borrow decision sees exact ties. Nothing is claimed for other seeds beyond the "
                  "argument in NOTES.md. Whole runs: 6 configurations x 2 (quick) / 3 (thorough) seeds, one thread, on this "
                  "machine; the HDF5 'Creation time' attribute is the only field excluded from the content comparison, and the "
                  "byte comparison pins the calendar second with an LD_PRELOAD shim.",
    "quick_deadline": 90,
    "thorough_deadline": 600,
    "parts": [
        {"name": "ranlux", "bin": "c13_ranlux", "share": 1.0},
        {"name": "runs", "bin": "c13_runs", "share": 2.0,
         "needs": [_B + "/plain/CMacIonize", "c13_fixedtime.so"]},
    ],
    "assumptions": [
        "GSL (when installed) is used as a third voice only for seeds 0..2^31-1, its documented domain",
        "whole runs: same machine, same executable, one thread; interval timers and diagnostics files are not snapshots and are not compared",
    ],
}
