// C13 (a): the real RandomGenerator against an independent integer
// implementation of RANLUX ranlxd2 written from its mathematical definition,
// plus an explicit-state walk over generator positions with save/restore in
// every state.
//
// Reference (nothing shared with the code under test, no circular buffer, no
// floating point):
//   seeding   : bit sequence r_n = r_(n-31) XOR r_(n-13), r_0..r_30 = bits of the
//               seed (seed 0 -> 1, low 31 bits), s_k = sum_m (1-r_(48k+m)) 2^(47-m)
//   recurrence: s_n = s_(n-5) - s_(n-12) - c_(n-1)  (mod 2^48), c_n = borrow
//   output t  : u_t = s_(397*(t/12+1) + t%12) / 2^48   (luxury 397: 397 steps per
//               12 delivered values)
// Known answers: GSL test suite, seed 1, 10000th value scaled by 2^32:
//   ranlxd2 -> 3949287736, ranlxd1 (luxury 202) -> 1998227290.
// If GSL is installed its ranlxd2/ranlxd1 are a third voice.
#include "RandomGenerator.hpp"
#include "RestartReader.hpp"
#include "RestartWriter.hpp"
#include "verif_common.hpp"

#include <algorithm>
#include <unordered_map>
#ifdef C13_HAVE_GSL
#include <gsl/gsl_rng.h>
#endif

using namespace verif;

static const uint64_t M48 = (1ull << 48) - 1;
static const double TWO48 = 281474976710656.0;

/// independent reference
struct RefRanlux {
  std::vector< uint64_t > s; // linear sequence s_0, s_1, ...
  std::vector< uint8_t > c;  // borrow after computing s_n (c[n], n >= 11)
  int lux;
  RefRanlux(int64_t seed, int luxury = 397) : lux(luxury) {
    uint32_t sd = seed == 0 ? 1u : (uint32_t)((uint64_t)seed & 0x7FFFFFFFull);
    std::vector< uint8_t > r(12 * 48);
    for (int n = 0; n < 31; ++n)
      r[n] = (sd >> n) & 1u;
    for (size_t n = 31; n < r.size(); ++n)
      r[n] = r[n - 31] ^ r[n - 13];
    s.resize(12);
    for (int k = 0; k < 12; ++k) {
      uint64_t x = 0;
      for (int m = 0; m < 48; ++m)
        x = (x << 1) | (uint64_t)(1 - r[48 * k + m]);
      s[k] = x;
    }
    c.assign(12, 0);
  }
  /// start from an arbitrary state: the 12 lagged values oldest first and the pending borrow
  RefRanlux(const uint64_t *oldest_first, int carry, int luxury) : lux(luxury) {
    s.assign(oldest_first, oldest_first + 12);
    c.assign(12, 0);
    c[11] = (uint8_t)carry;
  }
  void extend(size_t upto) { // make s[upto] available
    while (s.size() <= upto) {
      const size_t n = s.size();
      const int64_t v = (int64_t)s[n - 5] - (int64_t)s[n - 12] - (int64_t)c[n - 1];
      if (v < 0) {
        s.push_back((uint64_t)(v + (int64_t)(M48 + 1)));
        c.push_back(1);
      } else {
        s.push_back((uint64_t)v);
        c.push_back(0);
      }
    }
  }
  static size_t index_of_output(size_t t, int lux) { return (size_t)lux * (t / 12 + 1) + t % 12; }
  uint64_t out(size_t t) {
    const size_t n = index_of_output(t, lux);
    extend(n + 12);
    return s[n];
  }
};

static std::string g_tmp;
static std::string save(const RandomGenerator &g) {
  {
    RestartWriter w(g_tmp);
    g.write_restart_file(w);
  }
  return read_file(g_tmp);
}
static RandomGenerator restore(const std::string &bytes) {
  FILE *f = fopen(g_tmp.c_str(), "wb");
  fwrite(bytes.data(), 1, bytes.size(), f);
  fclose(f);
  RestartReader r(g_tmp);
  return RandomGenerator(r);
}

struct SeedCase {
  int64_t seed;
  const char *cls;
};

static uint64_t bits(double x) {
  uint64_t u;
  memcpy(&u, &x, 8);
  return u;
}

static const int NOUT = 600;
static const int PMAX = 40;
static const int NCONT = 100;

struct Counters {
  uint64_t states = 0, transitions = 0, restores = 0, outputs_compared = 0, gsl_compared = 0,
           zeros = 0, refill_boundaries = 0, injected = 0, reseed_cases = 0, reseed_borrow_set = 0;
};

/// expected restart image of the generator after p outputs (reference model of the state)
static std::string expected_image(RefRanlux &ref, int p, std::string *why = nullptr) {
  const int r = p == 0 ? 0 : (p - 1) / 12 + 1;
  const size_t base = (size_t)397 * r;
  ref.extend(base + 12);
  double x[12];
  for (int i = 0; i < 12; ++i)
    x[(base + i) % 12] = (double)ref.s[base + i] / TWO48;
  const double carry = ref.c[base + 11] ? 1.0 / TWO48 : 0.;
  const uint_fast32_t ir = p == 0 ? 11 : (base + (p - 1) % 12) % 12;
  const uint_fast32_t jr = (7 + base) % 12;
  const uint_fast32_t ir_old = r == 0 ? 0 : base % 12;
  const uint_fast32_t pr = 397;
  std::string img;
  img.append((const char *)x, sizeof(x));
  img.append((const char *)&carry, 8);
  img.append((const char *)&ir, sizeof(ir));
  img.append((const char *)&jr, sizeof(jr));
  img.append((const char *)&ir_old, sizeof(ir_old));
  img.append((const char *)&pr, sizeof(pr));
  return img;
}
static const char *image_field(size_t byte) {
  if (byte < 96)
    return "xdbl";
  if (byte < 104)
    return "carry";
  const size_t w = sizeof(uint_fast32_t);
  static const char *n[] = {"ir", "jr", "ir_old", "pr"};
  size_t k = (byte - 104) / w;
  return k < 4 ? n[k] : "length";
}

static void check_seed(const SeedCase &sc, Result &R, Counters &C,
                       std::unordered_map< std::string, int64_t > &prefixes, bool walk, bool verbose) {
  const int64_t seed = sc.seed;
  const std::string cls = sc.cls;
  const std::string rp = fmt("{\"seed\": %" PRId64 ", \"class\": \"%s\"}", seed, sc.cls);
  RefRanlux ref(seed);
  // --- stream ---
  RandomGenerator g((int_fast32_t)seed);
  double out[NOUT + PMAX + NCONT + 1];
  const int ntot = NOUT > PMAX + NCONT ? NOUT : PMAX + NCONT;
  bool stream_ok = true;
  for (int t = 0; t < ntot; ++t) {
    out[t] = g.get_uniform_random_double();
    const uint64_t want = ref.out(t);
    const double wd = (double)want / TWO48; // exact: want < 2^48
    ++C.outputs_compared;
    ++R.evaluations;
    if (!(out[t] >= 0. && out[t] < 1.))
      R.violation("C13:range:outside-[0,1):" + cls,
                  fmt("seed %" PRId64 " output %d = %a", seed, t, out[t]), rp);
    else {
      const double scaled = out[t] * TWO48;
      if (scaled != std::floor(scaled))
        R.violation("C13:range:not-multiple-of-2^-48:" + cls,
                    fmt("seed %" PRId64 " output %d = %a", seed, t, out[t]), rp);
    }
    if (out[t] == 0.)
      ++C.zeros;
    if (bits(out[t]) != bits(wd) && stream_ok) {
      stream_ok = false;
      R.violation(fmt("C13:stream-vs-reference:%s:first-diff-in-block-%s", sc.cls,
                      t < 12 ? "0" : (t < 24 ? "1" : "later")),
                  fmt("seed %" PRId64 ": output %d is %a (%.0f/2^48), reference %a (%" PRIu64 "/2^48)",
                      seed, t, out[t], out[t] * TWO48, wd, want),
                  rp);
    }
    if (verbose && (t < 3 || t == 11 || t == 12 || t == ntot - 1))
      printf("  seed %" PRId64 " output %d: real %a reference %a\n", seed, t, out[t], wd);
  }
  C.refill_boundaries += ntot / 12;
  R.distinct.insert(fnv1a(out, sizeof(double) * NOUT));
#ifdef C13_HAVE_GSL
  // GSL documents seeds 0..2^31-1 only (it treats other values differently from the code under
  // test, which keeps the low 31 bits), so it is a third voice on that domain only
  if (seed >= 0 && seed <= 2147483647ll) {
    gsl_rng *gr = gsl_rng_alloc(gsl_rng_ranlxd2);
    gsl_rng_set(gr, (unsigned long)seed);
    for (int t = 0; t < NOUT; ++t) {
      const double u = gsl_rng_uniform(gr);
      ++C.gsl_compared;
      const double wd = (double)ref.out(t) / TWO48;
      if (bits(u) != bits(wd)) {
        R.violation("C13:harness:reference-vs-gsl",
                    fmt("seed %" PRId64 " output %d: GSL ranlxd2 %a, reference %a", seed, t, u, wd), rp);
        break;
      }
      if (bits(u) != bits(out[t])) {
        R.violation(fmt("C13:stream-vs-gsl:%s", sc.cls),
                    fmt("seed %" PRId64 " output %d: GSL ranlxd2 %a, RandomGenerator %a", seed, t, u,
                        out[t]),
                    rp);
        break;
      }
    }
    gsl_rng_free(gr);
  }
#endif
  // --- distinct seeds give distinct 12-value prefixes ---
  {
    const int64_t eff = seed == 0 ? 1 : (int64_t)((uint64_t)seed & 0x7FFFFFFFull);
    std::string key((const char *)out, 12 * sizeof(double));
    auto it = prefixes.find(key);
    if (it == prefixes.end())
      prefixes.emplace(key, eff);
    else if (it->second != eff)
      R.violation("C13:prefix-collision",
                  fmt("seeds %" PRId64 " and %" PRId64 " (31-bit values) give the same first 12 outputs",
                      it->second, eff),
                  rp);
  }
  // --- get_random_integer ---
  {
    RandomGenerator gi((int_fast32_t)seed);
    for (int t = 0; t < 26; ++t) {
      const int_fast32_t v = gi.get_random_integer();
      const int_fast32_t want = (int_fast32_t)(ref.out(t) >> 17);
      ++R.evaluations;
      if (v != want || v < 0 || v >= 2147483648ll) {
        R.violation("C13:random-integer",
                    fmt("seed %" PRId64 " draw %d: %ld, reference %ld", seed, t, (long)v, (long)want), rp);
        break;
      }
    }
  }
  if (!walk)
    return;
  // --- explicit-state walk: positions 0..PMAX+NCONT, save in every state ---
  RandomGenerator w((int_fast32_t)seed);
  std::vector< std::string > image(PMAX + NCONT + 1);
  for (int p = 0; p <= PMAX + NCONT; ++p) {
    image[p] = save(w);
    if (p <= PMAX) {
      ++C.states;
      R.distinct.insert(fnv1a(image[p]));
      const std::string want = expected_image(ref, p);
      ++R.evaluations;
      if (image[p] != want) {
        size_t b = 0;
        while (b < image[p].size() && b < want.size() && image[p][b] == want[b])
          ++b;
        const char *field = image[p].size() != want.size() ? "length" : image_field(b);
        R.violation(fmt("C13:restart-image:%s:%s", field, p == 0 ? "after-seeding" : "after-outputs"),
                    fmt("seed %" PRId64 " position %d: restart image (%zu bytes) differs from the reference "
                        "state (%zu bytes) at byte %zu",
                        seed, p, image[p].size(), want.size(), b),
                    fmt("{\"seed\": %" PRId64 ", \"class\": \"%s\", \"position\": %d}", seed, sc.cls, p));
      }
    }
    if (p < PMAX + NCONT) {
      const double u = w.get_uniform_random_double();
      if (p < PMAX)
        ++C.transitions;
      if (bits(u) != bits(out[p]))
        R.violation("C13:stream:second-instance-differs",
                    fmt("seed %" PRId64 " output %d: %a vs %a from another instance", seed, p, u, out[p]), rp);
    }
  }
  for (int p = 0; p <= PMAX; ++p) {
    const std::string rpp =
        fmt("{\"seed\": %" PRId64 ", \"class\": \"%s\", \"position\": %d}", seed, sc.cls, p);
    RandomGenerator h = restore(image[p]);
    ++C.restores;
    ++R.evaluations;
    const std::string again = save(h);
    if (again != image[p]) {
      size_t b = 0;
      while (b < again.size() && b < image[p].size() && again[b] == image[p][b])
        ++b;
      R.violation(fmt("C13:restart:redump-bytes:%s",
                      again.size() != image[p].size() ? "length" : image_field(b)),
                  fmt("seed %" PRId64 " position %d: save -> restore -> save changes byte %zu (%zu vs %zu bytes)",
                      seed, p, b, again.size(), image[p].size()),
                  rpp);
    }
    for (int i = 0; i < NCONT; ++i) {
      const double u = h.get_uniform_random_double();
      if (bits(u) != bits(out[p + i])) {
        R.violation(fmt("C13:restart:continuation:position-mod-12=%d", p % 12),
                    fmt("seed %" PRId64 ": restored at position %d, output %d after the restore is %a, the "
                        "uninterrupted generator gave %a",
                        seed, p, i, u, out[p + i]),
                    rpp);
        break;
      }
    }
    if (save(h) != image[p + NCONT])
      R.violation("C13:restart:state-after-continuation",
                  fmt("seed %" PRId64 ": restored at %d, state after %d further outputs differs from the "
                      "uninterrupted generator's",
                      seed, p, NCONT),
                  rpp);
  }
}

// ---------------------------------------------------------------------------
// states injected through the restart constructor: a boundary alphabet that
// makes the borrow decision of every one of the three loops of
// increment_state (and of ranlux_step) see exact ties (difference 0), borrows
// of one unit and the extreme values - situations a seeded stream meets with
// probability 2^-48 per step
// ---------------------------------------------------------------------------
static std::string injected_replay(const uint64_t *x, int carry, int r) {
  std::string a;
  for (int i = 0; i < 12; ++i)
    a += fmt("%s%" PRIu64, i ? " " : "", x[i]);
  return fmt("{\"injected_x\": \"%s\", \"carry\": %d, \"alignment\": %d}", a.c_str(), carry, r);
}
/// x[i]: array contents in units of 2^-48; r: number of refills "already done" mod 12
static void check_injected(const uint64_t *x, int carry, int r, Result &R, Counters &C, bool verbose) {
  const int NINJ = 36;
  double xd[12];
  for (int i = 0; i < 12; ++i)
    xd[i] = (double)x[i] / TWO48;
  const double cd = carry ? 1.0 / TWO48 : 0.;
  const uint_fast32_t ir_old = (uint_fast32_t)r, jr = (uint_fast32_t)((7 + r) % 12),
                      ir = (uint_fast32_t)((r + 11) % 12), pr = 397;
  std::string img;
  img.append((const char *)xd, sizeof(xd));
  img.append((const char *)&cd, 8);
  img.append((const char *)&ir, sizeof(ir));
  img.append((const char *)&jr, sizeof(jr));
  img.append((const char *)&ir_old, sizeof(ir_old));
  img.append((const char *)&pr, sizeof(pr));
  RandomGenerator h = restore(img);
  uint64_t oldest_first[12];
  for (int i = 0; i < 12; ++i)
    oldest_first[i] = x[(r + i) % 12];
  RefRanlux ref(oldest_first, carry, 397);
  ++C.states;
  ++C.injected;
  R.distinct.insert(fnv1a(img));
  for (int t = 0; t < NINJ; ++t) {
    const double u = h.get_uniform_random_double();
    const uint64_t want = ref.out(t);
    const double wd = (double)want / TWO48;
    ++C.transitions;
    ++R.evaluations;
    if (verbose && (t < 13 || t % 12 == 0))
      printf("  injected state: output %d real %a (%.0f/2^48) reference %" PRIu64 "/2^48\n", t, u, u * TWO48, want);
    if (!(u >= 0. && u < 1.)) {
      R.violation(fmt("C13:range:outside-[0,1):injected-state:refill-%d", t / 12),
                  fmt("state x=[%s]/2^48 carry %d alignment %d: output %d = %a (reference %" PRIu64 "/2^48)",
                      replay_field(injected_replay(x, carry, r), "injected_x").c_str(), carry, r, t, u, want),
                  injected_replay(x, carry, r));
      return;
    }
    if (bits(u) != bits(wd)) {
      R.violation(fmt("C13:step-vs-reference:injected-state:refill-%d", t / 12),
                  fmt("state x=[%s]/2^48 carry %d alignment %d: output %d is %a (%.0f/2^48), reference %" PRIu64
                      "/2^48",
                      replay_field(injected_replay(x, carry, r), "injected_x").c_str(), carry, r, t, u,
                      u * TWO48, want),
                  injected_replay(x, carry, r));
      return;
    }
  }
}
static void injected_states(Result &R, Counters &C, bool thorough) {
  const uint64_t A[6] = {0, 1, 2, 1ull << 47, M48 - 1, M48};
  const int maxbits = thorough ? 3 : 2;
  for (int mask = 0; mask < 4096; ++mask) {
    if (__builtin_popcount(mask) > maxbits)
      continue;
    if (R.out_of_time()) {
      R.hit_deadline(fmt("injected states: stopped at mask %d", mask));
      return;
    }
    for (int ia = 0; ia < 6; ++ia)
      for (int ib = 0; ib < 6; ++ib) {
        if (ia == ib && mask != 0)
          continue; // same state as mask 0
        uint64_t x[12];
        for (int i = 0; i < 12; ++i)
          x[i] = ((mask >> i) & 1) ? A[ib] : A[ia]; // background a, marked positions b
        for (int carry = 0; carry < 2; ++carry)
          for (int r = 0; r < 12; ++r)
            check_injected(x, carry, r, R, C, false);
      }
  }
}

// ---------------------------------------------------------------------------
// re-seeding histories: set_seed(b) on a generator that has already been used
// (FractalDensityMask re-seeds used generators) must give exactly the fresh
// generator of seed b, whatever state (borrow, indices) the old stream left
// ---------------------------------------------------------------------------
static const int NRESEED = 100;
/// via 0: generator constructed with seed a; via 1: generator restored from the restart image
/// dumped after p draws of seed a
static void check_reseed(int64_t a, int64_t b, int p, int via, Result &R, Counters &C, bool verbose) {
  const std::string rp = fmt("{\"reseed_a\": %" PRId64 ", \"reseed_b\": %" PRId64 ", \"position\": %d, \"via\": %d}",
                             a, b, p, via);
  RandomGenerator g((int_fast32_t)a);
  for (int t = 0; t < p; ++t)
    g.get_uniform_random_double();
  const std::string before = save(g);
  double carry_before = 0.;
  if (before.size() >= 104)
    memcpy(&carry_before, before.data() + 96, 8);
  RandomGenerator h = via ? restore(before) : g;
  h.set_seed((int_fast32_t)b);
  ++C.reseed_cases;
  ++C.states;
  ++C.transitions; // the set_seed transition
  ++R.evaluations;
  if (carry_before != 0.)
    ++C.reseed_borrow_set;
  R.distinct.insert(fnv1a(before + fmt("|reseed|%" PRId64, b)));
  const char *vname = via ? "restored-generator" : "constructed-generator";
  const char *bname = carry_before != 0. ? "borrow-set-before-reseed" : "borrow-clear-before-reseed";
  // (ii) state right after set_seed == fresh generator(b) == reference seeding
  RefRanlux ref(b);
  const std::string after = save(h), fresh = save(RandomGenerator((int_fast32_t)b)),
                    want = expected_image(ref, 0);
  if (verbose)
    printf("  seed %" PRId64 ", %d draws (borrow %s), %s, set_seed(%" PRId64 "): image %s fresh image, %s reference\n",
           a, p, carry_before != 0. ? "set" : "clear", vname, b, after == fresh ? "==" : "!=",
           after == want ? "==" : "!=");
  if (after != fresh || after != want) {
    const std::string &cmp = after != want ? want : fresh;
    size_t k = 0;
    while (k < after.size() && k < cmp.size() && after[k] == cmp[k])
      ++k;
    R.violation(fmt("C13:reseed:state:%s:%s:%s", after.size() != cmp.size() ? "length" : image_field(k), vname, bname),
                fmt("generator(seed %" PRId64 ") after %d draws, %s, then set_seed(%" PRId64 "): restart image differs "
                    "from %s at byte %zu (field %s)",
                    a, p, vname, b, after != want ? "the reference state of a fresh generator" : "a fresh generator's",
                    k, after.size() != cmp.size() ? "length" : image_field(k)),
                rp);
  }
  // (i) stream after set_seed == reference stream of seed b (== fresh generator, checked elsewhere)
  RandomGenerator f((int_fast32_t)b);
  for (int t = 0; t < NRESEED; ++t) {
    const double u = h.get_uniform_random_double(), uf = f.get_uniform_random_double();
    const double wd = (double)ref.out(t) / TWO48;
    ++C.transitions;
    if (bits(u) != bits(wd) || bits(u) != bits(uf)) {
      R.violation(fmt("C13:reseed:stream:%s:%s:first-diff-in-block-%s", vname, bname,
                      t < 12 ? "0" : (t < 24 ? "1" : "later")),
                  fmt("generator(seed %" PRId64 ") after %d draws, %s, then set_seed(%" PRId64 "): output %d is %a, "
                      "ranlxd2(%" PRId64 ") gives %a, a fresh generator %a",
                      a, p, vname, b, t, u, b, wd, uf),
                  rp);
      break;
    }
  }
}
static void reseed_walk(Result &R, Counters &C, bool thorough) {
  std::vector< int64_t > as;
  const int na = thorough ? 32 : 16;
  for (int i = 0; i < na - 4; ++i)
    as.push_back(i);
  for (int64_t x : {42ll, 2147483647ll, -1ll, 1ll << 30})
    as.push_back(x);
  const int64_t bs[8] = {0, 1, 2, 42, 12345, 1ll << 30, 2147483647ll, -1};
  for (int64_t a : as) {
    if (R.out_of_time()) {
      R.hit_deadline(fmt("re-seeding walk: stopped at seed a=%" PRId64, a));
      return;
    }
    for (int64_t b : bs)
      for (int p = 0; p <= PMAX; ++p)
        for (int via = 0; via < 2; ++via)
          check_reseed(a, b, p, via, R, C, false);
  }
  if (C.reseed_borrow_set == 0)
    R.violation("C13:harness:reseed-walk-never-sees-borrow",
                "no re-seeding case started from a state with the borrow set; the walk is vacuous for stale-borrow defects");
}

int main(int argc, char **argv) {
  Args A = parse_args(argc, argv);
  Result R(A);
  const std::string tmpd = fast_tmpdir();
  g_tmp = tmpd + "/c13_rng.dump";
  R.rule = "seed alphabet x first 600 outputs of the real generator compared bit for bit with the integer "
           "reference (and GSL when present); walk over positions 0..40 of every seed with save -> "
           "restore -> 100 further outputs -> save in every state. distinct non-trivial = distinct "
           "600-value streams plus distinct restart images (states) actually seen";
  Counters C;
  std::unordered_map< std::string, int64_t > prefixes;

  // self-check of the reference against the published known answers
  {
    RefRanlux r2(1, 397), r1(1, 202);
    const uint64_t a2 = r2.out(9999) >> 16, a1 = r1.out(9999) >> 16;
    if (a2 != 3949287736ull || a1 != 1998227290ull)
      R.violation("C13:harness:reference-known-answer",
                  fmt("reference gives %" PRIu64 " (ranlxd2) / %" PRIu64 " (ranlxd1) for the 10000th value of "
                      "seed 1, published 3949287736 / 1998227290",
                      a2, a1));
    RandomGenerator g(1);
    double u = 0.;
    for (int i = 0; i < 10000; ++i)
      u = g.get_uniform_random_double();
    const uint64_t got = (uint64_t)(u * 4294967296.0);
    ++R.evaluations;
    R.set("known_answer_seed1_10000th", (double)got);
    if (got != 3949287736ull)
      R.violation("C13:known-answer:seed1-10000th",
                  fmt("RandomGenerator(1): 10000th output scaled by 2^32 is %" PRIu64 ", ranlxd2 gives 3949287736", got));
    // long stream: 20000 outputs of seeds 1 and 42 (default seed of the simulations)
    for (int64_t sd : {1, 42}) {
      RandomGenerator gl((int_fast32_t)sd);
      RefRanlux rl(sd);
      for (int t = 0; t < 20000; ++t) {
        const double x = gl.get_uniform_random_double();
        ++R.evaluations;
        if (bits(x) != bits((double)rl.out(t) / TWO48)) {
          R.violation("C13:stream-vs-reference:long-stream",
                      fmt("seed %" PRId64 " output %d: %a, reference %a", sd, t, x, (double)rl.out(t) / TWO48));
          break;
        }
      }
    }
#ifdef C13_HAVE_GSL
    gsl_rng *gr = gsl_rng_alloc(gsl_rng_ranlxd1);
    gsl_rng_set(gr, 7);
    RefRanlux r7(7, 202);
    for (int t = 0; t < 600; ++t)
      if (bits(gsl_rng_uniform(gr)) != bits((double)r7.out(t) / TWO48)) {
        R.violation("C13:harness:reference-vs-gsl", fmt("ranlxd1 seed 7 output %d", t));
        break;
      }
    gsl_rng_free(gr);
    R.set("gsl_third_voice", 1);
#else
    R.set("gsl_third_voice", 0);
#endif
  }

  std::vector< SeedCase > seeds;
  if (!A.replay.empty()) {
    const std::string txt = read_file(A.replay);
    const std::string rp = replay_field(txt, "replay");
    if (!replay_field(rp, "reseed_a").empty()) {
      const int64_t a = atoll(replay_field(rp, "reseed_a").c_str()), b = atoll(replay_field(rp, "reseed_b").c_str());
      const int p = atoi(replay_field(rp, "position").c_str()), via = atoi(replay_field(rp, "via").c_str());
      printf("replay: re-seeding case a=%" PRId64 " b=%" PRId64 " position %d via %d\n", a, b, p, via);
      check_reseed(a, b, p, via, R, C, true);
      for (auto &v : R.violations)
        printf("  %s :: %s\n", v.key.c_str(), v.detail.c_str());
      remove_fast_tmpdir(tmpd);
      return R.finish(A);
    }
    const std::string inj = replay_field(rp, "injected_x");
    if (!inj.empty()) {
      uint64_t x[12] = {0};
      std::istringstream in(inj);
      for (int i = 0; i < 12; ++i)
        in >> x[i];
      const int carry = atoi(replay_field(rp, "carry").c_str()), r = atoi(replay_field(rp, "alignment").c_str());
      printf("replay: injected state [%s] carry %d alignment %d\n", inj.c_str(), carry, r);
      check_injected(x, carry, r, R, C, true);
      for (auto &v : R.violations)
        printf("  %s :: %s\n", v.key.c_str(), v.detail.c_str());
      remove_fast_tmpdir(tmpd);
      return R.finish(A);
    }
    const int64_t sd = atoll(replay_field(rp, "seed").c_str());
    printf("replay: seed %" PRId64 " (stream of %d outputs, then the save/restore walk)\n", sd, NOUT);
    SeedCase sc{sd, "replay"};
    check_seed(sc, R, C, prefixes, true, true);
    for (auto &v : R.violations)
      printf("  %s :: %s\n", v.key.c_str(), v.detail.c_str());
    remove_fast_tmpdir(tmpd);
    return R.finish(A);
  }
  const int nsmall = A.thorough() ? 4096 : 256;
  for (int s = 0; s < nsmall; ++s)
    seeds.push_back({s, "small"});
  for (int k = 0; k <= 30; ++k) {
    const int64_t p = 1ll << k;
    if (p >= nsmall)
      seeds.push_back({p, "pow2"});
    if (p - 1 >= nsmall)
      seeds.push_back({p - 1, "pow2-minus-1"});
    if (p + 1 >= nsmall)
      seeds.push_back({p + 1, "pow2-plus-1"});
  }
  seeds.push_back({2147483647ll, "max"});
  for (int64_t s : {-1ll, -2ll, -42ll, -4096ll, -2147483647ll, -2147483648ll, -1234567891ll})
    seeds.push_back({s, "negative"});
  // int_fast32_t is 64 bit here: values beyond 2^31 alias onto their low 31 bits
  for (int64_t s : {2147483648ll, 2147483649ll, 4294967295ll, 4294967296ll + 42, 1ll << 40})
    seeds.push_back({s, "beyond-31-bits"});
  // VERIF_SEED only rotates the enumeration order
  if (A.seed > 0 && !seeds.empty())
    std::rotate(seeds.begin(), seeds.begin() + (A.seed % (long)seeds.size()), seeds.end());

  size_t done = 0;
  for (const SeedCase &sc : seeds) {
    if (R.out_of_time()) {
      R.hit_deadline(fmt("%zu of %zu seeds done", done, seeds.size()));
      break;
    }
    check_seed(sc, R, C, prefixes, true, false);
    ++done;
    if (done == 3 || done == seeds.size())
      R.sample(fmt("{\"seed\": %" PRId64 ", \"class\": \"%s\", \"first_outputs_times_2^48\": [%" PRIu64
                   ", %" PRIu64 ", %" PRIu64 "], \"positions_walked\": %d}",
                   sc.seed, sc.cls, RefRanlux(sc.seed).out(0), RefRanlux(sc.seed).out(1),
                   RefRanlux(sc.seed).out(2), PMAX + 1));
  }
  reseed_walk(R, C, A.thorough());
  R.set("reseed_cases", (double)C.reseed_cases);
  R.set("reseed_cases_with_borrow_set", (double)C.reseed_borrow_set);
  injected_states(R, C, A.thorough());
  R.set("injected_boundary_states", (double)C.injected);
  // thorough: a larger contiguous seed range, stream comparison only (no save/restore walk)
  uint64_t stream_only = 0;
  if (A.thorough()) {
    const int64_t hi = A.geti("stream-seeds", 131072);
    for (int64_t s = nsmall; s < hi; ++s) {
      if (R.out_of_time()) {
        R.hit_deadline(fmt("stream-only seeds: stopped at %" PRId64 " of %" PRId64, s, hi));
        break;
      }
      SeedCase sc{s, "medium"};
      check_seed(sc, R, C, prefixes, false, false);
      ++stream_only;
    }
  }
  R.set("seeds_stream_only", (double)stream_only);
  // seed 0 is seed 1
  {
    RandomGenerator a(0), b(1);
    bool same = save(a) == save(b);
    for (int t = 0; t < NOUT && same; ++t)
      same = bits(a.get_uniform_random_double()) == bits(b.get_uniform_random_double());
    ++R.evaluations;
    if (!same)
      R.violation("C13:seed0-vs-seed1", "seed 0 and seed 1 do not give the same state/stream");
    // set_seed on a used generator resets it completely
    RandomGenerator c(5);
    for (int t = 0; t < 17; ++t)
      c.get_uniform_random_double();
    c.set_seed(9);
    RandomGenerator d(9);
    ++R.evaluations;
    if (save(c) != save(d))
      R.violation("C13:set-seed-on-used-generator", "set_seed(9) after 17 draws differs from a fresh generator(9)");
  }
  R.set("seeds", (double)done);
  R.set("states", (double)C.states);
  R.set("transitions", (double)C.transitions);
  R.set("traces_validated_against_impl", (double)done);
  R.set("restores", (double)C.restores);
  R.set("outputs_compared_with_reference", (double)C.outputs_compared);
  R.set("outputs_compared_with_gsl", (double)C.gsl_compared);
  R.set("outputs_exactly_zero", (double)C.zeros);
  R.set("refill_boundaries_crossed", (double)C.refill_boundaries);
  R.set("distinct_prefixes", (double)prefixes.size());
  remove_fast_tmpdir(tmpd);
  return R.finish(A);
}
