// C13: the alphabet of photoionization problems and the snapshot comparison,
// shared by c13_runs.cpp (the executable started several times) and
// c13_inproc.cpp (the simulation object constructed and run several times in
// ONE process).
#ifndef C13_PROBLEM_HPP
#define C13_PROBLEM_HPP

#include "verif_common.hpp"

#include <dirent.h>
#include <fcntl.h>
#include <hdf5.h>
#include <sys/wait.h>

namespace c13 {
using namespace verif;

struct Config {
  const char *name;
  const char *writer; // AsciiFile | Gadget
  double anchor[3], sides[3]; // simulation box in pc
  int nc[3];
  int ns[3];
  bool periodic[3];
  bool diffuse;
  bool continuous;
  bool physical; // Planck + Verner + helium + temperature calculation
  int photons;
  int iterations;
  int copy_level;
  bool every_iteration;
  /// 1: SingleStar; >= 2: AsciiFile distribution (sources.yml)
  int nsources;
  /// relative luminosities of the sources: 'e' equal, 'l' 1:2:3.., 'g' 1:2:4..
  char lum;
};

// The first six problems are the original alphabet (one source in a cubic box).
// The others were added after two seeded changes were missed: they have >= 2
// sources (2, 3 and 7: equal and unequal luminosities), packet numbers that do
// not divide over the sources (packets are left over and handed out with a
// random generator inside DistributedPhotonSource), sources in subgrids with
// copies, helium with the physical diffuse field and a continuous source next
// to the discrete ones, non-cubic boxes, different cell and subgrid numbers on
// every axis.
static const Config CONFIGS[] = {
    {"ascii-direct", "AsciiFile", {-5, -5, -5}, {10, 10, 10}, {4, 4, 4}, {2, 1, 1}, {false, false, false}, false, false, false, 2000, 3, 0, false, 1, 'e'},
    {"hdf5-diffuse", "Gadget", {-5, -5, -5}, {10, 10, 10}, {8, 8, 4}, {2, 2, 1}, {false, false, false}, true, false, false, 1500, 2, 1, false, 1, 'e'},
    {"hdf5-diffuse-continuous", "Gadget", {-5, -5, -5}, {10, 10, 10}, {4, 4, 4}, {1, 2, 2}, {false, false, false}, true, true, false, 1500, 2, 0, false, 1, 'e'},
    {"ascii-physical", "AsciiFile", {-5, -5, -5}, {10, 10, 10}, {4, 4, 4}, {2, 2, 1}, {false, false, false}, true, false, true, 3000, 3, 0, false, 1, 'e'},
    {"hdf5-direct-fine-every-iteration", "Gadget", {-5, -5, -5}, {10, 10, 10}, {8, 8, 8}, {2, 2, 2}, {false, false, false}, false, false, false, 4000, 3, 2, true, 1, 'e'},
    {"ascii-periodic", "AsciiFile", {-5, -5, -5}, {10, 10, 10}, {4, 4, 6}, {2, 1, 3}, {true, true, false}, true, false, false, 2000, 2, 0, false, 1, 'e'},
    // 3 sources 1:2:4 -> weights k/7, 2999 packets: floors 428+856+1713 = 2997, 2 left over
    {"ascii-physical-3sources", "AsciiFile", {-5, -4, -6}, {10, 8, 12}, {6, 4, 8}, {3, 2, 2}, {false, false, false}, true, false, true, 2999, 3, 1, false, 3, 'g'},
    // 2 equal sources, 1501 packets: 750+750, 1 left over
    {"hdf5-fixed-2sources", "Gadget", {-4, -6, -5}, {8, 12, 10}, {8, 4, 6}, {2, 2, 3}, {false, false, false}, true, false, false, 1501, 2, 0, false, 2, 'e'},
    // 7 equal sources, 1000 packets: 7*142, 6 left over; copies of the source subgrids
    {"ascii-direct-7sources", "AsciiFile", {-6, -5, -4}, {12, 10, 8}, {8, 6, 4}, {2, 3, 2}, {false, false, false}, false, false, false, 1000, 1, 2, false, 7, 'e'},
    // 2 sources 1:2 next to a continuous source, helium: 2003 packets -> 1001 discrete
    // (333+667 = 1000, 1 left over) and 1002 continuous
    {"hdf5-physical-continuous-2sources", "Gadget", {-5, -6, -4}, {10, 12, 8}, {4, 6, 8}, {2, 3, 2}, {false, false, false}, true, true, true, 2003, 2, 1, false, 2, 'l'},
};
static const size_t NCONFIG = sizeof(CONFIGS) / sizeof(CONFIGS[0]);

inline double rel_luminosity(const Config &c, int i) {
  return c.lum == 'l' ? i + 1. : c.lum == 'g' ? (double)(1 << i) : 1.;
}
/// number of packets that DistributedPhotonSource has to hand out randomly
/// (discrete packets minus the sum of the rounded down shares); computed here
/// only to describe the alphabet in the evidence
inline long leftover_packets(const Config &c) {
  long n = c.continuous ? c.photons >> 1 : c.photons;
  if (c.nsources < 2)
    return 0;
  double tot = 0.;
  for (int i = 0; i < c.nsources; ++i)
    tot += rel_luminosity(c, i) * 1.e48;
  long done = 0;
  for (int i = 0; i < c.nsources; ++i)
    done += (long)(size_t)(n * (rel_luminosity(c, i) * 1.e48 / tot));
  return n - done;
}

/// sources.yml of a problem with >= 2 sources: positions on a skew line through
/// the box (different subgrids, never on a cell face), luminosities by c.lum
inline std::string sources_text(const Config &c) {
  std::string s = fmt("number of sources: %d\n", c.nsources);
  for (int i = 0; i < c.nsources; ++i) {
    const double f = (i + 0.5) / c.nsources;
    const double g = std::fmod(0.31 + 0.618034 * i, 1.);
    const double h = std::fmod(0.77 + 0.381966 * i, 1.);
    s += fmt("source[%d]:\n  position: [%.4f pc, %.4f pc, %.4f pc]\n  luminosity: %.1fe48 s^-1\n", i,
             c.anchor[0] + c.sides[0] * (0.07 + 0.86 * f), c.anchor[1] + c.sides[1] * (0.07 + 0.86 * g),
             c.anchor[2] + c.sides[2] * (0.07 + 0.86 * h), rel_luminosity(c, i));
  }
  return s;
}

inline std::string param_text(const Config &c, long seed) {
  std::string s;
  s += fmt("SimulationBox:\n  anchor: [%g pc, %g pc, %g pc]\n  sides: [%g pc, %g pc, %g pc]\n", c.anchor[0],
           c.anchor[1], c.anchor[2], c.sides[0], c.sides[1], c.sides[2]);
  s += fmt("DensityGrid:\n  type: Cartesian\n  periodicity: [%s, %s, %s]\n  number of cells: [%d, %d, %d]\n",
           c.periodic[0] ? "true" : "false", c.periodic[1] ? "true" : "false",
           c.periodic[2] ? "true" : "false", c.nc[0], c.nc[1], c.nc[2]);
  s += fmt("DensitySubGridCreator:\n  number of subgrids: [%d, %d, %d]\n", c.ns[0], c.ns[1], c.ns[2]);
  s += "DensityFunction:\n  type: Homogeneous\n  density: 100. cm^-3\n  temperature: 8000. K\n";
  if (c.nsources >= 2)
    s += "PhotonSourceDistribution:\n  type: AsciiFile\n  filename: sources.yml\n";
  else
    s += "PhotonSourceDistribution:\n  type: SingleStar\n  position: [0.3 pc, -0.2 pc, 0.1 pc]\n  luminosity: 4.26e49 s^-1\n";
  s += fmt("TaskBasedIonizationSimulation:\n  random seed: %ld\n  number of buffers: 4096\n  number of tasks: 20000\n"
           "  queue size per thread: 4096\n  shared queue size: 4096\n  source copy level: %d\n"
           "  number of photons: %d\n  number of iterations: %d\n  diffuse field: %s\n",
           seed, c.copy_level, c.photons, c.iterations, c.diffuse ? "true" : "false");
  s += fmt("DensityGridWriter:\n  type: %s\n  prefix: snap\n  padding: 3\n", c.writer);
  if (c.physical) {
    s += "Abundances:\n  helium: 0.1\n";
    s += "TemperatureCalculator:\n  do temperature calculation: true\n";
    s += "PhotonSourceSpectrum:\n  type: Planck\n  temperature: 40000. K\n";
    s += "CrossSections:\n  type: Verner\nRecombinationRates:\n  type: Verner\n";
    s += "DiffuseReemissionHandler:\n  type: Physical\n";
  } else {
    s += "Abundances:\n  helium: 0.\n";
    s += "TemperatureCalculator:\n  do temperature calculation: false\n";
    s += "PhotonSourceSpectrum:\n  type: Monochromatic\n  frequency: 3.28847e+15 Hz\n";
    s += "RecombinationRates:\n  type: FixedValue\n  hydrogen_1: 4.e-13 cm^3 s^-1\n  helium_1: 0. m^3 s^-1\n";
    for (const char *n : {"carbon_2", "carbon_3", "nitrogen_1", "nitrogen_2", "nitrogen_3", "oxygen_1", "oxygen_2",
                          "neon_1", "neon_2", "sulphur_2", "sulphur_3", "sulphur_4"})
      s += fmt("  %s: 0. m^3 s^-1\n", n);
    s += "CrossSections:\n  type: FixedValue\n  hydrogen_0: 6.3e-18 cm^2\n  helium_0: 0. m^2\n";
    for (const char *n : {"carbon_1", "carbon_2", "nitrogen_0", "nitrogen_1", "nitrogen_2", "oxygen_0", "oxygen_1",
                          "neon_0", "neon_1", "sulphur_1", "sulphur_2", "sulphur_3"})
      s += fmt("  %s: 0. m^2\n", n);
    if (c.diffuse)
      s += "DiffuseReemissionHandler:\n  type: FixedValue\n  reemission probability: 0.5\n  reemission frequency: 3.4e15 Hz\n";
  }
  if (c.continuous) {
    if (c.physical)
      s += "ContinuousPhotonSource:\n  type: Isotropic\nContinuousPhotonSourceSpectrum:\n  type: Planck\n"
           "  temperature: 30000. K\n  ionizing flux: 1.e13 m^-2 s^-1\n";
    else
      s += "ContinuousPhotonSource:\n  type: Isotropic\nContinuousPhotonSourceSpectrum:\n  type: Monochromatic\n"
           "  frequency: 3.28847e+15 Hz\n  total flux: 1.e13 m^-2 s^-1\n";
  }
  return s;
}

inline void write_text(const std::string &name, const std::string &text) {
  FILE *f = fopen(name.c_str(), "w");
  if (!f)
    return;
  fwrite(text.data(), 1, text.size(), f);
  fclose(f);
}
/// the input files of a problem, written into directory d
inline void write_problem(const std::string &d, const Config &c, long seed) {
  write_text(d + "/run.param", param_text(c, seed));
  if (c.nsources >= 2)
    write_text(d + "/sources.yml", sources_text(c));
}

inline void wipe(const std::string &d) {
  DIR *dir = opendir(d.c_str());
  if (!dir) {
    mkdir(d.c_str(), 0700);
    return;
  }
  std::vector< std::string > n;
  while (struct dirent *e = readdir(dir))
    if (strcmp(e->d_name, ".") && strcmp(e->d_name, ".."))
      n.push_back(e->d_name);
  closedir(dir);
  for (auto &f : n)
    unlink((d + "/" + f).c_str());
}

typedef std::map< std::string, std::string > Files;
/// all regular files of directory d except run.log (returned separately)
inline Files read_dir(const std::string &d, std::string *log = nullptr) {
  Files files;
  DIR *dir = opendir(d.c_str());
  if (!dir)
    return files;
  while (struct dirent *e = readdir(dir)) {
    std::string n = e->d_name;
    if (n == "." || n == "..")
      continue;
    if (n == "run.log") {
      if (log)
        *log = read_file(d + "/" + n);
    } else
      files[n] = read_file(d + "/" + n);
  }
  closedir(dir);
  return files;
}
inline bool is_snapshot(const std::string &n) { return n.compare(0, 4, "snap") == 0; }
inline bool is_hdf5(const std::string &n) { return n.size() > 5 && n.substr(n.size() - 5) == ".hdf5"; }

// ---- canonical content of an HDF5 file through the library ----
struct Canon {
  std::vector< std::string > lines;
  std::string error;
};
inline std::string hexhash(const void *p, size_t n) { return fmt("%zu bytes fnv %016" PRIx64, n, fnv1a(p, n)); }
inline std::string space_str(hid_t space) {
  int nd = H5Sget_simple_extent_ndims(space);
  hsize_t dims[8] = {0};
  if (nd > 0 && nd <= 8)
    H5Sget_simple_extent_dims(space, dims, nullptr);
  std::string s = "[";
  for (int i = 0; i < nd; ++i)
    s += fmt("%s%llu", i ? "," : "", (unsigned long long)dims[i]);
  return s + "]";
}
inline std::string type_str(hid_t t) {
  return fmt("class%d/size%zu%s", (int)H5Tget_class(t), H5Tget_size(t),
             H5Tis_variable_str(t) > 0 ? "/vlen" : "");
}
inline void canon_attrs(hid_t obj, const std::string &path, Canon &c) {
  H5O_info_t oi;
  if (H5Oget_info(obj, &oi) < 0) {
    c.error = "H5Oget_info failed at " + path;
    return;
  }
  for (hsize_t i = 0; i < oi.num_attrs; ++i) {
    hid_t a = H5Aopen_by_idx(obj, ".", H5_INDEX_NAME, H5_ITER_INC, i, H5P_DEFAULT, H5P_DEFAULT);
    if (a < 0) {
      c.error = "cannot open attribute at " + path;
      return;
    }
    char name[256];
    H5Aget_name(a, sizeof(name), name);
    hid_t t = H5Aget_type(a), sp = H5Aget_space(a);
    const hssize_t np = H5Sget_simple_extent_npoints(sp);
    std::string value;
    if (H5Tis_variable_str(t) > 0) {
      std::vector< char * > buf((size_t)std::max< hssize_t >(np, 1), nullptr);
      hid_t mt = H5Tcopy(H5T_C_S1);
      H5Tset_size(mt, H5T_VARIABLE);
      if (H5Aread(a, mt, buf.data()) < 0)
        c.error = "cannot read attribute " + path + "@" + name;
      for (hssize_t k = 0; k < np; ++k)
        value += std::string("\"") + (buf[k] ? buf[k] : "") + "\"";
      H5Dvlen_reclaim(mt, sp, H5P_DEFAULT, buf.data());
      H5Tclose(mt);
    } else {
      std::string raw((size_t)np * H5Tget_size(t), '\0');
      if (np > 0 && H5Aread(a, t, &raw[0]) < 0)
        c.error = "cannot read attribute " + path + "@" + name;
      if (H5Tget_class(t) == H5T_STRING)
        value = "\"" + std::string(raw.c_str()) + "\"";
      else if (raw.size() <= 32) {
        for (unsigned char ch : raw)
          value += fmt("%02x", ch);
      } else
        value = hexhash(raw.data(), raw.size());
    }
    c.lines.push_back(path + " @" + name + " " + type_str(t) + " " + space_str(sp) + " = " + value);
    H5Tclose(t);
    H5Sclose(sp);
    H5Aclose(a);
  }
}
inline herr_t visit_cb(hid_t root, const char *name, const H5O_info_t *info, void *data) {
  Canon &c = *(Canon *)data;
  const std::string path = std::string("/") + (strcmp(name, ".") ? name : "");
  hid_t obj = H5Oopen(root, name, H5P_DEFAULT);
  if (obj < 0) {
    c.error = "cannot open " + path;
    return -1;
  }
  if (info->type == H5O_TYPE_GROUP)
    c.lines.push_back(path + " group");
  else if (info->type == H5O_TYPE_DATASET) {
    hid_t t = H5Dget_type(obj), sp = H5Dget_space(obj);
    const hssize_t np = H5Sget_simple_extent_npoints(sp);
    if (H5Tis_variable_str(t) > 0 || H5Tget_class(t) == H5T_VLEN)
      c.error = "variable-length dataset not supported: " + path;
    else {
      std::string raw((size_t)np * H5Tget_size(t), '\0');
      if (np > 0 && H5Dread(obj, t, H5S_ALL, H5S_ALL, H5P_DEFAULT, &raw[0]) < 0)
        c.error = "cannot read dataset " + path;
      c.lines.push_back(path + " dataset " + type_str(t) + " " + space_str(sp) + " = " +
                        hexhash(raw.data(), raw.size()));
    }
    H5Tclose(t);
    H5Sclose(sp);
  } else
    c.lines.push_back(path + fmt(" object-type-%d", (int)info->type));
  canon_attrs(obj, path, c);
  H5Oclose(obj);
  return c.error.empty() ? 0 : -1;
}
/// scratch file used to hand bytes to the HDF5 library (set by the harness)
static std::string g_canon_tmp;
inline Canon canon_hdf5(const std::string &bytes) {
  Canon c;
  const std::string &tmp = g_canon_tmp;
  {
    FILE *f = fopen(tmp.c_str(), "wb");
    fwrite(bytes.data(), 1, bytes.size(), f);
    fclose(f);
  }
  hid_t file = H5Fopen(tmp.c_str(), H5F_ACC_RDONLY, H5P_DEFAULT);
  if (file < 0) {
    c.error = "not an HDF5 file";
    return c;
  }
  H5Ovisit(file, H5_INDEX_NAME, H5_ITER_INC, visit_cb, &c);
  H5Fclose(file);
  unlink(tmp.c_str());
  return c;
}
inline bool masked(const std::string &line) { return line.find(" @Creation time ") != std::string::npos; }
/// "" if equal, else a description of the first difference
inline std::string compare_snapshot(const std::string &name, const std::string &a, const std::string &b,
                                    uint64_t &masked_lines, uint64_t &objects) {
  if (!is_hdf5(name)) {
    if (a == b)
      return "";
    size_t i = 0;
    while (i < a.size() && i < b.size() && a[i] == b[i])
      ++i;
    size_t ls = a.rfind('\n', i);
    ls = ls == std::string::npos ? 0 : ls + 1;
    return fmt("text differs at byte %zu: \"%s\" vs \"%s\"", i,
               a.substr(ls, std::min< size_t >(100, a.find('\n', i) - ls)).c_str(),
               b.substr(ls, std::min< size_t >(100, b.find('\n', i) - ls)).c_str());
  }
  Canon ca = canon_hdf5(a), cb = canon_hdf5(b);
  if (!ca.error.empty() || !cb.error.empty())
    return "HDF5 traversal failed: " + ca.error + " / " + cb.error;
  objects += ca.lines.size();
  if (ca.lines.size() != cb.lines.size())
    return fmt("different number of objects/attributes: %zu vs %zu", ca.lines.size(), cb.lines.size());
  for (size_t i = 0; i < ca.lines.size(); ++i) {
    if (masked(ca.lines[i]) && masked(cb.lines[i])) {
      ++masked_lines;
      continue;
    }
    if (ca.lines[i] != cb.lines[i])
      return "HDF5 content differs: " + ca.lines[i] + "  vs  " + cb.lines[i];
  }
  return "";
}
/// seed independent text that identifies the content of a snapshot (HDF5:
/// canonical lines without the masked attribute; ASCII: the bytes)
/// the attribute of the Gadget snapshot's Parameters group that repeats the
/// seed of the parameter file: two runs with different seeds differ there even
/// if the seed had no effect on the photons, so every comparison BETWEEN seeds
/// has to leave it out (it stays part of the same-seed comparisons)
inline bool seed_parameter_line(const std::string &line) {
  return line.find(":random seed ") != std::string::npos;
}
inline std::string content_key(const std::string &name, const std::string &bytes, bool mask_seed_parameter = false) {
  if (!is_hdf5(name))
    return bytes;
  Canon cc = canon_hdf5(bytes);
  std::string key;
  for (auto &l : cc.lines)
    if (!masked(l) && !(mask_seed_parameter && seed_parameter_line(l)))
      key += l + "\n";
  if (!cc.error.empty())
    key += "ERROR " + cc.error + "\n";
  return key;
}

} // namespace c13
#endif
