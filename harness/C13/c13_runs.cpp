// C13 (b): whole task-based photoionization runs repeated with the same seed
// and one thread must write identical snapshots.
//
// For every (configuration, seed) of a small alphabet the real CMacIonize
// executable is run four times in the same directory:
//   A, B  unmodified environment  -> ASCII snapshots compared byte for byte,
//         HDF5 snapshots compared through the HDF5 library (every dataset's raw
//         bytes, every attribute) except the one documented attribute
//         RuntimePars/"Creation time";
//   C, D  with the calendar second pinned (LD_PRELOAD c13_fixedtime.so)
//         -> every snapshot file byte-identical (HDF5 stamps object headers);
//   A vs C: the shim does not change the result.
// Different seeds of one configuration must give different snapshots (otherwise
// the comparison above would be vacuous).
#include "verif_common.hpp"

#include <dirent.h>
#include <fcntl.h>
#include <hdf5.h>
#include <sys/wait.h>

using namespace verif;

struct Config {
  const char *name;
  const char *writer; // AsciiFile | Gadget
  int nc[3];
  int ns[3];
  bool periodic[3];
  bool diffuse;
  bool continuous;
  bool physical; // Planck + Verner + helium + temperature calculation
  int photons;
  int iterations;
  int copy_level;
  bool every_iteration;
  bool thorough_only;
};

static const Config CONFIGS[] = {
    {"ascii-direct", "AsciiFile", {4, 4, 4}, {2, 1, 1}, {false, false, false}, false, false, false, 2000, 3, 0, false, false},
    {"hdf5-diffuse", "Gadget", {8, 8, 4}, {2, 2, 1}, {false, false, false}, true, false, false, 1500, 2, 1, false, false},
    {"hdf5-diffuse-continuous", "Gadget", {4, 4, 4}, {1, 2, 2}, {false, false, false}, true, true, false, 1500, 2, 0, false, false},
    {"ascii-physical", "AsciiFile", {4, 4, 4}, {2, 2, 1}, {false, false, false}, true, false, true, 3000, 3, 0, false, true},
    {"hdf5-direct-fine-every-iteration", "Gadget", {8, 8, 8}, {2, 2, 2}, {false, false, false}, false, false, false, 4000, 3, 2, true, true},
    {"ascii-periodic", "AsciiFile", {4, 4, 6}, {2, 1, 3}, {true, true, false}, true, false, false, 2000, 2, 0, false, true},
};

static std::string param_text(const Config &c, long seed) {
  std::string s;
  s += "SimulationBox:\n  anchor: [-5. pc, -5. pc, -5. pc]\n  sides: [10. pc, 10. pc, 10. pc]\n";
  s += fmt("DensityGrid:\n  type: Cartesian\n  periodicity: [%s, %s, %s]\n  number of cells: [%d, %d, %d]\n",
           c.periodic[0] ? "true" : "false", c.periodic[1] ? "true" : "false",
           c.periodic[2] ? "true" : "false", c.nc[0], c.nc[1], c.nc[2]);
  s += fmt("DensitySubGridCreator:\n  number of subgrids: [%d, %d, %d]\n", c.ns[0], c.ns[1], c.ns[2]);
  s += "DensityFunction:\n  type: Homogeneous\n  density: 100. cm^-3\n  temperature: 8000. K\n";
  s += "PhotonSourceDistribution:\n  type: SingleStar\n  position: [0.3 pc, -0.2 pc, 0.1 pc]\n  luminosity: 4.26e49 s^-1\n";
  s += fmt("TaskBasedIonizationSimulation:\n  random seed: %ld\n  number of buffers: 4096\n  number of tasks: 20000\n"
           "  queue size per thread: 4096\n  shared queue size: 4096\n  source copy level: %d\n"
           "  number of photons: %d\n  number of iterations: %d\n  diffuse field: %s\n",
           seed, c.copy_level, c.photons, c.iterations, c.diffuse ? "true" : "false");
  s += fmt("DensityGridWriter:\n  type: %s\n  prefix: snap\n  padding: 3\n", c.writer);
  if (c.physical) {
    s += "Abundances:\n  helium: 0.1\n";
    s += "TemperatureCalculator:\n  do temperature calculation: true\n";
    s += "PhotonSourceSpectrum:\n  type: Planck\n  temperature: 40000. K\n";
    s += "CrossSections:\n  type: Verner\nRecombinationRates:\n  type: Verner\n";
    s += "DiffuseReemissionHandler:\n  type: Physical\n";
  } else {
    s += "Abundances:\n  helium: 0.\n";
    s += "TemperatureCalculator:\n  do temperature calculation: false\n";
    s += "PhotonSourceSpectrum:\n  type: Monochromatic\n  frequency: 3.28847e+15 Hz\n";
    s += "RecombinationRates:\n  type: FixedValue\n  hydrogen_1: 4.e-13 cm^3 s^-1\n  helium_1: 0. m^3 s^-1\n";
    for (const char *n : {"carbon_2", "carbon_3", "nitrogen_1", "nitrogen_2", "nitrogen_3", "oxygen_1", "oxygen_2",
                          "neon_1", "neon_2", "sulphur_2", "sulphur_3", "sulphur_4"})
      s += fmt("  %s: 0. m^3 s^-1\n", n);
    s += "CrossSections:\n  type: FixedValue\n  hydrogen_0: 6.3e-18 cm^2\n  helium_0: 0. m^2\n";
    for (const char *n : {"carbon_1", "carbon_2", "nitrogen_0", "nitrogen_1", "nitrogen_2", "oxygen_0", "oxygen_1",
                          "neon_0", "neon_1", "sulphur_1", "sulphur_2", "sulphur_3"})
      s += fmt("  %s: 0. m^2\n", n);
    if (c.diffuse)
      s += "DiffuseReemissionHandler:\n  type: FixedValue\n  reemission probability: 0.5\n  reemission frequency: 3.4e15 Hz\n";
  }
  if (c.continuous)
    s += "ContinuousPhotonSource:\n  type: Isotropic\nContinuousPhotonSourceSpectrum:\n  type: Monochromatic\n"
         "  frequency: 3.28847e+15 Hz\n  total flux: 1.e13 m^-2 s^-1\n";
  return s;
}

static std::string g_exe, g_shim, g_dir;

static void wipe(const std::string &d) {
  DIR *dir = opendir(d.c_str());
  if (!dir) {
    mkdir(d.c_str(), 0700);
    return;
  }
  std::vector< std::string > n;
  while (struct dirent *e = readdir(dir))
    if (strcmp(e->d_name, ".") && strcmp(e->d_name, ".."))
      n.push_back(e->d_name);
  closedir(dir);
  for (auto &f : n)
    unlink((d + "/" + f).c_str());
}

typedef std::map< std::string, std::string > Files;
struct Run {
  int rc = -1;
  Files files;
  std::string log;
};
static Run run_once(const Config &c, long seed, bool shim) {
  wipe(g_dir);
  {
    FILE *f = fopen((g_dir + "/run.param").c_str(), "w");
    const std::string p = param_text(c, seed);
    fwrite(p.data(), 1, p.size(), f);
    fclose(f);
  }
  fflush(stdout);
  pid_t pid = fork();
  if (pid == 0) {
    if (chdir(g_dir.c_str()))
      _exit(120);
    int fd = open("run.log", O_WRONLY | O_CREAT | O_TRUNC, 0600);
    dup2(fd, 1);
    dup2(fd, 2);
    close(fd);
    if (shim)
      setenv("LD_PRELOAD", g_shim.c_str(), 1);
    else
      unsetenv("LD_PRELOAD");
    setenv("OMP_NUM_THREADS", "1", 1);
    if (c.every_iteration)
      execl(g_exe.c_str(), g_exe.c_str(), "--params", "run.param", "--threads", "1", "--task-based",
            "--every-iteration-output", (char *)nullptr);
    else
      execl(g_exe.c_str(), g_exe.c_str(), "--params", "run.param", "--threads", "1", "--task-based",
            (char *)nullptr);
    _exit(121);
  }
  int st = 0;
  while (waitpid(pid, &st, 0) < 0 && errno == EINTR) {
  }
  Run r;
  r.rc = WIFEXITED(st) ? WEXITSTATUS(st) : 1000 + WTERMSIG(st);
  DIR *dir = opendir(g_dir.c_str());
  while (struct dirent *e = readdir(dir)) {
    std::string n = e->d_name;
    if (n == "." || n == "..")
      continue;
    if (n == "run.log")
      r.log = read_file(g_dir + "/" + n);
    else
      r.files[n] = read_file(g_dir + "/" + n);
  }
  closedir(dir);
  return r;
}
static bool is_snapshot(const std::string &n) { return n.compare(0, 4, "snap") == 0; }
static bool is_hdf5(const std::string &n) { return n.size() > 5 && n.substr(n.size() - 5) == ".hdf5"; }

// ---- canonical content of an HDF5 file through the library ----
struct Canon {
  std::vector< std::string > lines;
  std::string error;
};
static std::string hexhash(const void *p, size_t n) { return fmt("%zu bytes fnv %016" PRIx64, n, fnv1a(p, n)); }
static std::string space_str(hid_t space) {
  int nd = H5Sget_simple_extent_ndims(space);
  hsize_t dims[8] = {0};
  if (nd > 0 && nd <= 8)
    H5Sget_simple_extent_dims(space, dims, nullptr);
  std::string s = "[";
  for (int i = 0; i < nd; ++i)
    s += fmt("%s%llu", i ? "," : "", (unsigned long long)dims[i]);
  return s + "]";
}
static std::string type_str(hid_t t) {
  return fmt("class%d/size%zu%s", (int)H5Tget_class(t), H5Tget_size(t),
             H5Tis_variable_str(t) > 0 ? "/vlen" : "");
}
static void canon_attrs(hid_t obj, const std::string &path, Canon &c) {
  H5O_info_t oi;
  if (H5Oget_info(obj, &oi) < 0) {
    c.error = "H5Oget_info failed at " + path;
    return;
  }
  for (hsize_t i = 0; i < oi.num_attrs; ++i) {
    hid_t a = H5Aopen_by_idx(obj, ".", H5_INDEX_NAME, H5_ITER_INC, i, H5P_DEFAULT, H5P_DEFAULT);
    if (a < 0) {
      c.error = "cannot open attribute at " + path;
      return;
    }
    char name[256];
    H5Aget_name(a, sizeof(name), name);
    hid_t t = H5Aget_type(a), sp = H5Aget_space(a);
    const hssize_t np = H5Sget_simple_extent_npoints(sp);
    std::string value;
    if (H5Tis_variable_str(t) > 0) {
      std::vector< char * > buf((size_t)std::max< hssize_t >(np, 1), nullptr);
      hid_t mt = H5Tcopy(H5T_C_S1);
      H5Tset_size(mt, H5T_VARIABLE);
      if (H5Aread(a, mt, buf.data()) < 0)
        c.error = "cannot read attribute " + path + "@" + name;
      for (hssize_t k = 0; k < np; ++k)
        value += std::string("\"") + (buf[k] ? buf[k] : "") + "\"";
      H5Dvlen_reclaim(mt, sp, H5P_DEFAULT, buf.data());
      H5Tclose(mt);
    } else {
      std::string raw((size_t)np * H5Tget_size(t), '\0');
      if (np > 0 && H5Aread(a, t, &raw[0]) < 0)
        c.error = "cannot read attribute " + path + "@" + name;
      if (H5Tget_class(t) == H5T_STRING)
        value = "\"" + std::string(raw.c_str()) + "\"";
      else if (raw.size() <= 32) {
        for (unsigned char ch : raw)
          value += fmt("%02x", ch);
      } else
        value = hexhash(raw.data(), raw.size());
    }
    c.lines.push_back(path + " @" + name + " " + type_str(t) + " " + space_str(sp) + " = " + value);
    H5Tclose(t);
    H5Sclose(sp);
    H5Aclose(a);
  }
}
static herr_t visit_cb(hid_t root, const char *name, const H5O_info_t *info, void *data) {
  Canon &c = *(Canon *)data;
  const std::string path = std::string("/") + (strcmp(name, ".") ? name : "");
  hid_t obj = H5Oopen(root, name, H5P_DEFAULT);
  if (obj < 0) {
    c.error = "cannot open " + path;
    return -1;
  }
  if (info->type == H5O_TYPE_GROUP)
    c.lines.push_back(path + " group");
  else if (info->type == H5O_TYPE_DATASET) {
    hid_t t = H5Dget_type(obj), sp = H5Dget_space(obj);
    const hssize_t np = H5Sget_simple_extent_npoints(sp);
    if (H5Tis_variable_str(t) > 0 || H5Tget_class(t) == H5T_VLEN)
      c.error = "variable-length dataset not supported: " + path;
    else {
      std::string raw((size_t)np * H5Tget_size(t), '\0');
      if (np > 0 && H5Dread(obj, t, H5S_ALL, H5S_ALL, H5P_DEFAULT, &raw[0]) < 0)
        c.error = "cannot read dataset " + path;
      c.lines.push_back(path + " dataset " + type_str(t) + " " + space_str(sp) + " = " +
                        hexhash(raw.data(), raw.size()));
    }
    H5Tclose(t);
    H5Sclose(sp);
  } else
    c.lines.push_back(path + fmt(" object-type-%d", (int)info->type));
  canon_attrs(obj, path, c);
  H5Oclose(obj);
  return c.error.empty() ? 0 : -1;
}
static Canon canon_hdf5(const std::string &bytes) {
  Canon c;
  const std::string tmp = g_dir + "/../c13_canon.hdf5";
  {
    FILE *f = fopen(tmp.c_str(), "wb");
    fwrite(bytes.data(), 1, bytes.size(), f);
    fclose(f);
  }
  hid_t file = H5Fopen(tmp.c_str(), H5F_ACC_RDONLY, H5P_DEFAULT);
  if (file < 0) {
    c.error = "not an HDF5 file";
    return c;
  }
  H5Ovisit(file, H5_INDEX_NAME, H5_ITER_INC, visit_cb, &c);
  H5Fclose(file);
  unlink(tmp.c_str());
  return c;
}
static bool masked(const std::string &line) { return line.find(" @Creation time ") != std::string::npos; }
/// "" if equal, else a description of the first difference
static std::string compare_snapshot(const std::string &name, const std::string &a, const std::string &b,
                                    uint64_t &masked_lines, uint64_t &objects) {
  if (!is_hdf5(name)) {
    if (a == b)
      return "";
    size_t i = 0;
    while (i < a.size() && i < b.size() && a[i] == b[i])
      ++i;
    size_t ls = a.rfind('\n', i);
    ls = ls == std::string::npos ? 0 : ls + 1;
    return fmt("text differs at byte %zu: \"%s\" vs \"%s\"", i,
               a.substr(ls, std::min< size_t >(100, a.find('\n', i) - ls)).c_str(),
               b.substr(ls, std::min< size_t >(100, b.find('\n', i) - ls)).c_str());
  }
  Canon ca = canon_hdf5(a), cb = canon_hdf5(b);
  if (!ca.error.empty() || !cb.error.empty())
    return "HDF5 traversal failed: " + ca.error + " / " + cb.error;
  objects += ca.lines.size();
  if (ca.lines.size() != cb.lines.size())
    return fmt("different number of objects/attributes: %zu vs %zu", ca.lines.size(), cb.lines.size());
  for (size_t i = 0; i < ca.lines.size(); ++i) {
    if (masked(ca.lines[i]) && masked(cb.lines[i])) {
      ++masked_lines;
      continue;
    }
    if (ca.lines[i] != cb.lines[i])
      return "HDF5 content differs: " + ca.lines[i] + "  vs  " + cb.lines[i];
  }
  return "";
}

struct Totals {
  uint64_t runs = 0, file_pairs = 0, snapshot_pairs = 0, byte_pairs = 0, masked = 0, objects = 0,
           seed_pairs = 0, nontrivial_cases = 0;
  std::set< std::string > nonsnapshot_differing;
};

static void check_case(const Config &c, long seed, Result &R, Totals &T,
                       std::map< std::string, std::string > &final_by_seed, bool verbose) {
  const std::string rp = fmt("{\"config\": \"%s\", \"seed\": %ld}", c.name, seed);
  Run r[4];
  for (int i = 0; i < 4; ++i) {
    r[i] = run_once(c, seed, i >= 2);
    ++T.runs;
    ++R.evaluations;
    if (verbose) {
      printf("run %c (%s): exit %d, files:", 'A' + i, i >= 2 ? "calendar second pinned" : "plain", r[i].rc);
      for (auto &kv : r[i].files)
        printf(" %s(%zu)", kv.first.c_str(), kv.second.size());
      printf("\n");
    }
    if (r[i].rc != 0) {
      std::string tail = r[i].log.size() > 600 ? r[i].log.substr(r[i].log.size() - 600) : r[i].log;
      R.violation(fmt("C13:run-fails:%s", c.name),
                  fmt("configuration %s seed %ld run %c ends with status %d: %s", c.name, seed, 'A' + i, r[i].rc,
                      tail.c_str()),
                  rp);
      return;
    }
  }
  // snapshot sets
  std::vector< std::string > snaps;
  for (auto &kv : r[0].files)
    if (is_snapshot(kv.first))
      snaps.push_back(kv.first);
  if (snaps.size() < 2)
    R.violation("C13:harness:no-snapshots", fmt("configuration %s wrote %zu snapshot files", c.name, snaps.size()), rp);
  for (int i = 1; i < 4; ++i) {
    std::vector< std::string > s2;
    for (auto &kv : r[i].files)
      if (is_snapshot(kv.first))
        s2.push_back(kv.first);
    if (s2 != snaps)
      R.violation(fmt("C13:rerun-differs:%s:snapshot-set", c.name),
                  fmt("configuration %s seed %ld: runs A and %c wrote different sets of snapshot files", c.name,
                      seed, 'A' + i),
                  rp);
  }
  for (auto &n : snaps) {
    const char *kind = is_hdf5(n) ? "hdf5" : "ascii";
    // A vs B: content
    ++T.snapshot_pairs;
    ++R.evaluations;
    std::string d = compare_snapshot(n, r[0].files[n], r[1].files[n], T.masked, T.objects);
    if (!d.empty())
      R.violation(fmt("C13:rerun-differs:%s:%s-content", c.name, kind),
                  fmt("configuration %s seed %ld, two runs with one thread: %s: %s", c.name, seed, n.c_str(),
                      d.c_str()),
                  rp);
    // C vs D: bytes
    ++T.byte_pairs;
    ++R.evaluations;
    if (r[2].files[n] != r[3].files[n]) {
      size_t i = 0;
      const std::string &a = r[2].files[n], &b = r[3].files[n];
      while (i < a.size() && i < b.size() && a[i] == b[i])
        ++i;
      R.violation(fmt("C13:rerun-differs:%s:%s-bytes", c.name, kind),
                  fmt("configuration %s seed %ld, two runs with the calendar second pinned: %s differs at byte "
                      "%zu (sizes %zu, %zu)",
                      c.name, seed, n.c_str(), i, a.size(), b.size()),
                  rp);
    }
    // A vs C: the shim is neutral
    ++R.evaluations;
    d = compare_snapshot(n, r[0].files[n], r[2].files[n], T.masked, T.objects);
    if (!d.empty())
      R.violation("C13:harness:shim-changes-result",
                  fmt("configuration %s seed %ld: %s differs between a plain and a pinned-time run: %s", c.name,
                      seed, n.c_str(), d.c_str()),
                  rp);
    if (verbose)
      printf("  %s: A/B content %s, C/D bytes %s\n", n.c_str(),
             compare_snapshot(n, r[0].files[n], r[1].files[n], T.masked, T.objects).empty() ? "equal" : "DIFFER",
             r[2].files[n] == r[3].files[n] ? "equal" : "DIFFER");
  }
  // other files: informational
  for (auto &kv : r[2].files) {
    ++T.file_pairs;
    if (!is_snapshot(kv.first) && r[3].files[kv.first] != kv.second)
      T.nonsnapshot_differing.insert(kv.first);
  }
  // the state must really have been changed by the photons, and the seed must matter
  if (snaps.size() >= 2) {
    const std::string &first = r[0].files[snaps.front()], &last = r[0].files[snaps.back()];
    std::string key = last;
    if (is_hdf5(snaps.back())) {
      Canon cc = canon_hdf5(last);
      key.clear();
      for (auto &l : cc.lines)
        if (!masked(l))
          key += l + "\n";
    }
    const bool changed = first.size() != last.size() || first != last;
    bool seed_matters = true;
    for (auto &kv : final_by_seed) {
      ++T.seed_pairs;
      if (kv.second == key) {
        seed_matters = false;
        R.violation(fmt("C13:harness:seed-has-no-effect:%s", c.name),
                    fmt("configuration %s: seeds %s and %ld give the same final snapshot, the comparison is "
                        "vacuous",
                        c.name, kv.first.c_str(), seed),
                    rp);
      }
    }
    final_by_seed[fmt("%ld", seed)] = key;
    if (changed && seed_matters) {
      ++T.nontrivial_cases;
      R.distinct.insert(fnv1a(key));
    }
    if (R.samples.size() < 3)
      R.sample(fmt("{\"config\": \"%s\", \"seed\": %ld, \"snapshots\": %zu, \"final_snapshot_fnv\": \"%016" PRIx64
                   "\", \"runs\": 4}",
                   c.name, seed, snaps.size(), fnv1a(key)));
  }
}

int main(int argc, char **argv) {
  Args A = parse_args(argc, argv);
  Result R(A);
  const char *b = getenv("VERIF_BUILD");
  const std::string B = b ? b : "/verif/build";
  g_exe = B + "/plain/CMacIonize";
  g_shim = B + "/bin/c13_fixedtime.so";
  const std::string tmp = fast_tmpdir();
  g_dir = tmp + "/c13_run";
  mkdir(g_dir.c_str(), 0700);
  H5Eset_auto(H5E_DEFAULT, nullptr, nullptr);
  R.rule = "one case = (run configuration, seed): the real executable is run 4 times with --threads 1 "
           "(2 plain, 2 with the calendar second pinned) and all snapshot files are compared (content through "
           "the HDF5 library / bytes). distinct non-trivial = distinct final snapshots among the cases where "
           "the final snapshot differs from the initial one and from the other seeds' of the configuration";
  if (access(g_exe.c_str(), X_OK) != 0 || access(g_shim.c_str(), R_OK) != 0) {
    R.violation("C13:harness:missing-executable", g_exe + " or " + g_shim + " not built");
    remove_fast_tmpdir(tmp);
    return R.finish(A);
  }
  Totals T;
  std::vector< long > seeds = {42, 1};
  if (A.thorough())
    seeds.push_back(123456789);
  if (!A.replay.empty()) {
    const std::string txt = read_file(A.replay);
    const std::string rp = replay_field(txt, "replay");
    const std::string cn = replay_field(rp, "config");
    const long sd = atol(replay_field(rp, "seed").c_str());
    for (const Config &c : CONFIGS)
      if (cn == c.name) {
        printf("replay: configuration %s seed %ld\nparameter file:\n%s\n", c.name, sd, param_text(c, sd).c_str());
        std::map< std::string, std::string > fb;
        check_case(c, sd, R, T, fb, true);
      }
    for (auto &v : R.violations)
      printf("  %s :: %s\n", v.key.c_str(), v.detail.c_str());
    remove_fast_tmpdir(tmp);
    return R.finish(A);
  }
  size_t ncfg = 0;
  for (const Config &c : CONFIGS) {
    if (c.thorough_only && !A.thorough() && A.geti("quick-all-configs", 1) == 0)
      continue;
    ++ncfg;
    std::map< std::string, std::string > final_by_seed;
    for (long sd : seeds) {
      if (R.out_of_time()) {
        R.hit_deadline(fmt("stopped before configuration %s seed %ld", c.name, sd));
        break;
      }
      check_case(c, sd, R, T, final_by_seed, false);
    }
  }
  R.set("configurations", (double)ncfg);
  R.set("seeds_per_configuration", (double)seeds.size());
  R.set("runs", (double)T.runs);
  R.set("snapshot_pairs_content", (double)T.snapshot_pairs);
  R.set("snapshot_pairs_bytes", (double)T.byte_pairs);
  R.set("hdf5_objects_and_attributes_compared", (double)T.objects);
  R.set("hdf5_creation_time_attributes_masked", (double)T.masked);
  R.set("nontrivial_cases", (double)T.nontrivial_cases);
  R.set("seed_pairs_compared", (double)T.seed_pairs);
  {
    std::string l = "[";
    for (auto &n : T.nonsnapshot_differing)
      l += (l.size() > 1 ? ", \"" : "\"") + json_escape(n) + "\"";
    R.set_json("non_snapshot_files_differing_between_runs", l + "]");
  }
  remove_fast_tmpdir(tmp);
  return R.finish(A);
}
