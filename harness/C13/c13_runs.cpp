// C13 (b): whole task-based photoionization runs repeated with the same seed
// and one thread must write identical snapshots.
//
// For every (configuration, seed) of a small alphabet the real CMacIonize
// executable is run four times in the same directory:
//   A, B  unmodified environment  -> ASCII snapshots compared byte for byte,
//         HDF5 snapshots compared through the HDF5 library (every dataset's raw
//         bytes, every attribute) except the one documented attribute
//         RuntimePars/"Creation time";
//   C, D  with the calendar second pinned (LD_PRELOAD c13_fixedtime.so)
//         -> every snapshot file byte-identical (HDF5 stamps object headers);
//   A vs C: the shim does not change the result.
// Different seeds of one configuration must give different snapshots (otherwise
// the comparison above would be vacuous).
#include "c13_problem.hpp"

using namespace verif;
using namespace c13;

static std::string g_exe, g_shim, g_dir;

struct Run {
  int rc = -1;
  Files files;
  std::string log;
};
static Run run_once(const Config &c, long seed, bool shim) {
  wipe(g_dir);
  write_problem(g_dir, c, seed);
  fflush(stdout);
  pid_t pid = fork();
  if (pid == 0) {
    if (chdir(g_dir.c_str()))
      _exit(120);
    int fd = open("run.log", O_WRONLY | O_CREAT | O_TRUNC, 0600);
    dup2(fd, 1);
    dup2(fd, 2);
    close(fd);
    if (shim)
      setenv("LD_PRELOAD", g_shim.c_str(), 1);
    else
      unsetenv("LD_PRELOAD");
    setenv("OMP_NUM_THREADS", "1", 1);
    if (c.every_iteration)
      execl(g_exe.c_str(), g_exe.c_str(), "--params", "run.param", "--threads", "1", "--task-based",
            "--every-iteration-output", (char *)nullptr);
    else
      execl(g_exe.c_str(), g_exe.c_str(), "--params", "run.param", "--threads", "1", "--task-based",
            (char *)nullptr);
    _exit(121);
  }
  int st = 0;
  while (waitpid(pid, &st, 0) < 0 && errno == EINTR) {
  }
  Run r;
  r.rc = WIFEXITED(st) ? WEXITSTATUS(st) : 1000 + WTERMSIG(st);
  r.files = read_dir(g_dir, &r.log);
  return r;
}

struct Totals {
  uint64_t runs = 0, file_pairs = 0, snapshot_pairs = 0, byte_pairs = 0, masked = 0, objects = 0,
           seed_pairs = 0, nontrivial_cases = 0;
  std::set< std::string > nonsnapshot_differing;
};

static void check_case(const Config &c, long seed, Result &R, Totals &T,
                       std::map< std::string, std::string > &final_by_seed, bool verbose) {
  const std::string rp = fmt("{\"config\": \"%s\", \"seed\": %ld}", c.name, seed);
  Run r[4];
  for (int i = 0; i < 4; ++i) {
    r[i] = run_once(c, seed, i >= 2);
    ++T.runs;
    ++R.evaluations;
    if (verbose) {
      printf("run %c (%s): exit %d, files:", 'A' + i, i >= 2 ? "calendar second pinned" : "plain", r[i].rc);
      for (auto &kv : r[i].files)
        printf(" %s(%zu)", kv.first.c_str(), kv.second.size());
      printf("\n");
    }
    if (r[i].rc != 0) {
      std::string tail = r[i].log.size() > 600 ? r[i].log.substr(r[i].log.size() - 600) : r[i].log;
      R.violation(fmt("C13:run-fails:%s", c.name),
                  fmt("configuration %s seed %ld run %c ends with status %d: %s", c.name, seed, 'A' + i, r[i].rc,
                      tail.c_str()),
                  rp);
      return;
    }
  }
  // snapshot sets
  std::vector< std::string > snaps;
  for (auto &kv : r[0].files)
    if (is_snapshot(kv.first))
      snaps.push_back(kv.first);
  if (snaps.size() < 2)
    R.violation("C13:harness:no-snapshots", fmt("configuration %s wrote %zu snapshot files", c.name, snaps.size()), rp);
  for (int i = 1; i < 4; ++i) {
    std::vector< std::string > s2;
    for (auto &kv : r[i].files)
      if (is_snapshot(kv.first))
        s2.push_back(kv.first);
    if (s2 != snaps)
      R.violation(fmt("C13:rerun-differs:%s:snapshot-set", c.name),
                  fmt("configuration %s seed %ld: runs A and %c wrote different sets of snapshot files", c.name,
                      seed, 'A' + i),
                  rp);
  }
  for (auto &n : snaps) {
    const char *kind = is_hdf5(n) ? "hdf5" : "ascii";
    // A vs B: content
    ++T.snapshot_pairs;
    ++R.evaluations;
    std::string d = compare_snapshot(n, r[0].files[n], r[1].files[n], T.masked, T.objects);
    if (!d.empty())
      R.violation(fmt("C13:rerun-differs:%s:%s-content", c.name, kind),
                  fmt("configuration %s seed %ld, two runs with one thread: %s: %s", c.name, seed, n.c_str(),
                      d.c_str()),
                  rp);
    // C vs D: bytes
    ++T.byte_pairs;
    ++R.evaluations;
    if (r[2].files[n] != r[3].files[n]) {
      size_t i = 0;
      const std::string &a = r[2].files[n], &b = r[3].files[n];
      while (i < a.size() && i < b.size() && a[i] == b[i])
        ++i;
      R.violation(fmt("C13:rerun-differs:%s:%s-bytes", c.name, kind),
                  fmt("configuration %s seed %ld, two runs with the calendar second pinned: %s differs at byte "
                      "%zu (sizes %zu, %zu)",
                      c.name, seed, n.c_str(), i, a.size(), b.size()),
                  rp);
    }
    // A vs C: the shim is neutral
    ++R.evaluations;
    d = compare_snapshot(n, r[0].files[n], r[2].files[n], T.masked, T.objects);
    if (!d.empty())
      R.violation("C13:harness:shim-changes-result",
                  fmt("configuration %s seed %ld: %s differs between a plain and a pinned-time run: %s", c.name,
                      seed, n.c_str(), d.c_str()),
                  rp);
    if (verbose)
      printf("  %s: A/B content %s, C/D bytes %s\n", n.c_str(),
             compare_snapshot(n, r[0].files[n], r[1].files[n], T.masked, T.objects).empty() ? "equal" : "DIFFER",
             r[2].files[n] == r[3].files[n] ? "equal" : "DIFFER");
  }
  // other files: informational
  for (auto &kv : r[2].files) {
    ++T.file_pairs;
    if (!is_snapshot(kv.first) && r[3].files[kv.first] != kv.second)
      T.nonsnapshot_differing.insert(kv.first);
  }
  // the state must really have been changed by the photons, and the seed must matter
  if (snaps.size() >= 2) {
    const std::string &first = r[0].files[snaps.front()], &last = r[0].files[snaps.back()];
    const std::string key = content_key(snaps.back(), last, true);
    const bool changed = first.size() != last.size() || first != last;
    bool seed_matters = true;
    for (auto &kv : final_by_seed) {
      ++T.seed_pairs;
      if (kv.second == key) {
        seed_matters = false;
        R.violation(fmt("C13:harness:seed-has-no-effect:%s", c.name),
                    fmt("configuration %s: seeds %s and %ld give the same final snapshot, the comparison is "
                        "vacuous",
                        c.name, kv.first.c_str(), seed),
                    rp);
      }
    }
    final_by_seed[fmt("%ld", seed)] = key;
    if (changed && seed_matters) {
      ++T.nontrivial_cases;
      R.distinct.insert(fnv1a(key));
    }
    if (R.samples.size() < 3)
      R.sample(fmt("{\"config\": \"%s\", \"seed\": %ld, \"snapshots\": %zu, \"final_snapshot_fnv\": \"%016" PRIx64
                   "\", \"runs\": 4}",
                   c.name, seed, snaps.size(), fnv1a(key)));
  }
}

int main(int argc, char **argv) {
  Args A = parse_args(argc, argv);
  Result R(A);
  const char *b = getenv("VERIF_BUILD");
  const std::string B = b ? b : "/verif/build";
  g_exe = B + "/plain/CMacIonize";
  g_shim = B + "/bin/c13_fixedtime.so";
  const std::string tmp = fast_tmpdir();
  g_dir = tmp + "/c13_run";
  mkdir(g_dir.c_str(), 0700);
  g_canon_tmp = tmp + "/c13_canon.hdf5";
  H5Eset_auto(H5E_DEFAULT, nullptr, nullptr);
  R.rule = "one case = (run configuration, seed): the real executable is run 4 times with --threads 1 "
           "(2 plain, 2 with the calendar second pinned) and all snapshot files are compared (content through "
           "the HDF5 library / bytes). distinct non-trivial = distinct final snapshots among the cases where "
           "the final snapshot differs from the initial one and from the other seeds' of the configuration";
  if (access(g_exe.c_str(), X_OK) != 0 || access(g_shim.c_str(), R_OK) != 0) {
    R.violation("C13:harness:missing-executable", g_exe + " or " + g_shim + " not built");
    remove_fast_tmpdir(tmp);
    return R.finish(A);
  }
  Totals T;
  // 16843050 = 2^24 + 2^16 + 2^8 + 42: a seed with a non-zero bit in every byte, so that a seed cut to 8, 16 or 24
  // bits on its way to the generator is a different seed (42, 298, 65834); the seed alphabet proper is enumerated
  // by c13_simseed
  std::vector< long > seeds = {42, 1, 16843050};
  if (A.thorough()) {
    seeds.push_back(123456789);
    seeds.push_back(2147483647);
  }
  if (!A.replay.empty()) {
    const std::string txt = read_file(A.replay);
    const std::string rp = replay_field(txt, "replay");
    const std::string cn = replay_field(rp, "config");
    const long sd = atol(replay_field(rp, "seed").c_str());
    for (const Config &c : CONFIGS)
      if (cn == c.name) {
        printf("replay: configuration %s seed %ld\nparameter file:\n%s\n", c.name, sd, param_text(c, sd).c_str());
        std::map< std::string, std::string > fb;
        check_case(c, sd, R, T, fb, true);
      }
    for (auto &v : R.violations)
      printf("  %s :: %s\n", v.key.c_str(), v.detail.c_str());
    remove_fast_tmpdir(tmp);
    return R.finish(A);
  }
  size_t ncfg = 0, nmulti = 0, nleft = 0;
  std::string cfglist = "[";
  for (const Config &c : CONFIGS) {
    ++ncfg;
    nmulti += c.nsources >= 2;
    nleft += leftover_packets(c) > 0;
    cfglist += fmt("%s{\"name\": \"%s\", \"cells\": [%d,%d,%d], \"subgrids\": [%d,%d,%d], \"sources\": %d, "
                   "\"packets\": %d, \"packets_left_over_after_rounding\": %ld, \"copy_level\": %d, "
                   "\"helium_physical_diffuse\": %s, \"continuous_source\": %s}",
                   ncfg > 1 ? ", " : "", c.name, c.nc[0], c.nc[1], c.nc[2], c.ns[0], c.ns[1], c.ns[2], c.nsources,
                   c.photons, leftover_packets(c), c.copy_level, c.physical ? "true" : "false",
                   c.continuous ? "true" : "false");
    std::map< std::string, std::string > final_by_seed;
    for (long sd : seeds) {
      // quick: the third seed only for every second configuration
      if (!A.thorough() && sd == 16843050 && (ncfg % 2) == 0)
        continue;
      if (R.out_of_time()) {
        R.hit_deadline(fmt("stopped before configuration %s seed %ld", c.name, sd));
        break;
      }
      check_case(c, sd, R, T, final_by_seed, false);
    }
  }
  R.set("configurations", (double)ncfg);
  R.set("configurations_with_two_or_more_sources", (double)nmulti);
  R.set("configurations_with_left_over_packets", (double)nleft);
  R.set_json("configuration_list", cfglist + "]");
  R.set("seeds_per_configuration", (double)seeds.size());
  R.set_json("seeds", A.thorough() ? "[42, 1, 16843050, 123456789, 2147483647]"
                                   : "{\"all configurations\": [42, 1], \"configurations 1,3,5,7,9 of the list\": [16843050]}");
  R.set("runs", (double)T.runs);
  R.set("snapshot_pairs_content", (double)T.snapshot_pairs);
  R.set("snapshot_pairs_bytes", (double)T.byte_pairs);
  R.set("hdf5_objects_and_attributes_compared", (double)T.objects);
  R.set("hdf5_creation_time_attributes_masked", (double)T.masked);
  R.set("nontrivial_cases", (double)T.nontrivial_cases);
  R.set("seed_pairs_compared", (double)T.seed_pairs);
  {
    std::string l = "[";
    for (auto &n : T.nonsnapshot_differing)
      l += (l.size() > 1 ? ", \"" : "\"") + json_escape(n) + "\"";
    R.set_json("non_snapshot_files_differing_between_runs", l + "]");
  }
  remove_fast_tmpdir(tmp);
  return R.finish(A);
}
