/* LD_PRELOAD shim for the whole-run part of C13: the snapshot writer stores a
 * "Creation time" attribute (Utilities::get_timestamp -> std::time) and the
 * HDF5 library stamps object headers with the calendar second it gets from
 * gettimeofday()/time(). With this shim both runs of a pair see the same
 * calendar second; the microsecond part (used by the program's interval timers
 * for its log output) keeps running. clock_gettime is left alone. */
#define _GNU_SOURCE
#include <dlfcn.h>
#include <sys/time.h>
#include <time.h>
#define FIXED_SECOND 1500000000 /* 14/07/2017 */
time_t time(time_t *t) {
  if (t)
    *t = FIXED_SECOND;
  return FIXED_SECOND;
}
int gettimeofday(struct timeval *tv, void *tz) {
  static int (*real)(struct timeval *, void *) = 0;
  int r;
  if (!real)
    real = (int (*)(struct timeval *, void *))dlsym(RTLD_NEXT, "gettimeofday");
  r = real(tv, tz);
  if (r == 0 && tv) {
    tv->tv_sec = FIXED_SECOND;
  }
  return r;
}
