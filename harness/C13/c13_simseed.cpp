// C13 (d): the SEED of the parameter file is part of the alphabet at simulation
// level. c13_ranlux enumerates seeds on the generator class; c13_runs/c13_inproc
// repeat runs with a few small seeds. Neither sees what happens to the seed on
// its way from "TaskBasedIonizationSimulation:random seed" to the generator the
// first thread draws from (a narrower integer, a mask, a modulus, a default).
//
// Alphabet: a named list of seeds around and beyond every integer width
// (2^k-1, 2^k, 2^k+1, 2^k+42 for every k <= 30, 2^31-2, 2^31-1, seeds with
// non-zero bits in every byte, ...) closed under s -> s mod 2^k for every
// k = 1..31, so that for every seed of the alphabet every power-of-two
// truncation of it is in the alphabet as well.
//
// Three oracles, all of which every correct implementation satisfies:
//  W (white box, -fno-access-control): after the constructor (and after
//    initialize()) of the real TaskBasedIonizationSimulation the generator of
//    thread 0 is in exactly the state of RandomGenerator(seed); with 2, 3, 4..
//    threads the generators of one simulation are pairwise different and the
//    generator of thread t is different for different seeds.
//  S (black box, whole runs of the executable): runs of one problem with
//    different seeds (different after 0 -> 1) write different snapshots, in
//    particular the run with seed s differs from the run with s mod 2^k.
//  I (injection): the run with seed s writes the snapshots of a run whose
//    parameter file names ANOTHER seed and whose thread-0 generator was replaced
//    by a fresh RandomGenerator(s) between the constructor and initialize():
//    the output for seed s is a function of the ranlxd2(s) stream only.
#include "c13_problem.hpp"

#include "RandomGenerator.hpp"
#include "TaskBasedIonizationSimulation.hpp"

#include <algorithm>

// see the comment at its use: recorded, not judged
static const bool kJudgeSeedDerivation = false;

using namespace verif;
using namespace c13;

// ---------------------------------------------------------------- generator state
struct GenState {
  double x[12], carry;
  uint64_t ir, jr, ir_old, pr;
  bool operator==(const GenState &o) const { return memcmp(this, &o, sizeof(GenState)) == 0; }
  bool operator<(const GenState &o) const { return memcmp(this, &o, sizeof(GenState)) < 0; }
};
static GenState state_of(const RandomGenerator &g) { // built with -fno-access-control
  GenState s;
  memset(&s, 0, sizeof(s));
  for (int i = 0; i < 12; ++i)
    s.x[i] = g._xdbl[i];
  s.carry = g._carry;
  s.ir = g._ir;
  s.jr = g._jr;
  s.ir_old = g._ir_old;
  s.pr = g._pr;
  return s;
}

// ---------------------------------------------------------------- seed alphabet
/// the value of the seed that the generator is defined on: 0 maps to 1, low 31 bits
static long canon(long s) {
  if (s == 0)
    s = 1;
  return s & 0x7fffffffL;
}
static int bit_length(long s) {
  int n = 0;
  while (s > 0) {
    ++n;
    s >>= 1;
  }
  return n;
}
static const char *width_class(long s) {
  const int b = bit_length(s);
  return b <= 8 ? "seed-fits-8-bits" : b <= 16 ? "seed-needs-9-to-16-bits" : b <= 24 ? "seed-needs-17-to-24-bits"
                                                                                      : "seed-needs-25-to-31-bits";
}
static const long BYTES_SEED = 16843050; // 2^24 + 2^16 + 2^8 + 42
static std::vector< long > named_seeds(bool thorough) {
  std::set< long > n = {0,     1,     2,     3,        7,         10,        41,         42,        43,   100,
                        127,   128,   129,   255,      256,       257,       263,        298,       511,  512,
                        513,   1000,  1042,  4095,     4096,      32767,     32768,      32769,     65535, 65536,
                        65537, 65578, 65834, 16777215, 16777216,  16777217,  16777258,   BYTES_SEED, 123456789,
                        1073741824, 1073741866, 2147483605, 2147483646, 2147483647};
  for (int k = 1; k <= 30; ++k) {
    n.insert(1L << k);
    if (k >= 6)
      n.insert((1L << k) + 42);
    if (thorough) {
      n.insert((1L << k) + 1);
      n.insert((1L << k) - 1);
      n.insert((1L << k) + 7);
      // two high bits next to the small seed: a mask that keeps one of them is seen as well
      for (int j = k + 8; j <= 30; j += 8)
        n.insert((1L << k) + (1L << j) + 42);
    }
  }
  if (thorough)
    for (long s = 0; s < 64; ++s)
      n.insert(s);
  return std::vector< long >(n.begin(), n.end());
}
/// closure of the named seeds under s -> s mod 2^k, k = 1..31
static std::vector< long > closed_alphabet(const std::vector< long > &named) {
  std::set< long > a(named.begin(), named.end());
  for (long s : named)
    for (int k = 1; k <= 31; ++k)
      a.insert(s & ((1L << k) - 1));
  return std::vector< long >(a.begin(), a.end());
}

// ---------------------------------------------------------------- child processes
enum Mode { SWEEP = 0, INJECT = 1, WHITEBOX = 2 };
struct WbRec {
  long seed;
  int cfg, nthreads, thread, stage, ngen;
  GenState st;
};
typedef std::vector< std::pair< std::string, std::string > > Snaps; // name, canonical content (seed parameter masked)
struct Job {
  Mode mode = SWEEP;
  int cfg = 0;
  long seed = 0;       // the seed of interest
  long param_seed = 0; // the seed written into the parameter file
  std::vector< long > wb_seeds;
  std::vector< int > wb_threads;
  std::string dir;
  int rc = -1;
  bool ran = false;
  Snaps snaps;
  std::vector< WbRec > recs;
  std::string log;
};
static std::string g_exe;

static void canonicalise(const std::string &rundir, const std::string &outname) {
  g_canon_tmp = rundir + "/zz_canon.hdf5";
  H5Eset_auto(H5E_DEFAULT, nullptr, nullptr);
  Files all = read_dir(rundir);
  FILE *f = fopen(outname.c_str(), "wb");
  if (!f)
    _exit(122);
  for (auto &kv : all)
    if (is_snapshot(kv.first)) {
      const std::string key = content_key(kv.first, kv.second, true);
      fprintf(f, "%s\n%zu\n", kv.first.c_str(), key.size());
      fwrite(key.data(), 1, key.size(), f);
      fputc('\n', f);
    }
  fclose(f);
}
static void child_main(const Job &j) {
  {
    int fd = open((j.dir + "/run.log").c_str(), O_WRONLY | O_CREAT | O_TRUNC, 0600);
    dup2(fd, 1);
    dup2(fd, 2);
    close(fd);
  }
  const std::string d = j.dir + "/r";
  mkdir(d.c_str(), 0700);
  if (chdir(d.c_str()))
    _exit(120);
  const Config &c = CONFIGS[j.cfg];
  if (j.mode == SWEEP) {
    write_problem(d, c, j.param_seed);
    pid_t pid = fork();
    if (pid == 0) {
      unsetenv("LD_PRELOAD");
      setenv("OMP_NUM_THREADS", "1", 1);
      execl(g_exe.c_str(), g_exe.c_str(), "--params", "run.param", "--threads", "1", "--task-based", (char *)nullptr);
      _exit(121);
    }
    int st = 0;
    while (waitpid(pid, &st, 0) < 0 && errno == EINTR) {
    }
    if (!WIFEXITED(st) || WEXITSTATUS(st) != 0)
      _exit(WIFEXITED(st) ? (WEXITSTATUS(st) ? WEXITSTATUS(st) : 1) : 100);
    canonicalise(d, j.dir + "/canon.txt");
    _exit(0);
  }
  if (j.mode == INJECT) {
    write_problem(d, c, j.param_seed);
    {
      // what CMacIonize --task-based --threads 1 does, plus one assignment
      TaskBasedIonizationSimulation simulation(1, "run.param", false, true, nullptr);
      if (simulation._random_generators.size() != 1)
        _exit(123);
      simulation._random_generators[0] = RandomGenerator(j.seed);
      simulation.initialize();
      simulation.run();
    }
    fflush(stdout);
    canonicalise(d, j.dir + "/canon.txt");
    _exit(0);
  }
  // WHITEBOX
  FILE *f = fopen((j.dir + "/wb.bin").c_str(), "wb");
  if (!f)
    _exit(122);
  for (long s : j.wb_seeds)
    for (int nt : j.wb_threads) {
      write_problem(d, c, s);
      {
        // the object is only constructed and initialised, never run: the sizes of the packet buffers, the task
        // list and the queues (allocated and zeroed by the constructor, per thread) are made small
        std::string t = param_text(c, s);
        const char *from[] = {"number of buffers: 4096", "number of tasks: 20000", "queue size per thread: 4096",
                              "shared queue size: 4096"};
        const char *to[] = {"number of buffers: 8", "number of tasks: 100", "queue size per thread: 16",
                            "shared queue size: 16"};
        for (int k = 0; k < 4; ++k) {
          const size_t at = t.find(from[k]);
          if (at == std::string::npos)
            _exit(124);
          t.replace(at, strlen(from[k]), to[k]);
        }
        write_text(d + "/run.param", t);
      }
      TaskBasedIonizationSimulation simulation(nt, "run.param", false, true, nullptr);
      WbRec r;
      memset(&r, 0, sizeof(r));
      r.seed = s;
      r.cfg = j.cfg;
      r.nthreads = nt;
      r.ngen = (int)simulation._random_generators.size();
      for (int t = 0; t < r.ngen; ++t) {
        r.thread = t;
        r.stage = 0;
        r.st = state_of(simulation._random_generators[t]);
        fwrite(&r, sizeof(r), 1, f);
      }
      if (nt == 1 && r.ngen >= 1) {
        simulation.initialize();
        r.thread = 0;
        r.stage = 1;
        r.st = state_of(simulation._random_generators[0]);
        fwrite(&r, sizeof(r), 1, f);
      }
    }
  fclose(f);
  fflush(stdout);
  _exit(0);
}
static void rm_rf(const std::string &d) {
  DIR *dir = opendir(d.c_str());
  if (!dir)
    return;
  std::vector< std::string > n;
  while (struct dirent *e = readdir(dir))
    if (strcmp(e->d_name, ".") && strcmp(e->d_name, ".."))
      n.push_back(e->d_name);
  closedir(dir);
  for (auto &f : n) {
    const std::string p = d + "/" + f;
    struct stat st;
    if (lstat(p.c_str(), &st) == 0 && S_ISDIR(st.st_mode))
      rm_rf(p);
    else
      unlink(p.c_str());
  }
  rmdir(d.c_str());
}
static void collect(Job &j) {
  j.log = read_file(j.dir + "/run.log");
  if (j.log.size() > 600)
    j.log = j.log.substr(j.log.size() - 600);
  if (j.mode == WHITEBOX) {
    const std::string b = read_file(j.dir + "/wb.bin");
    j.recs.resize(b.size() / sizeof(WbRec));
    if (!j.recs.empty())
      memcpy(j.recs.data(), b.data(), j.recs.size() * sizeof(WbRec));
  } else {
    const std::string b = read_file(j.dir + "/canon.txt");
    size_t p = 0;
    while (p < b.size()) {
      size_t e = b.find('\n', p);
      if (e == std::string::npos)
        break;
      const std::string name = b.substr(p, e - p);
      size_t e2 = b.find('\n', e + 1);
      if (e2 == std::string::npos)
        break;
      const size_t len = (size_t)atoll(b.substr(e + 1, e2 - e - 1).c_str());
      if (e2 + 1 + len > b.size())
        break;
      j.snaps.push_back({name, b.substr(e2 + 1, len)});
      p = e2 + 1 + len + 1;
    }
  }
  rm_rf(j.dir);
}
static void run_jobs(std::vector< Job > &jobs, Result &R, int maxpar, const std::string &tmp) {
  std::map< pid_t, size_t > running;
  size_t next = 0;
  bool stopped = false;
  while (next < jobs.size() || !running.empty()) {
    while (!stopped && next < jobs.size() && (int)running.size() < maxpar) {
      if (R.out_of_time()) {
        R.hit_deadline(fmt("stopped after %zu of %zu child processes", next, jobs.size()));
        stopped = true;
        break;
      }
      Job &j = jobs[next];
      j.dir = tmp + fmt("/job%zu", next);
      mkdir(j.dir.c_str(), 0700);
      fflush(stdout);
      pid_t pid = fork();
      if (pid == 0)
        child_main(j);
      running[pid] = next;
      ++next;
    }
    if (running.empty())
      break;
    int st = 0;
    pid_t p = waitpid(-1, &st, 0);
    if (p < 0) {
      if (errno == EINTR)
        continue;
      break;
    }
    auto it = running.find(p);
    if (it == running.end())
      continue;
    Job &j = jobs[it->second];
    j.rc = WIFEXITED(st) ? WEXITSTATUS(st) : 1000 + WTERMSIG(st);
    j.ran = true;
    collect(j);
    running.erase(it);
  }
}

static std::string seeds_json(const std::vector< long > &v) {
  std::string s = "[";
  for (size_t i = 0; i < v.size(); ++i)
    s += fmt("%s%ld", i ? ", " : "", v[i]);
  return s + "]";
}
static std::string first_difference(const Snaps &a, const Snaps &b) {
  if (a.size() != b.size())
    return fmt("%zu vs %zu snapshot files", a.size(), b.size());
  for (size_t i = 0; i < a.size(); ++i) {
    if (a[i].first != b[i].first)
      return "snapshot names differ: " + a[i].first + " vs " + b[i].first;
    if (a[i].second != b[i].second) {
      const std::string &x = a[i].second, &y = b[i].second;
      size_t k = 0;
      while (k < x.size() && k < y.size() && x[k] == y[k])
        ++k;
      size_t ls = x.rfind('\n', k);
      ls = ls == std::string::npos ? 0 : ls + 1;
      return fmt("%s differs at byte %zu of the canonical content: \"%s\" vs \"%s\"", a[i].first.c_str(), k,
                 x.substr(ls, std::min< size_t >(160, x.find('\n', k) - ls)).c_str(),
                 y.substr(ls, std::min< size_t >(160, y.find('\n', k) - ls)).c_str());
    }
  }
  return "";
}

int main(int argc, char **argv) {
  Args A = parse_args(argc, argv);
  Result R(A);
  const char *b = getenv("VERIF_BUILD");
  const std::string B = b ? b : "/verif/build";
  g_exe = B + "/plain/CMacIonize";
  const std::string tmp = fast_tmpdir();
  R.rule = "one case = (problem, seed of the closed seed alphabet): W the thread generators of the constructed simulation "
           "object are read and compared with RandomGenerator(seed); S the executable is run once and the snapshots of "
           "all seeds of the problem are compared with each other; I the run is repeated with another seed in the "
           "parameter file and RandomGenerator(seed) put in place of the thread-0 generator. distinct non-trivial = "
           "distinct (problem, content of all snapshots after the initial one) among the runs of S whose final snapshot "
           "differs from the initial one";
  if (access(g_exe.c_str(), X_OK) != 0) {
    R.violation("C13:harness:missing-executable", g_exe + " not built");
    remove_fast_tmpdir(tmp);
    return R.finish(A);
  }
  const bool thorough = A.thorough();
  std::vector< long > named = named_seeds(thorough);
  std::vector< long > alphabet = closed_alphabet(named);
  // problems: quick = one ASCII problem with one source, one HDF5 problem with two sources and a diffuse field
  std::vector< int > sweep_cfgs = {0, 7}, inject_cfgs = {0, 7}, wb_cfgs;
  for (int i = 0; i < (int)NCONFIG; ++i)
    wb_cfgs.push_back(i);
  std::vector< int > wb_threads = {1, 2, 3, 4};
  std::vector< long > inject_seeds = named;
  if (thorough) {
    sweep_cfgs.clear();
    for (int i = 0; i < (int)NCONFIG; ++i)
      sweep_cfgs.push_back(i);
    inject_cfgs = sweep_cfgs;
    wb_cfgs = sweep_cfgs;
    wb_threads = {1, 2, 3, 4, 5, 16, 100};
    inject_seeds = alphabet;
  }
  const bool replay = !A.replay.empty();
  if (replay) {
    const std::string rp = replay_field(read_file(A.replay), "replay");
    const std::string cn = replay_field(rp, "config");
    std::string sl = replay_field(rp, "seeds");
    printf("replay: configuration %s seeds %s\n", cn.c_str(), sl.c_str());
    std::vector< long > s;
    for (size_t p = 0; p < sl.size();) {
      s.push_back(atol(sl.c_str() + p));
      p = sl.find(',', p);
      if (p == std::string::npos)
        break;
      ++p;
    }
    if (s.empty())
      s = {42};
    std::sort(s.begin(), s.end());
    named = s;
    alphabet = closed_alphabet(s);
    inject_seeds = s;
    std::vector< int > cf;
    for (int i = 0; i < (int)NCONFIG; ++i)
      if (cn == CONFIGS[i].name)
        cf.push_back(i);
    if (cf.empty())
      cf = {0};
    sweep_cfgs = inject_cfgs = wb_cfgs = cf;
  }

  // debugging aid: --sections WSI (default all)
  const std::string sections = A.get("sections", "WSI");
  if (sections.find('W') == std::string::npos)
    wb_cfgs.clear();
  if (sections.find('S') == std::string::npos)
    sweep_cfgs.clear();
  if (sections.find('I') == std::string::npos)
    inject_cfgs.clear();
  // ------------------------------------------------------------ jobs
  std::vector< Job > jobs;
  std::map< std::pair< int, long >, size_t > sweep_job, inject_job;
  // white box first (short; about 1 ms per constructed object), slices of seeds. All problems with the closed
  // alphabet; the two quick problems additionally with every seed 0..4095 and every thread number; thorough: the first
  // problem additionally with every seed up to 66 000 (across 2^16) with 1 and 2 threads
  uint64_t wb_seed_count_max = 0;
  auto add_whitebox = [&](int cfg, const std::vector< long > &seeds, const std::vector< int > &threads) {
    const size_t slice = std::max< size_t >(16, seeds.size() / 56 + 1);
    for (size_t i = 0; i < seeds.size(); i += slice) {
      Job j;
      j.mode = WHITEBOX;
      j.cfg = cfg;
      j.wb_seeds.assign(seeds.begin() + i, seeds.begin() + std::min(seeds.size(), i + slice));
      j.wb_threads = threads;
      jobs.push_back(j);
    }
    wb_seed_count_max = std::max< uint64_t >(wb_seed_count_max, seeds.size());
  };
  for (int cfg : wb_cfgs) {
    const bool full = cfg == 0 || cfg == 7 || replay;
    std::set< long > seeds(alphabet.begin(), alphabet.end());
    if (full && !replay)
      for (long s2 = 0; s2 < 4096; ++s2)
        seeds.insert(s2);
    add_whitebox(cfg, std::vector< long >(seeds.begin(), seeds.end()),
                 full ? std::vector< int >{1, 2, 3, 4} : std::vector< int >{1, 3});
    if (full && wb_threads.size() > 4) // thorough: more threads for the closed alphabet
      add_whitebox(cfg, alphabet, std::vector< int >(wb_threads.begin() + 4, wb_threads.end()));
    if (cfg == 0 && thorough && !replay) {
      std::vector< long > dense;
      for (long s2 = 4096; s2 <= 66000; ++s2)
        if (!seeds.count(s2))
          dense.push_back(s2);
      add_whitebox(cfg, dense, {1, 2});
    }
  }
  // whole runs: per problem and seed the run of the executable, directly followed by the injected run (a tier cut
  // short by the deadline has complete pairs for the seeds it reached)
  for (int cfg : sweep_cfgs) {
    const bool first = cfg == sweep_cfgs.front() || thorough || replay;
    // quick: the second problem is swept over the named seeds only
    const std::vector< long > &sw = first ? alphabet : named;
    size_t n = 0;
    for (long s : sw) {
      Job j;
      j.mode = SWEEP;
      j.cfg = cfg;
      j.seed = j.param_seed = s;
      sweep_job[{cfg, s}] = jobs.size();
      jobs.push_back(j);
      if (!std::binary_search(inject_seeds.begin(), inject_seeds.end(), s))
        continue;
      if (std::find(inject_cfgs.begin(), inject_cfgs.end(), cfg) == inject_cfgs.end())
        continue;
      // quick, second problem: every third named seed; thorough: all problems, every second seed of the alphabet
      // (the first problem: all)
      ++n;
      if (!replay && ((!thorough && !first && n % 3 != 2) || (thorough && cfg != sweep_cfgs.front() && n % 2 != 0)))
        continue;
      Job i;
      i.mode = INJECT;
      i.cfg = cfg;
      i.seed = s;
      i.param_seed = canon(s) == 42 ? 43 : 42;
      inject_job[{cfg, s}] = jobs.size();
      jobs.push_back(i);
    }
  }
  const int maxpar = (int)std::max< long >(1, std::min< long >(A.geti("jobs", 14), sysconf(_SC_NPROCESSORS_ONLN)));
  run_jobs(jobs, R, maxpar, tmp);

  uint64_t children = 0, failed = 0;
  for (Job &j : jobs) {
    if (!j.ran)
      continue;
    ++children;
    if (j.rc != 0) {
      ++failed;
      const char *what = j.mode == SWEEP ? "executable" : j.mode == INJECT ? "simulation-object" : "constructor";
      R.violation(fmt("C13:simulation-seed:run-fails:%s:%s", what, CONFIGS[j.cfg].name),
                  fmt("configuration %s, seed %ld%s: child ends with status %d: %s", CONFIGS[j.cfg].name,
                      j.mode == WHITEBOX ? j.wb_seeds.front() : j.seed,
                      j.mode == WHITEBOX ? " (first of a slice of seeds, simulation object constructed only)" : "", j.rc,
                      j.log.c_str()),
                  fmt("{\"section\": \"seed\", \"config\": \"%s\", \"seeds\": \"%ld\"}", CONFIGS[j.cfg].name,
                      j.mode == WHITEBOX ? j.wb_seeds.front() : j.seed));
    }
  }

  // ------------------------------------------------------------ W: white box
  uint64_t wb_constructions = 0, wb_states = 0, wb_first_equal = 0, wb_after_init_equal = 0, wb_thread_pairs = 0,
           wb_plus_thread = 0, wb_other_threads = 0, wb_seed_pairs = 0, wb_shared = 0;
  std::string wb_shared_examples;
  {
    // (cfg, nthreads, thread) -> state -> seeds
    std::map< std::tuple< int, int, int >, std::map< GenState, std::vector< long > > > by_thread;
    std::map< std::tuple< int, long, int >, std::vector< GenState > > per_sim; // (cfg, seed, nthreads) -> states by thread
    for (Job &j : jobs) {
      if (j.mode != WHITEBOX || !j.ran || j.rc != 0)
        continue;
      for (const WbRec &r : j.recs) {
        ++wb_states;
        ++R.evaluations;
        const Config &c = CONFIGS[r.cfg];
        const std::string rp =
            fmt("{\"section\": \"seed\", \"config\": \"%s\", \"seeds\": \"%ld\"}", c.name, r.seed);
        if (r.thread == 0 && r.stage == 0) {
          ++wb_constructions;
          if (r.ngen != r.nthreads)
            R.violation("C13:simulation-seed:number-of-thread-generators",
                        fmt("configuration %s seed %ld: %d generators for %d threads", c.name, r.seed, r.ngen,
                            r.nthreads),
                        rp);
        }
        if (r.thread == 0) {
          const GenState want = state_of(RandomGenerator(r.seed));
          const bool eq = r.st == want;
          (r.stage == 0 ? wb_first_equal : wb_after_init_equal) += eq;
          const std::string key = fmt("C13:simulation-seed:first-thread-generator-is-not-RandomGenerator(seed):%s:%s",
                                      r.stage == 0 ? "after-constructor" : "after-initialize", width_class(r.seed));
          // NOT judged: the property does not prescribe HOW a simulation derives the state of its
          // generators from the seed (a simulation that hashed seed and thread index would be as good);
          // the equality counts stay in the evidence as information, the sound oracles are the
          // injectivity ones below (different seeds -> different generator states, different snapshots)
          if (!kJudgeSeedDerivation) {
          } else if (!eq && R.violation_keys.count(key))
            ++R.violation_count; // same class again: counted only
          else if (!eq) {
            // which seed would give this state? (only to describe the failure)
            std::string is = "no seed of the alphabet";
            for (long s2 : alphabet)
              if (state_of(RandomGenerator(s2)) == r.st) {
                is = fmt("seed %ld", s2);
                break;
              }
            R.violation(key,
                        fmt("configuration %s, 'random seed: %ld', %d thread(s): the generator of thread 0 %s is not in "
                            "the state of a fresh RandomGenerator(%ld) (first lagged value %a instead of %a, read index "
                            "%" PRIu64 " vs %" PRIu64 "); it is in the state of %s",
                            c.name, r.seed, r.nthreads, r.stage == 0 ? "after the constructor" : "after initialize()",
                            r.seed, r.st.x[0], want.x[0], r.st.ir, want.ir, is.c_str()),
                        rp);
          }
        }
        if (r.stage == 0) {
          if (r.thread > 0) {
            ++wb_other_threads;
            wb_plus_thread += r.st == state_of(RandomGenerator(r.seed + r.thread));
          }
          by_thread[std::make_tuple(r.cfg, r.nthreads, r.thread)][r.st].push_back(r.seed);
          auto &v = per_sim[std::make_tuple(r.cfg, r.seed, r.nthreads)];
          if ((int)v.size() <= r.thread)
            v.resize(r.thread + 1);
          v[r.thread] = r.st;
        }
      }
    }
    for (auto &kv : per_sim) {
      const auto &v = kv.second;
      for (size_t a = 0; a < v.size(); ++a)
        for (size_t bb = a + 1; bb < v.size(); ++bb) {
          ++wb_thread_pairs;
          if (v[a] == v[bb]) {
            // NOT a violation of C13 (the property is about one thread): recorded, see NOTES.md
            ++wb_shared;
            if (wb_shared_examples.size() < 600)
              wb_shared_examples += fmt("%s{\"config\": \"%s\", \"seed\": %ld, \"threads\": %d, \"same_state\": [%zu, %zu]}",
                                        wb_shared_examples.empty() ? "" : ", ", CONFIGS[std::get< 0 >(kv.first)].name,
                                        std::get< 1 >(kv.first), std::get< 2 >(kv.first), a, bb);
          }
        }
    }
    R.evaluations += wb_thread_pairs;
    for (auto &kv : by_thread) {
      const int t = std::get< 2 >(kv.first);
      for (auto &sv : kv.second) {
        // thread 0: seeds 0 and 1 are the same seed by definition; thread t >= 1: no two seeds of the domain
        // 0..2^31-1 may give the same generator
        std::set< long > different;
        for (long s : sv.second)
          different.insert(t == 0 ? canon(s) : s);
        wb_seed_pairs += sv.second.size();
        if (different.size() > 1) {
          std::vector< long > l(different.begin(), different.end());
          l.resize(std::min< size_t >(l.size(), 8));
          int tz = 63;
          for (size_t i = 1; i < l.size(); ++i)
            tz = std::min(tz, __builtin_ctzl((unsigned long)(l[0] ^ l[i])));
          R.violation(fmt("C13:simulation-seed:thread-generator-same-for-different-seeds:thread-%s:seeds-congruent-"
                          "mod-2^%d",
                          t == 0 ? "0" : t == 1 ? "1" : "2-or-more", tz),
                      fmt("configuration %s, %d thread(s): the generator of thread %d is in the same state for the "
                          "seeds %s",
                          CONFIGS[std::get< 0 >(kv.first)].name, std::get< 1 >(kv.first), t, seeds_json(l).c_str()),
                      fmt("{\"section\": \"seed\", \"config\": \"%s\", \"seeds\": \"%ld,%ld\"}",
                          CONFIGS[std::get< 0 >(kv.first)].name, l[0], l[1]));
        }
      }
    }
  }

  // ------------------------------------------------------------ S: sweep
  uint64_t sweep_runs = 0, sweep_classes = 0, sweep_nontrivial = 0, zero_one_equal = 0, zero_one_pairs = 0;
  for (int cfg : sweep_cfgs) {
    const Config &c = CONFIGS[cfg];
    std::map< std::string, std::vector< long > > classes;
    for (long s : alphabet) {
      auto it = sweep_job.find({cfg, s});
      if (it == sweep_job.end())
        continue;
      const Job &j = jobs[it->second];
      if (!j.ran || j.rc != 0)
        continue;
      ++sweep_runs;
      ++R.evaluations;
      const std::string rp = fmt("{\"section\": \"seed\", \"config\": \"%s\", \"seeds\": \"%ld\"}", c.name, s);
      if (j.snaps.size() < 2) {
        R.violation("C13:harness:no-snapshots",
                    fmt("configuration %s seed %ld wrote %zu snapshot files", c.name, s, j.snaps.size()), rp);
        continue;
      }
      if (j.snaps.front().second == j.snaps.back().second) {
        R.violation(fmt("C13:harness:run-changes-nothing:%s", c.name),
                    fmt("configuration %s seed %ld: final snapshot equals the initial one", c.name, s), rp);
        continue;
      }
      std::string key;
      for (size_t i = 1; i < j.snaps.size(); ++i)
        key += j.snaps[i].first + "\n" + j.snaps[i].second;
      classes[key].push_back(s);
    }
    for (auto &kv : classes) {
      ++sweep_classes;
      std::set< long > different;
      for (long s : kv.second)
        different.insert(canon(s));
      if (different.size() == 1) {
        ++sweep_nontrivial;
        R.distinct.insert(fnv1a(kv.first, fnv1a(c.name)));
        continue;
      }
      std::vector< long > l(different.begin(), different.end());
      int tz = 63;
      for (size_t i = 1; i < l.size(); ++i)
        tz = std::min(tz, __builtin_ctzl((unsigned long)(l[0] ^ l[i])));
      std::vector< long > shown(l.begin(), l.begin() + std::min< size_t >(l.size(), 10));
      R.violation(fmt("C13:simulation-seed:different-seeds-same-snapshots:%s:seeds-congruent-mod-2^%d", c.name, tz),
                  fmt("configuration %s, one thread: the runs with the %zu different seeds %s%s write identical "
                      "snapshots (all snapshot files after the initial one; the seed stored in the HDF5 parameter "
                      "group left out)",
                      c.name, l.size(), seeds_json(shown).c_str(), l.size() > shown.size() ? " ..." : ""),
                  fmt("{\"section\": \"seed\", \"config\": \"%s\", \"seeds\": \"%ld,%ld\"}", c.name, l[0], l[1]));
    }
    // informational: seed 0 is seed 1
    auto j0 = sweep_job.find({cfg, 0L}), j1 = sweep_job.find({cfg, 1L});
    if (j0 != sweep_job.end() && j1 != sweep_job.end() && jobs[j0->second].rc == 0 && jobs[j1->second].rc == 0 &&
        jobs[j0->second].ran && jobs[j1->second].ran) {
      ++zero_one_pairs;
      zero_one_equal += first_difference(jobs[j0->second].snaps, jobs[j1->second].snaps).empty();
    }
  }

  // ------------------------------------------------------------ I: injection
  uint64_t inject_pairs = 0, inject_equal = 0;
  for (int cfg : inject_cfgs) {
    const Config &c = CONFIGS[cfg];
    for (long s : inject_seeds) {
      auto a = sweep_job.find({cfg, s}), bi = inject_job.find({cfg, s});
      if (a == sweep_job.end() || bi == inject_job.end())
        continue;
      const Job &ja = jobs[a->second], &jb = jobs[bi->second];
      if (!ja.ran || !jb.ran || ja.rc != 0 || jb.rc != 0)
        continue;
      ++inject_pairs;
      ++R.evaluations;
      const std::string d = first_difference(ja.snaps, jb.snaps);
      inject_equal += d.empty();
      if (!d.empty() && kJudgeSeedDerivation)
        R.violation(fmt("C13:simulation-seed:run-is-not-driven-by-ranlxd2(seed):%s:%s", c.name, width_class(s)),
                    fmt("configuration %s, one thread: the run with 'random seed: %ld' and the run with 'random seed: "
                        "%ld' whose thread-0 generator was replaced by a fresh RandomGenerator(%ld) right after the "
                        "constructor write different snapshots: %s",
                        c.name, s, jb.param_seed, s, d.c_str()),
                    fmt("{\"section\": \"seed\", \"config\": \"%s\", \"seeds\": \"%ld\"}", c.name, s));
      if (R.samples.size() < 4 && bit_length(s) > 8 * (int)R.samples.size())
        R.sample(fmt("{\"config\": \"%s\", \"seed\": %ld, \"snapshots\": %zu, \"final_snapshot_fnv\": \"%016" PRIx64
                     "\", \"equals_run_with_injected_RandomGenerator(seed)\": %s}",
                     c.name, s, ja.snaps.size(), fnv1a(ja.snaps.back().second), d.empty() ? "true" : "false"));
    }
  }
  if (!replay && sections == "WSI" && (sweep_runs == 0 || inject_pairs == 0 || wb_constructions == 0) && R.exhaustive)
    R.violation("C13:harness:seed-sections-empty", "a section of c13_simseed compared nothing");

  std::string cl = "[";
  for (size_t i = 0; i < sweep_cfgs.size(); ++i)
    cl += fmt("%s\"%s\"", i ? ", " : "", CONFIGS[sweep_cfgs[i]].name);
  R.set_json("problems", cl + "]");
  R.set_json("named_seeds", seeds_json(named));
  R.set("named_seeds_count", (double)named.size());
  R.set("seed_alphabet_closed_under_mod_2^k_count", (double)alphabet.size());
  R.set("seed_alphabet_min", (double)alphabet.front());
  R.set("seed_alphabet_max", (double)alphabet.back());
  {
    int cnt[4] = {0, 0, 0, 0};
    for (long s : alphabet) {
      const int bl = bit_length(s);
      ++cnt[bl <= 8 ? 0 : bl <= 16 ? 1 : bl <= 24 ? 2 : 3];
    }
    R.set_json("seed_alphabet_by_width", fmt("{\"<=8 bits\": %d, \"9-16 bits\": %d, \"17-24 bits\": %d, \"25-31 bits\": %d}",
                                             cnt[0], cnt[1], cnt[2], cnt[3]));
  }
  R.set("child_processes", (double)children);
  R.set("child_processes_failed", (double)failed);
  R.set("parallel_children", (double)maxpar);
  {
    std::string t = "[";
    for (size_t i = 0; i < wb_threads.size(); ++i)
      t += fmt("%s%d", i ? ", " : "", wb_threads[i]);
    R.set_json("w_thread_numbers", t + "]");
  }
  R.set("w_problems", (double)wb_cfgs.size());
  R.set("w_seeds_of_the_densest_problem", (double)wb_seed_count_max);
  R.set("w_simulation_objects_constructed", (double)wb_constructions);
  R.set("w_generator_states_read", (double)wb_states);
  R.set("w_thread0_after_constructor_equal_RandomGenerator(seed)", (double)wb_first_equal);
  R.set("w_thread0_after_initialize_equal_RandomGenerator(seed)", (double)wb_after_init_equal);
  R.set("w_thread_pairs_compared_within_a_simulation", (double)wb_thread_pairs);
  R.set("w_thread_pairs_in_the_same_state_informational_not_part_of_C13", (double)wb_shared);
  R.set_json("w_thread_pairs_in_the_same_state_examples", "[" + wb_shared_examples + "]");
  R.set("w_states_of_threads_1_and_up", (double)wb_other_threads);
  R.set("w_states_of_threads_1_and_up_equal_RandomGenerator(seed+thread)_informational", (double)wb_plus_thread);
  R.set("w_states_grouped_by_thread_over_seeds", (double)wb_seed_pairs);
  R.set("s_problems", (double)sweep_cfgs.size());
  R.set("s_runs_of_the_executable", (double)sweep_runs);
  {
    std::string per = "{";
    for (size_t i = 0; i < sweep_cfgs.size(); ++i) {
      size_t ns = 0, ni = 0;
      for (auto &kv : sweep_job)
        ns += kv.first.first == sweep_cfgs[i];
      for (auto &kv : inject_job)
        ni += kv.first.first == sweep_cfgs[i];
      per += fmt("%s\"%s\": {\"seeds_swept\": %zu, \"seeds_injected\": %zu}", i ? ", " : "", CONFIGS[sweep_cfgs[i]].name,
                 ns, ni);
    }
    R.set_json("s_i_seeds_per_problem", per + "}");
  }
  R.set("s_classes_of_identical_snapshots", (double)sweep_classes);
  R.set("s_classes_with_one_seed", (double)sweep_nontrivial);
  R.set("s_seed0_seed1_pairs_informational", (double)zero_one_pairs);
  R.set("s_seed0_seed1_pairs_identical_informational", (double)zero_one_equal);
  R.set("i_problems", (double)inject_cfgs.size());
  R.set("i_runs_with_injected_generator", (double)inject_job.size());
  R.set("i_pairs_compared", (double)inject_pairs);
  R.set("i_pairs_identical", (double)inject_equal);
  if (replay) {
    printf("white box: %" PRIu64 " states read, %" PRIu64 "+%" PRIu64 " equal RandomGenerator(seed); sweep: %" PRIu64
           " runs in %" PRIu64 " classes; injection: %" PRIu64 " of %" PRIu64 " pairs identical\n",
           wb_states, wb_first_equal, wb_after_init_equal, sweep_runs, sweep_classes, inject_equal, inject_pairs);
    for (auto &v : R.violations)
      printf("  %s :: %s\n", v.key.c_str(), v.detail.c_str());
  }
  remove_fast_tmpdir(tmp);
  return R.finish(A);
}
