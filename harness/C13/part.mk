# harness executables (name, sources, flavour, extra compile flags, extra link flags)
C13_GSL := $(if $(wildcard /usr/include/gsl/gsl_rng.h),yes,)
$(eval $(call HARNESS,c13_ranlux,$(V)/harness/C13/c13_ranlux.cpp,plain,$(if $(C13_GSL),-DC13_HAVE_GSL,),$(if $(C13_GSL),-lgsl -lgslcblas,)))
$(eval $(call HARNESS,c13_runs,$(V)/harness/C13/c13_runs.cpp,plain,,))
# the simulation object / photon source / re-emission classes used repeatedly inside one process
$(eval $(call HARNESS,c13_inproc,$(V)/harness/C13/c13_inproc.cpp,plain,-fno-access-control,))
# the seed of the parameter file as part of the alphabet (white box on the simulation object, whole runs, injection)
$(eval $(call HARNESS,c13_simseed,$(V)/harness/C13/c13_simseed.cpp,plain,-fno-access-control,))
$(B)/bin/c13_runs $(B)/bin/c13_inproc $(B)/bin/c13_simseed: $(V)/harness/C13/c13_problem.hpp
# preload shim giving both runs of a pair the same calendar time (snapshot "Creation time")
$(B)/bin/c13_fixedtime.so: $(V)/harness/C13/c13_fixedtime.c
	@mkdir -p $(B)/bin
	gcc -O1 -shared -fPIC $< -o $@ -ldl
BINS += $(B)/bin/c13_fixedtime.so
