// C13 (c): "all repeated runs of a given parameter file" includes repeating the
// run inside ONE process. Starting the executable twice (c13_runs) cannot see
// state that survives inside a process (function-level statics, the C library's
// rand(), caches): both processes start from the same hidden state. This
// harness links the real code and repeats things in the same process.
//
// Section A - whole simulations. For every problem of the alphabet
//   (c13_problem.hpp) a child process constructs, initialises and runs the real
//   TaskBasedIonizationSimulation object three times (fresh object each time,
//   own directory, the C library generators re-seeded differently in between);
//   runs 2 and 3 must write the same snapshots as run 1. Histories of length 2
//   over the alphabet: a child runs problem d and then problem c; c's
//   snapshots must equal those of c run first in a process (d = other problems
//   and the same problem with another seed). The first in-process run is also
//   compared with a run of the real executable (the in-process driver is the
//   program).
// Section B1 - DistributedPhotonSource constructed repeatedly for the same
//   (sources, weights, packet number, grid with copies): same packets per
//   source, back to back and after all other inputs.
// Section B2 - every consumer of random numbers that can be built alone
//   (physical/fixed re-emission, both overloads; source and re-emission
//   spectra; continuous sources): the same call sequence with a freshly seeded
//   generator must give bit-identical outputs and leave the generator in the
//   identical state - on the same object, on a second object, and after all
//   other consumers were used.
#include "c13_problem.hpp"

#include "DensitySubGridCreator.hpp"
#include "DistantStarContinuousPhotonSource.hpp"
#include "DistributedPhotonSource.hpp"
#include "FixedValueDiffuseReemissionHandler.hpp"
#include "HeliumLymanContinuumSpectrum.hpp"
#include "HeliumTwoPhotonContinuumSpectrum.hpp"
#include "HomogeneousDensityFunction.hpp"
#include "HydrogenLymanContinuumSpectrum.hpp"
#include "IsotropicContinuousPhotonSource.hpp"
#include "MonochromaticPhotonSourceSpectrum.hpp"
#include "Photon.hpp"
#include "PhotonPacket.hpp"
#include "PhysicalDiffuseReemissionHandler.hpp"
#include "PlanckPhotonSourceSpectrum.hpp"
#include "RandomGenerator.hpp"
#include "TaskBasedIonizationSimulation.hpp"
#include "UniformPhotonSourceSpectrum.hpp"
#include "VernerCrossSections.hpp"

#include <functional>
#include <memory>

using namespace verif;
using namespace c13;

/// between two repetitions the process-global generators of the C library are
/// put into another state: a result that depends on them is not a function of
/// (input, seed)
static void perturb_libc(unsigned k) {
  srand(20240928u + 7919u * k);
  for (unsigned i = 0; i < 13 * k + 5; ++i)
    (void)rand();
  srandom(977u + k);
  srand48(31337 + (long)k);
}

// =====================================================================
// Section A: whole simulations in one process
// =====================================================================
struct Step {
  int cfg;
  long seed;
};
struct Job {
  bool exe = false; // run the real executable once instead
  std::vector< Step > steps;
  std::string dir;
  pid_t pid = -1;
  int rc = -1;
  bool ran = false;
  std::vector< Files > out; // snapshot files per step
  std::string log;
};
static std::string g_exe;

static void child_redirect(const std::string &dir) {
  int fd = open((dir + "/run.log").c_str(), O_WRONLY | O_CREAT | O_TRUNC, 0600);
  dup2(fd, 1);
  dup2(fd, 2);
  close(fd);
}
static void child_main(const Job &j) {
  child_redirect(j.dir);
  if (j.exe) {
    const std::string d = j.dir + "/r0";
    mkdir(d.c_str(), 0700);
    write_problem(d, CONFIGS[j.steps[0].cfg], j.steps[0].seed);
    if (chdir(d.c_str()))
      _exit(120);
    unsetenv("LD_PRELOAD");
    setenv("OMP_NUM_THREADS", "1", 1);
    execl(g_exe.c_str(), g_exe.c_str(), "--params", "run.param", "--threads", "1", "--task-based",
          (char *)nullptr);
    _exit(121);
  }
  for (size_t k = 0; k < j.steps.size(); ++k) {
    const std::string d = j.dir + fmt("/r%zu", k);
    mkdir(d.c_str(), 0700);
    write_problem(d, CONFIGS[j.steps[k].cfg], j.steps[k].seed);
    if (chdir(d.c_str()))
      _exit(120);
    if (k > 0)
      perturb_libc((unsigned)k);
    {
      // exactly what CMacIonize --task-based --threads 1 does (CMacIonize.cpp)
      TaskBasedIonizationSimulation simulation(1, "run.param", false, true, nullptr);
      simulation.initialize();
      simulation.run();
    }
    fflush(stdout);
  }
  fflush(stdout);
  _exit(0);
}
static void rm_rf(const std::string &d) {
  DIR *dir = opendir(d.c_str());
  if (!dir)
    return;
  std::vector< std::string > n;
  while (struct dirent *e = readdir(dir))
    if (strcmp(e->d_name, ".") && strcmp(e->d_name, ".."))
      n.push_back(e->d_name);
  closedir(dir);
  for (auto &f : n) {
    const std::string p = d + "/" + f;
    struct stat st;
    if (lstat(p.c_str(), &st) == 0 && S_ISDIR(st.st_mode))
      rm_rf(p);
    else
      unlink(p.c_str());
  }
  rmdir(d.c_str());
}
static void collect(Job &j) {
  j.log = read_file(j.dir + "/run.log");
  if (j.log.size() > 800)
    j.log = j.log.substr(j.log.size() - 800);
  for (size_t k = 0; k < j.steps.size(); ++k) {
    Files all = read_dir(j.dir + fmt("/r%zu", k)), snaps;
    for (auto &kv : all)
      if (is_snapshot(kv.first))
        snaps[kv.first] = kv.second;
    j.out.push_back(snaps);
  }
  rm_rf(j.dir);
}
/// run all jobs, at most maxpar children at a time
static void run_jobs(std::vector< Job > &jobs, Result &R, int maxpar, const std::string &tmp) {
  std::map< pid_t, size_t > running;
  size_t next = 0;
  bool stopped = false;
  while (next < jobs.size() || !running.empty()) {
    while (!stopped && next < jobs.size() && (int)running.size() < maxpar) {
      if (R.out_of_time()) {
        R.hit_deadline(fmt("section A stopped after %zu of %zu child processes", next, jobs.size()));
        stopped = true;
        break;
      }
      Job &j = jobs[next];
      j.dir = tmp + fmt("/job%zu", next);
      mkdir(j.dir.c_str(), 0700);
      fflush(stdout);
      pid_t pid = fork();
      if (pid == 0)
        child_main(j);
      j.pid = pid;
      running[pid] = next;
      ++next;
    }
    if (running.empty())
      break;
    int st = 0;
    pid_t p = waitpid(-1, &st, 0);
    if (p < 0) {
      if (errno == EINTR)
        continue;
      break;
    }
    auto it = running.find(p);
    if (it == running.end())
      continue;
    Job &j = jobs[it->second];
    j.rc = WIFEXITED(st) ? WEXITSTATUS(st) : 1000 + WTERMSIG(st);
    j.ran = true;
    collect(j);
    running.erase(it);
  }
}

struct TotA {
  uint64_t children = 0, runs = 0, pairs = 0, masked = 0, objects = 0, rerun_pairs = 0, history_pairs = 0,
           exe_pairs = 0, first_pairs = 0, nontrivial = 0;
};
/// compare the snapshots of one run with the reference run of the same problem
static void compare_runs(const Config &c, long seed, const Files &ref, const Files &other, const std::string &keybase,
                         const std::string &what, const std::string &rp, Result &R, TotA &T) {
  std::vector< std::string > a, b;
  for (auto &kv : ref)
    a.push_back(kv.first);
  for (auto &kv : other)
    b.push_back(kv.first);
  ++R.evaluations;
  if (a != b) {
    R.violation(fmt("%s:%s:snapshot-set", keybase.c_str(), c.name),
                fmt("configuration %s seed %ld, one thread, %s: %zu vs %zu snapshot files", c.name, seed,
                    what.c_str(), a.size(), b.size()),
                rp);
    return;
  }
  for (auto &n : a) {
    ++T.pairs;
    ++R.evaluations;
    const std::string d = compare_snapshot(n, ref.at(n), other.at(n), T.masked, T.objects);
    if (!d.empty())
      R.violation(fmt("%s:%s:%s-content", keybase.c_str(), c.name, is_hdf5(n) ? "hdf5" : "ascii"),
                  fmt("configuration %s seed %ld, one thread, %s: %s: %s", c.name, seed, what.c_str(), n.c_str(),
                      d.c_str()),
                  rp);
  }
}

static void section_a(const Args &A, Result &R, const std::string &tmp, const std::string &only_cfg, long only_seed,
                      bool verbose) {
  std::vector< long > seeds = {42};
  if (A.thorough()) {
    seeds.push_back(1);
    seeds.push_back(16843050); // 2^24 + 2^16 + 2^8 + 42: non-zero bits in every byte
  }
  if (!only_cfg.empty())
    seeds = {only_seed};
  const int n = (int)NCONFIG;
  std::vector< Job > jobs;
  struct Ref {
    int cfg;
    long seed;
    size_t hist, exe;
    std::vector< std::pair< size_t, Step > > after; // job index, predecessor
  };
  std::vector< Ref > refs;
  for (long s : seeds)
    for (int i = 0; i < n; ++i) {
      if (!only_cfg.empty() && only_cfg != CONFIGS[i].name)
        continue;
      Ref r;
      r.cfg = i;
      r.seed = s;
      Job h;
      h.steps = {{i, s}, {i, s}, {i, s}};
      r.hist = jobs.size();
      jobs.push_back(h);
      Job e;
      e.exe = true;
      e.steps = {{i, s}};
      r.exe = jobs.size();
      jobs.push_back(e);
      std::vector< Step > pred;
      if (A.thorough() || !only_cfg.empty()) {
        for (int d = 0; d < n; ++d)
          if (d != i)
            pred.push_back({d, s});
      } else {
        pred.push_back({(i + 1) % n, s});
        pred.push_back({(i + 3) % n, s});
      }
      pred.push_back({i, s + 1}); // the same problem with another seed first
      for (const Step &p : pred) {
        Job j;
        j.steps = {p, {i, s}};
        r.after.push_back({jobs.size(), p});
        jobs.push_back(j);
      }
      refs.push_back(r);
    }
  const int maxpar = (int)std::max< long >(1, std::min< long >(A.geti("jobs", 12), sysconf(_SC_NPROCESSORS_ONLN)));
  run_jobs(jobs, R, maxpar, tmp);

  TotA T;
  // only now (no more forks of this process image) the HDF5 library is used
  H5Eset_auto(H5E_DEFAULT, nullptr, nullptr);
  for (Job &j : jobs) {
    if (!j.ran)
      continue;
    ++T.children;
    T.runs += j.steps.size();
    R.evaluations += j.steps.size();
    if (j.rc != 0) {
      std::string hist;
      for (auto &s : j.steps)
        hist += fmt("%s%s(seed %ld)", hist.empty() ? "" : " then ", CONFIGS[s.cfg].name, s.seed);
      R.violation(fmt("C13:inprocess-run-fails:%s:%s", j.exe ? "executable" : "simulation-object",
                      CONFIGS[j.steps.back().cfg].name),
                  fmt("%s in one process: child ends with status %d: %s", hist.c_str(), j.rc, j.log.c_str()),
                  fmt("{\"section\": \"history\", \"config\": \"%s\", \"seed\": %ld}",
                      CONFIGS[j.steps.back().cfg].name, j.steps.back().seed));
    }
  }
  std::map< std::pair< int, long >, const Files * > first_run;
  for (const Ref &r : refs)
    if (jobs[r.hist].ran && jobs[r.hist].rc == 0)
      first_run[{r.cfg, r.seed}] = &jobs[r.hist].out[0];
  std::map< int, std::set< uint64_t > > finals_by_cfg;
  for (const Ref &r : refs) {
    const Config &c = CONFIGS[r.cfg];
    const Job &h = jobs[r.hist];
    if (!h.ran || h.rc != 0)
      continue;
    const std::string rp = fmt("{\"section\": \"history\", \"config\": \"%s\", \"seed\": %ld}", c.name, r.seed);
    const Files &ref = h.out[0];
    if (ref.size() < 2) {
      R.violation("C13:harness:no-snapshots", fmt("configuration %s wrote %zu snapshot files", c.name, ref.size()),
                  rp);
      continue;
    }
    for (int k = 1; k < 3; ++k) {
      ++T.rerun_pairs;
      compare_runs(c, r.seed, ref, h.out[k], "C13:inprocess-rerun-differs",
                   fmt("run %d of the same parameter file in one process (fresh simulation object) vs run 1", k + 1),
                   rp, R, T);
    }
    const Job &e = jobs[r.exe];
    if (e.ran && e.rc == 0) {
      ++T.exe_pairs;
      compare_runs(c, r.seed, ref, e.out[0], "C13:inprocess-vs-executable",
                   "the CMacIonize executable vs the first run of the simulation object in a fresh process", rp, R,
                   T);
    }
    for (auto &jp : r.after) {
      const Job &j = jobs[jp.first];
      if (!j.ran || j.rc != 0)
        continue;
      ++T.history_pairs;
      const bool same_problem = jp.second.cfg == r.cfg;
      compare_runs(c, r.seed, ref, j.out[1],
                   same_problem ? "C13:inprocess-history-dependence:after-same-problem-other-seed"
                                : "C13:inprocess-history-dependence:after-other-problem",
                   fmt("run in a process that ran configuration %s (seed %ld) before vs first run in a fresh process",
                       CONFIGS[jp.second.cfg].name, jp.second.seed),
                   fmt("{\"section\": \"history\", \"config\": \"%s\", \"seed\": %ld, \"after\": \"%s\"}", c.name,
                       r.seed, CONFIGS[jp.second.cfg].name),
                   R, T);
      // the first run of that child is a first run in a fresh process as well
      auto fr = first_run.find({jp.second.cfg, jp.second.seed});
      if (fr != first_run.end()) {
        ++T.first_pairs;
        compare_runs(CONFIGS[jp.second.cfg], jp.second.seed, *fr->second, j.out[0],
                     "C13:inprocess-first-run-differs-between-processes",
                     "first run of the simulation object in two fresh processes", rp, R, T);
      }
    }
    // non-vacuity: photons changed the state; different seeds differ
    const std::string &first = ref.begin()->second, &last = ref.rbegin()->second;
    const uint64_t fh = fnv1a(content_key(ref.rbegin()->first, last, true));
    const bool changed = first != last;
    if (!changed)
      R.violation(fmt("C13:harness:run-changes-nothing:%s", c.name),
                  fmt("configuration %s: final snapshot equals the initial one", c.name), rp);
    if (!finals_by_cfg[r.cfg].insert(fh).second)
      R.violation(fmt("C13:harness:seed-has-no-effect:%s", c.name),
                  fmt("configuration %s: two seeds give the same final snapshot (in-process runs)", c.name), rp);
    else if (changed) {
      ++T.nontrivial;
      R.distinct.insert(fh);
    }
    // the predecessor with seed+1 must differ from the reference (else "other seed" is vacuous)
    for (auto &jp : r.after)
      if (jp.second.cfg == r.cfg && jobs[jp.first].ran && jobs[jp.first].rc == 0 &&
          jobs[jp.first].out[0].size() == ref.size() &&
          content_key(ref.rbegin()->first, jobs[jp.first].out[0].rbegin()->second, true) ==
              content_key(ref.rbegin()->first, last, true))
        R.violation(fmt("C13:harness:seed-has-no-effect:%s", c.name),
                    fmt("configuration %s: seeds %ld and %ld give the same final snapshot", c.name, r.seed,
                        r.seed + 1),
                    rp);
    if (R.samples.size() < 3)
      R.sample(fmt("{\"section\": \"A\", \"config\": \"%s\", \"seed\": %ld, \"snapshots\": %zu, "
                   "\"final_snapshot_fnv\": \"%016" PRIx64 "\", \"runs_in_one_process\": 3, \"histories\": %zu}",
                   c.name, r.seed, ref.size(), fh, r.after.size()));
    if (verbose)
      printf("section A: %s seed %ld: %zu snapshots, %zu predecessor histories compared\n", c.name, r.seed,
             ref.size(), r.after.size());
  }
  size_t nmulti = 0, nleft = 0;
  for (const Config &c : CONFIGS) {
    nmulti += c.nsources >= 2;
    nleft += leftover_packets(c) > 0;
  }
  R.set("a_configurations", (double)(only_cfg.empty() ? n : 1));
  R.set("a_configurations_with_two_or_more_sources", (double)nmulti);
  R.set("a_configurations_with_left_over_packets", (double)nleft);
  R.set("a_seeds", (double)seeds.size());
  R.set("a_child_processes", (double)T.children);
  R.set("a_simulation_runs", (double)T.runs);
  R.set("a_rerun_comparisons_same_process", (double)T.rerun_pairs);
  R.set("a_history_comparisons_after_other_run", (double)T.history_pairs);
  R.set("a_executable_comparisons", (double)T.exe_pairs);
  R.set("a_first_run_comparisons_between_processes", (double)T.first_pairs);
  R.set("a_snapshot_pairs_compared", (double)T.pairs);
  R.set("a_hdf5_creation_time_attributes_masked", (double)T.masked);
  R.set("a_nontrivial_cases", (double)T.nontrivial);
  R.set("a_parallel_children", (double)maxpar);
}

// =====================================================================
// Section B1: DistributedPhotonSource constructed repeatedly
// =====================================================================
class ListedSources : public PhotonSourceDistribution {
public:
  std::vector< CoordinateVector<> > pos;
  std::vector< double > w;
  virtual photonsourcenumber_t get_number_of_sources() const { return pos.size(); }
  virtual CoordinateVector<> get_position(photonsourcenumber_t i) { return pos[i]; }
  virtual double get_weight(photonsourcenumber_t i) const { return w[i]; }
  virtual double get_total_luminosity() const { return 1.e49; }
};
typedef DensitySubGridCreator< DensitySubGrid > GridCreator;
struct SrcInput {
  int grid;   // 0: no copies, 1: one subgrid with 2 copies, 2: levels 2/1/1
  int S;      // number of sources
  int wpat;   // 0 equal, 1 linear, 2 one dominant, 3 geometric
  int layout; // 0 spread over the box, 1 all in one subgrid
  size_t N;
};
static const char *WPAT[] = {"equal", "1:2:3:..", "one-dominant-0.9", "1:2:4:..(cap 64)"};
static void make_sources(const SrcInput &in, ListedSources &d) {
  d.pos.clear();
  d.w.clear();
  double tot = 0.;
  std::vector< double > rel;
  for (int i = 0; i < in.S; ++i) {
    double r = 1.;
    if (in.wpat == 1)
      r = i + 1.;
    else if (in.wpat == 2)
      r = (i == 0 || in.S == 1) ? 0.9 : 0.1 / (in.S - 1);
    else if (in.wpat == 3)
      r = (double)(1 << std::min(i, 6));
    rel.push_back(r);
    tot += r;
  }
  for (int i = 0; i < in.S; ++i) {
    d.w.push_back(rel[i] / tot);
    if (in.layout == 0)
      d.pos.push_back(CoordinateVector<>(3. * std::fmod(0.19 + 0.381966 * i, 1.), 2. * std::fmod(0.41 + 0.618034 * i, 1.),
                                         4. * (i + 0.5) / in.S));
    else
      d.pos.push_back(CoordinateVector<>(0.07 + 0.055 * i, 0.13 + 0.01 * i, 0.11 + 0.03 * i));
  }
}
static std::vector< uint64_t > source_record(GridCreator &gc, const SrcInput &in, ListedSources &d) {
  DistributedPhotonSource< DensitySubGrid > src(in.N, d, gc);
  std::vector< uint64_t > rec;
  for (size_t i = 0; i < src.get_number_of_sources(); ++i) {
    rec.push_back(src.get_subgrid(i));
    rec.push_back(src.get_number_of_batches(i, 1)); // batches of 1 = packets of this entry
    const CoordinateVector<> p = src.get_position(i);
    for (int k = 0; k < 3; ++k) {
      uint64_t b;
      const double v = p[k];
      memcpy(&b, &v, 8);
      rec.push_back(b);
    }
  }
  return rec;
}
static std::string counts_str(const std::vector< uint64_t > &rec) {
  std::string s;
  for (size_t i = 0; i + 4 < rec.size(); i += 5)
    s += fmt("%s%" PRIu64 "@sg%" PRIu64, i ? " " : "", rec[i + 1], rec[i]);
  return s;
}
static void section_b1(const Args &A, Result &R, bool verbose) {
  HomogeneousDensityFunction df;
  std::vector< std::unique_ptr< GridCreator > > grids;
  for (int g = 0; g < 3; ++g) {
    grids.emplace_back(new GridCreator(Box<>(CoordinateVector<>(0.), CoordinateVector<>(3., 2., 4.)),
                                       CoordinateVector< int_fast32_t >(12, 8, 16),
                                       CoordinateVector< int_fast32_t >(3, 2, 4), CoordinateVector< bool >(false)));
    GridCreator &gc = *grids.back();
    gc.initialize(df);
    std::vector< uint_fast8_t > levels(gc.number_of_original_subgrids(), 0);
    const size_t s0 = gc.get_subgrid(CoordinateVector<>(0.5, 0.5, 0.5)).get_index();
    const size_t s1 = gc.get_subgrid(CoordinateVector<>(2.5, 1.5, 3.5)).get_index();
    if (g == 1)
      levels[s0] = 1;
    if (g == 2) {
      levels[s0] = 2;
      size_t ngbs[6];
      const uint_fast8_t nn = gc.get_neighbours(s0, ngbs);
      for (uint_fast8_t k = 0; k < nn; ++k)
        levels[ngbs[k]] = 1;
      levels[s1] = 1;
    }
    gc.create_copies(levels);
  }
  std::vector< SrcInput > inputs;
  const std::vector< int > Ss = A.thorough() ? std::vector< int >{1, 2, 3, 4, 5, 7, 8, 13, 16}
                                             : std::vector< int >{1, 2, 3, 5, 7, 16};
  for (int g = 0; g < 3; ++g)
    for (int S : Ss)
      for (int wp = 0; wp < 4; ++wp)
        for (int lay = 0; lay < 2; ++lay) {
          std::set< size_t > Ns = {(size_t)97 * S, (size_t)97 * S + 1, (size_t)97 * S + S - 1, 1000, 1009, 4099,
                                   65537, (size_t)S, (size_t)2 * S + 1};
          if (A.thorough()) {
            Ns.insert(1000003);
            Ns.insert((size_t)1 << 20);
            Ns.insert(((size_t)1 << 20) + 1);
            Ns.insert(999);
          }
          for (size_t N : Ns)
            inputs.push_back({g, S, wp, lay, N});
        }
  uint64_t constructions = 0, used = 0, skipped = 0, with_left = 0, with_copies = 0;
  std::vector< std::vector< uint64_t > > first(inputs.size());
  std::vector< char > ok(inputs.size(), 0);
  std::vector< size_t > left(inputs.size(), 0);
  ListedSources d;
  auto describe = [&](const SrcInput &in) {
    return fmt("{\"section\": \"photon-source\", \"grid_variant\": %d, \"sources\": %d, \"weights\": \"%s\", "
               "\"layout\": \"%s\", \"packets\": %zu}",
               in.grid, in.S, WPAT[in.wpat], in.layout ? "one-subgrid" : "spread", in.N);
  };
  for (size_t ii = 0; ii < inputs.size(); ++ii) {
    const SrcInput &in = inputs[ii];
    GridCreator &gc = *grids[in.grid];
    make_sources(in, d);
    // precondition of the class (asserted in debug builds): every entry gets >= 1 packet
    bool supported = true, copies = false;
    size_t done = 0;
    for (int i = 0; i < in.S; ++i) {
      auto cell = gc.get_subgrid(d.pos[i]);
      size_t ncopy = 1;
      auto cp = cell.get_copies();
      if (cp.first != gc.all_end())
        for (auto it = cp.first; it != cp.second; ++it)
          ++ncopy;
      copies = copies || ncopy > 1;
      const size_t share = in.N * d.w[i];
      done += share;
      if (share < ncopy)
        supported = false;
    }
    if (!supported) {
      ++skipped;
      continue;
    }
    ok[ii] = 1;
    ++used;
    left[ii] = in.N - done;
    with_left += left[ii] > 0;
    with_copies += copies;
    first[ii] = source_record(gc, in, d);
    ++constructions;
    if (left[ii] > 0)
      R.distinct.insert(fnv1a(first[ii].data(), 8 * first[ii].size(), fnv1a(describe(in))));
    for (int rep = 1; rep < 3; ++rep) {
      perturb_libc(rep);
      const std::vector< uint64_t > again = source_record(gc, in, d);
      ++constructions;
      ++R.evaluations;
      if (again != first[ii])
        R.violation(fmt("C13:photon-source-repeat-differs:back-to-back:%s-left-over-packets",
                        left[ii] ? "with" : "without"),
                    fmt("DistributedPhotonSource constructed %d times in one process for the same input (%d "
                        "sources, weights %s, %zu packets, %zu left over after rounding, grid variant %d): packets "
                        "per entry first [%s], now [%s]",
                        rep + 1, in.S, WPAT[in.wpat], in.N, left[ii], in.grid, counts_str(first[ii]).c_str(),
                        counts_str(again).c_str()),
                    describe(in));
    }
    if (R.samples.size() < 6 && left[ii] > 2 && in.S > 2 && in.grid == 2)
      R.sample(fmt("{\"section\": \"B1\", \"sources\": %d, \"weights\": \"%s\", \"packets\": %zu, "
                   "\"left_over\": %zu, \"packets_per_entry\": \"%s\"}",
                   in.S, WPAT[in.wpat], in.N, left[ii], counts_str(first[ii]).c_str()));
  }
  // second pass in reverse order: every other input was constructed in between
  for (size_t ii = inputs.size(); ii-- > 0;) {
    if (!ok[ii])
      continue;
    const SrcInput &in = inputs[ii];
    make_sources(in, d);
    const std::vector< uint64_t > again = source_record(*grids[in.grid], in, d);
    ++constructions;
    ++R.evaluations;
    if (again != first[ii])
      R.violation(fmt("C13:photon-source-repeat-differs:after-other-problems:%s-left-over-packets",
                      left[ii] ? "with" : "without"),
                  fmt("DistributedPhotonSource constructed again after %zu other problems (%d sources, weights %s, "
                      "%zu packets, %zu left over, grid variant %d): packets per entry first [%s], now [%s]",
                      inputs.size() - 1, in.S, WPAT[in.wpat], in.N, left[ii], in.grid,
                      counts_str(first[ii]).c_str(), counts_str(again).c_str()),
                  describe(in));
  }
  if (with_left == 0)
    R.violation("C13:harness:photon-source-alphabet-has-no-left-over-packets",
                "no input of section B1 makes DistributedPhotonSource use its random generator");
  R.set("b1_inputs", (double)inputs.size());
  R.set("b1_inputs_used", (double)used);
  R.set("b1_inputs_outside_class_precondition_skipped", (double)skipped);
  R.set("b1_inputs_with_left_over_packets", (double)with_left);
  R.set("b1_inputs_with_sources_in_copied_subgrids", (double)with_copies);
  R.set("b1_constructions", (double)constructions);
  if (verbose)
    printf("section B1: %zu inputs, %" PRIu64 " used, %" PRIu64 " with left-over packets, %" PRIu64
           " constructions\n",
           inputs.size(), used, with_left, constructions);
}

// =====================================================================
// Section B2: stand-alone consumers of random numbers used twice
// =====================================================================
struct GenState {
  double x[12], carry;
  uint64_t ir, jr, ir_old, pr;
  bool operator==(const GenState &o) const {
    return memcmp(x, o.x, sizeof(x)) == 0 && memcmp(&carry, &o.carry, 8) == 0 && ir == o.ir && jr == o.jr &&
           ir_old == o.ir_old && pr == o.pr;
  }
};
static GenState state_of(const RandomGenerator &g) { // built with -fno-access-control
  GenState s;
  for (int i = 0; i < 12; ++i)
    s.x[i] = g._xdbl[i];
  s.carry = g._carry;
  s.ir = g._ir;
  s.jr = g._jr;
  s.ir_old = g._ir_old;
  s.pr = g._pr;
  return s;
}
struct Consumer {
  std::string cls, name;
  /// instance 0, 1, 2: three different objects of the class (objects that are expensive to build - tables -
  /// are built once per instance number and class and shared by the states of the alphabet)
  std::function< std::shared_ptr< void >(int) > make;
  std::function< void(void *, RandomGenerator &, std::vector< double > &) > draw;
};
struct PhysObj {
  std::shared_ptr< PhysicalDiffuseReemissionHandler > hp;
  PhysicalDiffuseReemissionHandler &handler;
  IonizationVariables vars;
  PhotonPacket packet;
  Photon photon;
  double AHe;
  PhysObj(std::shared_ptr< PhysicalDiffuseReemissionHandler > h)
      : hp(h), handler(*h), photon(CoordinateVector<>(0.), CoordinateVector<>(1., 0., 0.), 4.e15), AHe(0.1) {}
};
/// objects with tables, one per (class, instance number)
template < typename T > static std::shared_ptr< T > cached(const std::string &cls, int instance,
                                                           std::function< T *() > mk) {
  static std::map< std::pair< std::string, int >, std::shared_ptr< T > > cache;
  auto key = std::make_pair(cls, instance);
  auto it = cache.find(key);
  if (it == cache.end())
    it = cache.insert({key, std::shared_ptr< T >(mk())}).first;
  return it->second;
}
static void section_b2(const Args &A, Result &R, bool verbose) {
  static VernerCrossSections cross_sections;
  const int ncall = A.thorough() ? 20000 : 3000;
  std::vector< Consumer > cons;
  // ---- physical re-emission: states on both sides of every branch probability
  const double Ts[] = {5000., 8000., 20000.};
  const double xs[][2] = {{1.e-4, 1.e-2}, {0.5, 0.5}, {0.9, 1.e-3}};     // neutral H, neutral He
  const double sig[][3] = {{1.e-22, 7.e-22, 0.1}, {6.e-22, 1.e-22, 1.}}; // sigma H, sigma He, A_He
  for (int overload = 0; overload < 2; ++overload)
    for (double T : Ts)
      for (auto &x : xs)
        for (auto &sg : sig) {
          Consumer c;
          c.cls = overload ? "physical-reemission-photon" : "physical-reemission-packet";
          c.name = fmt("%s T=%g xH=%g xHe=%g sigmaH=%g sigmaHe=%g AHe=%g", c.cls.c_str(), T, x[0], x[1], sg[0],
                       sg[1], sg[2]);
          const double xH = x[0], xHe = x[1], sH = sg[0], sHe = sg[1], aHe = sg[2];
          c.make = [=](int inst) {
            std::shared_ptr< PhysObj > o(new PhysObj(cached< PhysicalDiffuseReemissionHandler >(
                "physical", inst, []() { return new PhysicalDiffuseReemissionHandler(cross_sections); })));
            o->vars.set_temperature(T);
            o->vars.set_ionic_fraction(ION_H_n, xH);
            o->vars.set_ionic_fraction(ION_He_n, xHe);
            o->handler.set_reemission_probabilities(o->vars);
            o->packet.set_photoionization_cross_section(ION_H_n, sH);
            o->packet.set_photoionization_cross_section(ION_He_n, sHe);
            o->photon.set_cross_section(ION_H_n, sH);
            o->photon.set_cross_section(ION_He_n, sHe);
            o->AHe = aHe;
            return std::static_pointer_cast< void >(o);
          };
          c.draw = [=](void *p, RandomGenerator &g, std::vector< double > &out) {
            PhysObj &o = *(PhysObj *)p;
            for (int i = 0; i < ncall; ++i) {
              PhotonType type = PHOTONTYPE_PRIMARY;
              const double nu = overload ? o.handler.reemit(o.photon, o.AHe, o.vars, g, type)
                                         : o.handler.reemit(o.packet, o.AHe, o.vars, g, type);
              out.push_back(nu);
              out.push_back((double)type);
            }
          };
          cons.push_back(c);
        }
  for (double prob : {0., 0.5, 1.}) {
    Consumer c;
    c.cls = "fixed-value-reemission-packet";
    c.name = fmt("%s probability=%g", c.cls.c_str(), prob);
    struct O {
      FixedValueDiffuseReemissionHandler h;
      IonizationVariables vars;
      PhotonPacket packet;
      O(double p) : h(p, 3.4e15) {}
    };
    c.make = [=](int) { return std::static_pointer_cast< void >(std::shared_ptr< O >(new O(prob))); };
    c.draw = [=](void *p, RandomGenerator &g, std::vector< double > &out) {
      O &o = *(O *)p;
      for (int i = 0; i < ncall; ++i) {
        PhotonType type = PHOTONTYPE_PRIMARY;
        out.push_back(o.h.reemit(o.packet, 0., o.vars, g, type));
        out.push_back((double)type);
      }
    };
    cons.push_back(c);
  }
  // ---- spectra
  auto spectrum = [&](const std::string &name, std::function< PhotonSourceSpectrum *() > mk, double T) {
    Consumer c;
    c.cls = "spectrum-" + name;
    c.name = fmt("%s T=%g", c.cls.c_str(), T);
    const std::string cls = c.cls;
    c.make = [=](int inst) { return std::static_pointer_cast< void >(cached< PhotonSourceSpectrum >(cls, inst, mk)); };
    c.draw = [=](void *p, RandomGenerator &g, std::vector< double > &out) {
      PhotonSourceSpectrum &s = *(PhotonSourceSpectrum *)p;
      for (int i = 0; i < ncall; ++i)
        out.push_back(s.get_random_frequency(g, T));
    };
    cons.push_back(c);
  };
  for (double Tstar : {20000., 40000.})
    spectrum(fmt("planck-%g", Tstar), [=]() { return new PlanckPhotonSourceSpectrum(Tstar); }, 0.);
  spectrum("monochromatic", []() { return new MonochromaticPhotonSourceSpectrum(3.28847e15); }, 0.);
  spectrum("uniform", []() { return new UniformPhotonSourceSpectrum(); }, 0.);
  for (double T : {1500., 8000., 15000., 1.e5}) {
    spectrum("hydrogen-lyman-continuum", []() { return new HydrogenLymanContinuumSpectrum(cross_sections); }, T);
    spectrum("helium-lyman-continuum", []() { return new HeliumLymanContinuumSpectrum(cross_sections); }, T);
  }
  spectrum("helium-two-photon-continuum", []() { return new HeliumTwoPhotonContinuumSpectrum(); }, 8000.);
  // ---- continuous sources (non-cubic box)
  const Box<> box(CoordinateVector<>(-1., -2., -3.), CoordinateVector<>(2., 3., 5.));
  auto continuous = [&](const std::string &name, std::function< ContinuousPhotonSource *() > mk) {
    Consumer c;
    c.cls = "continuous-source-" + name;
    c.name = c.cls;
    c.make = [=](int) { return std::static_pointer_cast< void >(std::shared_ptr< ContinuousPhotonSource >(mk())); };
    c.draw = [=](void *p, RandomGenerator &g, std::vector< double > &out) {
      ContinuousPhotonSource &s = *(ContinuousPhotonSource *)p;
      for (int i = 0; i < ncall; ++i) {
        auto pd = s.get_random_incoming_direction(g);
        for (int k = 0; k < 3; ++k) {
          out.push_back(pd.first[k]);
          out.push_back(pd.second[k]);
        }
      }
    };
    cons.push_back(c);
  };
  continuous("isotropic", [=]() { return new IsotropicContinuousPhotonSource(box); });
  continuous("distant-star-1-face",
             [=]() { return new DistantStarContinuousPhotonSource(CoordinateVector<>(0.1, -0.4, 3.5), box); });
  continuous("distant-star-2-faces",
             [=]() { return new DistantStarContinuousPhotonSource(CoordinateVector<>(2.5, -0.4, 3.5), box); });
  continuous("distant-star-3-faces",
             [=]() { return new DistantStarContinuousPhotonSource(CoordinateVector<>(-2.5, -3.5, 3.5), box); });

  std::vector< long > seeds = {42, 1, 2147483647};
  if (A.thorough()) {
    seeds.push_back(0);
    seeds.push_back(123456789);
    seeds.push_back(-1);
  }
  struct Rec {
    uint64_t hash;
    GenState end;
    bool advanced;
  };
  std::vector< Rec > recs(cons.size() * seeds.size());
  uint64_t replays = 0, consuming = 0, values = 0;
  std::map< std::string, std::map< int, uint64_t > > type_counts; // physical: re-emission outcomes seen
  std::map< std::string, uint64_t > line_198;
  auto run = [&](const Consumer &c, void *obj, long seed, std::vector< double > &out, GenState &end) {
    RandomGenerator g(seed);
    out.clear();
    c.draw(obj, g, out);
    end = state_of(g);
    ++replays;
    values += out.size();
  };
  auto differs = [](const std::vector< double > &a, const std::vector< double > &b) -> long {
    if (a.size() != b.size())
      return 0;
    for (size_t i = 0; i < a.size(); ++i)
      if (memcmp(&a[i], &b[i], 8) != 0)
        return (long)i;
    return -1;
  };
  auto report = [&](const Consumer &c, long seed, const char *how, long at, const std::vector< double > &a,
                    const std::vector< double > &b, bool state_equal) {
    const std::string rp = fmt("{\"section\": \"component\", \"name\": \"%s\", \"seed\": %ld}", c.name.c_str(), seed);
    if (at >= 0)
      R.violation(fmt("C13:component-repeat-differs:%s:outputs:%s", c.cls.c_str(), how),
                  fmt("%s, generator seeded with %ld, %s: output value %ld is %a the first time and %a now (%zu "
                      "values per replay)",
                      c.name.c_str(), seed, how, at, (size_t)at < a.size() ? a[at] : 0.,
                      (size_t)at < b.size() ? b[at] : 0., a.size()),
                  rp);
    if (!state_equal)
      R.violation(fmt("C13:component-repeat-differs:%s:generator-state:%s", c.cls.c_str(), how),
                  fmt("%s, generator seeded with %ld, %s: the generator is left in a different state (another "
                      "number of values was drawn from it)",
                      c.name.c_str(), seed, how),
                  rp);
  };
  std::vector< double > o0, o1;
  for (size_t ic = 0; ic < cons.size(); ++ic) {
    const Consumer &c = cons[ic];
    for (size_t is = 0; is < seeds.size(); ++is) {
      const long seed = seeds[is];
      std::shared_ptr< void > obj = c.make(0);
      GenState e0, e1;
      run(c, obj.get(), seed, o0, e0);
      Rec &rec = recs[ic * seeds.size() + is];
      rec.hash = fnv1a(o0.data(), 8 * o0.size());
      rec.end = e0;
      rec.advanced = !(e0 == state_of(RandomGenerator(seed)));
      if (rec.advanced) {
        ++consuming;
        R.distinct.insert(fnv1a(c.name, rec.hash));
      }
      if (c.cls.compare(0, 19, "physical-reemission") == 0)
        for (size_t i = 0; i + 1 < o0.size(); i += 2) {
          ++type_counts[c.cls][(int)o0[i + 1]];
          line_198[c.cls] += o0[i] == 4.788e15;
        }
      // second use of the same object
      perturb_libc(1);
      run(c, obj.get(), seed, o1, e1);
      ++R.evaluations;
      report(c, seed, "same-object-second-use", differs(o0, o1), o0, o1, e0 == e1);
      // a second object
      perturb_libc(2);
      std::shared_ptr< void > obj2 = c.make(1);
      run(c, obj2.get(), seed, o1, e1);
      ++R.evaluations;
      report(c, seed, "second-object", differs(o0, o1), o0, o1, e0 == e1);
    }
    if (getenv("C13_TIMING"))
      fprintf(stderr, "%8.2f s after %s\n", R.elapsed(), c.name.c_str());
    if (R.out_of_time()) {
      R.hit_deadline(fmt("section B2 stopped after %zu of %zu consumers", ic + 1, cons.size()));
      break;
    }
  }
  // reverse pass: all other consumers were used in between
  for (size_t ic = cons.size(); ic-- > 0;) {
    const Consumer &c = cons[ic];
    for (size_t is = 0; is < seeds.size(); ++is) {
      const Rec &rec = recs[ic * seeds.size() + is];
      if (rec.end.pr == 0)
        continue; // not reached in the first pass
      std::shared_ptr< void > obj = c.make(2);
      GenState e1;
      run(c, obj.get(), seeds[is], o1, e1);
      ++R.evaluations;
      const bool same = fnv1a(o1.data(), 8 * o1.size()) == rec.hash;
      if (!same || !(e1 == rec.end)) {
        // recompute the first replay for the detail
        std::shared_ptr< void > objr = c.make(0);
        GenState er;
        run(c, objr.get(), seeds[is], o0, er);
        report(c, seeds[is], "after-other-components", same ? -1 : std::max< long >(0, differs(o0, o1)), o0, o1,
               e1 == rec.end);
      }
    }
  }
  // non-vacuity of the physical re-emission alphabet: all outcomes occur
  for (auto &kv : type_counts) {
    for (int t : {(int)PHOTONTYPE_ABSORBED, (int)PHOTONTYPE_DIFFUSE_HI, (int)PHOTONTYPE_DIFFUSE_HeI})
      if (kv.second[t] == 0)
        R.violation("C13:harness:reemission-outcome-never-seen",
                    fmt("%s: photon type %d never produced by the state alphabet", kv.first.c_str(), t));
    if (line_198[kv.first] == 0)
      R.violation("C13:harness:reemission-outcome-never-seen",
                  fmt("%s: the 19.8 eV helium line never produced", kv.first.c_str()));
    R.set("b2_" + kv.first + "_absorbed", (double)kv.second[(int)PHOTONTYPE_ABSORBED]);
    R.set("b2_" + kv.first + "_hydrogen_continuum", (double)kv.second[(int)PHOTONTYPE_DIFFUSE_HI]);
    R.set("b2_" + kv.first + "_helium_channels", (double)kv.second[(int)PHOTONTYPE_DIFFUSE_HeI]);
    R.set("b2_" + kv.first + "_helium_19.8eV_line", (double)line_198[kv.first]);
  }
  R.set("b2_consumers", (double)cons.size());
  R.set("b2_seeds", (double)seeds.size());
  R.set("b2_calls_per_replay", (double)ncall);
  R.set("b2_replays", (double)replays);
  R.set("b2_values_compared", (double)values);
  R.set("b2_consumer_seed_pairs_that_draw_random_numbers", (double)consuming);
  if (R.samples.size() < 8)
    R.sample(fmt("{\"section\": \"B2\", \"consumer\": \"%s\", \"seed\": %ld, \"outputs_fnv\": \"%016" PRIx64 "\"}",
                 cons[0].name.c_str(), seeds[0], recs[0].hash));
  if (verbose)
    printf("section B2: %zu consumers x %zu seeds, %" PRIu64 " replays\n", cons.size(), seeds.size(), replays);
}

int main(int argc, char **argv) {
  Args A = parse_args(argc, argv);
  Result R(A);
  const char *b = getenv("VERIF_BUILD");
  const std::string B = b ? b : "/verif/build";
  g_exe = B + "/plain/CMacIonize";
  const std::string tmp = fast_tmpdir();
  g_canon_tmp = tmp + "/c13_inproc_canon.hdf5";
  R.rule = "section A: one case = (problem, seed): the real TaskBasedIonizationSimulation object is constructed and "
           "run 3 times in one process and once after every predecessor problem of the history alphabet, all snapshots "
           "compared with the first run (ASCII bytes / HDF5 content); distinct non-trivial = distinct final snapshots "
           "that differ from the initial one. Section B1: DistributedPhotonSource inputs with left-over packets, "
           "distinct (input, packets per entry). Section B2: (consumer, seed) pairs that really draw random numbers, "
           "distinct output sequences";
  if (access(g_exe.c_str(), X_OK) != 0) {
    R.violation("C13:harness:missing-executable", g_exe + " not built");
    remove_fast_tmpdir(tmp);
    return R.finish(A);
  }
  std::string section, only_cfg;
  long only_seed = 42;
  const bool replay = !A.replay.empty();
  if (replay) {
    const std::string rp = replay_field(read_file(A.replay), "replay");
    section = replay_field(rp, "section");
    only_cfg = replay_field(rp, "config");
    const std::string sd = replay_field(rp, "seed");
    if (!sd.empty())
      only_seed = atol(sd.c_str());
    printf("replay of section '%s' %s\n", section.c_str(), only_cfg.c_str());
  }
  // section A first: its children are forked from a process that has not used anything yet
  double t = R.elapsed();
  if (!replay || section == "history")
    section_a(A, R, tmp, only_cfg, only_seed, replay);
  R.set("a_wall_s", std::round(100. * (R.elapsed() - t)) / 100.);
  t = R.elapsed();
  if (!replay || section == "photon-source")
    section_b1(A, R, replay);
  R.set("b1_wall_s", std::round(100. * (R.elapsed() - t)) / 100.);
  t = R.elapsed();
  if (!replay || section == "component")
    section_b2(A, R, replay);
  R.set("b2_wall_s", std::round(100. * (R.elapsed() - t)) / 100.);
  if (replay)
    for (auto &v : R.violations)
      printf("  %s :: %s\n", v.key.c_str(), v.detail.c_str());
  remove_fast_tmpdir(tmp);
  return R.finish(A);
}
