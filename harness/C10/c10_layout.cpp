// C10: the state after one hydro step does not depend on the subgrid layout
// or on the order in which the tasks run, equals a plain sequential execution
// of the sweeps, and is bitwise reproducible for a fixed order.
//
// 4x4x2 cell grid, all 18 layouts dividing it, boundary mixes, cell shapes,
// gamma, dt fractions and a family of initial states built from the C04 state
// alphabet. Uses the step driver of harness/C04. See NOTES.md.
#include "hydro_step_driver.hpp"
#include "verif_common.hpp"

#include <algorithm>
#include <array>
#include <csignal>
#include <map>
#include <memory>
#include <omp.h>

using namespace verif;
using namespace hsd;

static const int NCELL[3] = {4, 4, 2};
static const int NC = 32;
static const double GAMMAS[4] = {1.0001, 1.4, 5. / 3., 2.};
static const double DTFRACS[3] = {0.1, 0.5, 1.};
// cell shapes: cube, 1:2:4 (both dyadic: identical geometry on every layout),
// and a non-dyadic shape where box/nsub/ncell may round differently per layout
static const double SHAPES[3][3] = {{1., 1., 1.}, {1., 2., 4.}, {0.3, 0.7, 1.1}};

static const double REL_TOL = 1.e-13;
static const double ABS_TOL = 1.e-300;

// boundary mixes: 8 periodic / reflective mixes, 2 open mixes
static const int NBC = 10;
static void boundary_mix(const int ib, int bc[6]) {
  if (ib < 8) {
    for (int a = 0; a < 3; ++a)
      bc[2 * a] = bc[2 * a + 1] = ((ib >> a) & 1) ? BC_REFLECTIVE : BC_PERIODIC;
  } else if (ib == 8) { // inflow / outflow in x, walls in y, periodic in z
    bc[0] = BC_OUTFLOW;
    bc[1] = BC_INFLOW;
    bc[2] = bc[3] = BC_REFLECTIVE;
    bc[4] = bc[5] = BC_PERIODIC;
  } else { // periodic in x, outflow / inflow in y, inflow + wall in z
    bc[0] = bc[1] = BC_PERIODIC;
    bc[2] = BC_INFLOW;
    bc[3] = BC_OUTFLOW;
    bc[4] = BC_INFLOW;
    bc[5] = BC_REFLECTIVE;
  }
}
static const char *bc_class(const Geometry &g) {
  if (g.all_periodic())
    return "periodic";
  if (g.walls_only())
    return (g.periodic(0) || g.periodic(1) || g.periodic(2)) ? "mixed" : "walls";
  return "open";
}

// ----------------------------------------------------------------------------
// initial states: masks x ordered pairs of alphabet states, plus mixtures
// ----------------------------------------------------------------------------
static const int NMASK = 18;
static bool in_mask(const int m, const int ix, const int iy, const int iz) {
  switch (m) {
  case 0:
  case 1:
  case 2:
    return ix <= m; // half spaces in x
  case 3:
  case 4:
  case 5:
    return iy <= m - 3; // half spaces in y
  case 6:
    return iz == 0; // half space in z
  case 7:
    return ix == 0 && iy == 0 && iz == 0; // single cells
  case 8:
    return ix == 1 && iy == 2 && iz == 1;
  case 9:
    return ix == 3 && iy == 3 && iz == 1;
  case 10:
    return ix == 2 && iy == 1 && iz == 0;
  case 11:
    return (ix + iy + iz) % 2 == 0; // checkerboard
  case 12:
    return ix == 1 && iy == 1; // column along z
  case 13:
    return iy == 2 && iz == 0; // row along x
  case 14:
    return ix == 3 && iz == 1; // row along y
  case 15:
  case 16:
  case 17: { // fixed irregular patterns
    const unsigned h = (unsigned)(ix * 73 + iy * 179 + iz * 283 + (m - 15) * 101) * 2654435761u;
    return (h >> 29) & 1;
  }
  }
  return false;
}

struct Pattern {
  int a, b, mask; // mask < 0: mixture number b (a unused)
};

/// pattern -> state index per cell (global cell order)
static std::string pattern_cells(const Pattern &p) {
  std::string s(NC, '0');
  for (int ix = 0; ix < NCELL[0]; ++ix)
    for (int iy = 0; iy < NCELL[1]; ++iy)
      for (int iz = 0; iz < NCELL[2]; ++iz) {
        const int g = (ix * NCELL[1] + iy) * NCELL[2] + iz;
        int st;
        if (p.mask < 0)
          st = (3 * ix + 5 * iy + 7 * iz + p.b) % 6;
        else
          st = in_mask(p.mask, ix, iy, iz) ? p.a : p.b;
        s[g] = '0' + st;
      }
  return s;
}

/// primitive states; `perturb` > 0 makes every cell different (dyadic factors
/// 1 + k / 1024, pattern selected by VERIF_SEED) so that an exchanged cell is
/// always visible; 0 keeps the exact ties of the alphabet
static std::vector< Prim > pattern_prims(const std::string &cells, const int perturb) {
  std::vector< Prim > p(NC);
  for (int g = 0; g < NC; ++g) {
    p[g] = STATE[cells[g] - '0'];
    if (perturb > 0) {
      const int k = (g * (2 * perturb + 1) + perturb) % 37 + 1;
      const double f = 1. + k / 1024.;
      p[g].rho *= f;
      p[g].P *= 1. + ((k * 7) % 41) / 1024.;
      const double c = (p[g].rho > 0. && p[g].P > 0.) ? std::sqrt(p[g].P / p[g].rho) : 0.; // exact vacuum stays at rest
      p[g].v[0] += c * (k - 18) / 512.;
      p[g].v[1] -= c * ((k * 3) % 29 - 14) / 512.;
      p[g].v[2] += c * ((k * 5) % 31 - 15) / 512.;
    }
  }
  return p;
}

struct Case {
  Geometry geo;
  Pattern pat;
  int perturb;
  int igamma, idt;
  int order;
  uint64_t seed;
};

static std::string case_json(const Case &c) {
  return fmt("{\"nsub\": \"%d,%d,%d\", \"h\": \"%a,%a,%a\", \"bc\": \"%d,%d,%d,%d,%d,%d\", \"gamma\": \"%a\", "
             "\"dtfrac\": \"%a\", \"pattern\": \"%d,%d,%d\", \"perturb\": %d, \"order\": %d, \"seed\": %" PRIu64 "}",
             c.geo.nsub[0], c.geo.nsub[1], c.geo.nsub[2], c.geo.h[0], c.geo.h[1], c.geo.h[2], c.geo.bc[0],
             c.geo.bc[1], c.geo.bc[2], c.geo.bc[3], c.geo.bc[4], c.geo.bc[5], GAMMAS[c.igamma], DTFRACS[c.idt],
             c.pat.a, c.pat.b, c.pat.mask, c.perturb, c.order, c.seed);
}
static std::string case_text(const Case &c) {
  std::string s = c.geo.str() + fmt(" gamma %.17g dt %gx limit order %s(seed %" PRIu64 ") ", GAMMAS[c.igamma],
                                    DTFRACS[c.idt], order_name(c.order), c.seed);
  if (c.pat.mask < 0)
    s += fmt("mixture %d", c.pat.b);
  else
    s += fmt("%s in mask %d, %s elsewhere", STATE_NAME[c.pat.a], c.pat.mask, STATE_NAME[c.pat.b]);
  return s + (c.perturb ? fmt(", perturbation %d", c.perturb) : std::string(", exact alphabet values"));
}

static const char *VARNAME[5] = {"mass", "momentum-x", "momentum-y", "momentum-z", "energy"};

struct Stats {
  uint64_t steps = 0, nontrivial = 0, inputs = 0, reference_steps = 0;
  uint64_t comparisons = 0;    // cell values compared with a tolerance
  uint64_t near_tolerance = 0; // differences above a tenth of the tolerance
  uint64_t cells_bitwise_equal_undivided = 0, cells_bitwise_equal_reference = 0;
  uint64_t states_bitwise_equal_reference_undivided = 0, undivided_runs = 0;
  uint64_t bitwise_repeats = 0, fresh_repeats = 0;
  uint64_t safeguard_inputs = 0;
  double max_ratio = 0.;
  uint64_t order_count[ORDER_NUMBER] = {0, 0, 0, 0};
  struct V {
    uint64_t ordinal;
    std::string detail, replay;
    uint64_t count;
  };
  std::map< std::string, V > violations;
  std::vector< std::pair< uint64_t, std::string > > samples;
  void violation(const std::string &key, const uint64_t ordinal, const std::string &detail,
                 const std::string &replay) {
    auto it = violations.find(key);
    if (it == violations.end())
      violations[key] = V{ordinal, detail, replay, 1};
    else {
      ++it->second.count;
      if (ordinal < it->second.ordinal) {
        it->second.ordinal = ordinal;
        it->second.detail = detail;
        it->second.replay = replay;
      }
    }
  }
  void merge(const Stats &o) {
    steps += o.steps;
    nontrivial += o.nontrivial;
    inputs += o.inputs;
    reference_steps += o.reference_steps;
    comparisons += o.comparisons;
    near_tolerance += o.near_tolerance;
    cells_bitwise_equal_undivided += o.cells_bitwise_equal_undivided;
    cells_bitwise_equal_reference += o.cells_bitwise_equal_reference;
    states_bitwise_equal_reference_undivided += o.states_bitwise_equal_reference_undivided;
    undivided_runs += o.undivided_runs;
    bitwise_repeats += o.bitwise_repeats;
    fresh_repeats += o.fresh_repeats;
    safeguard_inputs += o.safeguard_inputs;
    max_ratio = std::max(max_ratio, o.max_ratio);
    for (int i = 0; i < ORDER_NUMBER; ++i)
      order_count[i] += o.order_count[i];
    for (auto &kv : o.violations) {
      auto it = violations.find(kv.first);
      if (it == violations.end())
        violations[kv.first] = kv.second;
      else {
        it->second.count += kv.second.count;
        if (kv.second.ordinal < it->second.ordinal) {
          const uint64_t cnt = it->second.count;
          it->second = kv.second;
          it->second.count = cnt;
        }
      }
    }
    samples.insert(samples.end(), o.samples.begin(), o.samples.end());
  }
};

/// compare the conserved variables of two states cell by cell; returns the
/// largest difference / tolerance and describes the worst cell
static double compare_states(const std::vector< double > &a, const std::vector< double > &b,
                             const ReferenceResult &ref, Stats &S, uint64_t *bitwise_cells,
                             std::string *worst) {
  double maxratio = 0.;
  for (int g = 0; g < NC; ++g) {
    bool same = true;
    for (int j = 0; j < 5; ++j) {
      const double x = a[10 * g + j], y = b[10 * g + j];
      ++S.comparisons;
      if (x == y)
        continue;
      same = false;
      const double scale = std::fabs(ref.before[5 * g + j]) + ref.absflux[5 * g + j];
      const double tol = REL_TOL * scale + ABS_TOL;
      const double diff = std::fabs(x - y);
      const double ratio = (diff == diff) ? diff / tol : DBL_MAX;
      if (ratio > 0.1)
        ++S.near_tolerance;
      if (ratio > maxratio) {
        maxratio = ratio;
        if (worst && ratio > 1.)
          *worst = fmt("cell %d (%d,%d,%d) %s: %.17g vs %.17g (difference %.3g, tolerance %.3g = %g * %.6g)", g,
                       g / (NCELL[1] * NCELL[2]), (g / NCELL[2]) % NCELL[1], g % NCELL[2], VARNAME[j], x, y, diff,
                       tol, REL_TOL, scale);
      }
    }
    if (same && bitwise_cells)
      ++*bitwise_cells;
  }
  return maxratio;
}

static bool bitwise_equal(const std::vector< double > &a, const std::vector< double > &b) {
  return a.size() == b.size() && memcmp(a.data(), b.data(), a.size() * sizeof(double)) == 0;
}

static std::vector< std::array< int, 3 > > all_layouts() {
  std::vector< std::array< int, 3 > > L;
  for (int a : {1, 2, 4})
    for (int b : {1, 2, 4})
      for (int c : {1, 2})
        L.push_back({a, b, c});
  return L; // L[0] is the undivided grid
}

// the case a thread is working on (printed if the code under test aborts)
static thread_local const Case *g_current = nullptr;
static void on_abort(int) {
  const char msg[] = "\nC10 harness: the code under test called abort() in case: ";
  if (write(2, msg, sizeof(msg) - 1) < 0) {
  }
  if (g_current) {
    const std::string js = case_json(*g_current);
    if (write(2, js.c_str(), js.size()) < 0) {
    }
  }
  if (write(2, "\n", 1) < 0) {
  }
  _exit(3);
}

/// everything that is done for one input (state pattern, gamma, dt fraction)
/// on a prepared set of drivers (one per layout, [0] = undivided)
static void check_input(std::vector< std::unique_ptr< StepDriver > > &drivers, const Hydro &hydro, const Case &base,
                        const uint64_t ordinal, const long seedrot, const bool fresh_check, const bool verbose,
                        const bool thorough, Stats &S) {
  const std::string cells = pattern_cells(base.pat);
  const std::vector< Prim > prims = pattern_prims(cells, base.perturb);
  const Geometry &g0 = drivers[0]->geo;
  ReferenceResult ref;
  reference_init(g0, hydro, prims, ref);
  ++S.inputs;
  if (!(ref.dt_limit > 0.) || !std::isfinite(ref.dt_limit))
    return;
  const double dt = DTFRACS[base.idt] * ref.dt_limit;
  reference_step(g0, hydro, *drivers[0]->boundaries, dt, ref);
  ++S.reference_steps;
  if (ref.safeguard())
    ++S.safeguard_inputs;
  std::vector< double > sref, s1, s, s2;
  ref.state(sref);
  auto report = [&](const Case &c, const std::string &key, const std::string &detail) {
    S.violation(key, ordinal, detail + " :: " + case_text(c), case_json(c));
    if (verbose)
      printf("VIOLATION %s :: %s\n", key.c_str(), detail.c_str());
  };
  auto run = [&](StepDriver &drv, Case &c, std::vector< double > &out) {
    g_current = &c;
    drv.load(prims);
    const double lim = drv.init_conserved(hydro);
    if (lim != ref.dt_limit)
      report(c, "C10:stability-limit:layout-dependent",
             fmt("stability limit %.17g on this layout, %.17g on the global array", lim, ref.dt_limit));
    const StepTrace tr = drv.step(hydro, dt, c.order, c.seed);
    drv.state(out);
    ++S.steps;
    ++S.order_count[c.order];
    bool changed = false;
    for (int g = 0; g < NC && !changed; ++g)
      for (int j = 0; j < 5; ++j)
        if (out[10 * g + j] != ref.before[5 * g + j])
          changed = true;
    if (changed)
      ++S.nontrivial;
    if (tr.stuck || tr.tasks_executed != tr.tasks_total)
      report(c, "C10:driver:step-incomplete",
             fmt("only %zu of %zu hydro tasks became executable", tr.tasks_executed, tr.tasks_total));
    const std::string phys = physical_state_problem(out);
    if (!phys.empty())
      report(c, "C10:state:" + phys.substr(0, phys.find(' ')), phys);
    const long stale = stale_primitives(c.geo, hydro, out);
    if (stale >= 0)
      report(c, "C10:state:primitives-stale",
             fmt("primitive variables of cell %ld are not those of its conserved variables", stale));
    g_current = nullptr;
  };

  // undivided grid, queue order
  Case c1 = base;
  c1.geo = drivers[0]->geo;
  c1.order = ORDER_FIFO;
  c1.seed = 0;
  run(*drivers[0], c1, s1);
  ++S.undivided_runs;
  {
    std::string worst;
    const double r = compare_states(s1, sref, ref, S, &S.cells_bitwise_equal_reference, &worst);
    if (bitwise_equal(s1, sref))
      ++S.states_bitwise_equal_reference_undivided;
    if (r > 1.)
      report(c1, std::string("C10:undivided:differs-from-reference:") + bc_class(c1.geo), worst);
    else
      S.max_ratio = std::max(S.max_ratio, r);
    if (verbose)
      printf("undivided grid vs plain reference: max difference/tolerance %.3g\n", r);
  }
  for (size_t il = 0; il < drivers.size(); ++il) {
    StepDriver &drv = *drivers[il];
    // every order policy; the scramble policy with two different sequences
    const int norder = thorough ? ORDER_NUMBER + 1 : ORDER_NUMBER;
    std::vector< double > sfifo;
    for (int io = 0; io < norder; ++io) {
      Case c = base;
      c.geo = drv.geo;
      c.order = std::min(io, (int)ORDER_SCRAMBLE);
      c.seed = (io < ORDER_SCRAMBLE) ? 0 : (uint64_t)(ordinal * 2 + (io - ORDER_SCRAMBLE) + seedrot);
      if (il == 0 && io == 0) {
        s = s1;
      } else {
        run(drv, c, s);
      }
      if (io == 0)
        sfifo = s;
      std::string worst;
      const double r1 = compare_states(s, s1, ref, S, &S.cells_bitwise_equal_undivided, &worst);
      if (r1 > 1.) {
        // attribute: layout (queue order on this layout already differs) or order
        std::string w2;
        const double rf = (io == 0) ? 2. : compare_states(s, sfifo, ref, S, nullptr, &w2);
        if (io == 0 || rf <= 1.)
          report(c, std::string("C10:layout:differs-from-undivided:") + bc_class(c.geo), worst);
        else
          report(c, std::string("C10:order:result-depends-on-task-order:") + bc_class(c.geo), w2);
      } else {
        S.max_ratio = std::max(S.max_ratio, r1);
        worst.clear();
        const double r2 = compare_states(s, sref, ref, S, nullptr, &worst);
        if (r2 > 1.)
          report(c, std::string("C10:layout:differs-from-reference:") + bc_class(c.geo), worst);
        else
          S.max_ratio = std::max(S.max_ratio, r2);
      }
      if (verbose)
        printf("layout %dx%dx%d order %-8s seed %-6" PRIu64 ": max difference/tolerance vs undivided %.3g\n",
               drv.geo.nsub[0], drv.geo.nsub[1], drv.geo.nsub[2], order_name(c.order), c.seed, r1);
      // the same order twice: bit for bit
      if (io == 0 || (thorough && io == ORDER_SCRAMBLE)) {
        run(drv, c, s2);
        ++S.bitwise_repeats;
        if (!bitwise_equal(s, s2))
          report(c, "C10:repeat:not-bitwise", "the same task order on the same grid gave a different state");
        if (fresh_check && io == 0) {
          StepDriver fresh(drv.geo);
          run(fresh, c, s2);
          ++S.fresh_repeats;
          if (!bitwise_equal(s, s2))
            report(c, "C10:repeat:fresh-grid-not-bitwise",
                   "a newly built grid and a reused one give different states for the same task order");
          if (!fresh.observation_functions_agree())
            report(c, "C10:driver:observation-functions-disagree",
                   "state_in_global_cell_order / conserved_totals_from_grid differ from the driver's cell map");
        }
      }
    }
  }
  if (ordinal % 4099 == 7 || (S.samples.size() < 1 && ref.faces_with_flux > 0))
    S.samples.push_back(
        {ordinal, fmt("{\"case\": %s, \"faces_with_flux\": %" PRIu64 ", \"safeguard\": %s, \"dt\": %.17g}",
                      case_json(base).c_str(), ref.faces_with_flux, ref.safeguard() ? "true" : "false", dt)});
}

static int replay(const Args &A, Result &R) {
  const std::string txt = read_file(A.replay);
  Case c;
  for (int a = 0; a < 3; ++a)
    c.geo.ncell[a] = NCELL[a];
  sscanf(replay_field(txt, "nsub").c_str(), "%d,%d,%d", c.geo.nsub, c.geo.nsub + 1, c.geo.nsub + 2);
  sscanf(replay_field(txt, "h").c_str(), "%la,%la,%la", c.geo.h, c.geo.h + 1, c.geo.h + 2);
  sscanf(replay_field(txt, "bc").c_str(), "%d,%d,%d,%d,%d,%d", c.geo.bc, c.geo.bc + 1, c.geo.bc + 2, c.geo.bc + 3,
         c.geo.bc + 4, c.geo.bc + 5);
  sscanf(replay_field(txt, "pattern").c_str(), "%d,%d,%d", &c.pat.a, &c.pat.b, &c.pat.mask);
  c.perturb = atoi(replay_field(txt, "perturb").c_str());
  const double gamma = strtod(replay_field(txt, "gamma").c_str(), nullptr);
  const double frac = strtod(replay_field(txt, "dtfrac").c_str(), nullptr);
  c.igamma = c.idt = 0;
  for (int i = 0; i < 4; ++i)
    if (GAMMAS[i] == gamma)
      c.igamma = i;
  for (int i = 0; i < 3; ++i)
    if (DTFRACS[i] == frac)
      c.idt = i;
  c.order = atoi(replay_field(txt, "order").c_str());
  c.seed = strtoull(replay_field(txt, "seed").c_str(), nullptr, 10);
  if (!c.geo.valid()) {
    printf("replay: cannot parse the case\n");
    return R.finish(A);
  }
  printf("replay of the input of: %s\n(all layouts and orders of this input are re-run)\n", case_text(c).c_str());
  std::unique_ptr< Hydro > hydro(make_hydro(GAMMAS[c.igamma]));
  std::vector< std::unique_ptr< StepDriver > > drivers;
  for (auto &l : all_layouts()) {
    Geometry g = c.geo;
    for (int a = 0; a < 3; ++a)
      g.nsub[a] = l[a];
    drivers.emplace_back(new StepDriver(g));
  }
  Stats S;
  check_input(drivers, *hydro, c, 0, 0, true, true, true, S);
  R.evaluations = S.steps;
  R.nontrivial = S.nontrivial;
  for (auto &kv : S.violations) {
    R.violation(kv.first, kv.second.detail, kv.second.replay);
    R.violation_count += kv.second.count - 1;
  }
  if (S.violations.empty())
    printf("no violation for this input\n");
  return R.finish(A);
}

int main(int argc, char **argv) {
  Args A = parse_args(argc, argv);
  Result R(A);
  signal(SIGABRT, on_abort);
  g_current = nullptr;
  if (!A.replay.empty())
    return replay(A, R);
  const bool thorough = A.thorough();

  // initial states
  std::vector< int > alpha = thorough ? std::vector< int >{0, 1, 2, 3, 4, 5} : std::vector< int >{0, 1, 3, 5};
  std::vector< Pattern > patterns;
  for (int a : alpha)
    for (int b : alpha)
      for (int m = 0; m < NMASK; ++m) {
        if (a == b && m > 0)
          continue; // uniform state once
        if (!thorough && a != b && m % 3 != 1)
          continue; // quick tier: every third mask (1, 4, 7, 10, 13, 16)
        patterns.push_back({a, b, m});
      }
  for (int p = 0; p < 6; ++p)
    patterns.push_back({0, p, -1});
  // emptiest states (8: denormal density and pressure, 9: exact vacuum) against rest and supersonic gas
  for (int e : {8, 9})
    for (int b : {0, 3})
      for (int m = 0; m < NMASK; ++m) {
        if (thorough ? (m % 2 == 0) : (m % 3 != 1))
          continue; // thorough: masks 1, 3, .., 17; quick: 1, 4, .., 16
        patterns.push_back({e, b, m});
        if (thorough)
          patterns.push_back({b, e, m});
      }
  // perturbation variants: VERIF_SEED selects the constant perturbation pattern
  std::vector< int > perturbs = thorough ? std::vector< int >{0, 1 + (int)(A.seed % 7)}
                                         : std::vector< int >{1 + (int)(A.seed % 7)};
  const int nshape = thorough ? 3 : 2;
  std::unique_ptr< Hydro > hydros[4];
  for (int i = 0; i < 4; ++i)
    hydros[i].reset(make_hydro(GAMMAS[i]));

  struct Item {
    int ib, is, ip;
    size_t first, last;
    uint64_t ordinal0;
  };
  std::vector< Item > items;
  const size_t CHUNK = 16;
  uint64_t ordinal = 0;
  for (int ib = 0; ib < NBC; ++ib)
    for (int is = 0; is < nshape; ++is)
      for (size_t ip = 0; ip < perturbs.size(); ++ip)
        for (size_t first = 0; first < patterns.size(); first += CHUNK) {
          const size_t last = std::min(first + CHUNK, patterns.size());
          items.push_back({ib, is, (int)ip, first, last, ordinal});
          ordinal += (last - first) * 12;
        }
  if (!items.empty())
    std::rotate(items.begin(), items.begin() + (size_t)(A.seed % (long)items.size()), items.end());

  const int nthread = omp_get_max_threads();
  std::vector< Stats > stats(nthread);
  std::vector< char > item_done(items.size(), 0);
  bool deadline_hit = false;
  std::string setup_error;
  const auto layouts = all_layouts();

#pragma omp parallel for schedule(dynamic, 1)
  for (size_t ii = 0; ii < items.size(); ++ii) {
    if (R.out_of_time()) {
#pragma omp critical
      deadline_hit = true;
      continue;
    }
    Stats &S = stats[omp_get_thread_num()];
    const Item &it = items[ii];
    Geometry base;
    for (int a = 0; a < 3; ++a) {
      base.ncell[a] = NCELL[a];
      base.nsub[a] = 1;
      base.h[a] = SHAPES[it.is][a];
    }
    boundary_mix(it.ib, base.bc);
    std::vector< std::unique_ptr< StepDriver > > drivers;
    bool bad = false;
    for (auto &l : layouts) {
      Geometry geo = base;
      for (int a = 0; a < 3; ++a)
        geo.nsub[a] = l[a];
      drivers.emplace_back(new StepDriver(geo));
      if (!drivers.back()->error.empty()) {
        bad = true;
#pragma omp critical
        setup_error = drivers.back()->error + " (" + geo.str() + ")";
      }
    }
    if (bad)
      continue;
    uint64_t ord = it.ordinal0;
    for (size_t ipat = it.first; ipat < it.last; ++ipat)
      for (int ig = 0; ig < 4; ++ig)
        for (int idt = 0; idt < 3; ++idt, ++ord) {
          Case c;
          c.geo = base;
          c.pat = patterns[ipat];
          c.perturb = perturbs[it.ip];
          c.igamma = ig;
          c.idt = idt;
          c.order = 0;
          c.seed = 0;
          // the newly-built-grid comparison once per work item and gamma
          const bool fresh = (ipat == it.first && idt == 0);
          check_input(drivers, *hydros[ig], c, ord, A.seed, fresh, false, thorough, S);
        }
    item_done[ii] = 1;
  }
  g_current = nullptr;

  Stats T;
  for (auto &s : stats)
    T.merge(s);
  if (!setup_error.empty())
    R.violation("C10:driver:setup", setup_error);
  if (deadline_hit) {
    size_t nd = 0;
    for (char c : item_done)
      nd += c;
    R.hit_deadline(fmt("%zu of %zu work items (boundary mix x cell shape x perturbation x 16 state patterns x 12 "
                       "gamma/dt) completed",
                       nd, items.size()));
  }
  R.evaluations = T.steps;
  R.nontrivial = T.nontrivial;
  for (auto &kv : T.violations) {
    R.violation(kv.first, kv.second.detail + fmt(" [%" PRIu64 " cases with this key]", kv.second.count),
                kv.second.replay);
    R.violation_count += kv.second.count - 1;
  }
  std::sort(T.samples.begin(), T.samples.end());
  for (size_t i = 0; i < T.samples.size() && i < 6; ++i)
    R.sample(T.samples[i * T.samples.size() / std::min< size_t >(6, T.samples.size())].second);
  R.set("inputs_state_x_gamma_x_dt_x_boundary_x_shape", (double)T.inputs);
  R.set("state_patterns", (double)patterns.size());
  R.set("layouts", (double)layouts.size());
  R.set("reference_steps", (double)T.reference_steps);
  R.set("inputs_with_positivity_clamp", (double)T.safeguard_inputs);
  R.set("cell_values_compared", (double)T.comparisons);
  R.set("cell_values_within_10x_of_tolerance", (double)T.near_tolerance);
  R.set("max_difference_over_tolerance_among_passing", T.max_ratio);
  R.set("cells_bitwise_equal_to_undivided_grid", (double)T.cells_bitwise_equal_undivided);
  R.set("undivided_states_bitwise_equal_to_plain_reference", (double)T.states_bitwise_equal_reference_undivided);
  R.set("undivided_runs", (double)T.undivided_runs);
  R.set("same_order_repeats_compared_bitwise", (double)T.bitwise_repeats);
  R.set("new_grid_repeats_compared_bitwise", (double)T.fresh_repeats);
  R.set("relative_tolerance", REL_TOL);
  for (int i = 0; i < ORDER_NUMBER; ++i)
    R.set(std::string("steps_order_") + order_name(i), (double)T.order_count[i]);
  R.set("threads", nthread);
  R.rule = "one real hydro step on the 4x4x2 cell grid per (state pattern, gamma, dt fraction, boundary mix, cell "
           "shape, subgrid layout, task order); every layout and order is compared cell by cell with the undivided "
           "grid and with a plain sequential execution of the sweeps on one global array; non-trivial = the step "
           "changed at least one conserved variable of a cell";
  R.assumptions.push_back("initial states: two alphabet states split by 18 masks, the uniform states and six "
                          "mixtures (harness/C10/NOTES.md); tolerance 1e-13 * (|value before| + sum |face flux| * dt) "
                          "+ 1e-300 per cell and variable");
  R.assumptions.push_back("tasks run one at a time in four kinds of dependency respecting orders; thread "
                          "interleavings of the real loop are covered by the scheduler engine, which reuses "
                          "hsd::state_in_global_cell_order");
  return R.finish(A);
}
