CHECK = {
    "id": "C10",
    "level": "exploration",  # the schedules part is model checking of the implementation; the level names the weaker part
    "engine": "E3",
    "technique": "bounded-exhaustive enumeration of subgrid layouts x boundary mixes x task orders x initial states, "
                 "cell-by-cell comparison with the undivided grid and a plain sequential reference execution of the sweeps",
    "level_text": "One step of the real hydro scheme on a 4x4x2 cell grid is run through the real task functions for all "
                  "18 subgrid layouts dividing the grid, 10 boundary mixes (the 8 periodic/reflective mixes and two with "
                  "inflow/outflow faces), 2-3 cell shapes, gamma in {1.0001, 1.4, 5/3, 2}, dt in {0.1, 0.5, 1} x the "
                  "code's stability limit and a family of initial states (pairs of states of the C04 alphabet split by 18 "
                  "masks, uniform states, mixtures, and a denormal (1e-310) / exact-vacuum state against rest and supersonic "
                  "gas; with and without a perturbation that makes all cells distinct). Every "
                  "layout is executed in four (quick) or five (thorough) dependency respecting sequential task orders; each result is compared cell "
                  "by cell in global cell order with the undivided grid and with a reference that calls the per-face "
                  "functions of the real Hydro object in plain loops over one global array. Repeating an order must "
                  "reproduce the state bit for bit. The schedule dimension (thread interleavings of the real loop, 2-3 threads, deviation bound 1, "
                  "14 layouts) is explored by part 'schedules' (engine E1 on the real do_simulation loop).",
    "level_note": "Every explored thread schedule of the real hydro loop (engine E1, same harness as C07) must give the same cell states as the default schedule to 1e-13. Tolerance 1e-13*(|value before| + sum |face flux|*dt) + 1e-300 per cell and conserved variable; "
                  "primitive variables are checked to be exactly those of the conserved ones.",
    "quick_deadline": 90,
    "thorough_deadline": 900,
    "parts": [
        {"name": "schedules", "bin": "c07_hydroloop", "args": ["--mode", "1"], "share": 0.6},{"name": "layout", "bin": "c10_layout"}],
    "assumptions": [],
    "uses_parts": ["C07"],
}
