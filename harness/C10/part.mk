# C10: layout / task order independence of one hydro step (uses the step driver of harness/C04)
$(eval $(call HARNESS,c10_layout,$(V)/harness/C10/c10_layout.cpp,plain,-O2 -fopenmp -fno-access-control -I$(V)/harness/C04,-fopenmp))
