# C17: exact predicates vs unbounded-integer determinants (header-only code under test)
$(eval $(call HARNESS,c17_predicates,$(V)/harness/C17/c17_predicates.cpp,plain,-O2 -fopenmp,))
