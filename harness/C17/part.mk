# C17: exact predicates vs unbounded-integer determinants (header-only code under test); part "rescale"
# reads the rescaled box of NewVoronoiGrid (-fno-access-control)
$(eval $(call HARNESS,c17_predicates,$(V)/harness/C17/c17_predicates.cpp,plain,-O2 -fopenmp -fno-access-control,))
