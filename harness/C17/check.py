CHECK = {
    "id": "C17",
    "level": "exploration",
    "engine": "E3",
    "technique": "bounded-exhaustive enumeration of ulp-level coordinate alphabets, of exactly degenerate corner "
                 "families moved by single ulps, of deterministic full-mantissa near-degenerate families and of tiny "
                 "full-mantissa coordinate grids (every 4-/5-subset, every degenerate one moved by single and multi-point "
                 "ulp patterns), against the sign of the exact determinant in unbounded integers",
    "level_text": "All four predicate functions of ExactGeometricTests.hpp are called on every assignment of an "
                  "ulp-level alphabet ({1, 1+ulp, 1.5, 2-ulp} and sub/super-sets) to all 12 (orientation) or 15 "
                  "(in-sphere) coordinates, and on every 4/5-subset of cube corners and octahedron vertices with "
                  "every coordinate moved by every k = +-1..1000 ulp (plus a ladder 2^j ulp that crosses the "
                  "1e-10 filter threshold), and on generic full-mantissa families (deterministic Weyl sequences, no "
                  "RNG): fourth point on the plane / fifth point on the circumsphere of generic points (binary128, "
                  "rounded) with every coordinate moved by -4..4 ulp, so that the double evaluation inside the "
                  "filter really rounds; the same with the plane parallel to each coordinate axis but not axis aligned "
                  "(the 2x2 minors of one coordinate projection cancel individually), with a nearly collinear triple, "
                  "and in-sphere on five nearly coplanar points (the 3x3 minors cancel). Tiny coordinate grids: G = 3 "
                  "(thorough also 4) values per axis with a different first value and a different step on every axis, "
                  "full-mantissa ('rounded') and exact dyadic members; EVERY 4-subset / 5-subset of the G^3 grid "
                  "points is evaluated, and every subset that is degenerate in index space (coplanar: generic planes, "
                  "planes parallel to one axis, axis aligned planes, points sharing one or two coordinates; "
                  "cospherical: box corners and rectangles whose projections are cocircular; five coplanar points) is "
                  "perturbed by every single-coordinate move of a list of k ulp and by every pattern 'each point stays "
                  "or moves +-1 ulp along one axis' with 2..3 (thorough: ..4) moved points. Each result is compared "
                  "with the sign of the exact determinant "
                  "computed in boost cpp_int from frexp-decoded integers in a different formulation "
                  "(untranslated homogeneous 4x4 / lifted 5x5 determinant, first-row expansion); adaptive must "
                  "equal exact on every input; the point permutations (all 24/120 for alphabets and corner families, "
                  "a stated subset with both parities for the grids) must flip or keep the sign. Part "
                  "'rescale': the real NewVoronoiGrid constructor is run on sides^3 x anchors^3 box alphabets plus a mantissa sweep of the largest side (64, thorough 512, equidistant mantissas, the neighbours of 1 and 2 and the sides at which 3..10 times the side crosses a power of two; x 3 exponents (thorough 6) x largest axis x 3 shapes x 3 anchors) and every "
                  "coordinate it hands to the predicates (rescaled generators, wall copies, tetrahedron corners) must "
                  "lie in [1,2). The property quantifies over a continuum, so it is decided on these alphabets only.",
    "level_note": "Exhaustive over the listed alphabets and families, nothing is claimed for other coordinates. "
                  "Coordinates are restricted to the normalised range [1,2) the predicates are specified for. "
                  "Quick: orientation 4^12 (contains the 3^12 sub-alphabets), in-sphere 3 x 2^15 + 3^15, families "
                  "with k = +-1..32 and a ladder (beyond 1000 ulp the in-sphere corner families call 12 of the 120 "
                  "permutations), 1.1 M generic near-coplanar + 0.8 M axis-parallel + 0.3 M collinear-triple and 1.0 M "
                  "generic near-cospherical + 0.2 M five-coplanar inputs; grids: three 3x3x3 orientation grids "
                  "(52 650 quadruples, 8 754 degenerate, 6.7 M inputs) and one 3x3x3 in-sphere grid (80 730 "
                  "quintuples, 16 026 degenerate, 2.3 M inputs). Thorough (4.6 M + 4.3 M generic inputs and more "
                  "structured ones) adds orientation {1,1.5,1.5+ulp,2-ulp} (4^12) and "
                  "{1,1+ulp,1.5,1.5+ulp,2-ulp} (5^12), four more in-sphere 3^15 alphabets, every k = +-1..1000, "
                  "two more shapes, five 3x3x3 (four of them with all 7^4 multi-point patterns) and one 4x4x4 orientation "
                  "grid (635 376 quadruples), every k = +-1..1000 on the axis-parallel planes of one grid, three 3x3x3 "
                  "and one 4x4x4 in-sphere grid (7 624 512 quintuples). The exact members, moves and permutation "
                  "subsets are written to the evidence (grid_members, grid_plans).",
    "quick_deadline": 90,
    "thorough_deadline": 1200,
    "parts": [{"name": "predicates", "bin": "c17_predicates", "share": 9},
              {"name": "rescale", "bin": "c17_predicates", "args": ["--mode", "rescale"], "share": 1}],
    "assumptions": [],
}
