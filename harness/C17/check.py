CHECK = {
    "id": "C17",
    "level": "exploration",
    "engine": "E3",
    "technique": "bounded-exhaustive enumeration of ulp-level coordinate alphabets and of exactly degenerate corner "
                 "families moved by single ulps, against the sign of the exact determinant in unbounded integers",
    "level_text": "All four predicate functions of ExactGeometricTests.hpp are called on every assignment of an "
                  "ulp-level alphabet ({1, 1+ulp, 1.5, 2-ulp} and sub/super-sets) to all 12 (orientation) or 15 "
                  "(in-sphere) coordinates, and on every 4/5-subset of cube corners and octahedron vertices with "
                  "every coordinate moved by every k = +-1..1000 ulp (plus a ladder 2^j ulp that crosses the "
                  "1e-10 filter threshold), and on generic full-mantissa families (deterministic Weyl sequences, no "
                  "RNG): fourth point on the plane / fifth point on the circumsphere of generic points (binary128, "
                  "rounded) with every coordinate moved by -4..4 ulp, so that the double evaluation inside the "
                  "filter really rounds. Each result is compared with the sign of the exact determinant "
                  "computed in boost cpp_int from frexp-decoded integers in a different formulation "
                  "(untranslated homogeneous 4x4 / lifted 5x5 determinant, first-row expansion); adaptive must "
                  "equal exact on every input; all 24/120 point permutations must flip or keep the sign. Part "
                  "'rescale': the real NewVoronoiGrid constructor is run on sides^3 x anchors^3 box alphabets and every "
                  "coordinate it hands to the predicates (rescaled generators, wall copies, tetrahedron corners) must "
                  "lie in [1,2). The property quantifies over a continuum, so it is decided on these alphabets only.",
    "level_note": "Exhaustive over the listed alphabets and families, nothing is claimed for other coordinates. "
                  "Coordinates are restricted to the normalised range [1,2) the predicates are specified for. "
                  "Quick: orientation 4^12 (contains the 3^12 sub-alphabets), in-sphere 3 x 2^15 + 3^15, families "
                  "with k = +-1..32 and a ladder, 1.1 M generic near-coplanar and 1.0 M generic near-cospherical "
                  "inputs; thorough (4.6 M + 4.3 M generic inputs) adds orientation {1,1.5,1.5+ulp,2-ulp} (4^12) and "
                  "{1,1+ulp,1.5,1.5+ulp,2-ulp} (5^12), four more in-sphere 3^15 alphabets, every k = +-1..1000 and "
                  "two more shapes.",
    "quick_deadline": 90,
    "thorough_deadline": 1200,
    "parts": [{"name": "predicates", "bin": "c17_predicates", "share": 9},
              {"name": "rescale", "bin": "c17_predicates", "args": ["--mode", "rescale"], "share": 1}],
    "assumptions": [],
}
