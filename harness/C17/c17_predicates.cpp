// C17: the four predicate functions of ExactGeometricTests.hpp (orient3d and
// insphere, exact and adaptive) evaluated on exhaustive ulp-level alphabets and
// on exactly degenerate corner families moved by +-1..1000 ulp, compared with
// the sign of the exact determinant computed in unbounded integers
// (boost::multiprecision::cpp_int) in a different formulation than the code:
//   orient3d : 4x4 homogeneous determinant |p 1| (no translation to d),
//              Laplace expansion along the first row;
//   insphere : 5x5 determinant |p |p|^2 1| (no translation to e), Laplace
//              expansion along the first row.
// Both are equal to the translated 3x3 / 4x4 determinants the code expands
// along its z column / lifted column (derivation in NOTES.md).
//
// Further families (see the comments at the functions and NOTES.md): generic
// full-mantissa near-degenerate points (Weyl sequences; generic planes, planes
// parallel to a coordinate axis, nearly collinear triples, five nearly coplanar
// points) and tiny coordinate grids (every 4-/5-subset of a G^3 grid with
// different first value and step per axis; every index-degenerate subset moved
// by single ulps and by multi-point +-1 ulp patterns).
//
// The real code is the header /repo/src/ExactGeometricTests.hpp, unchanged.
#include "ExactGeometricTests.hpp"
#include "NewVoronoiGrid.hpp"
#include "verif_common.hpp"

#include <algorithm>
#include <cfloat>
#include <array>
#include <boost/multiprecision/cpp_int.hpp>
#include <omp.h>

using namespace verif;
typedef boost::multiprecision::cpp_int BigInt; // unbounded
// fixed-width *checked* integers (no heap allocation): an overflow throws
// std::overflow_error, in which case the oracle is re-evaluated in BigInt.
// Bounds for coordinates in [1,2) (integers < 2^53): |4x4 det| <= 4! * 2^159 < 2^164,
// |5x5 det| <= 5! * 2^(3*53+108) < 2^274; every partial sum of a Laplace expansion of
// non-negative-entry matrices is bounded by the permanent, which obeys the same bound.
typedef boost::multiprecision::number< boost::multiprecision::cpp_int_backend<
    256, 256, boost::multiprecision::signed_magnitude, boost::multiprecision::checked, void > >
    Fix256;
typedef boost::multiprecision::number< boost::multiprecision::cpp_int_backend<
    384, 384, boost::multiprecision::signed_magnitude, boost::multiprecision::checked, void > >
    Fix384;
typedef CoordinateVector<> Vec;

static const double ULP = DBL_EPSILON; // spacing of doubles in [1,2)

// ---------------------------------------------------------------------------
// oracle
// ---------------------------------------------------------------------------

/// x = I * 2^(e-53) with I a 53-bit integer (frexp decoding)
static inline void decode(double x, int64_t &I, int &e) {
  const double m = std::frexp(x, &e); // |m| in [0.5,1)
  I = (int64_t)std::ldexp(m, 53);     // exact: m has 53 significant bits
}

/// integer coordinates of n points on a common scale 2^(emin-53)
template < typename T > static void integer_coordinates(const double *x, int n, T *out) {
  int64_t I[15];
  int e[15];
  int emin = 1 << 20;
  for (int i = 0; i < n; ++i) {
    decode(x[i], I[i], e[i]);
    if (I[i] != 0 && e[i] < emin)
      emin = e[i];
  }
  for (int i = 0; i < n; ++i) {
    out[i] = I[i];
    if (I[i] != 0 && e[i] > emin)
      out[i] <<= (e[i] - emin);
  }
}

template < typename T > static inline T det2(const T &a, const T &b, const T &c, const T &d) {
  return a * d - b * c;
}
/// 3x3 determinant, Laplace along the first row
template < typename T > static inline T det3(const T m[3][3]) {
  return m[0][0] * det2(m[1][1], m[1][2], m[2][1], m[2][2]) -
         m[0][1] * det2(m[1][0], m[1][2], m[2][0], m[2][2]) +
         m[0][2] * det2(m[1][0], m[1][1], m[2][0], m[2][1]);
}
/// n x n determinant, Laplace along the first row (n <= 5)
template < typename T, int N > struct Det {
  static T eval(const T m[N][N]) {
    T r = 0;
    for (int c = 0; c < N; ++c) {
      T sub[N - 1][N - 1];
      for (int i = 1; i < N; ++i) {
        int cc = 0;
        for (int j = 0; j < N; ++j) {
          if (j == c)
            continue;
          sub[i - 1][cc++] = m[i][j];
        }
      }
      T t = m[0][c] * Det< T, N - 1 >::eval(sub);
      if (c & 1)
        r -= t;
      else
        r += t;
    }
    return r;
  }
};
template < typename T > struct Det< T, 3 > {
  static T eval(const T m[3][3]) { return det3(m); }
};

/// the same first-row Laplace expansion with every minor evaluated once: minor[mask] = determinant of the last
/// popcount(mask) rows restricted to the columns in mask (N 2^(N-1) multiplications instead of ~N!). Used for the
/// fixed-width evaluation; the unbounded-integer evaluation keeps the plain recursion above, and the two are
/// compared with each other on every 7th alphabet multiset and on every corner-family input.
template < typename T, int N > static T det_memo(const T m[N][N]) {
  T minor[1 << N];
  minor[0] = 1;
  for (int mask = 1; mask < (1 << N); ++mask) {
    const int row = N - __builtin_popcount(mask);
    T r = 0;
    int pos = 0;
    for (int c = 0; c < N; ++c)
      if (mask & (1 << c)) {
        const T t = m[row][c] * minor[mask ^ (1 << c)];
        if (pos & 1)
          r -= t;
        else
          r += t;
        ++pos;
      }
    minor[mask] = r;
  }
  return minor[(1 << N) - 1];
}
template < typename T, int N > struct DetChoice {
  static T eval(const T m[N][N]) { return det_memo< T, N >(m); }
};
template < int N > struct DetChoice< boost::multiprecision::cpp_int, N > {
  static boost::multiprecision::cpp_int eval(const boost::multiprecision::cpp_int m[N][N]) {
    return Det< boost::multiprecision::cpp_int, N >::eval(m);
  }
};

template < typename T > static inline int sgn(const T &v) { return v > 0 ? 1 : (v < 0 ? -1 : 0); }

/// exact orientation determinant | a 1; b 1; c 1; d 1 |
template < typename T > static T orient_det_t(const double p[12]) {
  T I[12];
  integer_coordinates(p, 12, I);
  T m[4][4];
  for (int i = 0; i < 4; ++i) {
    for (int j = 0; j < 3; ++j)
      m[i][j] = I[3 * i + j];
    m[i][3] = 1;
  }
  return DetChoice< T, 4 >::eval(m);
}

/// exact in-sphere determinant | p |p|^2 1 | (5 rows)
template < typename T > static T insphere_det_t(const double p[15]) {
  T I[15];
  integer_coordinates(p, 15, I);
  T m[5][5];
  for (int i = 0; i < 5; ++i) {
    T n2 = 0;
    for (int j = 0; j < 3; ++j) {
      m[i][j] = I[3 * i + j];
      n2 += I[3 * i + j] * I[3 * i + j];
    }
    m[i][3] = n2;
    m[i][4] = 1;
  }
  return DetChoice< T, 5 >::eval(m);
}
static BigInt orient_det(const double p[12]) { return orient_det_t< BigInt >(p); }
static BigInt insphere_det(const double p[15]) { return insphere_det_t< BigInt >(p); }

static uint64_t g_fixed_overflows = 0; // fixed-width evaluation overflowed, BigInt used

/// sign of the exact determinant: fixed-width checked integers, unbounded
/// integers when the fixed width overflows
static int orient_sign(const double p[12]) {
  try {
    return sgn(orient_det_t< Fix256 >(p));
  } catch (const std::overflow_error &) {
#pragma omp atomic
    ++g_fixed_overflows;
    return sgn(orient_det(p));
  }
}
static int insphere_sign(const double p[15]) {
  try {
    return sgn(insphere_det_t< Fix384 >(p));
  } catch (const std::overflow_error &) {
#pragma omp atomic
    ++g_fixed_overflows;
    return sgn(insphere_det(p));
  }
}

/// second formulation (translated to the last point, expansion along the last
/// column); only used to cross-check the oracle against itself
static BigInt orient_det_translated(const double p[12]) {
  BigInt I[12];
  integer_coordinates(p, 12, I);
  BigInt m[3][3];
  for (int i = 0; i < 3; ++i)
    for (int j = 0; j < 3; ++j)
      m[i][j] = I[3 * i + j] - I[9 + j];
  // expansion along the first column
  return m[0][0] * det2(m[1][1], m[1][2], m[2][1], m[2][2]) -
         m[1][0] * det2(m[0][1], m[0][2], m[2][1], m[2][2]) +
         m[2][0] * det2(m[0][1], m[0][2], m[1][1], m[1][2]);
}
static BigInt insphere_det_translated(const double p[15]) {
  BigInt I[15];
  integer_coordinates(p, 15, I);
  BigInt M[4][4];
  for (int i = 0; i < 4; ++i) {
    BigInt n2 = 0;
    for (int j = 0; j < 3; ++j) {
      M[i][j] = I[3 * i + j] - I[12 + j];
      n2 += M[i][j] * M[i][j];
    }
    M[i][3] = n2;
  }
  BigInt det = 0;
  for (int r = 0; r < 4; ++r) {
    BigInt m[3][3];
    int rr = 0;
    for (int i = 0; i < 4; ++i) {
      if (i == r)
        continue;
      for (int j = 0; j < 3; ++j)
        m[rr][j] = M[i][j];
      ++rr;
    }
    BigInt cof = det3(m);
    if ((r + 3) % 2)
      cof = -cof;
    det += M[r][3] * cof;
  }
  return det;
}

// ---------------------------------------------------------------------------
// the real code
// ---------------------------------------------------------------------------
static inline int code_orient_exact(const double p[12]) {
  return ExactGeometricTests::orient3d_exact(Vec(p[0], p[1], p[2]), Vec(p[3], p[4], p[5]),
                                             Vec(p[6], p[7], p[8]), Vec(p[9], p[10], p[11]));
}
static inline int code_orient_adaptive(const double p[12]) {
  return ExactGeometricTests::orient3d_adaptive(Vec(p[0], p[1], p[2]), Vec(p[3], p[4], p[5]),
                                                Vec(p[6], p[7], p[8]), Vec(p[9], p[10], p[11]));
}
static inline int code_insphere_exact(const double p[15]) {
  return ExactGeometricTests::insphere_exact(Vec(p[0], p[1], p[2]), Vec(p[3], p[4], p[5]),
                                             Vec(p[6], p[7], p[8]), Vec(p[9], p[10], p[11]),
                                             Vec(p[12], p[13], p[14]));
}
static inline int code_insphere_adaptive(const double p[15]) {
  return ExactGeometricTests::insphere_adaptive(Vec(p[0], p[1], p[2]), Vec(p[3], p[4], p[5]),
                                                Vec(p[6], p[7], p[8]), Vec(p[9], p[10], p[11]),
                                                Vec(p[12], p[13], p[14]));
}

/// sign of the plain double evaluation (statistics only: how many inputs
/// would be answered wrongly without the filter + exact fallback)
static inline int naive_orient(const double p[12]) {
  const double adx = p[0] - p[9], ady = p[1] - p[10], adz = p[2] - p[11];
  const double bdx = p[3] - p[9], bdy = p[4] - p[10], bdz = p[5] - p[11];
  const double cdx = p[6] - p[9], cdy = p[7] - p[10], cdz = p[8] - p[11];
  const double r = adz * (bdx * cdy - cdx * bdy) + bdz * (cdx * ady - adx * cdy) +
                   cdz * (adx * bdy - bdx * ady);
  return r > 0. ? 1 : (r < 0. ? -1 : 0);
}

// ---------------------------------------------------------------------------
// permutations
// ---------------------------------------------------------------------------
struct Perm {
  int p[5];
  int sign;
};
static std::vector< Perm > permutations(int n) {
  std::vector< Perm > out;
  int a[5] = {0, 1, 2, 3, 4};
  do {
    Perm q;
    int inv = 0;
    for (int i = 0; i < n; ++i) {
      q.p[i] = a[i];
      for (int j = i + 1; j < n; ++j)
        if (a[i] > a[j])
          ++inv;
    }
    q.sign = (inv & 1) ? -1 : 1;
    out.push_back(q);
  } while (std::next_permutation(a, a + n));
  return out;
}

// ---------------------------------------------------------------------------
// bookkeeping
// ---------------------------------------------------------------------------
struct Counters {
  uint64_t calls = 0;       // predicate calls of the real code
  uint64_t inputs = 0;      // inputs compared with the oracle
  uint64_t nontrivial = 0;  // inputs with pairwise distinct points
  uint64_t ref_zero_distinct = 0;
  uint64_t ref_pos = 0, ref_neg = 0;
  uint64_t naive_wrong = 0; // plain double sign differs from the exact sign
  uint64_t perm_checks = 0;
  uint64_t skipped_range = 0;
  uint64_t mism = 0;
  uint64_t oracle_cross = 0; // oracle evaluated in both formulations
  void add(const Counters &o) {
    calls += o.calls;
    inputs += o.inputs;
    nontrivial += o.nontrivial;
    ref_zero_distinct += o.ref_zero_distinct;
    ref_pos += o.ref_pos;
    ref_neg += o.ref_neg;
    naive_wrong += o.naive_wrong;
    perm_checks += o.perm_checks;
    skipped_range += o.skipped_range;
    mism += o.mism;
    oracle_cross += o.oracle_cross;
  }
};

static std::string pts_hex(const double *p, int n) {
  std::string s;
  for (int i = 0; i < n; ++i)
    s += (i ? " " : "") + hexd(p[i]);
  return s;
}
static std::string replay_json(const char *pred, const double *p, int n) {
  return fmt("{\"pred\": \"%s\", \"pts\": \"%s\"}", pred, pts_hex(p, n).c_str());
}
static std::string pts_ulp(const double *p, int n) {
  // readable form: 1+k ulp
  std::string s;
  for (int i = 0; i < n; ++i) {
    if (i % 3 == 0)
      s += (i ? ") (" : "(");
    else
      s += ",";
    s += fmt("1+%.0fu", (p[i] - 1.) / ULP);
  }
  return s + ")";
}

static bool distinct_points(const double *p, int npts) {
  for (int i = 0; i < npts; ++i)
    for (int j = i + 1; j < npts; ++j)
      if (p[3 * i] == p[3 * j] && p[3 * i + 1] == p[3 * j + 1] && p[3 * i + 2] == p[3 * j + 2])
        return false;
  return true;
}

/// compare the two code results of one input with the oracle sign
static void judge(Result &R, Counters &C, const char *pred, const char *fam, const double *p,
                  int npts, int ref, int ex, int ad) {
  const int n = 3 * npts;
  if (ex == ref && ad == ex)
    return;
  {
    // a broken predicate fails on millions of inputs: after the first few reports of a class
    // (per thread) only count
    static thread_local std::map< std::string, int > seen;
    const std::string cls = fmt("%s:%s:%d:%d:%d", pred, fam, ref, ex, ad);
    if (++seen[cls] > 3) {
      ++C.mism;
      return;
    }
  }
  if (ex != ref) {
    ++C.mism;
    R.violation(fmt("C17:%s_exact:wrong-sign:%s:%s", pred, fam, ref == 0 ? "det-zero" : "det-nonzero"),
                fmt("%s_exact returned %d, exact determinant has sign %d; points %s = %s", pred, ex,
                    ref, pts_ulp(p, n).c_str(), pts_hex(p, n).c_str()),
                replay_json(pred, p, n));
  }
  if (ad != ex) {
    ++C.mism;
    R.violation(fmt("C17:%s_adaptive:differs-from-exact:%s:%s", pred, fam,
                    ex == 0 ? "exact-zero" : (ad == 0 ? "adaptive-zero" : "opposite")),
                fmt("%s_adaptive returned %d, %s_exact %d (determinant sign %d); points %s = %s", pred,
                    ad, pred, ex, ref, pts_ulp(p, n).c_str(), pts_hex(p, n).c_str()),
                replay_json(pred, p, n));
  }
  if (ad != ref && ad == ex) {
    // already reported through the exact routine
  } else if (ad != ref) {
    ++C.mism;
    R.violation(fmt("C17:%s_adaptive:wrong-sign:%s:%s", pred, fam, ref == 0 ? "det-zero" : "det-nonzero"),
                fmt("%s_adaptive returned %d, exact determinant has sign %d; points %s = %s", pred, ad,
                    ref, pts_ulp(p, n).c_str(), pts_hex(p, n).c_str()),
                replay_json(pred, p, n));
  }
}

// ---------------------------------------------------------------------------
// alphabet families: every assignment of alphabet values to the 12 / 15
// coordinates, i.e. every ordered tuple of 4 / 5 points out of the A^3 points
// of the alphabet. The ordered tuples are visited as "multiset of points x
// all its distinct arrangements": the oracle determinant is evaluated once
// for the sorted arrangement, every arrangement (= one ordered input, each
// exactly once) is given to both real predicates and must return
// sign(arrangement) * sign(det) - for repeated points det = 0. This is the
// comparison of every input with the exact sign and the odd/even permutation
// check in one (the determinant is alternating); the oracle itself is
// re-evaluated directly on the reversed arrangement of every multiset and,
// on every 7th multiset, in the second formulation and in unbounded integers.
// ---------------------------------------------------------------------------
static void run_alphabet(Result &R, Counters &total, const char *pred, int npts,
                         const std::vector< double > &alpha, long seed, bool &complete) {
  const int A = (int)alpha.size();
  const int n = 3 * npts;
  const int P = A * A * A; // points of the alphabet
  std::string fam = fmt("alphabet%d{", A);
  for (int i = 0; i < A; ++i) {
    const double u = (alpha[i] - 1.) / ULP;
    fam += (i ? "," : "");
    if (u == 0.)
      fam += "1";
    else if (u <= 1000.)
      fam += fmt("1+%.0fu", u);
    else if (alpha[i] == 2. - ULP)
      fam += "2-u";
    else if (alpha[i] >= 1.5 && alpha[i] - 1.5 <= 1000. * ULP)
      fam += (alpha[i] == 1.5 ? std::string("1.5") : fmt("1.5+%.0fu", (alpha[i] - 1.5) / ULP));
    else
      fam += fmt("%.17g", alpha[i]);
  }
  fam += "}";
  const bool orient = (npts == 4);
  // all multisets (non-decreasing point codes)
  std::vector< std::array< unsigned char, 5 > > multi;
  {
    std::array< unsigned char, 5 > c = {0, 0, 0, 0, 0};
    while (true) {
      multi.push_back(c);
      int i = npts - 1;
      while (i >= 0 && c[i] == P - 1)
        --i;
      if (i < 0)
        break;
      ++c[i];
      for (int j = i + 1; j < npts; ++j)
        c[j] = c[i];
    }
  }
  const uint64_t M = multi.size();
  const uint64_t rot = M ? ((uint64_t)seed * 2654435761ull) % M : 0;
  bool stop = false;
  uint64_t expected_inputs = 1;
  for (int i = 0; i < npts; ++i)
    expected_inputs *= P;
  const uint64_t sample_at = M / 3 + 12345;
  uint64_t inputs_seen = 0;
#pragma omp parallel
  {
    Counters C;
#pragma omp for schedule(dynamic, 64)
    for (uint64_t km = 0; km < M; ++km) {
      if (stop)
        continue;
      if ((km & 1023) == 0 && R.out_of_time()) {
        stop = true;
        continue;
      }
      const uint64_t im = (km + rot) % M;
      std::array< unsigned char, 5 > c = multi[im];
      auto coords = [&](const unsigned char *code, double *p) {
        for (int i = 0; i < npts; ++i) {
          int t = code[i];
          for (int k = 0; k < 3; ++k) {
            p[3 * i + k] = alpha[t % A];
            t /= A;
          }
        }
      };
      bool distinct = true;
      for (int i = 0; i + 1 < npts; ++i)
        if (c[i] == c[i + 1])
          distinct = false;
      double p0[15];
      coords(c.data(), p0);
      const int ref0 = orient ? orient_sign(p0) : insphere_sign(p0);
      // oracle re-evaluated on the reversed arrangement (parity of the reversal: npts(npts-1)/2 swaps)
      {
        unsigned char r[5];
        for (int i = 0; i < npts; ++i)
          r[i] = c[npts - 1 - i];
        double pr[15];
        coords(r, pr);
        const int par = ((npts * (npts - 1) / 2) & 1) ? -1 : 1;
        const int refr = orient ? orient_sign(pr) : insphere_sign(pr);
        ++C.oracle_cross;
        bool bad = (refr != par * ref0);
        if (im % 7 == 0) {
          const int ref2 = sgn(orient ? orient_det_translated(p0) : insphere_det_translated(p0));
          const int ref3 = sgn(orient ? orient_det(p0) : insphere_det(p0)); // unbounded integers
          ++C.oracle_cross;
          bad = bad || ref2 != ref0 || ref3 != ref0;
        }
        if (bad)
          R.violation(fmt("C17:oracle-self-check:%s", pred),
                      fmt("the reference determinant is inconsistent between its formulations / arrangements on %s",
                          pts_hex(p0, n).c_str()),
                      replay_json(pred, p0, n));
      }
      if (!distinct && ref0 != 0)
        R.violation(fmt("C17:oracle-self-check:%s", pred),
                    fmt("non-zero reference determinant for repeated points %s", pts_hex(p0, n).c_str()),
                    replay_json(pred, p0, n));
      // every distinct arrangement of the multiset = one ordered input
      do {
        int want = 0;
        if (distinct) {
          int inv = 0;
          for (int i = 0; i < npts; ++i)
            for (int j = i + 1; j < npts; ++j)
              if (c[i] > c[j])
                ++inv;
          want = (inv & 1) ? -ref0 : ref0;
        }
        double p[15];
        coords(c.data(), p);
        const int ex = orient ? code_orient_exact(p) : code_insphere_exact(p);
        const int ad = orient ? code_orient_adaptive(p) : code_insphere_adaptive(p);
        C.calls += 2;
        ++C.inputs;
        ++C.perm_checks;
        if (distinct) {
          ++C.nontrivial;
          if (want == 0)
            ++C.ref_zero_distinct;
        }
        if (want > 0)
          ++C.ref_pos;
        if (want < 0)
          ++C.ref_neg;
        if (orient && naive_orient(p) != want)
          ++C.naive_wrong;
        if (ex != want || ad != want)
          judge(R, C, pred, fam.c_str(), p, npts, want, ex, ad);
      } while (std::next_permutation(c.begin(), c.begin() + npts));
      if (im == sample_at || im == sample_at / 2)
        R.sample(fmt("{\"pred\": \"%s\", \"family\": \"%s\", \"points(sorted arrangement)\": \"%s\", "
                     "\"det_sign\": %d}",
                     pred, fam.c_str(), pts_ulp(p0, n).c_str(), ref0));
    }
#pragma omp critical
    {
      total.add(C);
      inputs_seen += C.inputs;
    }
  }
  if (stop) {
    complete = false;
    R.hit_deadline(fmt("%s %s: enumeration of %" PRIu64 " inputs not finished", pred, fam.c_str(), expected_inputs));
  } else if (inputs_seen != expected_inputs) {
    R.violation("C17:harness:enumeration-count",
                fmt("%s %s: %" PRIu64 " ordered inputs visited, %" PRIu64 " expected", pred, fam.c_str(), inputs_seen,
                    expected_inputs));
  }
}

// ---------------------------------------------------------------------------
// corner families: all ordered-by-index subsets of the corners of a cube /
// the vertices of an octahedron (exactly coplanar or cospherical), one
// coordinate moved by k ulp, every permutation evaluated directly.
// ---------------------------------------------------------------------------
struct Shape {
  std::string name;
  std::vector< std::array< double, 3 > > v;
};

/// ladder_perm_stride: permutations called for the moves beyond the +-1..1000 ulp of the property (|k| > 1000, the
/// ladder that crosses the filter threshold): every stride-th one (1 = all; the quick in-sphere families use 12 of
/// the 120, indices 0,10,..,110, both parities)
static void run_family(Result &R, Counters &total, const char *pred, int npts, const Shape &S,
                       const std::vector< int64_t > &ks, bool &complete, size_t ladder_perm_stride = 1) {
  const int n = 3 * npts;
  const int nv = (int)S.v.size();
  const bool orient = (npts == 4);
  // subsets of npts vertices
  std::vector< std::vector< int > > subsets;
  {
    std::vector< int > idx(npts);
    for (int i = 0; i < npts; ++i)
      idx[i] = i;
    while (true) {
      subsets.push_back(idx);
      int i = npts - 1;
      while (i >= 0 && idx[i] == nv - npts + i)
        --i;
      if (i < 0)
        break;
      ++idx[i];
      for (int j = i + 1; j < npts; ++j)
        idx[j] = idx[j - 1] + 1;
    }
  }
  const std::vector< Perm > perms = permutations(npts);
  const std::string fam = S.name;
  // tasks: (subset, coordinate), inner loop over k
  const int ntask = (int)subsets.size() * n;
  bool stop = false;
#pragma omp parallel
  {
    Counters C;
#pragma omp for schedule(dynamic, 1)
    for (int task = 0; task < ntask; ++task) {
      if (stop)
        continue;
      if (R.out_of_time()) {
        stop = true;
        continue;
      }
      const std::vector< int > &sub = subsets[task / n];
      const int coord = task % n;
      double base[15];
      for (int i = 0; i < npts; ++i)
        for (int c = 0; c < 3; ++c)
          base[3 * i + c] = S.v[sub[i]][c];
      for (size_t ik = 0; ik <= ks.size(); ++ik) {
        // ik == ks.size(): the unmoved, exactly degenerate configuration
        const int64_t k = ik < ks.size() ? ks[ik] : 0;
        if (k == 0 && coord != 0)
          continue;
        double p[15];
        for (int i = 0; i < n; ++i)
          p[i] = base[i];
        p[coord] = base[coord] + k * ULP; // exact: multiples of ulp in [1,2)
        if (!(p[coord] >= 1. && p[coord] < 2.)) {
          ++C.skipped_range;
          continue;
        }
        const BigInt det = orient ? orient_det(p) : insphere_det(p);
        const int ref = sgn(det);
        {
          const BigInt det2nd = orient ? orient_det_translated(p) : insphere_det_translated(p);
          ++C.oracle_cross;
          if (det2nd != det)
            R.violation(fmt("C17:oracle-self-check:%s", pred),
                        fmt("the two formulations of the reference determinant differ (%s vs %s) on %s",
                            det.str().c_str(), det2nd.str().c_str(), pts_hex(p, n).c_str()),
                        replay_json(pred, p, n));
        }
        ++C.inputs;
        ++C.nontrivial; // the vertices of the shape are pairwise distinct
        if (ref == 0)
          ++C.ref_zero_distinct;
        if (ref > 0)
          ++C.ref_pos;
        if (ref < 0)
          ++C.ref_neg;
        if (orient && naive_orient(p) != ref)
          ++C.naive_wrong;
        const size_t pstride = (k > 1000 || k < -1000) ? ladder_perm_stride : 1;
        for (size_t iq = 0; iq < perms.size(); iq += pstride) {
          const Perm &q = perms[iq];
          double pp[15];
          for (int i = 0; i < npts; ++i)
            for (int c = 0; c < 3; ++c)
              pp[3 * i + c] = p[3 * q.p[i] + c];
          const int ex = orient ? code_orient_exact(pp) : code_insphere_exact(pp);
          const int ad = orient ? code_orient_adaptive(pp) : code_insphere_adaptive(pp);
          C.calls += 2;
          ++C.perm_checks;
          const int want = q.sign * ref;
          if (ex != want || ad != want) {
            const bool ident = (&q == &perms[0]);
            if (ident) {
              judge(R, C, pred, fam.c_str(), pp, npts, want, ex, ad);
            } else {
              ++C.mism;
              static thread_local int nrep = 0;
              if (++nrep > 6)
                continue;
              const char *who = ex != want ? "exact" : "adaptive";
              R.violation(fmt("C17:%s_%s:permutation:%s:%s", pred, who, fam.c_str(),
                              q.sign < 0 ? "odd" : "even"),
                          fmt("%s_%s = %d (exact %d, adaptive %d) on the %s permutation %s; determinant "
                              "sign of the unpermuted points is %d; points %s",
                              pred, who, ex != want ? ex : ad, ex, ad, q.sign < 0 ? "odd" : "even",
                              pts_ulp(pp, n).c_str(), ref, pts_hex(pp, n).c_str()),
                          replay_json(pred, pp, n));
            }
          }
        }
        if (task == ntask / 2 && (k == 1 || k == 0))
          R.sample(fmt("{\"pred\": \"%s\", \"family\": \"%s\", \"moved_coordinate\": %d, \"k_ulp\": %ld, "
                       "\"points\": \"%s\", \"det_sign\": %d}",
                       pred, fam.c_str(), coord, (long)k, pts_hex(p, n).c_str(), ref));
      }
    }
#pragma omp critical
    total.add(C);
  }
  if (stop) {
    complete = false;
    R.hit_deadline(fmt("%s family %s not finished", pred, fam.c_str()));
  }
}

// ---------------------------------------------------------------------------
// generic near-degenerate families: full 52-bit mantissas, so that the
// double evaluation of the filter really rounds. No random numbers: the
// coordinates are Weyl sequences frac(k*phi), frac(k*sqrt2), frac(k*sqrt3),
// frac(k*sqrt5) in exact 64-bit fixed point (top 52 bits -> mantissa).
//   orientation: base triple a,b,c of generic points (three scales: b,c within
//     1, 2^-10, 2^-20 of a), generic affine coefficients (s,t), fourth point
//     d = a + s(b-a) + t(c-a) evaluated in __float128 and rounded to double
//     (coplanar to within half an ulp per coordinate), then every one of the
//     12 coordinates moved by k = -4..4 ulp;
//   in-sphere: base quadruple of generic points close to a generic sphere,
//     circumsphere of the four doubles in __float128, fifth point on it along
//     generic directions, rounded, every one of the 15 coordinates moved by
//     k = -4..4 ulp.
// Every input is compared with the exact integer determinant; the predicates
// are called on the identity and on permutations (all 24; 12 of 120 quick /
// all 120 thorough).
// ---------------------------------------------------------------------------
typedef __float128 Quad;
static const uint64_t WEYL[4] = {0x9E3779B97F4A7C15ull,  // frac(phi)
                                 0x6A09E667F3BCC908ull,  // frac(sqrt 2)
                                 0xBB67AE8584CAA73Bull,  // frac(sqrt 3)
                                 0x3C6EF372FE94F82Bull}; // frac(sqrt 5)
/// frac(k * irrational_j) with 52 significant bits, in [0,1)
static inline double weyl(uint64_t k, int j) {
  const uint64_t m = (k * WEYL[j]) >> 12; // top 52 bits
  return std::ldexp((double)m, -52);
}
static Quad qsqrt(Quad x) {
  Quad r = (Quad)sqrtl((long double)x);
  r = 0.5 * (r + x / r);
  r = 0.5 * (r + x / r);
  return r;
}
static inline bool in12(double x) { return x >= 1. && x < 2.; }

/// plain double evaluation of the in-sphere formula (statistics only)
static inline int naive_insphere(const double p[15]) {
  const double aex = p[0] - p[12], aey = p[1] - p[13], aez = p[2] - p[14];
  const double bex = p[3] - p[12], bey = p[4] - p[13], bez = p[5] - p[14];
  const double cex = p[6] - p[12], cey = p[7] - p[13], cez = p[8] - p[14];
  const double dex = p[9] - p[12], dey = p[10] - p[13], dez = p[11] - p[14];
  const double ab = aex * bey - bex * aey, bc = bex * cey - cex * bey, cd = cex * dey - dex * cey;
  const double da = dex * aey - aex * dey, ac = aex * cey - cex * aey, bd = bex * dey - dex * bey;
  const double abc = aez * bc - bez * ac + cez * ab, bcd = bez * cd - cez * bd + dez * bc;
  const double cda = cez * da + dez * ac + aez * cd, dab = dez * ab + aez * bd + bez * da;
  const double a2 = aex * aex + aey * aey + aez * aez, b2 = bex * bex + bey * bey + bez * bez;
  const double c2 = cex * cex + cey * cey + cez * cez, d2 = dex * dex + dey * dey + dez * dez;
  const double r = (d2 * abc - c2 * dab) + (b2 * cda - a2 * bcd);
  return r > 0. ? 1 : (r < 0. ? -1 : 0);
}

struct GenericStats {
  uint64_t bases = 0, bases_skipped_range = 0;
  uint64_t inputs = 0, det_zero = 0, naive_wrong = 0;
  uint64_t inputs_with_wrong_result = 0, wrong_results = 0;
  void add(const GenericStats &o) {
    bases += o.bases;
    bases_skipped_range += o.bases_skipped_range;
    inputs += o.inputs;
    det_zero += o.det_zero;
    naive_wrong += o.naive_wrong;
    inputs_with_wrong_result += o.inputs_with_wrong_result;
    wrong_results += o.wrong_results;
  }
};

/// every 16th input of the generic and grid families (per thread): the sign of the fixed-width evaluation is
/// compared with the second (translated) formulation in unbounded integers
static inline void oracle_spot_check(Result &R, Counters &C, const char *pred, const double *p, int npts, int ref) {
  static thread_local unsigned counter = 0;
  if ((++counter & 15u) != 0)
    return;
  ++C.oracle_cross;
  const int ref2 = sgn(npts == 4 ? orient_det_translated(p) : insphere_det_translated(p));
  if (ref2 != ref)
    R.violation(fmt("C17:oracle-self-check:%s", pred),
                fmt("the two formulations of the reference determinant differ in sign (%d vs %d) on %s", ref, ref2,
                    pts_hex(p, 3 * npts).c_str()),
                replay_json(pred, p, 3 * npts));
}

/// all ulp moves of one base configuration through the oracle and the real predicates
static void generic_variants(Result &R, Counters &C, GenericStats &G, const char *pred, const char *fam,
                             const double *base, int npts, const std::vector< Perm > &perms, size_t perm_stride) {
  const int n = 3 * npts;
  const bool orient = (npts == 4);
  for (int coord = 0; coord < n; ++coord)
    for (int k = -4; k <= 4; ++k) {
      if (k == 0 && coord != 0)
        continue;
      double p[15];
      for (int i = 0; i < n; ++i)
        p[i] = base[i];
      p[coord] = base[coord] + k * ULP;
      if (!in12(p[coord])) {
        ++C.skipped_range;
        continue;
      }
      const int ref = orient ? orient_sign(p) : insphere_sign(p);
      oracle_spot_check(R, C, pred, p, npts, ref);
      ++G.inputs;
      ++C.inputs;
      ++C.nontrivial;
      if (ref == 0)
        ++G.det_zero;
      if ((orient ? naive_orient(p) : naive_insphere(p)) != ref)
        ++G.naive_wrong;
      bool any = false;
      for (size_t iq = 0; iq < perms.size(); iq += perm_stride) {
        const Perm &q = perms[iq];
        double pp[15];
        for (int i = 0; i < npts; ++i)
          for (int c = 0; c < 3; ++c)
            pp[3 * i + c] = p[3 * q.p[i] + c];
        const int ex = orient ? code_orient_exact(pp) : code_insphere_exact(pp);
        const int ad = orient ? code_orient_adaptive(pp) : code_insphere_adaptive(pp);
        C.calls += 2;
        ++C.perm_checks;
        const int want = q.sign * ref;
        if (ex != want || ad != want) {
          any = true;
          ++G.wrong_results;
          judge(R, C, pred, fam, pp, npts, want, ex, ad);
        }
      }
      if (any)
        ++G.inputs_with_wrong_result;
    }
}

/// mode -1: generic plane; mode 0,1,2: plane parallel to the x,y,z axis but not axis aligned (c is placed so that the
/// projections of a,b,c along that axis are collinear: every 2x2 minor of that projection cancels individually);
/// mode 3: a,b,c nearly collinear in space (c on the line ab, rounded), d generic and NOT in any special position.
static void run_generic_orient(Result &R, Counters &total, GenericStats &GS, int mode, int ntriples, long seed,
                               bool &complete) {
  const int npairs = 16;
  static const char *const famnames[5] = {"generic-near-coplanar", "generic-near-coplanar:parallel-to-x",
                                          "generic-near-coplanar:parallel-to-y", "generic-near-coplanar:parallel-to-z",
                                          "generic-near-collinear-triple"};
  const std::string fam = famnames[mode + 1];
  const int nscales = 3;
  const int shifts[3] = {0, 10, 20};
  const std::vector< Perm > perms = permutations(4);
  const long ntask = (long)nscales * ntriples;
  const long rot = ntask ? (long)(((uint64_t)seed * 7919u) % (uint64_t)ntask) : 0;
  bool stop = false;
#pragma omp parallel
  {
    Counters C;
    GenericStats G;
#pragma omp for schedule(dynamic, 4)
    for (long kt = 0; kt < ntask; ++kt) {
      if (stop)
        continue;
      if (R.out_of_time()) {
        stop = true;
        continue;
      }
      const long task = (kt + rot) % ntask;
      const int isc = (int)(task / ntriples);
      const uint64_t tr = (uint64_t)(task % ntriples);
      const double sc = std::ldexp(1., -shifts[isc]);
      // generic triple: a anywhere in [1.25,1.75)^3, b and c within sc/4 of a
      double a[3], b[3], c[3];
      for (int j = 0; j < 3; ++j) {
        a[j] = 1.25 + 0.5 * weyl(7 * tr + 1, j);
        b[j] = a[j] + 0.5 * sc * (weyl(7 * tr + 2, (j + 1) % 4) - 0.5);
        c[j] = a[j] + 0.5 * sc * (weyl(7 * tr + 3, (j + 2) % 4) - 0.5);
      }
      if (mode >= 0) {
        // c = a + lambda (b - a) in the two coordinates orthogonal to the axis (mode 0..2) / in all three (mode 3),
        // binary128 rounded to double; the coordinate along the axis stays generic
        const double lambda = 2. * weyl(7 * tr + 4, 1) - 0.5;
        for (int j = 0; j < 3; ++j)
          if (mode == 3 || j != mode)
            c[j] = (double)((Quad)a[j] + (Quad)lambda * ((Quad)b[j] - (Quad)a[j]));
      }
      for (int ip = 0; ip < npairs; ++ip) {
        // affine coefficients in [-0.5,1.5): inside and outside the triangle
        const double s = 2. * weyl(1000003ull * (tr + 1) + 31 * ip + 5, 3) - 0.5;
        const double t = 2. * weyl(1000003ull * (tr + 1) + 31 * ip + 6, 0) - 0.5;
        double base[12];
        bool ok = true;
        for (int j = 0; j < 3; ++j) {
          Quad dq = (Quad)a[j] + (Quad)s * ((Quad)b[j] - (Quad)a[j]) + (Quad)t * ((Quad)c[j] - (Quad)a[j]);
          if (mode == 3) // generic fourth point: the determinant is small because a,b,c are nearly collinear
            dq = (Quad)a[j] + (Quad)(0.5 * sc * (weyl(1000003ull * (tr + 1) + 31 * ip + 7 + j, (j + 3) % 4) - 0.5));
          base[j] = a[j];
          base[3 + j] = b[j];
          base[6 + j] = c[j];
          base[9 + j] = (double)dq; // rounded to nearest
          if (!in12(base[9 + j]) || !in12(b[j]) || !in12(c[j]))
            ok = false;
        }
        if (!ok) {
          ++G.bases_skipped_range;
          continue;
        }
        ++G.bases;
        generic_variants(R, C, G, "orient3d", fam.c_str(), base, 4, perms, 1);
        if (task == ntask / 2 && ip == 0)
          R.sample(fmt("{\"pred\": \"orient3d\", \"family\": \"%s\", \"scale\": \"2^-%d\", "
                       "\"s\": %.17g, \"t\": %.17g, \"points\": \"%s\"}",
                       fam.c_str(), shifts[isc], s, t, pts_hex(base, 12).c_str()));
      }
    }
#pragma omp critical
    {
      total.add(C);
      GS.add(G);
    }
  }
  if (stop) {
    complete = false;
    R.hit_deadline("orient3d " + fam + " family not finished");
  }
}

/// in-sphere on five full-mantissa points that are nearly coplanar: every 3x3 minor of the expansion along the
/// lifted column cancels individually (mode -1: generic plane), and in a plane parallel to a coordinate axis
/// (mode 0,1,2) every 2x2 minor of that projection cancels as well. The plane is spanned by a generic triple
/// a,b,c (three scales); d and e are generic affine combinations (binary128, rounded to double).
static void run_generic_coplanar5(Result &R, Counters &total, GenericStats &GS, int mode, int ntriples, size_t stride,
                                  long seed, bool &complete) {
  const int npairs = 6;
  static const char *const famnames[4] = {"generic-five-near-coplanar", "generic-five-near-coplanar:parallel-to-x",
                                          "generic-five-near-coplanar:parallel-to-y",
                                          "generic-five-near-coplanar:parallel-to-z"};
  const std::string fam = famnames[mode + 1];
  const int nscales = 3;
  const int shifts[3] = {0, 10, 20};
  const std::vector< Perm > perms = permutations(5);
  const long ntask = (long)nscales * ntriples;
  const long rot = ntask ? (long)(((uint64_t)seed * 7919u) % (uint64_t)ntask) : 0;
  bool stop = false;
#pragma omp parallel
  {
    Counters C;
    GenericStats G;
#pragma omp for schedule(dynamic, 1)
    for (long kt = 0; kt < ntask; ++kt) {
      if (stop)
        continue;
      if (R.out_of_time()) {
        stop = true;
        continue;
      }
      const long task = (kt + rot) % ntask;
      const int isc = (int)(task / ntriples);
      const uint64_t tr = (uint64_t)(task % ntriples) + 500000u; // other members of the Weyl sequences than orientation
      const double sc = std::ldexp(1., -shifts[isc]);
      double a[3], b[3], c[3];
      for (int j = 0; j < 3; ++j) {
        a[j] = 1.25 + 0.5 * weyl(7 * tr + 1, j);
        b[j] = a[j] + 0.5 * sc * (weyl(7 * tr + 2, (j + 1) % 4) - 0.5);
        c[j] = a[j] + 0.5 * sc * (weyl(7 * tr + 3, (j + 2) % 4) - 0.5);
      }
      if (mode >= 0) {
        const double lambda = 2. * weyl(7 * tr + 4, 1) - 0.5;
        for (int j = 0; j < 3; ++j)
          if (j != mode)
            c[j] = (double)((Quad)a[j] + (Quad)lambda * ((Quad)b[j] - (Quad)a[j]));
      }
      for (int ip = 0; ip < npairs; ++ip) {
        double st[4];
        for (int k = 0; k < 4; ++k)
          st[k] = 2. * weyl(1000003ull * (tr + 1) + 31 * ip + 5 + k, (k + 3) % 4) - 0.5;
        double base[15];
        bool ok = true;
        for (int j = 0; j < 3; ++j) {
          base[j] = a[j];
          base[3 + j] = b[j];
          base[6 + j] = c[j];
          base[9 + j] = (double)((Quad)a[j] + (Quad)st[0] * ((Quad)b[j] - (Quad)a[j]) + (Quad)st[1] * ((Quad)c[j] - (Quad)a[j]));
          base[12 + j] = (double)((Quad)a[j] + (Quad)st[2] * ((Quad)b[j] - (Quad)a[j]) + (Quad)st[3] * ((Quad)c[j] - (Quad)a[j]));
          for (int i = 0; i < 5; ++i)
            if (!in12(base[3 * i + j]))
              ok = false;
        }
        if (!ok) {
          ++G.bases_skipped_range;
          continue;
        }
        ++G.bases;
        generic_variants(R, C, G, "insphere", fam.c_str(), base, 5, perms, stride);
        if (task == ntask / 2 && ip == 0)
          R.sample(fmt("{\"pred\": \"insphere\", \"family\": \"%s\", \"scale\": \"2^-%d\", \"points\": \"%s\"}", fam.c_str(),
                       shifts[isc], pts_hex(base, 15).c_str()));
      }
    }
#pragma omp critical
    {
      total.add(C);
      GS.add(G);
    }
  }
  if (stop) {
    complete = false;
    R.hit_deadline("insphere " + fam + " family not finished");
  }
}

static void run_generic_insphere(Result &R, Counters &total, GenericStats &GS, bool thorough, long seed,
                                 bool &complete) {
  const int nquads = thorough ? 600 : 200;
  const int ndirs = thorough ? 60 : 40;
  const std::vector< Perm > perms = permutations(5);
  const size_t stride = thorough ? 1 : 10; // 12 of the 120 permutations in the quick tier (both parities)
  const long ntask = nquads;
  const long rot = ntask ? (long)(((uint64_t)seed * 7919u) % (uint64_t)ntask) : 0;
  bool stop = false;
#pragma omp parallel
  {
    Counters C;
    GenericStats G;
#pragma omp for schedule(dynamic, 1)
    for (long kt = 0; kt < ntask; ++kt) {
      if (stop)
        continue;
      if (R.out_of_time()) {
        stop = true;
        continue;
      }
      const uint64_t q = (uint64_t)((kt + rot) % ntask);
      // four generic points near a generic sphere (centre near 1.5, radius 2^-1..2^-12 times 0.2..0.4)
      const int shift = (int)(q % 3) * 6; // radii ~0.3, ~5e-3, ~7e-5
      const double rad = std::ldexp(0.2 + 0.2 * weyl(11 * q + 1, 0), -shift);
      double ctr[3];
      for (int j = 0; j < 3; ++j)
        ctr[j] = 1.45 + 0.1 * weyl(11 * q + 2, j + 1);
      double P4[12];
      bool ok = true;
      for (int i = 0; i < 4; ++i) {
        double v[3], nrm = 0.;
        for (int j = 0; j < 3; ++j) {
          v[j] = weyl(11 * q + 3 + i, (i + j) % 4) - 0.5;
          nrm += v[j] * v[j];
        }
        nrm = std::sqrt(nrm);
        for (int j = 0; j < 3; ++j) {
          // radial scatter of a few percent: the four points are generic, not on the sphere
          P4[3 * i + j] = ctr[j] + rad * (1. + 0.05 * (weyl(11 * q + 7 + i, j) - 0.5)) * v[j] / nrm;
          if (!in12(P4[3 * i + j]))
            ok = false;
        }
      }
      if (!ok) {
        ++G.bases_skipped_range;
        continue;
      }
      // circumsphere of the four doubles in binary128: 2 (p_i - p_0) . x = |p_i|^2 - |p_0|^2 (relative to p_0)
      Quad M[3][3], rhs[3];
      for (int i = 0; i < 3; ++i) {
        rhs[i] = 0;
        for (int j = 0; j < 3; ++j) {
          M[i][j] = (Quad)P4[3 * (i + 1) + j] - (Quad)P4[j];
          rhs[i] += M[i][j] * M[i][j];
        }
        rhs[i] *= 0.5;
      }
      const Quad det = M[0][0] * (M[1][1] * M[2][2] - M[1][2] * M[2][1]) -
                       M[0][1] * (M[1][0] * M[2][2] - M[1][2] * M[2][0]) +
                       M[0][2] * (M[1][0] * M[2][1] - M[1][1] * M[2][0]);
      if (det == 0)
        continue;
      Quad x[3]; // centre relative to p_0 (Cramer)
      for (int col = 0; col < 3; ++col) {
        Quad Mc[3][3];
        for (int i = 0; i < 3; ++i)
          for (int j = 0; j < 3; ++j)
            Mc[i][j] = (j == col) ? rhs[i] : M[i][j];
        x[col] = (Mc[0][0] * (Mc[1][1] * Mc[2][2] - Mc[1][2] * Mc[2][1]) -
                  Mc[0][1] * (Mc[1][0] * Mc[2][2] - Mc[1][2] * Mc[2][0]) +
                  Mc[0][2] * (Mc[1][0] * Mc[2][1] - Mc[1][1] * Mc[2][0])) /
                 det;
      }
      const Quad R2 = x[0] * x[0] + x[1] * x[1] + x[2] * x[2];
      for (int id = 0; id < ndirs; ++id) {
        Quad v[3], n2 = 0;
        for (int j = 0; j < 3; ++j) {
          v[j] = (Quad)(weyl(1000003ull * (q + 1) + 17 * id + j, (id + j) % 4) - 0.5);
          n2 += v[j] * v[j];
        }
        const Quad f = qsqrt(R2 / n2);
        double base[15];
        bool inr = true;
        for (int i = 0; i < 12; ++i)
          base[i] = P4[i];
        for (int j = 0; j < 3; ++j) {
          base[12 + j] = (double)((Quad)P4[j] + x[j] + f * v[j]);
          if (!in12(base[12 + j]))
            inr = false;
        }
        if (!inr) {
          ++G.bases_skipped_range;
          continue;
        }
        ++G.bases;
        generic_variants(R, C, G, "insphere", "generic-near-cospherical", base, 5, perms, stride);
        if (q == (uint64_t)ntask / 2 && id == 0)
          R.sample(fmt("{\"pred\": \"insphere\", \"family\": \"generic-near-cospherical\", \"radius\": %.6g, "
                       "\"points\": \"%s\"}",
                       (double)qsqrt(R2), pts_hex(base, 15).c_str()));
      }
    }
#pragma omp critical
    {
      total.add(C);
      GS.add(G);
    }
  }
  if (stop) {
    complete = false;
    R.hit_deadline("insphere generic-near-cospherical family not finished");
  }
}

// ---------------------------------------------------------------------------
// tiny coordinate grids: G values per axis (different first value and
// different step on every axis), all G^3 grid points, EVERY 4-subset
// (orientation) / 5-subset (in-sphere) of them. A coordinate value is
// fl(x0 + (step*i)*unit): for the "rounded" members x0 and unit are not dyadic,
// so every coordinate carries a full 52-bit mantissa and the grid is a lattice
// only to within half an ulp; for the "dyadic" members it is an exact lattice.
// Subsets that are degenerate in index space (integer determinant of the
// indices step*i equal to 0: coplanar quadruples; cospherical or coplanar
// quintuples) are the structured near-degeneracies that the generic families
// do not contain: planes parallel to a coordinate axis but not axis aligned
// (one coordinate projection collinear: all 2x2 minors of that projection cancel
// individually), axis aligned planes, points sharing one or two coordinates,
// box corners (cospherical, projections on a rectangle = cocircular), five
// coplanar points (all 3x3 minors of the in-sphere expansion cancel).
// Every degenerate subset is perturbed by
//   single: every coordinate moved by every k ulp of a list (contains +-1..8),
//   multi : every pattern "each point stays or moves by +-1 ulp along one
//           axis" with 2 .. maxmoved moved points (7^npts patterns at most),
// and every input is compared with the exact sign, adaptive on the listed
// permutations, exact on two of them (one even, one odd) and wherever adaptive
// is wrong.
// ---------------------------------------------------------------------------
struct Grid {
  std::string name;
  int G;
  double x0[3];
  int step[3];
  double unit;
  double val[3][8];
  bool exact_lattice; // stated expectation, verified: every index-degenerate subset has determinant exactly 0
};
static Grid make_grid(const char *name, int G, double x, double y, double z, int sx, int sy, int sz, double unit,
                      bool exact_lattice) {
  Grid g;
  g.name = name;
  g.G = G;
  g.x0[0] = x, g.x0[1] = y, g.x0[2] = z;
  g.step[0] = sx, g.step[1] = sy, g.step[2] = sz;
  g.unit = unit;
  g.exact_lattice = exact_lattice;
  for (int c = 0; c < 3; ++c)
    for (int i = 0; i < G; ++i)
      g.val[c][i] = g.x0[c] + (double)(g.step[c] * i) * unit;
  return g;
}

struct GridPlan {
  std::vector< int64_t > ks; // single-coordinate moves
  int maxmoved;              // multi-point patterns with 2..maxmoved moved points (0: none), rounded grids
  int maxmoved_exact;        // the same for the exact (dyadic) lattices: their products only round when several
                             // coordinates are off the lattice
  size_t perm_stride;        // permutations used: 0, stride, 2 stride, ... (unperturbed and single moves)
  size_t multi_perm_stride;  // the same for the multi-point patterns
  bool multi_only_structured; // multi-point patterns only on the structured degenerate subsets: orientation: plane
                              // parallel to exactly one axis, not axis aligned; in-sphere: five points coplanar or
                              // in a plane parallel to an axis (there the minors cancel individually)
  bool single_only_structured; // the same restriction for the single-coordinate moves
};

struct GridStats {
  uint64_t subsets = 0, degenerate = 0, deg_parallel_one_axis = 0, deg_axis_aligned = 0, deg_generic = 0,
           deg_collinear = 0, deg_all_coplanar = 0;
  uint64_t unperturbed_det_zero = 0, degenerate_det_zero = 0;
  uint64_t inputs_unperturbed = 0, inputs_single = 0, inputs_multi = 0;
  uint64_t det_zero = 0, naive_wrong = 0, inputs_with_wrong_result = 0, wrong_results = 0, skipped_range = 0;
  uint64_t exact_lattice_broken = 0;
  void add(const GridStats &o) {
    subsets += o.subsets;
    degenerate += o.degenerate;
    deg_parallel_one_axis += o.deg_parallel_one_axis;
    deg_axis_aligned += o.deg_axis_aligned;
    deg_generic += o.deg_generic;
    deg_collinear += o.deg_collinear;
    deg_all_coplanar += o.deg_all_coplanar;
    unperturbed_det_zero += o.unperturbed_det_zero;
    degenerate_det_zero += o.degenerate_det_zero;
    inputs_unperturbed += o.inputs_unperturbed;
    inputs_single += o.inputs_single;
    inputs_multi += o.inputs_multi;
    det_zero += o.det_zero;
    naive_wrong += o.naive_wrong;
    inputs_with_wrong_result += o.inputs_with_wrong_result;
    wrong_results += o.wrong_results;
    skipped_range += o.skipped_range;
    exact_lattice_broken += o.exact_lattice_broken;
  }
};

/// one input: oracle once, adaptive on the strided permutations, exact on the first two of them (even, odd)
/// and wherever adaptive is wrong. Returns the oracle sign.
static inline int structured_input(Result &R, Counters &C, const char *pred, const char *fam, const double *p, int npts,
                                   const std::vector< Perm > &perms, size_t stride, uint64_t &naive_wrong,
                                   uint64_t &wrong_results, uint64_t &inputs_wrong) {
  const bool orient = (npts == 4);
  const int ref = orient ? orient_sign(p) : insphere_sign(p);
  oracle_spot_check(R, C, pred, p, npts, ref);
  ++C.inputs;
  ++C.nontrivial;
  if (ref == 0)
    ++C.ref_zero_distinct;
  if ((orient ? naive_orient(p) : naive_insphere(p)) != ref)
    ++naive_wrong;
  bool any = false, odd_done = false;
  size_t used = 0;
  for (size_t iq = 0; iq < perms.size(); iq += stride, ++used) {
    const Perm &q = perms[iq];
    double pp[15];
    for (int i = 0; i < npts; ++i)
      for (int c = 0; c < 3; ++c)
        pp[3 * i + c] = p[3 * q.p[i] + c];
    const int want = q.sign * ref;
    const int ad = orient ? code_orient_adaptive(pp) : code_insphere_adaptive(pp);
    ++C.calls;
    ++C.perm_checks;
    int ex = want;
    // exact: on the identity, on the first odd permutation of the strided list and wherever adaptive is wrong
    const bool first_odd = (q.sign < 0 && !odd_done);
    if (used == 0 || first_odd || ad != want) {
      ex = orient ? code_orient_exact(pp) : code_insphere_exact(pp);
      ++C.calls;
      if (first_odd)
        odd_done = true;
    }
    if (ex != want || ad != want) {
      any = true;
      ++wrong_results;
      judge(R, C, pred, fam, pp, npts, want, ex, ad);
    }
  }
  if (any)
    ++inputs_wrong;
  return ref;
}

static long idet3(const long m[3][3]) {
  return m[0][0] * (m[1][1] * m[2][2] - m[1][2] * m[2][1]) - m[0][1] * (m[1][0] * m[2][2] - m[1][2] * m[2][0]) +
         m[0][2] * (m[1][0] * m[2][1] - m[1][1] * m[2][0]);
}

static void run_grid(Result &R, Counters &total, GridStats &GS, const char *pred, int npts, const Grid &g,
                     const GridPlan &plan, bool &complete) {
  const int n = 3 * npts;
  const bool orient = (npts == 4);
  const int G = g.G;
  const int P = G * G * G;
  // violation keys carry the short name (up to the first ':'); the definition is in the evidence (grid_members)
  const std::string fam = fmt("grid%d:%s", G, g.name.substr(0, g.name.find(':')).c_str());
  const std::string fam_single = fam + ":single-ulp-move";
  const std::string fam_multi = fam + ":multi-point-move";
  const std::vector< Perm > perms = permutations(npts);
  const int maxmoved = g.exact_lattice ? plan.maxmoved_exact : plan.maxmoved;
  for (size_t st : {plan.perm_stride, plan.multi_perm_stride}) {
    bool odd = false;
    for (size_t iq = 0; iq < perms.size(); iq += st)
      if (perms[iq].sign < 0)
        odd = true;
    if (!odd)
      R.violation("C17:harness:grid-permutation-stride", "no odd permutation in the strided list");
  }
  for (int c = 0; c < 3; ++c)
    for (int i = 0; i < G; ++i)
      if (!in12(g.val[c][i]) || (i && !(g.val[c][i] > g.val[c][i - 1])))
        R.violation("C17:harness:grid-definition", fmt("grid %s: coordinate values not increasing inside [1,2)", g.name.c_str()));
  // tasks: the two smallest point indices of the subset
  std::vector< std::pair< int, int > > tasks;
  for (int a = 0; a < P; ++a)
    for (int b = a + 1; b < P; ++b)
      tasks.push_back(std::make_pair(a, b));
  int pow7 = 1;
  for (int i = 0; i < npts; ++i)
    pow7 *= 7;
  bool stop = false, sampled = false;
  const long ntask = (long)tasks.size();
#pragma omp parallel
  {
    Counters C;
    GridStats S;
#pragma omp for schedule(dynamic, 1)
    for (long it = 0; it < ntask; ++it) {
      if (stop)
        continue;
      int s[5];
      s[0] = tasks[it].first;
      s[1] = tasks[it].second;
      // remaining members in increasing order
      for (s[2] = s[1] + 1; s[2] < P && !stop; ++s[2])
        for (s[3] = s[2] + 1; s[3] < P && !stop; ++s[3])
          for (s[4] = (orient ? P - 1 : s[3] + 1); s[4] < P; ++s[4]) {
            if (R.out_of_time()) {
              stop = true;
              break;
            }
            double p[15];
            long I[5][3];
            for (int i = 0; i < npts; ++i) {
              int t = s[i];
              for (int c = 0; c < 3; ++c) {
                const int ix = t % G;
                t /= G;
                p[3 * i + c] = g.val[c][ix];
                I[i][c] = (long)g.step[c] * ix;
              }
            }
            ++S.subsets;
            ++S.inputs_unperturbed;
            const int ref0 = structured_input(R, C, pred, fam.c_str(), p, npts, perms, plan.perm_stride, S.naive_wrong,
                                              S.wrong_results, S.inputs_with_wrong_result);
            if (ref0 == 0) {
              ++S.unperturbed_det_zero;
              ++S.det_zero;
            }
            // degenerate in index space?
            long idet;
            long m[4][3];
            for (int i = 0; i + 1 < npts; ++i)
              for (int c = 0; c < 3; ++c)
                m[i][c] = I[i][c] - I[npts - 1][c];
            if (orient) {
              const long mm[3][3] = {{m[0][0], m[0][1], m[0][2]}, {m[1][0], m[1][1], m[1][2]}, {m[2][0], m[2][1], m[2][2]}};
              idet = idet3(mm);
            } else {
              idet = 0;
              for (int r = 0; r < 4; ++r) {
                long mm[3][3];
                int rr = 0;
                for (int i = 0; i < 4; ++i) {
                  if (i == r)
                    continue;
                  for (int c = 0; c < 3; ++c)
                    mm[rr][c] = m[i][c];
                  ++rr;
                }
                const long n2 = m[r][0] * m[r][0] + m[r][1] * m[r][1] + m[r][2] * m[r][2];
                idet += ((r + 3) % 2 ? -1 : 1) * n2 * idet3(mm);
              }
            }
            if (idet != 0)
              continue;
            ++S.degenerate;
            if (ref0 == 0)
              ++S.degenerate_det_zero;
            else if (g.exact_lattice)
              ++S.exact_lattice_broken;
            // statistics: kind of degeneracy
            bool structured = true;
            {
              int npar = 0;
              for (int w = 0; w < 3; ++w) {
                const int u = (w + 1) % 3, v = (w + 2) % 3;
                bool col = true;
                for (int i = 0; i + 1 < npts; ++i)
                  for (int j = i + 1; j + 1 < npts; ++j)
                    if (m[i][u] * m[j][v] - m[j][u] * m[i][v] != 0)
                      col = false;
                if (col)
                  ++npar;
              }
              if (orient) {
                structured = (npar == 1);
                if (npar == 0)
                  ++S.deg_generic;
                else if (npar == 1)
                  ++S.deg_parallel_one_axis;
                else if (npar == 2)
                  ++S.deg_axis_aligned;
                else
                  ++S.deg_collinear;
              } else {
                // all five coplanar: every 3x3 minor of the index differences vanishes
                bool copl = true;
                for (int r = 0; r < 4 && copl; ++r) {
                  long mm[3][3];
                  int rr = 0;
                  for (int i = 0; i < 4; ++i) {
                    if (i == r)
                      continue;
                    for (int c = 0; c < 3; ++c)
                      mm[rr][c] = m[i][c];
                    ++rr;
                  }
                  if (idet3(mm) != 0)
                    copl = false;
                }
                if (copl)
                  ++S.deg_all_coplanar;
                if (npar >= 1)
                  ++S.deg_parallel_one_axis; // all five in a plane parallel to an axis (aligned or not)
                structured = copl || npar >= 1;
              }
            }
            // single-coordinate moves
            if (structured || !plan.single_only_structured)
            for (int coord = 0; coord < n; ++coord)
              for (size_t ik = 0; ik < plan.ks.size(); ++ik) {
                double q[15];
                for (int i = 0; i < n; ++i)
                  q[i] = p[i];
                q[coord] = p[coord] + (double)plan.ks[ik] * ULP;
                if (!in12(q[coord])) {
                  ++S.skipped_range;
                  continue;
                }
                ++S.inputs_single;
                if (structured_input(R, C, pred, fam_single.c_str(), q, npts, perms, plan.perm_stride, S.naive_wrong,
                                     S.wrong_results, S.inputs_with_wrong_result) == 0)
                  ++S.det_zero;
              }
            // multi-point moves
            if (maxmoved >= 2 && (structured || !plan.multi_only_structured))
              for (int pat = 0; pat < pow7; ++pat) {
                int t = pat, moved = 0;
                double q[15];
                for (int i = 0; i < n; ++i)
                  q[i] = p[i];
                bool ok = true;
                for (int i = 0; i < npts; ++i) {
                  const int e = t % 7;
                  t /= 7;
                  if (e) {
                    ++moved;
                    const int c = (e - 1) >> 1;
                    q[3 * i + c] += ((e - 1) & 1) ? -ULP : ULP;
                    if (!in12(q[3 * i + c]))
                      ok = false;
                  }
                }
                if (moved < 2 || moved > maxmoved)
                  continue;
                if (!ok) {
                  ++S.skipped_range;
                  continue;
                }
                ++S.inputs_multi;
                if (structured_input(R, C, pred, fam_multi.c_str(), q, npts, perms, plan.multi_perm_stride, S.naive_wrong,
                                     S.wrong_results, S.inputs_with_wrong_result) == 0)
                  ++S.det_zero;
              }
            if (!sampled && it == 0) {
              sampled = true; // first degenerate subset of one fixed task (one thread: deterministic)
              R.sample(fmt("{\"pred\": \"%s\", \"family\": \"%s\", \"degenerate_in_index_space\": true, "
                           "\"unperturbed_points\": \"%s\", \"det_sign\": %d}",
                           pred, fam.c_str(), pts_hex(p, n).c_str(), ref0));
            }
          }
    }
#pragma omp critical
    {
      total.add(C);
      GS.add(S);
    }
  }
  if (stop) {
    complete = false;
    R.hit_deadline(fmt("%s %s not finished", pred, fam.c_str()));
  }
}

static Shape cube(double lo, double hi, const char *name) {
  Shape S;
  S.name = name;
  for (int i = 0; i < 8; ++i)
    S.v.push_back({(i & 1) ? hi : lo, (i & 2) ? hi : lo, (i & 4) ? hi : lo});
  return S;
}
static Shape octahedron(double c, double r, const char *name) {
  Shape S;
  S.name = name;
  for (int a = 0; a < 3; ++a)
    for (int s = -1; s <= 1; s += 2) {
      std::array< double, 3 > v = {c, c, c};
      v[a] = c + s * r;
      S.v.push_back(v);
    }
  return S;
}

// ---------------------------------------------------------------------------
// third anchored mechanism: "generator coordinates are rescaled into [1,2) before any predicate is
// evaluated" (NewVoronoiGrid.cpp:124-190, NewVoronoiBox.hpp). Every coordinate the grid hands to the
// predicates - rescaled generators, their six wall copies, the four corners of the enclosing
// tetrahedron - must lie in [1,2), otherwise get_mantissa() decodes a different number.
// Enumerated: box sides^3 x anchors^3 over small alphabets, generators at the extreme and central
// positions of the box.
// ---------------------------------------------------------------------------
static bool rescale_case(Result &R, const Vec &anchor, const Vec &sides, uint64_t &npoints, bool verbose) {
  const double f[3] = {1.e-9, 0.5, 1. - 1.e-9};
  std::vector< Vec > gen;
  for (int i = 0; i < 3; ++i)
    for (int j = 0; j < 3; ++j)
      for (int k = 0; k < 3; ++k)
        gen.push_back(Vec(anchor.x() + f[i] * sides.x(), anchor.y() + f[j] * sides.y(), anchor.z() + f[k] * sides.z()));
  const NewVoronoiGrid g(gen, Box<>(anchor, sides));
  auto in_range = [](const Vec &p) {
    return p.x() >= 1. && p.x() < 2. && p.y() >= 1. && p.y() < 2. && p.z() >= 1. && p.z() < 2.;
  };
  const std::string boxs = fmt("box anchor (%a,%a,%a) sides (%a,%a,%a) = anchor (%g,%g,%g) sides (%g,%g,%g)", anchor.x(),
                               anchor.y(), anchor.z(), sides.x(), sides.y(), sides.z(), anchor.x(), anchor.y(),
                               anchor.z(), sides.x(), sides.y(), sides.z());
  const std::string rep = fmt("{\"pred\": \"rescale\", \"pts\": \"%a %a %a %a %a %a\"}", anchor.x(), anchor.y(),
                              anchor.z(), sides.x(), sides.y(), sides.z());
  bool ok = true;
  const bool cubic = sides.x() == sides.y() && sides.y() == sides.z();
  for (int k = 0; k < 4; ++k) {
    const Vec p = g._real_rescaled_box.get_position(NEWVORONOICELL_BOX_CORNER0 + k, g._real_rescaled_positions[0]);
    ++npoints;
    if (verbose)
      printf("  tetrahedron corner %d -> (%a, %a, %a)\n", k, p.x(), p.y(), p.z());
    if (!in_range(p)) {
      ok = false;
      R.violation(fmt("C17:rescale:outside-[1,2):tetrahedron-corner:%s-box", cubic ? "cubic" : "non-cubic"),
                  fmt("%s: corner %d of the enclosing tetrahedron is handed to the predicates as (%a,%a,%a) = "
                      "(%.17g,%.17g,%.17g)",
                      boxs.c_str(), k, p.x(), p.y(), p.z(), p.x(), p.y(), p.z()),
                  rep);
    }
  }
  for (size_t i = 0; i < gen.size(); ++i) {
    ++npoints;
    if (!in_range(g._real_rescaled_positions[i])) {
      ok = false;
      const Vec p = g._real_rescaled_positions[i];
      R.violation("C17:rescale:outside-[1,2):generator",
                  fmt("%s: generator (%.17g,%.17g,%.17g) is rescaled to (%a,%a,%a)", boxs.c_str(), gen[i].x(),
                      gen[i].y(), gen[i].z(), p.x(), p.y(), p.z()),
                  rep);
    }
    for (int w = 0; w < 6; ++w) {
      const Vec p = g._real_rescaled_box.get_position(NEWVORONOICELL_BOX_LEFT + w, g._real_rescaled_positions[i]);
      ++npoints;
      if (!in_range(p)) {
        ok = false;
        R.violation("C17:rescale:outside-[1,2):wall-copy",
                    fmt("%s: wall copy %d of generator (%.17g,%.17g,%.17g) is (%a,%a,%a)", boxs.c_str(), w, gen[i].x(),
                        gen[i].y(), gen[i].z(), p.x(), p.y(), p.z()),
                    rep);
      }
    }
  }
  return ok;
}

static void run_rescale(Result &R, bool thorough, uint64_t &nboxes, uint64_t &npoints, uint64_t &nbad) {
  std::vector< double > S = {1., 2., 4., 100., 0.3, 7.};
  std::vector< double > Av = {0., -2., 0.5};
  if (thorough) {
    S.push_back(1.e-3);
    S.push_back(3.0856775814913673e16); // 1 pc in m
    S.push_back(1. / 3.);
    Av.push_back(10.);
    Av.push_back(-1.e5);
  }
  for (double sx : S)
    for (double sy : S)
      for (double sz : S)
        for (double ax : Av)
          for (double ay : Av)
            for (double az : Av) {
              if (R.out_of_time()) {
                R.hit_deadline("rescale enumeration");
                return;
              }
              // anchors scale with the box so that positions stay resolvable
              const Vec sides(sx, sy, sz);
              const Vec anchor(ax * sx, ay * sy, az * sz);
              ++nboxes;
              if (!rescale_case(R, anchor, sides, npoints, false))
                ++nbad;
              else if (nboxes % 1000 == 7)
                R.sample(fmt("{\"pred\": \"rescale\", \"anchor\": \"%g %g %g\", \"sides\": \"%g %g %g\", "
                             "\"all_in_[1,2)\": true}",
                             anchor.x(), anchor.y(), anchor.z(), sx, sy, sz));
            }
  // mantissa sweep of the largest box side: the power of two used for the rescaling is chosen from
  // the extent of the all-encompassing tetrahedron (a fixed multiple of the largest side), so the
  // position of the side's mantissa relative to that multiple decides whether the power of two fits;
  // all 64 (thorough 512) equidistant mantissas in [1,2), both neighbours of 2, and the sides at which
  // 8, 9 and 10 times the side cross a power of two, on every axis as the largest one
  {
    std::vector< double > M;
    const int nm = thorough ? 512 : 64;
    for (int k = 0; k < nm; ++k)
      M.push_back(1. + (double)k / nm);
    M.push_back(std::nextafter(2., 0.));
    M.push_back(std::nextafter(1., 2.));
    for (double f : {8., 9., 10., 7., 6., 5., 3.})
      for (int e = 3; e <= 4; ++e) {
        const double x = std::ldexp(1., e) / f; // f * x is a power of two
        if (x >= 1. && x < 2.) {
          M.push_back(x);
          M.push_back(std::nextafter(x, 0.));
          M.push_back(std::nextafter(x, 4.));
        }
      }
    const std::vector< int > E = thorough ? std::vector< int >{-10, -1, 0, 1, 7, 55} : std::vector< int >{-1, 0, 3};
    const double small[3][2] = {{1., 1.}, {0.5, 0.25}, {1. / 3., 0.7}};
    const double anchors[3] = {0., -2., 0.5};
    for (double m : M)
      for (int e : E)
        for (int axis = 0; axis < 3; ++axis)
          for (int shape = 0; shape < 3; ++shape)
            for (int ia = 0; ia < 3; ++ia) {
              if (R.out_of_time()) {
                R.hit_deadline("rescale mantissa sweep");
                return;
              }
              const double big = std::ldexp(m, e);
              double sd[3];
              sd[axis] = big;
              sd[(axis + 1) % 3] = big * small[shape][0];
              sd[(axis + 2) % 3] = big * small[shape][1];
              const Vec sides(sd[0], sd[1], sd[2]);
              const Vec anchor(anchors[ia] * sd[0], anchors[(ia + 1) % 3] * sd[1], anchors[(ia + 2) % 3] * sd[2]);
              ++nboxes;
              if (!rescale_case(R, anchor, sides, npoints, false))
                ++nbad;
            }
  }
}

// ---------------------------------------------------------------------------
static int do_replay(const Args &A, Result &R) {
  const std::string txt = read_file(A.replay);
  const std::string pred = replay_field(txt, "pred");
  const std::string pts = replay_field(txt, "pts");
  double p[15];
  int n = 0;
  {
    const char *s = pts.c_str();
    char *end;
    while (n < 15) {
      double v = strtod(s, &end);
      if (end == s)
        break;
      p[n++] = v;
      s = end;
    }
  }
  if (pred == "rescale" && n == 6) {
    uint64_t np = 0;
    printf("replay rescale: box anchor (%g,%g,%g) sides (%g,%g,%g)\n", p[0], p[1], p[2], p[3], p[4], p[5]);
    const bool ok = rescale_case(R, Vec(p[0], p[1], p[2]), Vec(p[3], p[4], p[5]), np, true);
    printf("  %s\n", ok ? "all coordinates in [1,2)" : "coordinates outside [1,2) handed to the predicates");
    R.evaluations = np;
    R.nontrivial = np;
    return R.finish(A);
  }
  const bool orient = (pred == "orient3d");
  const int npts = orient ? 4 : 5;
  if (n != 3 * npts) {
    printf("replay: cannot parse %d coordinates for %s\n", n, pred.c_str());
    return R.finish(A);
  }
  printf("replay %s on %s\n  = %s\n", pred.c_str(), pts_hex(p, n).c_str(), pts_ulp(p, n).c_str());
  const BigInt det = orient ? orient_det(p) : insphere_det(p);
  const int ref = sgn(det);
  printf("  exact determinant (units of 2^-52 per coordinate) = %s  -> sign %d\n", det.str().c_str(), ref);
  Counters C;
  const std::vector< Perm > perms = permutations(npts);
  for (const Perm &q : perms) {
    double pp[15];
    for (int i = 0; i < npts; ++i)
      for (int c = 0; c < 3; ++c)
        pp[3 * i + c] = p[3 * q.p[i] + c];
    const int ex = orient ? code_orient_exact(pp) : code_insphere_exact(pp);
    const int ad = orient ? code_orient_adaptive(pp) : code_insphere_adaptive(pp);
    const int want = q.sign * ref;
    const bool ident = (&q == &perms[0]);
    if (ident || ex != want || ad != want)
      printf("  permutation (%d%d%d%d%s) %s: exact %d adaptive %d expected %d%s\n", q.p[0], q.p[1], q.p[2],
             q.p[3], npts == 5 ? fmt("%d", q.p[4]).c_str() : "", q.sign < 0 ? "odd " : "even", ex, ad,
             want, (ex != want || ad != want) ? "   <-- MISMATCH" : "");
    ++R.evaluations;
    if (ident)
      judge(R, C, pred.c_str(), "replay", pp, npts, want, ex, ad);
    else if (ex != want || ad != want)
      R.violation(fmt("C17:%s:permutation:replay", pred.c_str()),
                  fmt("permutation result exact %d adaptive %d, expected %d", ex, ad, want),
                  replay_json(pred.c_str(), pp, n));
  }
  R.nontrivial = R.evaluations;
  return R.finish(A);
}

int main(int argc, char **argv) {
  Args A = parse_args(argc, argv);
  Result R(A);
  R.max_samples = 96; // the families run one after the other; the order is fixed at the end of main
  if (!A.replay.empty())
    return do_replay(A, R);

  const bool th = A.thorough();
  if (A.get("mode", "predicates") == "rescale") {
    uint64_t nboxes = 0, npoints = 0, nbad = 0;
    run_rescale(R, th, nboxes, npoints, nbad);
    R.evaluations = npoints;
    R.nontrivial = nboxes;
    R.set("boxes", (double)nboxes);
    R.set("boxes_with_a_coordinate_outside_[1,2)", (double)nbad);
    R.set("coordinates_checked", (double)npoints);
    R.rule = "every box of sides^3 x anchors^3 over the listed alphabets is given to the real NewVoronoiGrid "
             "constructor with 27 generators at the extreme (1e-9 from the walls) and central positions; evaluations "
             "= coordinates triples handed to the predicates (rescaled generators, 6 wall copies each, 4 tetrahedron "
             "corners) tested for membership of [1,2)^3; non-trivial = boxes.";
    return R.finish(A);
  }
  const std::string only = A.get("only", ""); // orient | insphere | families (development aid)
  Counters Co, Ci, Cfo, Cfi;
  bool complete = true;

  // alphabets of DESIGN.md C17 (ulp-level: 1 and 1+ulp, 1.5, the largest value 2-ulp)
  const std::vector< double > alpha4 = {1., 1. + ULP, 1.5, 2. - ULP};
  const std::vector< double > alpha4b = {1., 1.5, 1.5 + ULP, 2. - ULP};
  const std::vector< double > alpha5 = {1., 1. + ULP, 1.5, 1.5 + ULP, 2. - ULP};
  const std::vector< double > alpha3d = {1., 1.5, 1.5 + ULP};
  const std::vector< double > alpha3e = {1. + ULP, 1.5, 2. - ULP};
  const std::vector< double > alpha3a = {1., 1. + ULP, 1.5};
  const std::vector< double > alpha3b = {1., 1. + ULP, 2. - ULP};
  const std::vector< double > alpha3c = {1., 1.5, 2. - ULP};
  // two-value alphabets: the points are corners of one cube, always cospherical
  const std::vector< double > alpha2a = {1., 2. - ULP};
  const std::vector< double > alpha2b = {1., 1. + ULP};
  const std::vector< double > alpha2c = {1. + ULP, 1.5};

  double t0 = R.elapsed();
  if (only.empty() || only == "orient") {
    // 4^12; contains the 3^12 alphabets {1,1+u,1.5}, {1,1+u,2-u}, {1,1.5,2-u} of the quick plan
    run_alphabet(R, Co, "orient3d", 4, alpha4, A.seed, complete);
    if (th) {
      run_alphabet(R, Co, "orient3d", 4, alpha4b, A.seed, complete); // 4^12, ulp pair at 1.5
      run_alphabet(R, Co, "orient3d", 4, alpha5, A.seed, complete);  // 5^12 = 244 140 625
    }
  }
  R.set("wall_orient_alphabet_s", R.elapsed() - t0);
  t0 = R.elapsed();
  if (only.empty() || only == "insphere") {
    run_alphabet(R, Ci, "insphere", 5, alpha2a, A.seed, complete); // 2^15
    run_alphabet(R, Ci, "insphere", 5, alpha2b, A.seed, complete);
    run_alphabet(R, Ci, "insphere", 5, alpha2c, A.seed, complete);
    run_alphabet(R, Ci, "insphere", 5, alpha3c, A.seed, complete); // 3^15
    if (th) {
      run_alphabet(R, Ci, "insphere", 5, alpha3a, A.seed, complete);
      run_alphabet(R, Ci, "insphere", 5, alpha3b, A.seed, complete);
      run_alphabet(R, Ci, "insphere", 5, alpha3d, A.seed, complete);
      run_alphabet(R, Ci, "insphere", 5, alpha3e, A.seed, complete);
    }
  }
  R.set("wall_insphere_alphabet_s", R.elapsed() - t0);
  t0 = R.elapsed();

  // corner families
  std::vector< int64_t > ks;
  if (th) {
    for (int k = 1; k <= 1000; ++k) {
      ks.push_back(k);
      ks.push_back(-k);
    }
  } else {
    // quick: +-1..32 and a geometric ladder up to 1000
    std::vector< int > pos;
    for (int k = 1; k <= 32; ++k)
      pos.push_back(k);
    const int ladder[] = {47, 64, 100, 127, 128, 200, 255, 256, 333, 500, 511, 512, 750, 999, 1000};
    for (int k : ladder)
      pos.push_back(k);
    for (int k : pos) {
      ks.push_back(k);
      ks.push_back(-k);
    }
  }
  // beyond the +-1..1000 ulp of the property: a ladder 2^j, 3*2^j ulp up to 2^-7 so
  // that the filter decision |result| <> 1e-10 * magnitude is crossed from both sides
  for (int j = 10; j <= 45; ++j) {
    ks.push_back((int64_t)1 << j);
    ks.push_back(-((int64_t)1 << j));
    ks.push_back((int64_t)3 << (j - 1));
    ks.push_back(-((int64_t)3 << (j - 1)));
  }
  std::vector< Shape > cubes, octas;
  cubes.push_back(cube(1.25, 1.75, "cube[1.25,1.75]"));
  cubes.push_back(cube(1., 2. - ULP, "cube[1,2-ulp]"));
  octas.push_back(octahedron(1.5, 0.25, "octahedron(c=1.5,r=0.25)"));
  octas.push_back(octahedron(1.5, 0.4375, "octahedron(c=1.5,r=0.4375)"));
  if (th) {
    cubes.push_back(cube(1., 1.5, "cube[1,1.5]"));
    octas.push_back(octahedron(1.25, 0.25, "octahedron(c=1.25,r=0.25)"));
  }
  if (only.empty() || only == "families" || only == "orient") {
    for (const Shape &S : cubes)
      run_family(R, Cfo, "orient3d", 4, S, ks, complete);
    for (const Shape &S : octas)
      run_family(R, Cfo, "orient3d", 4, S, ks, complete);
  }
  R.set("wall_orient_families_s", R.elapsed() - t0);
  t0 = R.elapsed();
  if (only.empty() || only == "families" || only == "insphere") {
    for (const Shape &S : cubes)
      run_family(R, Cfi, "insphere", 5, S, ks, complete, th ? 1 : 10);
    for (const Shape &S : octas)
      run_family(R, Cfi, "insphere", 5, S, ks, complete, th ? 1 : 10);
    R.set("insphere_family_permutations_called_for_moves_beyond_1000_ulp", th ? 120 : 12);
  }
  R.set("wall_insphere_families_s", R.elapsed() - t0);
  t0 = R.elapsed();
  Counters Cgo, Cgi;
  GenericStats Ggo, Ggi;
  GenericStats Ggo_par, Ggo_col, Ggi_cop, Ggi_cop_par;
  if (only.empty() || only == "generic" || only == "orient") {
    run_generic_orient(R, Cgo, Ggo, -1, th ? 1000 : 250, A.seed, complete);
    // structured generic planes: parallel to each coordinate axis (not axis aligned), nearly collinear triple
    for (int mode = 0; mode < 3; ++mode)
      run_generic_orient(R, Cgo, Ggo_par, mode, th ? 300 : 60, A.seed, complete);
    run_generic_orient(R, Cgo, Ggo_col, 3, th ? 300 : 60, A.seed, complete);
  }
  if (only.empty() || only == "generic" || only == "insphere") {
    run_generic_insphere(R, Cgi, Ggi, th, A.seed, complete);
    // 12 (quick) / 24 (thorough) of the 120 permutations: indices 0,10,.. / 0,5,.. (both parities)
    run_generic_coplanar5(R, Cgi, Ggi_cop, -1, th ? 200 : 40, th ? 5 : 10, A.seed, complete);
    for (int mode = 0; mode < 3; ++mode)
      run_generic_coplanar5(R, Cgi, Ggi_cop_par, mode, th ? 100 : 20, th ? 5 : 10, A.seed, complete);
    R.set("generic_insphere_five_coplanar_permutations_called", th ? 24 : 12);
  }
  R.set("wall_generic_families_s", R.elapsed() - t0);
  t0 = R.elapsed();

  // tiny coordinate grids (see run_grid). Different first value and different step on every axis.
  struct GridJob {
    Grid g;
    std::string plan_name;
  };
  std::vector< GridJob > jobs_o, jobs_i;
  std::map< std::string, GridPlan > plans;
  {
    auto klist_pm = [](std::vector< int64_t > pos) {
      std::vector< int64_t > ks;
      for (int64_t k : pos) {
        ks.push_back(k);
        ks.push_back(-k);
      }
      return ks;
    };
    std::vector< int64_t > kpos;
    // --- orientation
    // core plan (quick tier): +-{1..4,8,16,32,100,256,1000} and three moves of the ladder that crosses the 1e-10
    // filter decision
    kpos = {1, 2, 3, 4, 8, 16, 32, 100, 256, 1000, (int64_t)1 << 12, (int64_t)1 << 28, (int64_t)1 << 44};
    GridPlan p;
    p.ks = klist_pm(kpos);
    p.maxmoved = 2;
    p.maxmoved_exact = 3;
    p.perm_stride = 2;       // 12 of the 24 permutations (indices 0,2,..,22: both parities)
    p.multi_perm_stride = 5; // 5 of the 24 permutations (indices 0,5,..,20: both parities)
    p.multi_only_structured = false;
    p.single_only_structured = false;
    plans["orient-core"] = p;
    // full plan (thorough tier, 3x3x3 grids): +-1..32, the larger moves of the corner families, the whole ladder
    // step 4, every one of the 7^4 multi-point patterns
    kpos.clear();
    for (int k = 1; k <= 32; ++k)
      kpos.push_back(k);
    for (int k : {64, 100, 128, 255, 256, 333, 500, 512, 999, 1000})
      kpos.push_back(k);
    for (int jj = 12; jj <= 44; jj += 4)
      kpos.push_back((int64_t)1 << jj);
    p.ks = klist_pm(kpos);
    p.maxmoved = 4;
    p.maxmoved_exact = 4;
    p.perm_stride = 2;
    p.multi_perm_stride = 4 + 1; // 5 of 24
    plans["orient-full"] = p;
    // every k = +-1..1000 on the planes parallel to exactly one axis of one rounded 3x3x3 grid, 3 permutations
    // (indices 0,10,20: both parities), no multi-point patterns
    kpos.clear();
    for (int k = 1; k <= 1000; ++k)
      kpos.push_back(k);
    p.ks = klist_pm(kpos);
    p.maxmoved = 0;
    p.maxmoved_exact = 0;
    p.perm_stride = 10;
    p.multi_perm_stride = 10;
    p.single_only_structured = true;
    plans["orient-every-k-to-1000"] = p;
    // 4x4x4 grid (thorough)
    kpos = {1, 2, 1000};
    p.ks = klist_pm(kpos);
    p.maxmoved = 2;
    p.maxmoved_exact = 2;
    p.perm_stride = 5;
    p.multi_perm_stride = 5;
    p.single_only_structured = false;
    plans["orient-4x4x4"] = p;
    // --- in-sphere
    kpos = {1, 2, 1000};
    p.ks = klist_pm(kpos);
    p.maxmoved = 2;
    p.maxmoved_exact = 2;
    p.perm_stride = 20; // 6 of the 120 permutations (indices 0,20,..,100: both parities)
    p.multi_perm_stride = 20;
    p.multi_only_structured = true;
    p.single_only_structured = false;
    plans["insphere-core"] = p;
    kpos = {1, 2, 3, 4, 8, 32, 1000, (int64_t)1 << 28};
    p.ks = klist_pm(kpos);
    p.multi_only_structured = false;
    plans["insphere-full"] = p;
    p.multi_only_structured = true;
    plans["insphere-full-multi-structured"] = p;
    // 4x4x4 grid (thorough): every quintuple unperturbed, +-1 ulp of every coordinate of the structured ones,
    // 3 permutations (indices 0,40,80: both parities)
    kpos = {1};
    p.ks = klist_pm(kpos);
    p.maxmoved = 0;
    p.maxmoved_exact = 0;
    p.perm_stride = 40;
    p.multi_perm_stride = 40;
    p.single_only_structured = true;
    plans["insphere-4x4x4"] = p;

    const double third = 1. / 3.;
    // orientation: coplanarity is affine invariant, so the steps differ per axis
    const Grid o_rounded = make_grid("rounded:x0=(4/3,1.1,1.4),step=(2,3,1)/48", 3, 1. + third, 1.1, 1.4, 2, 3, 1, 1. / 48., false);
    const Grid o_wide = make_grid("rounded-wide:x0=(1.0000001,1.003,1.01),step=(7,5,6)*0.047", 3, 1.0000001, 1.003, 1.01, 7, 5, 6, 0.047, false);
    const Grid o_fine = make_grid("dyadic-fine:x0=(1,1.5,1.25),step=(1,1,1)/64", 3, 1., 1.5, 1.25, 1, 1, 1, 1. / 64., true);
    const Grid o_dyadic = make_grid("dyadic:x0=(1.125,1.25,1.0625),step=(4,6,7)/32", 3, 1.125, 1.25, 1.0625, 4, 6, 7, 1. / 32., true);
    const Grid o_tiny = make_grid("rounded-tiny:x0=(1.2,1.7,1.45),step=(3,1,2)*2^-30/3", 3, 1.2, 1.7, 1.45, 3, 1, 2, std::ldexp(third, -30), false);
    const std::string oplan = th ? "orient-full" : "orient-core";
    jobs_o.push_back({o_rounded, oplan});
    jobs_o.push_back({o_wide, oplan});
    jobs_o.push_back({o_fine, oplan});
    if (th) {
      jobs_o.push_back({o_dyadic, "orient-core"});
      jobs_o.push_back({o_tiny, oplan});
      jobs_o.push_back({o_rounded, "orient-every-k-to-1000"});
      jobs_o.push_back({make_grid("rounded:x0=(4/3,1.1,1.4),step=(2,3,1)/48", 4, 1. + third, 1.1, 1.4, 2, 3, 1, 1. / 48., false), "orient-4x4x4"});
    }
    // in-sphere: equal steps (many cospherical subsets) and unequal steps (box corners and rectangles stay
    // cospherical / cocircular)
    const Grid i_equal = make_grid("rounded-equal:x0=(4/3,1.1,1.4),step=(1,1,1)/24", 3, 1. + third, 1.1, 1.4, 1, 1, 1, 1. / 24., false);
    const std::string iplan = th ? "insphere-full" : "insphere-core";
    jobs_i.push_back({i_equal, iplan});
    if (th) {
      jobs_i.push_back({o_fine, "insphere-full-multi-structured"});
      jobs_i.push_back({o_wide, "insphere-core"});
      jobs_i.push_back({make_grid("rounded-equal:x0=(4/3,1.1,1.4),step=(1,1,1)/24", 4, 1. + third, 1.1, 1.4, 1, 1, 1, 1. / 24., false), "insphere-4x4x4"});
    }
  }
  Counters Cgro, Cgri;
  GridStats Sgo, Sgi;
  if (only.empty() || only == "grid" || only == "orient")
    for (const GridJob &jb : jobs_o)
      run_grid(R, Cgro, Sgo, "orient3d", 4, jb.g, plans[jb.plan_name], complete);
  R.set("wall_orient_grids_s", R.elapsed() - t0);
  t0 = R.elapsed();
  if (only.empty() || only == "grid" || only == "insphere")
    for (const GridJob &jb : jobs_i)
      run_grid(R, Cgri, Sgi, "insphere", 5, jb.g, plans[jb.plan_name], complete);
  R.set("wall_insphere_grids_s", R.elapsed() - t0);
  if (Sgo.exact_lattice_broken + Sgi.exact_lattice_broken)
    R.violation("C17:harness:grid-exact-lattice",
                fmt("%" PRIu64 " index-degenerate subsets of a dyadic grid do not have determinant 0",
                    Sgo.exact_lattice_broken + Sgi.exact_lattice_broken));
  {
    std::string gl = "[";
    bool first = true;
    std::set< std::string > used;
    for (int w = 0; w < 2; ++w)
      for (const GridJob &jb : (w ? jobs_i : jobs_o)) {
        const Grid &g = jb.g;
        used.insert(jb.plan_name);
        gl += fmt("%s{\"pred\": \"%s\", \"G\": %d, \"name\": \"%s\", \"plan\": \"%s\", \"x\": \"", first ? "" : ", ",
                  w ? "insphere" : "orient3d", g.G, g.name.c_str(), jb.plan_name.c_str());
        first = false;
        for (int c = 0; c < 3; ++c) {
          for (int i = 0; i < g.G; ++i)
            gl += hexd(g.val[c][i]) + (i + 1 < g.G ? " " : "");
          gl += (c == 0 ? "\", \"y\": \"" : (c == 1 ? "\", \"z\": \"" : "\"}"));
        }
      }
    gl += "]";
    R.set_json("grid_members", gl);
    auto klist = [](const std::vector< int64_t > &ks) {
      std::string s;
      int64_t run0 = 0, prev = 0;
      for (size_t i = 0; i < ks.size(); i += 2) { // positive members (the negatives are their mirror images)
        const int64_t k = ks[i];
        if (run0 && k == prev + 1) {
          prev = k;
          continue;
        }
        if (run0)
          s += (run0 == prev ? fmt("%ld,", (long)run0) : fmt("%ld..%ld,", (long)run0, (long)prev));
        run0 = prev = k;
      }
      if (run0)
        s += (run0 == prev ? fmt("%ld", (long)run0) : fmt("%ld..%ld", (long)run0, (long)prev));
      return "+-{" + s + "}";
    };
    std::string pl = "{";
    first = true;
    for (const std::string &nm : used) {
      const GridPlan &p = plans[nm];
      const int nperm = nm.compare(0, 6, "orient") == 0 ? 24 : 120;
      pl += fmt("%s\"%s\": {\"single_coordinate_moves_ulp\": \"%s\", \"multi_point_patterns_max_moved_points_rounded_grids\": %d, "
                "\"multi_point_patterns_max_moved_points_dyadic_grids\": %d, \"permutations_called\": %d, "
                "\"permutations_called_multi_point\": %d, \"multi_point_only_on_structured_subsets\": %s, "
                "\"single_moves_only_on_structured_subsets\": %s}",
                first ? "" : ", ", nm.c_str(), klist(p.ks).c_str(), p.maxmoved, p.maxmoved_exact,
                (int)((nperm + p.perm_stride - 1) / p.perm_stride), (int)((nperm + p.multi_perm_stride - 1) / p.multi_perm_stride),
                p.multi_only_structured ? "true" : "false", p.single_only_structured ? "true" : "false");
      first = false;
    }
    pl += "}";
    R.set_json("grid_plans", pl);
  }
  for (int w = 0; w < 2; ++w) {
    const GridStats &S = w ? Sgi : Sgo;
    const std::string pre = w ? "grid_insphere_" : "grid_orient_";
    R.set(pre + "subsets", (double)S.subsets);
    R.set(pre + "subsets_degenerate_in_index_space", (double)S.degenerate);
    R.set(pre + "degenerate_subsets_with_det_exactly_zero", (double)S.degenerate_det_zero);
    R.set(pre + "unperturbed_subsets_with_det_zero", (double)S.unperturbed_det_zero);
    if (!w) {
      R.set(pre + "degenerate_plane_generic", (double)S.deg_generic);
      R.set(pre + "degenerate_plane_parallel_to_one_axis_not_aligned", (double)S.deg_parallel_one_axis);
      R.set(pre + "degenerate_plane_axis_aligned", (double)S.deg_axis_aligned);
      R.set(pre + "degenerate_four_collinear", (double)S.deg_collinear);
    } else {
      R.set(pre + "degenerate_all_five_coplanar", (double)S.deg_all_coplanar);
      R.set(pre + "degenerate_all_five_in_a_plane_parallel_to_an_axis", (double)S.deg_parallel_one_axis);
    }
    R.set(pre + "inputs_unperturbed", (double)S.inputs_unperturbed);
    R.set(pre + "inputs_single_coordinate_move", (double)S.inputs_single);
    R.set(pre + "inputs_multi_point_move", (double)S.inputs_multi);
    R.set(pre + "inputs_det_zero", (double)S.det_zero);
    R.set(pre + "plain_double_sign_wrong(info)", (double)S.naive_wrong);
    R.set(pre + "inputs_with_a_wrong_result", (double)S.inputs_with_wrong_result);
    R.set(pre + "moves_leaving_[1,2)_skipped", (double)S.skipped_range);
  }
  for (int w = 0; w < 4; ++w) {
    const GenericStats &G = w == 0 ? Ggo_par : (w == 1 ? Ggo_col : (w == 2 ? Ggi_cop : Ggi_cop_par));
    const std::string pre = w == 0 ? "generic_orient_axis_parallel_planes_"
                                   : (w == 1 ? "generic_orient_collinear_triple_"
                                             : (w == 2 ? "generic_insphere_five_coplanar_" : "generic_insphere_five_coplanar_axis_parallel_"));
    R.set(pre + "bases", (double)G.bases);
    R.set(pre + "inputs", (double)G.inputs);
    R.set(pre + "det_zero", (double)G.det_zero);
    R.set(pre + "plain_double_sign_wrong(info)", (double)G.naive_wrong);
    R.set(pre + "inputs_with_a_wrong_result", (double)G.inputs_with_wrong_result);
  }
  R.set("generic_orient_bases", (double)Ggo.bases);
  R.set("generic_orient_bases_leaving_[1,2)_skipped", (double)Ggo.bases_skipped_range);
  R.set("generic_orient_inputs", (double)Ggo.inputs);
  R.set("generic_orient_det_zero", (double)Ggo.det_zero);
  R.set("generic_orient_plain_double_sign_wrong(info)", (double)Ggo.naive_wrong);
  R.set("generic_orient_inputs_with_a_wrong_result", (double)Ggo.inputs_with_wrong_result);
  R.set("generic_insphere_bases", (double)Ggi.bases);
  R.set("generic_insphere_bases_leaving_[1,2)_skipped", (double)Ggi.bases_skipped_range);
  R.set("generic_insphere_inputs", (double)Ggi.inputs);
  R.set("generic_insphere_det_zero", (double)Ggi.det_zero);
  R.set("generic_insphere_plain_double_sign_wrong(info)", (double)Ggi.naive_wrong);
  R.set("generic_insphere_inputs_with_a_wrong_result", (double)Ggi.inputs_with_wrong_result);

  Counters T;
  T.add(Co);
  T.add(Ci);
  T.add(Cfo);
  T.add(Cfi);
  T.add(Cgo);
  T.add(Cgi);
  T.add(Cgro);
  T.add(Cgri);
  T.skipped_range += Sgo.skipped_range + Sgi.skipped_range;
  R.evaluations = T.calls;
  R.nontrivial = T.nontrivial;
  R.set("ordered_inputs_compared_with_the_exact_sign", (double)T.inputs);
  R.set("orient_alphabet_inputs", (double)Co.inputs);
  R.set("orient_alphabet_distinct_points", (double)Co.nontrivial);
  R.set("orient_alphabet_det_zero_with_distinct_points", (double)Co.ref_zero_distinct);
  R.set("orient_alphabet_det_positive", (double)Co.ref_pos);
  R.set("orient_alphabet_det_negative", (double)Co.ref_neg);
  R.set("orient_alphabet_plain_double_sign_wrong(info)", (double)Co.naive_wrong);
  R.set("insphere_alphabet_inputs", (double)Ci.inputs);
  R.set("insphere_alphabet_distinct_points", (double)Ci.nontrivial);
  R.set("insphere_alphabet_det_zero_with_distinct_points", (double)Ci.ref_zero_distinct);
  R.set("insphere_alphabet_det_positive", (double)Ci.ref_pos);
  R.set("insphere_alphabet_det_negative", (double)Ci.ref_neg);
  R.set("orient_family_inputs", (double)Cfo.inputs);
  R.set("orient_family_det_zero", (double)Cfo.ref_zero_distinct);
  R.set("orient_family_plain_double_sign_wrong(info)", (double)Cfo.naive_wrong);
  R.set("insphere_family_inputs", (double)Cfi.inputs);
  R.set("insphere_family_det_zero", (double)Cfi.ref_zero_distinct);
  R.set("family_moves_leaving_[1,2)_skipped", (double)T.skipped_range);
  R.set("permutation_comparisons", (double)T.perm_checks);
  R.set("mismatches", (double)T.mism);
  R.set("oracle_evaluated_in_both_formulations", (double)T.oracle_cross);
  R.set("oracle_fixed_width_overflows_redone_unbounded", (double)g_fixed_overflows);
  R.set("omp_threads", (double)omp_get_max_threads());
  R.rule = "evaluations = calls of the four real predicate functions; every input (12 or 15 coordinates) is "
           "compared with the sign of the exact integer determinant (untranslated homogeneous 4x4 / lifted 5x5 "
           "determinant expanded along the first row; checked fixed-width integers, unbounded cpp_int on overflow "
           "and on every 7th case); adaptive must equal exact; all 24/120 point permutations must flip (odd) or "
           "keep (even) the result. Alphabet families: every assignment of the alphabet to all coordinates, "
           "visited as multiset of points x all its arrangements: determinant once per multiset, every "
           "arrangement (= one ordered input) called and compared with sign(arrangement) x sign(det); corner "
           "families: every 4/5-subset of cube corners / octahedron vertices, every coordinate moved by every k "
           "ulp, every permutation called directly; generic families: full-mantissa Weyl-sequence points, fourth / "
           "fifth point on the plane / circumsphere of the others (binary128, rounded), every coordinate moved by "
           "-4..4 ulp, permutations called directly; the same with the plane parallel to each coordinate axis (not "
           "axis aligned), with a nearly collinear triple, and in-sphere on five nearly coplanar generic points; tiny "
           "coordinate grids (grid_members: G values per axis, different first value and step per axis, rounded = "
           "full-mantissa values / dyadic = exact lattice): every 4-/5-subset of the G^3 grid points unperturbed, and "
           "every subset that is degenerate in index space (coplanar; cospherical or coplanar) with every coordinate "
           "moved by every k of the plan and with every pattern 'each point stays or moves +-1 ulp along one axis' up "
           "to the plan's number of moved points (grid_plans); adaptive on the plan's permutations, exact on the "
           "identity, on one odd permutation and wherever adaptive is wrong. Non-trivial = inputs whose points are "
           "pairwise distinct.";
  R.assumptions.push_back("coordinates in the normalised range [1,2) as the predicates require (moves of a "
                          "corner coordinate that leave the range are skipped and counted)");
  R.assumptions.push_back("the property is decided on the finite alphabets listed; nothing is claimed for "
                          "other coordinates of the continuum");
  (void)complete;
  {
    // the driver keeps the first few samples of a part: one of each kind of family first
    std::vector< std::string > front, rest;
    std::vector< bool > taken(R.samples.size(), false);
    for (const char *tag : {"\"orient3d\", \"family\": \"grid", "\"insphere\", \"family\": \"grid", ":parallel-to-", "alphabet",
                            "\"moved_coordinate\"", "generic-near-cospherical"})
      for (size_t i = 0; i < R.samples.size(); ++i)
        if (!taken[i] && R.samples[i].find(tag) != std::string::npos) {
          taken[i] = true;
          front.push_back(R.samples[i]);
          break;
        }
    for (size_t i = 0; i < R.samples.size(); ++i)
      if (!taken[i])
        rest.push_back(R.samples[i]);
    front.insert(front.end(), rest.begin(), rest.end());
    R.samples = front;
  }
  return R.finish(A);
}
