# harness executables (name, sources, flavour, extra compile flags, extra link flags)
$(eval $(call HARNESS,c19_timeline,$(V)/harness/C19/c19_timeline.cpp,plain,,))
