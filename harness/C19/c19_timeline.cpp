// C19: explicit-state search of the complete reachable set of the real
// TimeLine for settings with a bounded number of slots (plus depth-bounded
// search for unbounded settings); invariants on every transition; save/restore
// bisimulation in every state.
#include "RestartReader.hpp"
#include "RestartWriter.hpp"
#include "TimeLine.hpp"
#include "verif_common.hpp"
#include <cfloat>
#include <deque>
#include <map>
#include <unistd.h>

using namespace verif;

static const uint64_t FULL = 0x8000000000000000ull;

struct Setting {
  double start, end, tmin, tmax;
  int maxdepth; // <0: unbounded (complete reachable set)
};

struct Decoded {
  uint64_t imin, imax, cur;
  double c0, c1;
};

static std::string g_tmp;

static std::string dump(const TimeLine &t) {
  {
    RestartWriter w(g_tmp);
    t.write_restart_file(w);
  }
  return read_file(g_tmp);
}
static TimeLine restore(const std::string &bytes) {
  FILE *f = fopen(g_tmp.c_str(), "wb");
  fwrite(bytes.data(), 1, bytes.size(), f);
  fclose(f);
  RestartReader r(g_tmp);
  return TimeLine(r);
}
static Decoded decode(const std::string &b) {
  Decoded d;
  memcpy(&d.imin, b.data(), 8);
  memcpy(&d.imax, b.data() + 8, 8);
  memcpy(&d.c0, b.data() + 16, 8);
  memcpy(&d.c1, b.data() + 24, 8);
  memcpy(&d.cur, b.data() + 32, 8);
  return d;
}
static bool pow2(uint64_t x) { return x && !(x & (x - 1)); }

struct Node {
  TimeLine live;
  int depth;
  double phys_time;  // physical time reported when this state was reached
  double phys_sum;   // sum of reported actual steps along the BFS tree path
  int nsteps;
  std::string history;
};

static std::string setting_str(const Setting &s) {
  return fmt("start=%a end=%a min=%a max=%a", s.start, s.end, s.tmin, s.tmax);
}

static void explore(const Setting &S, const std::vector< double > &reqs, Result &R,
                    uint64_t &states_total, uint64_t &trans_total, uint64_t &refmodel_diff) {
  const double total = S.end - S.start;
  const double eps = DBL_EPSILON;
  TimeLine t0(S.start, S.end, S.tmin, S.tmax);
  std::string b0 = dump(t0);
  if (b0.size() != 40) {
    R.violation("C19:dump-size", fmt("restart image of TimeLine has %zu bytes", b0.size()));
    return;
  }
  std::map< std::string, Node > seen;
  std::deque< std::string > frontier;
  seen.emplace(b0, Node{t0, 0, S.start, 0., 0, ""});
  frontier.push_back(b0);
  const Decoded d0 = decode(b0);
  // configured limits must be respected by the integer limits
  if (!pow2(d0.imin) || !pow2(d0.imax) || d0.imax < d0.imin)
    R.violation("C19:limits:" + setting_str(S), fmt("imin=%" PRIu64 " imax=%" PRIu64, d0.imin, d0.imax));
  uint64_t nterminal = 0;
  while (!frontier.empty()) {
    if (R.out_of_time()) {
      R.hit_deadline("timeline " + setting_str(S));
      break;
    }
    std::string key = frontier.front();
    frontier.pop_front();
    Node node = seen.at(key);
    const Decoded d = decode(key);
    ++states_total;
    // save/restore: restored object writes the same bytes
    TimeLine restored = restore(key);
    std::string again = dump(restored);
    ++R.evaluations;
    if (again != key)
      R.violation("C19:redump:" + setting_str(S),
                  "dump->restore->dump changes bytes after history [" + node.history + "]",
                  fmt("{\"setting\": \"%s\", \"history\": \"%s\"}", setting_str(S).c_str(),
                      node.history.c_str()));
    if (d.cur == FULL) {
      ++nterminal;
      // exact landing on the integer end, physical end within round-off
      const double tol = 4. * eps * (std::fabs(S.start) + std::fabs(S.end));
      if (std::fabs(node.phys_time - S.end) > tol)
        R.violation("C19:end-time:" + setting_str(S),
                    fmt("final time %.17g != end %.17g after [%s]", node.phys_time, S.end,
                        node.history.c_str()));
      if (std::fabs(node.phys_sum - total) > (node.nsteps + 2) * eps * std::fabs(total))
        R.violation("C19:sum:" + setting_str(S),
                    fmt("steps sum to %.17g, total %.17g after [%s]", node.phys_sum, total,
                        node.history.c_str()));
      continue; // the caller never advances a finished time line
    }
    if (d.cur > FULL) {
      R.violation("C19:overshoot:" + setting_str(S),
                  fmt("integer time %" PRIu64 " beyond the end after [%s]", d.cur, node.history.c_str()));
      continue;
    }
    if (S.maxdepth >= 0 && node.depth >= S.maxdepth)
      continue;
    for (size_t ir = 0; ir < reqs.size(); ++ir) {
      const double r = reqs[ir];
      TimeLine a = node.live;
      double actual = -1., current = -1.;
      const bool has_next = a.advance(r, actual, current);
      double actual2 = -1., current2 = -1.;
      TimeLine b = restored;
      const bool has_next2 = b.advance(r, actual2, current2);
      const std::string nb = dump(a), nb2 = dump(b);
      ++trans_total;
      ++R.evaluations;
      const std::string hist = node.history + (node.history.empty() ? "" : ",") + hexd(r);
      const std::string rep = fmt("{\"setting\": \"%s\", \"history\": \"%s\"}", setting_str(S).c_str(), hist.c_str());
      const std::string tag = setting_str(S);
      if (has_next != has_next2 || actual != actual2 || current != current2 || nb != nb2)
        R.violation("C19:restore-bisim:" + tag, "restored time line behaves differently after [" + hist + "]", rep);
      const Decoded n = decode(nb);
      if (n.imin != d.imin || n.imax != d.imax || n.c0 != d.c0 || n.c1 != d.c1)
        R.violation("C19:config-changed:" + tag, "advance changed the configuration after [" + hist + "]", rep);
      const double minphys = d.c0 * (double)d.imin;
      if (n.cur == d.cur) {
        // refused: must stop the run, and only for a request below the
        // (rounded) minimum step
        if (has_next)
          R.violation("C19:refuse-continues:" + tag, "no step taken but has_next after [" + hist + "]", rep);
        if (!(r < minphys))
          R.violation("C19:refuse-legit:" + tag,
                      fmt("request %.17g >= minimum %.17g refused after [%s]", r, minphys, hist.c_str()), rep);
        continue;
      }
      R.nontrivial++;
      if (n.cur < d.cur) {
        R.violation("C19:backwards:" + tag, "integer time decreased after [" + hist + "]", rep);
        continue;
      }
      const uint64_t dt = n.cur - d.cur;
      const uint64_t left = FULL - d.cur;
      if (!pow2(dt))
        R.violation("C19:pow2:" + tag, fmt("step %" PRIu64 " is not a power of two after [%s]", dt, hist.c_str()), rep);
      else if (left % dt)
        R.violation("C19:divides:" + tag, fmt("step %" PRIu64 " does not divide remaining %" PRIu64 " after [%s]", dt, left, hist.c_str()), rep);
      if (n.cur > FULL)
        R.violation("C19:overshoot:" + tag, "step beyond the end after [" + hist + "]", rep);
      if (dt < d.imin)
        R.violation("C19:below-min:" + tag, fmt("step %" PRIu64 " below minimum %" PRIu64 " after [%s]", dt, d.imin, hist.c_str()), rep);
      if (!(actual <= r))
        R.violation("C19:exceeds-request:" + tag, fmt("actual %.17g > requested %.17g after [%s]", actual, r, hist.c_str()), rep);
      if (S.tmax > 0. && !(actual <= S.tmax) && dt > d.imin)
        R.violation("C19:exceeds-max:" + tag, fmt("actual %.17g > maximum %.17g after [%s]", actual, S.tmax, hist.c_str()), rep);
      if (actual != d.c0 * (double)dt)
        R.violation("C19:actual-mismatch:" + tag, fmt("reported step %.17g but the clock moved %.17g after [%s]", actual, d.c0 * (double)dt, hist.c_str()), rep);
      // power-of-two fraction of the total interval
      {
        int e;
        const double q = total / actual;
        if (!(std::frexp(q, &e) == 0.5))
          R.violation("C19:fraction:" + tag, fmt("total/actual = %.17g is not a power of two after [%s]", q, hist.c_str()), rep);
      }
      if (!(current > node.phys_time))
        R.violation("C19:not-increasing:" + tag, fmt("time %.17g -> %.17g after [%s]", node.phys_time, current, hist.c_str()), rep);
      if (current > S.end + 4. * eps * (std::fabs(S.start) + std::fabs(S.end)))
        R.violation("C19:beyond-end:" + tag, fmt("time %.17g beyond end %.17g after [%s]", current, S.end, hist.c_str()), rep);
      if (has_next != (n.cur < FULL))
        R.violation("C19:has-next:" + tag, fmt("has_next=%d at integer time %" PRIu64 " after [%s]", (int)has_next, n.cur, hist.c_str()), rep);
      // informational: reference model = largest admissible power of two
      {
        uint64_t ref = d.imax;
        while (ref && d.c0 * (double)ref > r)
          ref >>= 1;
        while (ref && left % ref)
          ref >>= 1;
        if (ref != dt)
          ++refmodel_diff;
      }
      if (!seen.count(nb)) {
        seen.emplace(nb, Node{a, node.depth + 1, current, node.phys_sum + actual, node.nsteps + 1, hist});
        frontier.push_back(nb);
        if (seen.size() % 97 == 1)
          R.sample(fmt("{\"setting\": \"%s\", \"requests\": \"%s\", \"integer_time\": \"%" PRIu64 "\"}", tag.c_str(), hist.c_str(), n.cur));
      }
    }
  }
  if (S.maxdepth < 0 && !R.out_of_time()) {
    // complete reachable set explored: the end must be among the states
    if (nterminal != 1)
      R.violation("C19:terminal:" + setting_str(S), fmt("%" PRIu64 " terminal states reachable", nterminal));
  }
}

int main(int argc, char **argv) {
  Args A = parse_args(argc, argv);
  Result R(A);
  const std::string tmpdir = fast_tmpdir();
  g_tmp = tmpdir + fmt("/c19_%d.dump", (int)getpid());
  if (A.replay.empty() && !freopen("/dev/null", "w", stderr)) {
  }
  const double Myr = 3.15576e13;
  std::vector< Setting > settings = {
      {0., 1., 0., 0., A.thorough() ? 16 : 10},
      {0., 1., 1. / 64., 0.25, -1},
      {0., 1., 1. / 256., 1., -1},
      {0., 0.141 * Myr, 0.000088125 * Myr, 0.000088125 * Myr * 2., -1},
      {0., 3., 0.01, 0.7, -1},
      {0.1, 0.3, 0.2 / 32., 0.05, -1},
      {-2., 5., 7. / 100., 0., -1},
      {0., 1., 1., 1., -1},
      {0., 1., 0.3, 0.2, -1}, // max below min: max is raised to min
  };
  if (A.thorough()) {
    settings.push_back({0., 1., 1. / 2048., 0.125, -1});
    settings.push_back({0., 1e-3, 1e-3 / 3000., 1e-3 / 5., -1});
    settings.push_back({1e10, 1e10 + 4096., 1., 1024., -1});
    settings.push_back({0., 7.3, 0., 0.5, 14});
  }
  if (!A.replay.empty()) {
    // replay: print the transitions of the recorded history
    std::string txt = read_file(A.replay);
    std::string st = replay_field(txt, "setting"), hist = replay_field(txt, "history");
    Setting S;
    sscanf(st.c_str(), "start=%la end=%la min=%la max=%la", &S.start, &S.end, &S.tmin, &S.tmax);
    TimeLine t(S.start, S.end, S.tmin, S.tmax);
    printf("replay setting %s\n", st.c_str());
    char *h = strdup(hist.c_str());
    for (char *tok = strtok(h, ","); tok; tok = strtok(nullptr, ",")) {
      double r = strtod(tok, nullptr), a, c;
      bool hn = t.advance(r, a, c);
      Decoded d = decode(dump(t));
      printf("  request %.17g -> actual %.17g time %.17g has_next %d integer %" PRIu64 "\n", r, a, c, (int)hn, d.cur);
    }
    S.maxdepth = -1;
    settings.assign(1, S);
  }
  uint64_t states = 0, trans = 0, refdiff = 0;
  for (const Setting &S : settings) {
    const double T = S.end - S.start;
    std::vector< double > reqs = {2. * T, T, T / 3., T / 7., T / 64., 1e-30 * T, DBL_MAX};
    if (S.tmin > 0.) {
      reqs.push_back(S.tmin);
      reqs.push_back(S.tmin * (1. - 1e-12));
      reqs.push_back(S.tmin * 0.99);
      reqs.push_back(S.tmin * 2.5);
    }
    if (S.tmax > 0.) {
      reqs.push_back(S.tmax);
      reqs.push_back(S.tmax * (1. + 1e-12));
    }
    if (A.thorough()) {
      for (int k = 1; k <= 12; ++k) {
        reqs.push_back(std::ldexp(T, -k));
        reqs.push_back(std::nextafter(std::ldexp(T, -k), 0.));
      }
    }
    // VERIF_SEED only rotates the order of the request alphabet
    if (!reqs.empty())
      std::rotate(reqs.begin(), reqs.begin() + (A.seed % reqs.size()), reqs.end());
    explore(S, reqs, R, states, trans, refdiff);
  }
  unlink(g_tmp.c_str());
  remove_fast_tmpdir(tmpdir);
  R.set("states", (double)states);
  R.set("transitions", (double)trans);
  R.set("traces_validated_against_impl", (double)trans);
  R.set("settings", (double)settings.size());
  R.set("steps_differing_from_largest_admissible_power_of_two(info)", (double)refdiff);
  R.rule = "breadth-first search over the real TimeLine object: state = its 40-byte restart image, "
           "transitions = advance(r) for every r of the request alphabet; complete reachable set for "
           "settings with a positive minimum step, depth-bounded otherwise; non-trivial = transitions "
           "that moved the clock";
  R.assumptions.push_back("advance() is not called again after it reported the end (as the callers do)");
  return R.finish(A);
}
