// C19: explicit-state search of the complete reachable set of the real
// TimeLine for settings with a bounded number of slots (plus depth-bounded
// search for unbounded settings); invariants on every transition; save/restore
// bisimulation in every state.
#include "RestartReader.hpp"
#include "RestartWriter.hpp"
#include "TimeLine.hpp"
#include "verif_common.hpp"
#include <cfloat>
#include <deque>
#include <map>
#include <unistd.h>

using namespace verif;

static const uint64_t FULL = 0x8000000000000000ull;

struct Setting {
  double start, end, tmin, tmax;
  int maxdepth; // <0: unbounded (complete reachable set)
};

static std::string g_tmp;

static std::string dump(const TimeLine &t) {
  {
    RestartWriter w(g_tmp);
    t.write_restart_file(w);
  }
  return read_file(g_tmp);
}
static TimeLine restore(const std::string &bytes) {
  FILE *f = fopen(g_tmp.c_str(), "wb");
  fwrite(bytes.data(), 1, bytes.size(), f);
  fclose(f);
  RestartReader r(g_tmp);
  return TimeLine(r);
}

struct Node {
  TimeLine live;
  uint64_t units; // exact elapsed time in units of total/2^63, accumulated from the REPORTED steps
  int depth;
  double phys_time;  // physical time reported when this state was reached
  double phys_sum;   // sum of reported actual steps along the BFS tree path
  int nsteps;
  std::string history;
};

static std::string setting_str(const Setting &s) {
  return fmt("start=%a end=%a min=%a max=%a", s.start, s.end, s.tmin, s.tmax);
}

/// physical size of the smallest step the time line may take: the largest
/// power-of-two fraction of the total interval that is <= the configured
/// minimum (total/2^63 without a minimum)
static double minimum_step(const Setting &S, int &jmin) {
  const double total = S.end - S.start;
  jmin = 63;
  if (S.tmin > 0.) {
    jmin = 0;
    while (jmin < 63 && std::ldexp(total, -jmin) > S.tmin)
      ++jmin;
  }
  return std::ldexp(total, -jmin);
}

static void explore(const Setting &S, const std::vector< double > &reqs, Result &R,
                    uint64_t &states_total, uint64_t &trans_total, uint64_t &refmodel_diff) {
  const double total = S.end - S.start;
  const double eps = DBL_EPSILON;
  const double ttol = 4. * eps * (std::fabs(S.start) + std::fabs(S.end));
  int jmin;
  const double minphys = minimum_step(S, jmin);
  // largest step: the largest power-of-two fraction <= the configured maximum, but not below the minimum
  int jmax = 0;
  if (S.tmax > 0.)
    while (jmax < 63 && std::ldexp(total, -jmax) > S.tmax)
      ++jmax;
  if (jmax > jmin)
    jmax = jmin;
  TimeLine t0(S.start, S.end, S.tmin, S.tmax);
  std::string b0 = dump(t0);
  std::map< std::string, Node > seen;
  std::deque< std::string > frontier;
  seen.emplace(b0, Node{t0, 0, 0, S.start, 0., 0, ""});
  frontier.push_back(b0);
  uint64_t nterminal = 0;
  const std::string tag = setting_str(S);
  while (!frontier.empty()) {
    if (R.out_of_time()) {
      R.hit_deadline("timeline " + tag);
      break;
    }
    std::string key = frontier.front();
    frontier.pop_front();
    Node node = seen.at(key);
    ++states_total;
    // save/restore: the restored object writes the same bytes
    TimeLine restored = restore(key);
    std::string again = dump(restored);
    ++R.evaluations;
    if (again != key)
      R.violation("C19:redump:" + tag, "dump->restore->dump changes bytes after history [" + node.history + "]",
                  fmt("{\"setting\": \"%s\", \"history\": \"%s\"}", tag.c_str(), node.history.c_str()));
    if (node.units == FULL) {
      ++nterminal;
      if (std::fabs(node.phys_time - S.end) > ttol)
        R.violation("C19:end-time:" + tag, fmt("final time %.17g != end %.17g after [%s]", node.phys_time, S.end, node.history.c_str()));
      if (std::fabs(node.phys_sum - total) > (node.nsteps + 2) * eps * std::fabs(total))
        R.violation("C19:sum:" + tag, fmt("steps sum to %.17g, total %.17g after [%s]", node.phys_sum, total, node.history.c_str()));
      continue; // the caller never advances a finished time line
    }
    if (S.maxdepth >= 0 && node.depth >= S.maxdepth)
      continue;
    const uint64_t left = FULL - node.units;
    for (size_t ir = 0; ir < reqs.size(); ++ir) {
      const double r = reqs[ir];
      TimeLine a = node.live;
      double actual = -1., current = -1.;
      const bool has_next = a.advance(r, actual, current);
      double actual2 = -1., current2 = -1.;
      TimeLine b = restored;
      const bool has_next2 = b.advance(r, actual2, current2);
      const std::string nb = dump(a), nb2 = dump(b);
      ++trans_total;
      ++R.evaluations;
      const std::string hist = node.history + (node.history.empty() ? "" : ",") + hexd(r);
      const std::string rep = fmt("{\"setting\": \"%s\", \"history\": \"%s\"}", tag.c_str(), hist.c_str());
      if (has_next != has_next2 || actual != actual2 || current != current2 || nb != nb2)
        R.violation("C19:restore-bisim:" + tag, "restored time line behaves differently after [" + hist + "]", rep);
      if (nb == key) {
        // no step taken: the run must stop, and only for a request below the minimum step
        if (has_next)
          R.violation("C19:refuse-continues:" + tag, "no step taken but has_next after [" + hist + "]", rep);
        if (!(r < minphys))
          R.violation("C19:refuse-legit:" + tag, fmt("request %.17g >= minimum step %.17g refused after [%s]", r, minphys, hist.c_str()), rep);
        continue;
      }
      R.nontrivial++;
      // the reported step must be a power-of-two fraction of the total interval
      int e = 0;
      const double q = total / actual;
      const bool isp2 = actual > 0. && std::frexp(q, &e) == 0.5 && e - 1 >= 0 && e - 1 <= 63;
      if (!isp2) {
        R.violation("C19:fraction:" + tag, fmt("step %.17g is not a power-of-two fraction of the total %.17g after [%s]", actual, total, hist.c_str()), rep);
        continue;
      }
      const int j = e - 1;
      const uint64_t dt = 1ull << (63 - j);
      if (left % dt)
        R.violation("C19:divides:" + tag, fmt("step total/2^%d does not divide the time left (%" PRIu64 "/2^63 of the total) after [%s]", j, left, hist.c_str()), rep);
      if (dt > left) {
        R.violation("C19:overshoot:" + tag, fmt("step total/2^%d with only %" PRIu64 "/2^63 of the total left after [%s]", j, left, hist.c_str()), rep);
        continue;
      }
      if (j > jmin)
        R.violation("C19:below-min:" + tag, fmt("step total/2^%d below the minimum total/2^%d after [%s]", j, jmin, hist.c_str()), rep);
      if (!(actual <= r))
        R.violation("C19:exceeds-request:" + tag, fmt("actual %.17g > requested %.17g after [%s]", actual, r, hist.c_str()), rep);
      if (S.tmax > 0. && j < jmax)
        R.violation("C19:exceeds-max:" + tag, fmt("actual %.17g > maximum %.17g after [%s]", actual, S.tmax, hist.c_str()), rep);
      const uint64_t units = node.units + dt;
      // the reported time is the start plus the steps reported so far
      const double expect = S.start + total * ((double)units / 9223372036854775808.);
      if (std::fabs(current - expect) > ttol + 2. * eps * std::fabs(total))
        R.violation("C19:time-mismatch:" + tag, fmt("reported time %.17g but the reported steps add up to %.17g after [%s]", current, expect, hist.c_str()), rep);
      if (!(current > node.phys_time))
        R.violation("C19:not-increasing:" + tag, fmt("time %.17g -> %.17g after [%s]", node.phys_time, current, hist.c_str()), rep);
      if (current > S.end + ttol)
        R.violation("C19:beyond-end:" + tag, fmt("time %.17g beyond end %.17g after [%s]", current, S.end, hist.c_str()), rep);
      if (has_next != (units < FULL))
        R.violation("C19:has-next:" + tag, fmt("has_next=%d with %" PRIu64 "/2^63 of the total elapsed after [%s]", (int)has_next, units, hist.c_str()), rep);
      // informational: reference model = largest admissible power of two
      {
        int jr = jmax;
        while (jr < 63 && std::ldexp(total, -jr) > r)
          ++jr;
        while (jr < 63 && left % (1ull << (63 - jr)))
          ++jr;
        if (jr != j)
          ++refmodel_diff;
      }
      auto it = seen.find(nb);
      if (it == seen.end()) {
        seen.emplace(nb, Node{a, units, node.depth + 1, current, node.phys_sum + actual, node.nsteps + 1, hist});
        frontier.push_back(nb);
        if (seen.size() % 97 == 1)
          R.sample(fmt("{\"setting\": \"%s\", \"requests\": \"%s\", \"elapsed_units_of_total/2^63\": \"%" PRIu64 "\"}", tag.c_str(), hist.c_str(), units));
      } else if (it->second.units != units) {
        R.violation("C19:state-time:" + tag, fmt("the same saved state is reached with %" PRIu64 " and %" PRIu64 " elapsed units after [%s]", it->second.units, units, hist.c_str()), rep);
      }
    }
  }
  if (S.maxdepth < 0 && !R.out_of_time()) {
    // complete reachable set explored: the end must be among the states
    if (nterminal != 1)
      R.violation("C19:terminal:" + tag, fmt("%" PRIu64 " terminal states reachable", nterminal));
  }
}

int main(int argc, char **argv) {
  Args A = parse_args(argc, argv);
  Result R(A);
  const std::string tmpdir = fast_tmpdir();
  g_tmp = tmpdir + fmt("/c19_%d.dump", (int)getpid());
  if (A.replay.empty() && !freopen("/dev/null", "w", stderr)) {
  }
  const double Myr = 3.15576e13;
  std::vector< Setting > settings = {
      {0., 1., 0., 0., A.thorough() ? 16 : 10},
      {0., 1., 1. / 64., 0.25, -1},
      {0., 1., 1. / 256., 1., -1},
      {0., 0.141 * Myr, 0.000088125 * Myr, 0.000088125 * Myr * 2., -1},
      {0., 3., 0.01, 0.7, -1},
      {0.1, 0.3, 0.2 / 32., 0.05, -1},
      {-2., 5., 7. / 100., 0., -1},
      {0., 1., 1., 1., -1},
      {0., 1., 0.3, 0.2, -1}, // max below min: max is raised to min
  };
  if (A.thorough()) {
    settings.push_back({0., 1., 1. / 2048., 0.125, -1});
    settings.push_back({0., 1e-3, 1e-3 / 3000., 1e-3 / 5., -1});
    settings.push_back({1e10, 1e10 + 4096., 1., 1024., -1});
    settings.push_back({0., 7.3, 0., 0.5, 14});
  }
  if (!A.replay.empty()) {
    // replay: print the transitions of the recorded history
    std::string txt = read_file(A.replay);
    std::string st = replay_field(txt, "setting"), hist = replay_field(txt, "history");
    Setting S;
    sscanf(st.c_str(), "start=%la end=%la min=%la max=%la", &S.start, &S.end, &S.tmin, &S.tmax);
    TimeLine t(S.start, S.end, S.tmin, S.tmax);
    printf("replay setting %s\n", st.c_str());
    char *h = strdup(hist.c_str());
    for (char *tok = strtok(h, ","); tok; tok = strtok(nullptr, ",")) {
      double r = strtod(tok, nullptr), a, c;
      bool hn = t.advance(r, a, c);
      printf("  request %.17g -> actual %.17g time %.17g has_next %d\n", r, a, c, (int)hn);
    }
    S.maxdepth = -1;
    settings.assign(1, S);
  }
  uint64_t states = 0, trans = 0, refdiff = 0;
  for (const Setting &S : settings) {
    const double T = S.end - S.start;
    // 0, the smallest denormal and a request just below one integer unit all give an integer step of 0
    std::vector< double > reqs = {2. * T, T, T / 3., T / 7., T / 64., 1e-30 * T, DBL_MAX, 0., 4.9406564584124654e-324, std::ldexp(T, -63) * 0.999};
    if (S.tmin > 0.) {
      reqs.push_back(S.tmin);
      reqs.push_back(S.tmin * (1. - 1e-12));
      reqs.push_back(S.tmin * 0.99);
      reqs.push_back(S.tmin * 2.5);
    }
    if (S.tmax > 0.) {
      reqs.push_back(S.tmax);
      reqs.push_back(S.tmax * (1. + 1e-12));
    }
    if (A.thorough()) {
      for (int k = 1; k <= 12; ++k) {
        reqs.push_back(std::ldexp(T, -k));
        reqs.push_back(std::nextafter(std::ldexp(T, -k), 0.));
      }
    }
    // VERIF_SEED only rotates the order of the request alphabet
    if (!reqs.empty())
      std::rotate(reqs.begin(), reqs.begin() + (A.seed % reqs.size()), reqs.end());
    explore(S, reqs, R, states, trans, refdiff);
  }
  unlink(g_tmp.c_str());
  remove_fast_tmpdir(tmpdir);
  R.set("states", (double)states);
  R.set("transitions", (double)trans);
  R.set("traces_validated_against_impl", (double)trans);
  R.set("settings", (double)settings.size());
  R.set("steps_differing_from_largest_admissible_power_of_two(info)", (double)refdiff);
  R.rule = "breadth-first search over the real TimeLine object: state = its restart image (opaque), observations = the values advance() returns, "
           "transitions = advance(r) for every r of the request alphabet; complete reachable set for "
           "settings with a positive minimum step, depth-bounded otherwise; non-trivial = transitions "
           "that moved the clock";
  R.assumptions.push_back("advance() is not called again after it reported the end (as the callers do)");
  return R.finish(A);
}
