CHECK = {
    "id": "C19",
    "level": "model_checking",
    "engine": "E2",
    "technique": "explicit-state BFS of the real TimeLine's complete reachable state set, invariant on every transition",
    "level_text": "Every reachable state of the real TimeLine object (state = its restart image) is enumerated for "
                  "settings with a positive minimum step (complete reachable set, at most a few thousand states) and to a "
                  "fixed depth for settings without one; the step/overshoot/divisibility/end invariants are evaluated on every "
                  "transition and a restored copy must be bisimilar in every state. The integer clock makes the state space "
                  "finite, so exhaustive search is the natural level.",
    "level_note": "Assumes advance() is not called after it reported the end; physical end time compared to round-off "
                  "(the clock itself must be exactly at 2^63). Settings and request alphabet are listed in the harness.",
    "quick_deadline": 60,
    "thorough_deadline": 300,
    "parts": [{"name": "timeline", "bin": "c19_timeline"}],
    "assumptions": [],
}
