CHECK = {
    "id": "C02",
    "level": "exploration",
    "engine": "E3",
    "technique": "bounded-exhaustive enumeration of traversals of the real DensitySubGrid "
                 "(interact / propagate / compute_optical_depth) over a finite alphabet of blocks, start points, "
                 "directions, entry classes, density fields and target depths, each compared with an exact integer "
                 "ray marcher anchored on the reported end point",
    "level_text": "Every combination of block shape (1..3)^3 (thorough: up to 4^3 for one geometry), three cell-size "
                  "sets (unit, dyadic 1:1/2:1/4, non-dyadic 0.1:0.3:0.7), block anchors, all start points of the "
                  "half-cell lattice including every face, edge and corner, all 124 integer directions in {-2..2}^3 "
                  "and, for every direction with zero components, all sign-bit combinations (+0.0 / -0.0) of them (208 "
                  "direction vectors), "
                  "every entry classification compatible with start point and direction, five density fields "
                  "(uniform, checkerboard with empty cells, one opaque cell, all empty, graded), H-only and H+He "
                  "cross sections and target depths {1/4, equal, the code's own total, first wall crossing, 4x, tiny} "
                  "of the chord is run through the real code; nothing is sampled. The property quantifies over a "
                  "continuum, so this decides it only on that alphabet (chosen to hit every branch, tie and "
                  "threshold of the marching loop); exhaustive: true refers to the alphabet.",
    "level_note": "Start points with class INSIDE are taken from the half-open block (lower faces included, upper "
                  "faces only as entry elements with an inward direction): that is the documented convention of the "
                  "callers (floor() subgrid assignment, continuous sources clamp below the top face). What the code "
                  "does for INSIDE starts exactly on an upper face is recorded under info_upper_face_* and in "
                  "NOTES.md, not judged. Exit classes must match exactly where all arithmetic is exact (dyadic "
                  "geometry), and within round-off (sub-element containing the exact exit point) otherwise. A traversal that "
                  "calls abort() or does not return within 2 s is caught (own abort(), watchdog signal) and reported as a "
                  "violation; non-finite results fail every comparison.",
    "quick_deadline": 110,
    "thorough_deadline": 1100,
    "parts": [
        {"name": "traversals", "bin": "c02_pathdeposit", "share": 3.0},
        {"name": "traversals_asan", "bin": "c02_pathdeposit_asan", "args": ["--subset", "asan"], "share": 1.0},
    ],
    "assumptions": [],
}
