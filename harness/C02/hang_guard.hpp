// Guard for calls into the code under test that may abort() or never return
// (shared by the C02 and C03 harnesses).
//
//   hg::start(limit_ms);                 once, before the enumeration
//   sigjmp_buf jb;
//   int rc = sigsetjmp(jb, 0);           // 0: first pass, 1: abort(), 2: hang
//   if (rc == 0) { hg::enter(&jb); <call>; hg::leave(); }
//
// abort(): the harness defines its own abort() which calls hg::on_abort().
// hang: a watchdog thread sends SIGUSR1 to a thread whose guarded call runs
// longer than limit_ms; the handler (running in that thread) jumps back. The
// guarded code is a pure computation (no locks, no allocation in its loops), so
// leaving it with a long jump is safe for the purpose of recording the case.
#ifndef VERIF_HANG_GUARD_HPP
#define VERIF_HANG_GUARD_HPP

#include <atomic>
#include <chrono>
#include <csetjmp>
#include <csignal>
#include <pthread.h>
#include <thread>
#include <unistd.h>

namespace hg {

struct Slot {
  std::atomic< long long > start_ms{0}; // 0 idle, -1 "watchdog fired", else start time
  pthread_t tid;
};
static Slot g_slots[512];
static std::atomic< int > g_nslots{0};
static std::atomic< unsigned long > g_hangs{0};
static thread_local sigjmp_buf *t_jmp = nullptr;
static thread_local int t_slot = -1;

inline long long now_ms() {
  return std::chrono::duration_cast< std::chrono::milliseconds >(
             std::chrono::steady_clock::now().time_since_epoch())
             .count() +
         1;
}
inline void handler(int) {
  if (t_slot >= 0 && t_jmp && g_slots[t_slot].start_ms.load() == -1) {
    sigjmp_buf *j = t_jmp;
    t_jmp = nullptr;
    g_slots[t_slot].start_ms = 0;
    ++g_hangs;
    siglongjmp(*j, 2);
  }
}
inline void start(long limit_ms) {
  struct sigaction sa;
  sa.sa_handler = handler;
  sigemptyset(&sa.sa_mask);
  sa.sa_flags = SA_NODEFER;
  sigaction(SIGUSR1, &sa, nullptr);
  std::thread([limit_ms]() {
    // (the watchdog itself never receives the signal: it is sent with pthread_kill)
    for (;;) {
      usleep(100000);
      const long long now = now_ms();
      const int n = g_nslots.load();
      for (int i = 0; i < n; ++i) {
        long long st = g_slots[i].start_ms.load();
        if (st > 0 && now - st > limit_ms)
          if (g_slots[i].start_ms.compare_exchange_strong(st, -1))
            pthread_kill(g_slots[i].tid, SIGUSR1);
      }
    }
  }).detach();
}
inline void enter(sigjmp_buf *jb) {
  if (t_slot < 0) {
    t_slot = g_nslots.fetch_add(1);
    g_slots[t_slot].tid = pthread_self();
  }
  t_jmp = jb;
  g_slots[t_slot].start_ms = now_ms();
}
inline void leave() {
  g_slots[t_slot].start_ms = 0;
  t_jmp = nullptr;
}
/// to be called from the harness' own abort(): jumps back if a guarded call is active
inline void on_abort() {
  if (t_jmp) {
    sigjmp_buf *j = t_jmp;
    t_jmp = nullptr;
    if (t_slot >= 0)
      g_slots[t_slot].start_ms = 0;
    siglongjmp(*j, 1);
  }
}

} // namespace hg

#endif
