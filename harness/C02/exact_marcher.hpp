// Exact integer ray marcher on a Cartesian cell lattice (reference oracle of
// C02, also included read-only by C03 and C16).
//
// INTERFACE (everything is in namespace xm, header only, no dependencies on
// the code under test):
//
//   Geometry on an integer lattice: along axis i the cell walls are at the
//   integer coordinates k*S[i] (k any integer, S[i] > 0 the cell size in
//   lattice units).  A ray starts at the integer point P and has the integer
//   direction d (not all zero):   X(T) = P + (T / D) * d,   T >= 0 integer,
//   D = lcm of the non-zero |d[i]|, so every wall crossing has an integer T and
//   every comparison (which wall comes first, ties through edges and corners)
//   is exact.  One lattice unit corresponds to the physical length q in all
//   three directions (choose q so that cell sizes and start points become
//   integers, e.g. q = 1/8 for cells (1, 1/2, 1/4) with half-cell start
//   points), so that d is also the physical direction and the physical path
//   length of a parameter interval dT is  (dT / D) * |d| * q.
//
//   xm::March m; m.init(P, d, S, start_cell);   // start_cell may be nullptr
//     m.c[3]      current cell index triple (unbounded integers: the caller
//                 decides what is inside its block, wraps periodic axes, ...)
//     m.T         current parameter
//     m.advance() leave the current cell through the nearest wall(s); ALL axes
//                 whose wall is reached at the same T change their index
//                 together (exact tie handling).  Returns the new T.
//   Start cell convention (xm::start_cell_axis) when no start cell is given:
//   half-open cells [k*S, (k+1)*S); a point exactly on a wall belongs to the
//   cell it is moving into (d>0: upper, d<0: lower, d==0: upper).
//
//   xm::march_block(P, d, S, n, start_cell, out) marches through the block of
//   n[0] x n[1] x n[2] cells with lower corner at the lattice origin and fills
//   a Path: positive-length segments (cell triple, Tin, Tout), the exit
//   parameter, the exit signs per axis (-1 below, +1 above, 0 still in range:
//   face / edge / corner the line crosses) and helpers for physical lengths.
//   A start cell outside the block gives an empty path that "exits" at T=0.
//
//   Overflow: all quantities are products of small integers (coordinates
//   < 2^20, |d| <= 64), held in 64 bit.
#ifndef VERIF_EXACT_MARCHER_HPP
#define VERIF_EXACT_MARCHER_HPP

#include <cmath>
#include <cstdint>
#include <cstdlib>
#include <vector>

namespace xm {

typedef long long i64;

inline i64 gcd_(i64 a, i64 b) {
  a = a < 0 ? -a : a;
  b = b < 0 ? -b : b;
  while (b) {
    i64 t = a % b;
    a = b;
    b = t;
  }
  return a;
}

/// floor division for possibly negative numerators
inline i64 floordiv(i64 a, i64 b) {
  i64 q = a / b, r = a % b;
  if (r != 0 && ((r < 0) != (b < 0)))
    --q;
  return q;
}

/// cell index along one axis of a start coordinate P for a ray component d
/// (half-open convention, see the top of the file)
inline i64 start_cell_axis(i64 P, int d, i64 S) {
  i64 k = floordiv(P, S);
  if (d < 0 && k * S == P)
    return k - 1;
  return k;
}

struct March {
  i64 P[3], S[3];
  int d[3];
  i64 D;     // common denominator of the parameter
  i64 c[3];  // current cell
  i64 T;     // current parameter (position = P + T/D * d)

  void init(const i64 P_[3], const int d_[3], const i64 S_[3], const i64 *start_cell = nullptr) {
    D = 1;
    for (int i = 0; i < 3; ++i) {
      P[i] = P_[i];
      d[i] = d_[i];
      S[i] = S_[i];
      if (d[i] != 0) {
        i64 a = d[i] < 0 ? -d[i] : d[i];
        D = D / gcd_(D, a) * a;
      }
    }
    for (int i = 0; i < 3; ++i)
      c[i] = start_cell ? start_cell[i] : start_cell_axis(P[i], d[i], S[i]);
    T = 0;
  }
  /// parameter at which the wall of the current cell in travel direction is
  /// reached along axis i (only for d[i] != 0)
  i64 wall_T(int i) const {
    const i64 wall = (d[i] > 0 ? c[i] + 1 : c[i]) * S[i];
    return (wall - P[i]) * (D / d[i]); // exact: d[i] divides D
  }
  /// leave the current cell; returns the parameter of the crossing
  i64 advance() {
    i64 Tn = 0;
    bool have = false;
    i64 Ti[3] = {0, 0, 0};
    for (int i = 0; i < 3; ++i) {
      if (d[i] == 0)
        continue;
      Ti[i] = wall_T(i);
      if (!have || Ti[i] < Tn) {
        Tn = Ti[i];
        have = true;
      }
    }
    // a start cell that does not contain the start point (entry class says
    // "lower cell" while the point is on its upper wall etc.) can give Tn < T;
    // the crossing then happens "now"
    if (Tn < T)
      Tn = T;
    for (int i = 0; i < 3; ++i)
      if (d[i] != 0 && Ti[i] <= Tn)
        c[i] += d[i] > 0 ? 1 : -1;
    T = Tn;
    return T;
  }
  /// numerator of the coordinate along axis i at parameter T_ (denominator D)
  i64 coord_num(int i, i64 T_) const { return P[i] * D + T_ * d[i]; }
};

struct Seg {
  i64 c[3];
  i64 Tin, Tout;
};

struct Path {
  std::vector< Seg > segs; // positive-length segments inside the block, in order
  i64 D = 1;
  i64 Texit = 0;        // parameter at which the block is left
  int exit_sign[3] = {0, 0, 0};
  long double unit = 0; // physical length of dT = 1:  |d| * q / D
  long double exit_pos[3] = {0, 0, 0}; // physical, relative to the block corner
  long double length(i64 dT) const { return unit * (long double)dT; }
  long double total_length() const { return length(Texit); }
};

inline bool in_block(const i64 c[3], const int n[3]) {
  return c[0] >= 0 && c[0] < n[0] && c[1] >= 0 && c[1] < n[1] && c[2] >= 0 && c[2] < n[2];
}

/// march through the block [0,n[i]*S[i]]; q = physical length of a lattice unit
inline void march_block(const i64 P[3], const int d[3], const i64 S[3], const int n[3],
                        const i64 *start_cell, long double q, Path &out) {
  March m;
  m.init(P, d, S, start_cell);
  out.segs.clear();
  out.D = m.D;
  const long double nrm =
      sqrtl((long double)(d[0] * d[0] + d[1] * d[1] + d[2] * d[2]));
  out.unit = nrm * q / (long double)m.D;
  int guard = 0;
  while (in_block(m.c, n)) {
    Seg s;
    s.c[0] = m.c[0];
    s.c[1] = m.c[1];
    s.c[2] = m.c[2];
    s.Tin = m.T;
    s.Tout = m.advance();
    if (s.Tout > s.Tin)
      out.segs.push_back(s);
    if (++guard > 100000)
      abort(); // cannot happen: every advance changes an index monotonically
  }
  out.Texit = m.T;
  for (int i = 0; i < 3; ++i) {
    out.exit_sign[i] = m.c[i] < 0 ? -1 : (m.c[i] >= n[i] ? 1 : 0);
    out.exit_pos[i] = q * (long double)m.coord_num(i, m.T) / (long double)m.D;
  }
}

} // namespace xm

#endif
