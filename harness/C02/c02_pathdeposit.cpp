// C02: a packet crossing a block of cells deposits exactly its geometric path.
//
// Bounded-exhaustive enumeration (engine E3) of the real
// DensitySubGrid::interact / propagate / compute_optical_depth over
//   block shapes (1..3)^3  x  cell-size sets  x  block anchors
//   x start points on the half-cell lattice (faces, edges, corners included)
//   x all integer directions in {-2..2}^3 \ 0 (normalised)
//   x every entry classification compatible with start point and direction
//   x density fields  x  cross-section sets  x  target optical depths
// against the exact integer ray marcher of exact_marcher.hpp, anchored on the
// end point the code reports (tie robust), see NOTES.md.
#include "DensitySubGrid.hpp"
#include "exact_marcher.hpp"
#include "hang_guard.hpp"
#include "verif_common.hpp"

#include <cfloat>
#include <csetjmp>
#include <csignal>
#include <omp.h>

using namespace verif;
typedef long double LD;
using xm::i64;

// ---------------------------------------------------------------------------
// abort() interposition and hang guard (hang_guard.hpp): cmac_error ends in
// abort(); a traversal that aborts or never returns is an observation, not the
// end of the enumeration
// ---------------------------------------------------------------------------
extern "C" __attribute__((noreturn)) void abort(void) noexcept {
  hg::on_abort();
  signal(SIGABRT, SIG_DFL);
  raise(SIGABRT);
  _exit(134);
}

// ---------------------------------------------------------------------------
// independent sign table of the 27 travel directions, written from the enum
// documentation ("(1,1,0) corner", "(:,0,1) edge", "x=1 face"): +1 upper
// limit, -1 lower limit, 0 free coordinate
// ---------------------------------------------------------------------------
static const int SGN[27][3] = {
    {0, 0, 0},                                                     // INSIDE
    {1, 1, 1},   {1, 1, -1},  {1, -1, 1},  {1, -1, -1},            // corners P..
    {-1, 1, 1},  {-1, 1, -1}, {-1, -1, 1}, {-1, -1, -1},           // corners N..
    {0, 1, 1},   {0, 1, -1},  {0, -1, 1},  {0, -1, -1},            // x edges (y,z)
    {1, 0, 1},   {1, 0, -1},  {-1, 0, 1},  {-1, 0, -1},            // y edges (x,z)
    {1, 1, 0},   {1, -1, 0},  {-1, 1, 0},  {-1, -1, 0},            // z edges (x,y)
    {1, 0, 0},   {-1, 0, 0},  {0, 1, 0},   {0, -1, 0},  {0, 0, 1}, {0, 0, -1}};
static int dir_of_signs(const int s[3]) {
  for (int i = 0; i < 27; ++i)
    if (SGN[i][0] == s[0] && SGN[i][1] == s[1] && SGN[i][2] == s[2])
      return i;
  return -1;
}
static const char *elem_kind(const int s[3]) {
  int k = (s[0] != 0) + (s[1] != 0) + (s[2] != 0);
  return k == 0 ? "inside" : (k == 1 ? "face" : (k == 2 ? "edge" : "corner"));
}

// ---------------------------------------------------------------------------
// alphabets
// ---------------------------------------------------------------------------
struct Geom {
  const char *name;
  double cs[3]; // physical cell size
  i64 S[3];     // cell size in lattice units (half cell = S/2 integer)
  LD q;         // physical length of one lattice unit
  bool dyadic;
};
static const Geom GEOMS[3] = {{"unit", {1., 1., 1.}, {2, 2, 2}, 0.5L, true},
                              {"dyadic", {1., 0.5, 0.25}, {8, 4, 2}, 0.125L, true},
                              {"nondyadic", {0.1, 0.3, 0.7}, {2, 6, 14}, 0.05L, false}};
struct Anchor {
  const char *name;
  double a[3];
  bool dyadic;
};
static const Anchor ANCHORS[3] = {{"zero", {0., 0., 0.}, true},
                                  {"dyadic", {-2., 1.5, 64.}, true},
                                  {"nondyadic", {0.1, -0.7, 12.3}, false}};
static const int NFIELD = 5;
static const char *FIELD_NAMES[NFIELD] = {"uniform", "checker-empty", "one-opaque", "all-empty",
                                          "graded"};
struct SigSet {
  const char *name;
  double sigH, sigHe, weight, energy;
};
static const SigSet SIGS[2] = {{"H-only", 0.75, 0., 1.5, 4.e15},
                               {"H+He", 0.75, 1.25, 0.625, 7.e15}};
static double sigma_of(const SigSet &s, int ion) {
  if (ion == ION_H_n)
    return s.sigH;
  if (ion == ION_He_n)
    return s.sigHe;
  return 0.1 * (ion + 1);
}
static void field_value(int f, const int n[3], int ix, int iy, int iz, double &dens, double &xH,
                        double &xHe) {
  const int idx = (ix * n[1] + iy) * n[2] + iz;
  switch (f) {
  case 0:
    dens = 2.;
    xH = 0.5;
    xHe = 0.25;
    return;
  case 1:
    if (((ix + iy + iz) & 1) == 0) {
      dens = 3.;
      xH = 0.5;
      xHe = 0.125;
    } else if (ix & 1) { // empty: no gas
      dens = 0.;
      xH = 0.5;
      xHe = 0.5;
    } else { // empty: fully ionised
      dens = 4.;
      xH = 0.;
      xHe = 0.;
    }
    return;
  case 2:
    dens = (ix == n[0] / 2 && iy == n[1] / 2 && iz == n[2] / 2) ? 1.e4 : 1.;
    xH = 0.5;
    xHe = 0.25;
    return;
  case 3:
    dens = 0.;
    xH = 0.5;
    xHe = 0.5;
    return;
  default:
    dens = 1. + 0.75 * idx;
    xH = 0.25 + 0.125 * (idx % 5);
    xHe = 0.0625 * (1 + idx % 7);
    return;
  }
}

enum Method { M_INTERACT = 0, M_INTERACT_DISPLACED, M_PROPAGATE, M_TAU, M_NUM };
static const char *METHOD_NAMES[M_NUM] = {"interact", "interact-displaced", "propagate",
                                          "compute_optical_depth"};
enum TKind { K_QUARTER = 0, K_EQUAL, K_FOURX, K_TINY, K_CODETOTAL, K_FIRSTWALL, K_ONE, K_NUM };
static const char *TKIND_NAMES[K_NUM] = {"quarter", "equal", "fourx", "tiny",
                                         "code-total", "first-wall", "one"};

struct Config {
  std::vector< int > geoms, anchors, fields, sigs;
  int nmax = 3;
  int nmax_big = 3; // shapes up to this size for the (dyadic geometry, zero anchor) combination
  bool displaced = true, propagate = true, taumethod = true;
  int ion_full_every = 16;
};

// a base case: geometry + start + direction + entry class
struct Base {
  int g, a;
  int n[3], h[3], d[3], cls[3];
  int zs = 0; // bit i: the (zero) direction component i is handed over as -0.0
};

struct Stats {
  uint64_t evaluations = 0, nontrivial = 0, near_tol = 0, base_cases = 0, negzero_base_cases = 0;
  uint64_t by_method[M_NUM] = {0, 0, 0, 0};
  uint64_t absorbed = 0, escaped = 0, tie_alt_used = 0, class_subset_accepted = 0;
  uint64_t exits[4] = {0, 0, 0, 0}; // inside(absorbed), face, edge, corner
  uint64_t entries[4] = {0, 0, 0, 0};
  uint64_t zero_path = 0;
  uint64_t upper_inside_cases = 0, upper_inside_lost = 0;
  double worst_ratio = 0.;
  std::string worst_what;
  void merge(const Stats &o) {
    evaluations += o.evaluations;
    nontrivial += o.nontrivial;
    near_tol += o.near_tol;
    base_cases += o.base_cases;
    negzero_base_cases += o.negzero_base_cases;
    for (int i = 0; i < M_NUM; ++i)
      by_method[i] += o.by_method[i];
    absorbed += o.absorbed;
    escaped += o.escaped;
    tie_alt_used += o.tie_alt_used;
    class_subset_accepted += o.class_subset_accepted;
    for (int i = 0; i < 4; ++i) {
      exits[i] += o.exits[i];
      entries[i] += o.entries[i];
    }
    zero_path += o.zero_path;
    upper_inside_cases += o.upper_inside_cases;
    upper_inside_lost += o.upper_inside_lost;
    if (o.worst_ratio > worst_ratio) {
      worst_ratio = o.worst_ratio;
      worst_what = o.worst_what;
    }
  }
};

// everything that is fixed for one (base case, field, sigma set)
struct Ctx {
  Base b;
  const Geom *G;
  const Anchor *A;
  bool exact; // all arithmetic of the code is exact for the geometry
  int field, sig;
  int ncell;
  double p0[3];     // start position handed to the code (absolute)
  LD p0rel[3];      // exact start relative to the block corner
  double dir[3];    // unit direction handed to the code
  LD u[3];          // unit direction (long double)
  LD size, mag, tolpos, tollen;
  LD tolq; // position quantisation: 64 eps * (block diagonal + |anchor|)
  double kappa[64]; // opacity per cell for the sigma set
  LD kappa_max;
  int indir;
};

struct Obs {
  bool aborted = false, hung = false;
  int out = -1;
  double E[3] = {0, 0, 0};
  double tau_after = 0;
  bool packet_modified = false;
};

struct Failure {
  std::string what; // short class of the failing check (part of the key)
  std::string detail;
  bool fail() const { return !what.empty(); }
};

static thread_local const char *t_ratio_what = "";
static inline void upd_(double &ratio, LD err, LD tol, const char *what) {
  const double r = tol > 0 ? (double)(fabsl(err) / tol) : (err == 0 ? 0. : 1e300);
  if (r > ratio) {
    ratio = r;
    t_ratio_what = what;
  }
}
#define upd(ratio, err, tol) upd_(ratio, err, tol, #err)

static void setup_packet(PhotonPacket &ph, const Ctx &c, const double pos[3], double target) {
  const SigSet &s = SIGS[c.sig];
  ph.set_position(CoordinateVector<>(pos[0], pos[1], pos[2]));
  ph.set_direction(CoordinateVector<>(c.dir[0], c.dir[1], c.dir[2]));
  for (int ion = 0; ion < NUMBER_OF_IONNAMES; ++ion)
    ph.set_photoionization_cross_section(ion, sigma_of(s, ion));
  ph.set_weight(s.weight);
  ph.set_energy(s.energy);
  ph.set_target_optical_depth(target);
  ph.set_type(PHOTONTYPE_PRIMARY);
  ph.set_scatter_counter(0);
}

static Obs run_real(DensitySubGrid &grid, const Ctx &c, int method, double target,
                    PhotonPacket &ph) {
  Obs o;
  double pos[3] = {c.p0[0], c.p0[1], c.p0[2]};
  if (method == M_INTERACT_DISPLACED) {
    // the coordinates fixed by the entry class are garbage on entry (as after
    // a periodic wrap): interact has to put the packet on the entry element
    for (int i = 0; i < 3; ++i)
      if (c.b.cls[i] != 0)
        pos[i] += c.b.cls[i] * (3.25 * c.b.n[i] * c.G->cs[i] + 1.);
  }
  setup_packet(ph, c, pos, target);
  // (set_direction renormalises: compare with what the packet holds now)
  const double dir0[3] = {ph.get_direction()[0], ph.get_direction()[1], ph.get_direction()[2]};
  sigjmp_buf jb;
  const int rc = sigsetjmp(jb, 0);
  if (rc) {
    o.aborted = (rc == 1);
    o.hung = (rc == 2);
    return o;
  }
  hg::enter(&jb);
  int out;
  if (method == M_PROPAGATE)
    out = grid.propagate(ph, c.indir);
  else if (method == M_TAU)
    out = grid.compute_optical_depth(ph, c.indir);
  else
    out = grid.interact(ph, c.indir);
  hg::leave();
  o.out = out;
  o.E[0] = ph.get_position()[0];
  o.E[1] = ph.get_position()[1];
  o.E[2] = ph.get_position()[2];
  o.tau_after = ph.get_target_optical_depth();
  const SigSet &s = SIGS[c.sig];
  o.packet_modified = ph.get_direction()[0] != dir0[0] || ph.get_direction()[1] != dir0[1] ||
                      ph.get_direction()[2] != dir0[2] || ph.get_weight() != s.weight ||
                      ph.get_energy() != s.energy ||
                      ph.get_photoionization_cross_section(ION_H_n) != s.sigH;
  return o;
}

/// the oracle for one traversal; path = exact march for (one choice of) the
/// start cell. Returns the first failing check.
static Failure oracle(DensitySubGrid &grid, const Ctx &c, const xm::Path &path, int method,
                      double target, const Obs &o, bool full_ions, double &ratio,
                      bool &class_subset) {
  Failure F;
  const SigSet &s = SIGS[c.sig];
  const int *n = c.b.n;
  class_subset = false;
  if (o.out < 0 || o.out >= 27) {
    F.what = "bad-return";
    F.detail = fmt("returned direction %d", o.out);
    return F;
  }
  if (!std::isfinite(o.tau_after) || !std::isfinite(o.E[0]) || !std::isfinite(o.E[1]) || !std::isfinite(o.E[2])) {
    F.what = "non-finite";
    F.detail = fmt("end=(%g,%g,%g) remaining depth %g", o.E[0], o.E[1], o.E[2], o.tau_after);
    return F;
  }
  if (o.packet_modified) {
    F.what = "packet-modified";
    F.detail = "direction/weight/energy/cross section of the packet changed";
    return F;
  }
  // --- end point on the ray ------------------------------------------------
  LD e[3], L = 0;
  for (int i = 0; i < 3; ++i) {
    e[i] = (LD)o.E[i] - (LD)c.A->a[i] - c.p0rel[i];
    L += e[i] * c.u[i];
  }
  LD perp2 = 0, straight2 = 0;
  for (int i = 0; i < 3; ++i) {
    const LD r = e[i] - L * c.u[i];
    perp2 += r * r;
    straight2 += e[i] * e[i];
  }
  const LD perp = sqrtl(perp2), straight = sqrtl(straight2);
  const LD Ltot = path.total_length();
  upd(ratio, perp, c.tolpos);
  if (!(perp <= c.tolpos && L >= -c.tolpos && L <= Ltot + c.tolpos)) {
    F.what = "endpoint-off-ray";
    F.detail = fmt("end=(%.17g,%.17g,%.17g) distance from ray %.3Lg, along ray %.17Lg, block "
                   "chord %.17Lg",
                   o.E[0], o.E[1], o.E[2], perp, L, Ltot);
    return F;
  }
  // --- exact per cell path up to the reported end point ----------------------
  LD explen[64];
  for (int i = 0; i < c.ncell; ++i)
    explen[i] = 0;
  LD tau_march = 0, tau_total = 0, tau_cum_end = 0, kappa_end = 0;
  {
    LD cum = 0;
    bool past = false;
    for (size_t k = 0; k < path.segs.size(); ++k) {
      const xm::Seg &sg = path.segs[k];
      const int idx = (int)((sg.c[0] * n[1] + sg.c[1]) * n[2] + sg.c[2]);
      const LD sin = path.length(sg.Tin), sout = path.length(sg.Tout);
      const LD kap = c.kappa[idx];
      tau_total += kap * (sout - sin);
      LD len = std::min(sout, L) - sin;
      if (len < 0)
        len = 0;
      explen[idx] += len;
      tau_march += kap * len;
      // opacity next to the reported end point (its position is only known
      // to the length tolerance)
      if (sin - c.tollen <= L && L <= sout + c.tollen)
        kappa_end = std::max(kappa_end, kap);
      if (!past) {
        // depth accumulated by a cell-by-cell march when it handles the cell
        // that contains the end point (magnitude of the terms it subtracts)
        cum += kap * (sout - sin);
        tau_cum_end = cum;
        if (sout >= L + c.tollen)
          past = true;
      }
    }
  }
  const bool deposits = (method == M_INTERACT || method == M_INTERACT_DISPLACED);
  // --- estimators ----------------------------------------------------------------
  LD sum_est_len = 0, tau_est = 0;
  for (int idx = 0; idx < c.ncell; ++idx) {
    DensitySubGrid::iterator it(idx, grid);
    const IonizationVariables &iv = it.get_ionization_variables();
    const LD want_len = deposits ? explen[idx] : 0;
    const int nion = full_ions ? NUMBER_OF_IONNAMES : 4;
    for (int k = 0; k < nion; ++k) {
      const int ion =
          full_ions ? k : (k == 0 ? ION_H_n : (k == 1 ? ION_He_n : (k == 2 ? 2 : NUMBER_OF_IONNAMES - 1)));
      const LD ws = (LD)s.weight * (LD)sigma_of(s, ion);
      const LD want = ws * want_len;
      const LD got = iv.get_mean_intensity(ion);
      const LD tol = ws * c.tollen + 1e-13L * fabsl(want);
      if (ws == 0) {
        if (got != 0) {
          F.what = "percell-path";
          F.detail = fmt("cell %d ion %d has cross section 0 but estimator %.17Lg", idx, ion, got);
          return F;
        }
        continue;
      }
      upd(ratio, got - want, tol);
      if (!(fabsl(got - want) <= tol)) {
        F.what = deposits ? "percell-path" : "estimator-touched";
        F.detail = fmt("cell %d ion %d: estimator/(w*sigma) = %.17Lg, exact path in cell up to the "
                       "reported end point = %.17Lg (diff %.3Lg, tol %.3Lg)",
                       idx, ion, got / ws, want_len, got / ws - want_len, tol / ws);
        return F;
      }
    }
    const LD jH = iv.get_mean_intensity(ION_H_n);
    const LD lest = jH / ((LD)s.weight * (LD)s.sigH);
    sum_est_len += lest;
    tau_est += (LD)c.kappa[idx] * lest;
    // heating
    {
      const LD ex = (LD)s.energy - 3.288e15L;
      const LD want = (LD)s.weight * (LD)s.sigH * want_len * ex;
      const LD got = iv.get_heating(HEATINGTERM_H);
      const LD tol = fabsl(ex) * (LD)s.weight * (LD)s.sigH * c.tollen + 1e-12L * fabsl(want);
      upd(ratio, got - want, tol);
      if (!(fabsl(got - want) <= tol)) {
        F.what = "heating-H";
        F.detail = fmt("cell %d: H heating %.17Lg, expected w*sigma*l*(nu-nu0) = %.17Lg", idx, got, want);
        return F;
      }
    }
#ifdef HAS_HELIUM
    {
      const LD ex = (LD)s.energy - 5.948e15L;
      const LD want = (LD)s.weight * (LD)s.sigHe * want_len * ex;
      const LD got = iv.get_heating(HEATINGTERM_He);
      const LD tol = fabsl(ex) * (LD)s.weight * (LD)s.sigHe * c.tollen + 1e-12L * fabsl(want);
      if (s.sigHe != 0)
        upd(ratio, got - want, tol);
      if (!(fabsl(got - want) <= tol)) {
        F.what = "heating-He";
        F.detail = fmt("cell %d: He heating %.17Lg, expected %.17Lg", idx, got, want);
        return F;
      }
    }
#endif
  }
  if (deposits) {
    upd(ratio, sum_est_len - straight, c.tollen);
    if (!(fabsl(sum_est_len - straight) <= c.tollen)) {
      F.what = "path-sum";
      F.detail = fmt("credited path lengths sum to %.17Lg, straight-line distance start->end is "
                     "%.17Lg",
                     sum_est_len, straight);
      return F;
    }
  }
  // --- optical depth, stop/leave decision -----------------------------------------
  const LD eps = DBL_EPSILON;
  // optical depth error caused by positions/walls that are only known to
  // round-off: none along the chord for exact geometries (only the reported end
  // point is rounded), opacity * quantisation otherwise
  const LD geom_all = c.exact ? 0.L : c.kappa_max * c.tolq;
  const LD geom_end = c.exact ? kappa_end * c.tolq : c.kappa_max * c.tolq;
  if (method == M_TAU) {
    // accumulates the depth of the whole chord onto the incoming value
    const LD got = (LD)o.tau_after - (LD)target;
    const LD tol = 1e-12L * tau_total + 16 * eps * (tau_total + (LD)target) + geom_all;
    upd(ratio, got - tau_total, tol);
    if (!(fabsl(got - tau_total) <= tol)) {
      F.what = "tau-total";
      F.detail = fmt("optical depth of the chord %.17Lg, exact %.17Lg", got, tau_total);
      return F;
    }
    if (o.out == TRAVELDIRECTION_INSIDE) {
      F.what = "exit-class";
      F.detail = "compute_optical_depth reports INSIDE";
      return F;
    }
  }
  const bool absorbed = (o.out == TRAVELDIRECTION_INSIDE);
  if (absorbed) {
    const LD tol0 = 1e-12L * (LD)target + 16 * eps * (tau_cum_end + (LD)target);
    const LD tolg = tol0 + geom_end;
    if (deposits) {
      upd(ratio, tau_est - (LD)target, tol0);
      if (!(fabsl(tau_est - (LD)target) <= tol0)) {
        F.what = "tau-absorbed";
        F.detail = fmt("reported absorbed, sum(n*x*sigma*credited path) = %.17Lg, target %.17g "
                       "(diff %.3Lg, tol %.3Lg)",
                       tau_est, target, tau_est - (LD)target, tol0);
        return F;
      }
    }
    upd(ratio, tau_march - (LD)target, tolg);
    if (!(fabsl(tau_march - (LD)target) <= tolg)) {
      F.what = "tau-absorbed-geom";
      F.detail = fmt("reported absorbed at (%.17g,%.17g,%.17g); exact optical depth start->there "
                     "= %.17Lg, target %.17g (diff %.3Lg, tol %.3Lg)",
                     o.E[0], o.E[1], o.E[2], tau_march, target, tau_march - (LD)target, tolg);
      return F;
    }
    return F;
  }
  // --- left the block -------------------------------------------------------------
  if (method != M_TAU) {
    const LD tol = 1e-12L * (LD)target + 16 * eps * (tau_total + (LD)target) + geom_all;
    if (tau_total > (LD)target + tol) {
      F.what = "not-absorbed";
      F.detail = fmt("packet left the block although the chord has optical depth %.17Lg > target "
                     "%.17g",
                     tau_total, target);
      return F;
    }
    const LD want = (LD)target - tau_total;
    upd(ratio, (LD)o.tau_after - want, tol);
    if (!(fabsl((LD)o.tau_after - want) <= tol)) {
      F.what = "remaining-tau";
      F.detail = fmt("remaining target depth %.17g, expected target - depth = %.17Lg", o.tau_after, want);
      return F;
    }
    if (deposits) {
      const LD used = (LD)target - (LD)o.tau_after;
      const LD tol2 = 1e-12L * (LD)target + 16 * eps * (tau_total + (LD)target);
      upd(ratio, tau_est - used, tol2);
      if (!(fabsl(tau_est - used) <= tol2)) {
        F.what = "tau-used";
        F.detail = fmt("optical depth used up %.17Lg, sum(n*x*sigma*credited path) = %.17Lg", used, tau_est);
        return F;
      }
    }
  }
  // end point = point where the line leaves the block
  for (int i = 0; i < 3; ++i) {
    const LD erel = (LD)o.E[i] - (LD)c.A->a[i];
    upd(ratio, erel - path.exit_pos[i], c.tolpos);
    if (!(fabsl(erel - path.exit_pos[i]) <= c.tolpos)) {
      F.what = "exit-point";
      F.detail = fmt("left the block at (%.17g,%.17g,%.17g) (absolute), the line leaves it at "
                     "(%.17Lg,%.17Lg,%.17Lg) (relative to the block corner)",
                     o.E[0], o.E[1], o.E[2], path.exit_pos[0], path.exit_pos[1], path.exit_pos[2]);
      return F;
    }
  }
  const int *rs = SGN[o.out];
  // reported element: compatible with the direction and containing the exit point
  for (int i = 0; i < 3; ++i) {
    if (rs[i] == 0)
      continue;
    const LD bound = rs[i] > 0 ? (LD)n[i] * (LD)c.G->S[i] * c.G->q : 0.L;
    if (rs[i] * c.b.d[i] <= 0 || !(fabsl(path.exit_pos[i] - bound) <= c.tolpos)) {
      F.what = "exit-class";
      F.detail = fmt("reported exit element %d (%s %d,%d,%d) does not contain the exit point of "
                     "the line (%.17Lg,%.17Lg,%.17Lg); the line crosses element (%d,%d,%d)",
                     o.out, elem_kind(rs), rs[0], rs[1], rs[2], path.exit_pos[0], path.exit_pos[1],
                     path.exit_pos[2], path.exit_sign[0], path.exit_sign[1], path.exit_sign[2]);
      return F;
    }
    if (c.exact) {
      // exact arithmetic: the packet has to sit exactly on the boundary
      const double wall = c.A->a[i] + (rs[i] > 0 ? n[i] * c.G->cs[i] : 0.);
      if (o.E[i] != wall) {
        F.what = "exit-not-on-boundary";
        F.detail = fmt("axis %d: end coordinate %a, boundary %a", i, o.E[i], wall);
        return F;
      }
    }
  }
  const bool same = rs[0] == path.exit_sign[0] && rs[1] == path.exit_sign[1] &&
                    rs[2] == path.exit_sign[2];
  if (!same) {
    if (c.exact) {
      F.what = "exit-class";
      F.detail = fmt("exact tie: reported exit element %d (%d,%d,%d), the line crosses (%d,%d,%d)",
                     o.out, rs[0], rs[1], rs[2], path.exit_sign[0], path.exit_sign[1],
                     path.exit_sign[2]);
      return F;
    }
    class_subset = true; // sub-element within round-off of the exact one
  }
  return F;
}

static std::string replay_json(const Ctx &c, int method, int tkind, double target) {
  const Base &b = c.b;
  return fmt("{\"geom\": %d, \"anch\": %d, \"shape\": [%d, %d, %d], \"h\": [%d, %d, %d], "
             "\"d\": [%d, %d, %d], \"cls\": [%d, %d, %d], \"field\": %d, \"sig\": %d, "
             "\"meth\": %d, \"tk\": %d, \"zs\": %d, \"target\": \"%a\"}",
             b.g, b.a, b.n[0], b.n[1], b.n[2], b.h[0], b.h[1], b.h[2], b.d[0], b.d[1], b.d[2],
             b.cls[0], b.cls[1], b.cls[2], c.field, c.sig, method, tkind, b.zs, target);
}
static std::string case_text(const Ctx &c, int method, int tkind, double target) {
  const Base &b = c.b;
  return fmt("%s block %dx%dx%d cells (%s sizes %g,%g,%g, anchor %s) start=(%.17g,%.17g,%.17g) "
             "[half-cell index %d,%d,%d] dir=(%s%d,%s%d,%s%d)/norm entry=%d(%d,%d,%d) field=%s "
             "sigma=%s target=%a [%s]",
             METHOD_NAMES[method], b.n[0], b.n[1], b.n[2], c.G->name, c.G->cs[0], c.G->cs[1],
             c.G->cs[2], c.A->name, c.p0[0], c.p0[1], c.p0[2], b.h[0], b.h[1], b.h[2],
             (b.zs & 1) ? "-" : "", b.d[0], (b.zs & 2) ? "-" : "", b.d[1], (b.zs & 4) ? "-" : "", b.d[2], c.indir, b.cls[0], b.cls[1], b.cls[2], FIELD_NAMES[c.field],
             SIGS[c.sig].name, target, TKIND_NAMES[tkind]);
}

// alternatives of the start cell: for inexact geometries a ray that runs along
// a cell wall (d==0 on an interior wall) sits on either side of it by
// round-off; both neighbouring cells are accepted (see NOTES.md)
struct StartAlt {
  i64 cell[3];
};
static void start_alternatives(const Base &b, const Geom &G, bool exact, std::vector< StartAlt > &alts) {
  alts.clear();
  i64 base[3];
  bool amb[3] = {false, false, false};
  for (int i = 0; i < 3; ++i) {
    const i64 P = (i64)b.h[i] * G.S[i] / 2;
    if (b.cls[i] < 0)
      base[i] = 0;
    else if (b.cls[i] > 0)
      base[i] = b.n[i] - 1;
    else {
      base[i] = xm::start_cell_axis(P, b.d[i], G.S[i]);
      if (!exact && b.d[i] == 0 && b.h[i] % 2 == 0 && b.h[i] > 0)
        amb[i] = true;
    }
  }
  for (int m = 0; m < 8; ++m) {
    bool ok = true;
    StartAlt s;
    for (int i = 0; i < 3; ++i) {
      const bool low = (m >> i) & 1;
      if (low && !amb[i])
        ok = false;
      s.cell[i] = base[i] - (low ? 1 : 0);
    }
    if (ok)
      alts.push_back(s);
  }
}

struct Runner {
  const Config &cfg;
  Result &R;
  Stats st;
  bool verbose = false;
  uint64_t counter = 0;
  Runner(const Config &c, Result &r) : cfg(c), R(r) {}

  void report(const Ctx &c, int method, int tkind, double target, const Failure &F) {
    const char *ek = elem_kind(c.b.cls);
    const int nz = (c.b.d[0] != 0) + (c.b.d[1] != 0) + (c.b.d[2] != 0);
    std::string key =
        fmt("C02:%s:%s:entry=%s:dir%d%s:%s", METHOD_NAMES[method], F.what.c_str(), ek, nz,
            c.b.zs ? "-negzero" : "", c.exact ? "exact-geometry" : "inexact-geometry");
    R.violation(key, case_text(c, method, tkind, target) + " :: " + F.detail,
                replay_json(c, method, tkind, target));
  }

  /// one traversal of the real code + oracle
  void traverse(DensitySubGrid &grid, Ctx &c, const std::vector< xm::Path > &paths, int method,
                int tkind, double target, bool &dirty) {
    if (dirty) {
      grid.reset_intensities();
      dirty = false;
    }
    PhotonPacket ph;
    Obs o = run_real(grid, c, method, target, ph);
    dirty = true; // also after propagate: a wrong deposit must not leak into the next case
    ++st.evaluations;
    ++st.by_method[method];
    ++counter;
    const bool nontriv = !paths[0].segs.empty();
    if (nontriv)
      ++st.nontrivial;
    else
      ++st.zero_path;
    if (verbose)
      printf("  %s\n   -> out=%d end=(%.17g,%.17g,%.17g) tau_after=%.17g aborted=%d hung=%d\n",
             case_text(c, method, tkind, target).c_str(), o.out, o.E[0], o.E[1], o.E[2],
             o.tau_after, (int)o.aborted, (int)o.hung);
    if (o.aborted || o.hung) {
      Failure F;
      F.what = o.hung ? "no-termination" : "abort";
      F.detail = o.hung ? "the traversal did not return within 2 s (a traversal takes about a microsecond)"
                        : "the traversal called abort() (cmac_error)";
      report(c, method, tkind, target, F);
      return;
    }
    Failure first;
    bool ok = false;
    double ratio = 0;
    bool subset = false;
    const bool full = (counter % (uint64_t)cfg.ion_full_every) == 0;
    // several exact paths only for round-off ambiguous starts (start_alternatives):
    // the best matching one decides
    size_t best = 0;
    const char *what = "";
    for (size_t k = 0; k < paths.size(); ++k) {
      double r = 0;
      bool sub = false;
      Failure F = oracle(grid, c, paths[k], method, target, o, full, r, sub);
      if (!F.fail()) {
        if (!ok || r < ratio) {
          ratio = r;
          subset = sub;
          best = k;
          what = t_ratio_what;
        }
        ok = true;
      } else if (k == 0)
        first = F;
    }
    if (ok && best > 0)
      ++st.tie_alt_used;
    t_ratio_what = what;
    if (!ok) {
      if (verbose)
        printf("   VIOLATION %s: %s\n", first.what.c_str(), first.detail.c_str());
      report(c, method, tkind, target, first);
      return;
    }
    if (verbose)
      printf("   ok (worst error/tolerance %.3g)\n", ratio);
    if (ratio > 0.1)
      ++st.near_tol;
    if (ratio > st.worst_ratio) {
      st.worst_ratio = ratio;
      st.worst_what = std::string(t_ratio_what) + " in " + case_text(c, method, tkind, target);
    }
    if (subset)
      ++st.class_subset_accepted;
    if (method == M_INTERACT) {
      if (o.out == 0)
        ++st.absorbed;
      else
        ++st.escaped;
      const int *rs = SGN[o.out];
      ++st.exits[(rs[0] != 0) + (rs[1] != 0) + (rs[2] != 0)];
    }
  }

  void fill_ctx_geometry(Ctx &c, const Base &b) {
    c.b = b;
    c.G = &GEOMS[b.g];
    c.A = &ANCHORS[b.a];
    c.exact = c.G->dyadic && c.A->dyadic;
    c.ncell = b.n[0] * b.n[1] * b.n[2];
    LD s2 = 0, amax = 0;
    const LD nrm = sqrtl((LD)(b.d[0] * b.d[0] + b.d[1] * b.d[1] + b.d[2] * b.d[2]));
    const double nrmd = std::sqrt((double)(b.d[0] * b.d[0] + b.d[1] * b.d[1] + b.d[2] * b.d[2]));
    for (int i = 0; i < 3; ++i) {
      c.p0[i] = c.A->a[i] + (0.5 * b.h[i]) * c.G->cs[i];
      c.p0rel[i] = (LD)((i64)b.h[i] * c.G->S[i] / 2) * c.G->q;
      c.dir[i] = (b.d[i] == 0 && ((b.zs >> i) & 1)) ? -0. : b.d[i] / nrmd;
      c.u[i] = (LD)b.d[i] / nrm;
      const LD side = (LD)b.n[i] * (LD)c.G->S[i] * c.G->q;
      s2 += side * side;
      amax = std::max(amax, fabsl((LD)c.A->a[i]));
    }
    c.size = sqrtl(s2);
    c.mag = c.size + amax;
    c.tolpos = 1e-12L * c.mag;
    c.tollen = 1e-13L * c.mag;
    c.tolq = 64 * (LD)DBL_EPSILON * c.mag;
    c.indir = dir_of_signs(b.cls);
  }

  void set_field(DensitySubGrid &grid, Ctx &c, int field, int sig) {
    c.field = field;
    c.sig = sig;
    const int *n = c.b.n;
    c.kappa_max = 0;
    for (int ix = 0; ix < n[0]; ++ix)
      for (int iy = 0; iy < n[1]; ++iy)
        for (int iz = 0; iz < n[2]; ++iz) {
          const int idx = (ix * n[1] + iy) * n[2] + iz;
          double dens, xH, xHe;
          field_value(field, n, ix, iy, iz, dens, xH, xHe);
          DensitySubGrid::iterator it(idx, grid);
          IonizationVariables &iv = it.get_ionization_variables();
          iv.set_number_density(dens);
          for (int ion = 0; ion < NUMBER_OF_IONNAMES; ++ion)
            iv.set_ionic_fraction(ion, 0.5);
          iv.set_ionic_fraction(ION_H_n, xH);
          iv.set_ionic_fraction(ION_He_n, xHe);
          c.kappa[idx] = (double)((LD)dens * ((LD)SIGS[sig].sigH * xH + (LD)SIGS[sig].sigHe * xHe));
          c.kappa_max = std::max(c.kappa_max, (LD)c.kappa[idx]);
        }
  }

  /// all fields x sigma sets x targets x methods for one base case
  void run_base(DensitySubGrid &grid, const Base &b, bool &dirty, int only_field = -1,
                int only_sig = -1, int only_method = -1, int only_tk = -1,
                const double *only_target = nullptr) {
    Ctx c;
    fill_ctx_geometry(c, b);
    ++st.base_cases;
    if (b.zs)
      ++st.negzero_base_cases;
    ++st.entries[(b.cls[0] != 0) + (b.cls[1] != 0) + (b.cls[2] != 0)];
    std::vector< StartAlt > alts;
    start_alternatives(b, *c.G, c.exact, alts);
    std::vector< xm::Path > paths(alts.size());
    i64 P[3];
    for (int i = 0; i < 3; ++i)
      P[i] = (i64)b.h[i] * c.G->S[i] / 2;
    for (size_t k = 0; k < alts.size(); ++k)
      xm::march_block(P, b.d, c.G->S, b.n, alts[k].cell, c.G->q, paths[k]);
    const xm::Path &path = paths[0];
    const bool not_inside = (b.cls[0] != 0 || b.cls[1] != 0 || b.cls[2] != 0);
    for (int field : cfg.fields) {
      if (only_field >= 0 && field != only_field)
        continue;
      for (int sig : cfg.sigs) {
        if (only_sig >= 0 && sig != only_sig)
          continue;
        set_field(grid, c, field, sig);
        dirty = true;
        // total optical depth of the chord and depth at the first wall crossing
        LD ttot = 0, tfirst = 0;
        for (size_t k = 0; k < path.segs.size(); ++k) {
          const xm::Seg &sg = path.segs[k];
          const int idx = (int)((sg.c[0] * b.n[1] + sg.c[1]) * b.n[2] + sg.c[2]);
          ttot += (LD)c.kappa[idx] * path.length(sg.Tout - sg.Tin);
          if (k == 0)
            tfirst = ttot;
        }
        double code_total = -1.;
        if (cfg.taumethod && (only_method < 0 || only_method == M_TAU)) {
          const double t_in = 0.375;
          // (run through traverse for the oracle; get the code's own total
          // separately for the "code-total" target)
          traverse(grid, c, paths, M_TAU, K_ONE, only_target && only_method == M_TAU ? *only_target : t_in, dirty);
        }
        if (cfg.taumethod && ttot > 0) {
          PhotonPacket ph;
          Obs o = run_real(grid, c, M_TAU, 0., ph);
          if (!o.aborted && !o.hung)
            code_total = o.tau_after;
        }
        double targets[K_NUM];
        bool use[K_NUM];
        for (int k = 0; k < K_NUM; ++k)
          use[k] = false;
        if (ttot > 0) {
          targets[K_QUARTER] = (double)(0.25L * ttot);
          targets[K_EQUAL] = (double)ttot;
          targets[K_FOURX] = (double)(4.L * ttot);
          targets[K_TINY] = (double)(1e-9L * ttot);
          use[K_QUARTER] = use[K_EQUAL] = use[K_FOURX] = use[K_TINY] = true;
          if (code_total > 0 && code_total != targets[K_EQUAL]) {
            targets[K_CODETOTAL] = code_total;
            use[K_CODETOTAL] = true;
          }
          if (path.segs.size() >= 2 && tfirst > 0 && tfirst < ttot) {
            targets[K_FIRSTWALL] = (double)tfirst;
            use[K_FIRSTWALL] = true;
          }
        } else {
          targets[K_ONE] = 1.;
          targets[K_TINY] = 1e-9;
          use[K_ONE] = use[K_TINY] = true;
        }
        for (int tk = 0; tk < K_NUM; ++tk) {
          if (only_tk >= 0) {
            if (tk != only_tk)
              continue;
            if (only_target) {
              targets[tk] = *only_target;
              use[tk] = true;
            }
          }
          if (!use[tk])
            continue;
          const double target = targets[tk];
          if (only_method < 0 || only_method == M_INTERACT)
            traverse(grid, c, paths, M_INTERACT, tk, target, dirty);
          if (cfg.displaced && not_inside && (tk == K_QUARTER || tk == K_FOURX || tk == K_ONE) &&
              (only_method < 0 || only_method == M_INTERACT_DISPLACED))
            traverse(grid, c, paths, M_INTERACT_DISPLACED, tk, target, dirty);
          if (cfg.propagate && (only_method < 0 || only_method == M_PROPAGATE))
            traverse(grid, c, paths, M_PROPAGATE, tk, target, dirty);
        }
      }
    }
  }

  /// start points exactly on an upper block face with class INSIDE are outside
  /// the half-open precondition (NOTES.md); what the code does with them is
  /// recorded, not judged
  void upper_face_probe(DensitySubGrid &grid, const Base &b0) {
    Base b = b0;
    b.cls[0] = b.cls[1] = b.cls[2] = 0;
    Ctx c;
    fill_ctx_geometry(c, b);
    set_field(grid, c, 0, 0);
    grid.reset_intensities();
    PhotonPacket ph;
    Obs o = run_real(grid, c, M_INTERACT, 1e3, ph);
    ++st.upper_inside_cases;
    // does the straight line enter the block? (every axis on an upper face moves down)
    bool enters = true;
    for (int i = 0; i < 3; ++i)
      if ((b.h[i] == 2 * b.n[i] && b.d[i] >= 0) || (b.h[i] == 0 && b.d[i] < 0))
        enters = false;
    double dep = 0;
    if (!o.aborted && !o.hung)
      for (int idx = 0; idx < c.ncell; ++idx) {
        DensitySubGrid::iterator it(idx, grid);
        dep += it.get_ionization_variables().get_mean_intensity(ION_H_n);
      }
    if (o.aborted || o.hung || (enters && dep == 0.))
      ++st.upper_inside_lost;
    grid.reset_intensities();
  }
};

static DensitySubGrid *make_grid(const Geom &G, const Anchor &A, const int n[3]) {
  double box[6] = {A.a[0], A.a[1], A.a[2], n[0] * G.cs[0], n[1] * G.cs[1], n[2] * G.cs[2]};
  return new DensitySubGrid(box, CoordinateVector< int_fast32_t >(n[0], n[1], n[2]));
}

/// enumerate every compatible entry class of a start point / direction
template < typename F > static void for_each_class(const int n[3], const int h[3], const int d[3], F f) {
  int opt[3][2], nopt[3];
  for (int i = 0; i < 3; ++i) {
    nopt[i] = 0;
    if (h[i] == 0 && d[i] > 0)
      opt[i][nopt[i]++] = -1; // enters through the lower face of this axis
    if (h[i] == 2 * n[i] && d[i] < 0)
      opt[i][nopt[i]++] = 1; // enters through the upper face
    if (h[i] < 2 * n[i])
      opt[i][nopt[i]++] = 0; // coordinate inside the half-open block
  }
  for (int a = 0; a < nopt[0]; ++a)
    for (int b = 0; b < nopt[1]; ++b)
      for (int c = 0; c < nopt[2]; ++c) {
        int cls[3] = {opt[0][a], opt[1][b], opt[2][c]};
        f(cls);
      }
}

struct Item {
  int g, a, n[3], h[3];
};

static void parse3(const std::string &s, int v[3]) {
  if (sscanf(s.c_str(), " [ %d , %d , %d", &v[0], &v[1], &v[2]) != 3) {
    fprintf(stderr, "cannot parse triple '%s'\n", s.c_str());
    exit(2);
  }
}

int main(int argc, char **argv) {
  Args A = parse_args(argc, argv);
  Result R(A);
  Config cfg;
  const std::string subset = A.get("subset", "full");
  if (subset == "asan") {
    // memory-checked build: reduced alphabet (every shape/start/direction/class,
    // fewer fields and geometries)
    cfg.geoms = {1};
    cfg.anchors = {0};
    cfg.fields = {4};
    cfg.sigs = {1};
    if (A.thorough()) {
      cfg.geoms = {1, 2};
      cfg.fields = {1, 4};
    }
  } else if (A.thorough()) {
    cfg.nmax_big = 4;
    cfg.geoms = {0, 1, 2};
    cfg.anchors = {0, 1, 2};
    cfg.fields = {0, 1, 2, 3, 4};
    cfg.sigs = {0, 1};
  } else {
    cfg.geoms = {0, 1, 2};
    cfg.anchors = {0};
    cfg.fields = {0, 1, 2, 3, 4};
    cfg.sigs = {0, 1};
  }
  R.rule = "one evaluation = one traversal of the real code (interact / interact with displaced "
           "entry coordinates / propagate / compute_optical_depth) checked against the exact "
           "marcher; all enumerated (geometry, anchor, shape, start, direction, entry class, "
           "field, cross sections, target, method) tuples are distinct by construction; "
           "non-trivial = the exact chord through the block has positive length";

  hg::start(2000);
  // ------------------------------------------------------------------ replay
  if (!A.replay.empty()) {
    const std::string txt = read_file(A.replay);
    Base b;
    b.g = atoi(replay_field(txt, "geom").c_str());
    b.a = atoi(replay_field(txt, "anch").c_str());
    parse3(replay_field(txt, "shape"), b.n);
    parse3(replay_field(txt, "h"), b.h);
    parse3(replay_field(txt, "d"), b.d);
    parse3(replay_field(txt, "cls"), b.cls);
    const int field = atoi(replay_field(txt, "field").c_str());
    const int sig = atoi(replay_field(txt, "sig").c_str());
    const int meth = atoi(replay_field(txt, "meth").c_str());
    const int tk = atoi(replay_field(txt, "tk").c_str());
    b.zs = atoi(replay_field(txt, "zs").c_str());
    const double target = strtod(replay_field(txt, "target").c_str(), nullptr);
    cfg.fields = {field};
    cfg.sigs = {sig};
    Runner run(cfg, R);
    run.verbose = true;
    DensitySubGrid *grid = make_grid(GEOMS[b.g], ANCHORS[b.a], b.n);
    bool dirty = true;
    printf("replaying one C02 case\n");
    run.run_base(*grid, b, dirty, field, sig, meth, tk, &target);
    delete grid;
    R.evaluations = run.st.evaluations;
    R.nontrivial = run.st.nontrivial;
    printf("%" PRIu64 " violation(s)\n", R.violation_count);
    return R.finish(A);
  }

  // ------------------------------------------------------------- enumeration
  std::vector< Item > items;
  for (int g : cfg.geoms)
    for (int a : cfg.anchors) {
      // the inexact anchor is only combined with the inexact geometry (both
      // exercise round-off in position - anchor; the dyadic ones are exact)
      if (!ANCHORS[a].dyadic && GEOMS[g].dyadic)
        continue;
      const int nmax = (g == 1 && a == 0) ? cfg.nmax_big : cfg.nmax;
      for (int nx = 1; nx <= nmax; ++nx)
        for (int ny = 1; ny <= nmax; ++ny)
          for (int nz = 1; nz <= nmax; ++nz)
            for (int hx = 0; hx <= 2 * nx; ++hx)
              for (int hy = 0; hy <= 2 * ny; ++hy)
                for (int hz = 0; hz <= 2 * nz; ++hz)
                  items.push_back(Item{g, a, {nx, ny, nz}, {hx, hy, hz}});
    }
  const size_t nitems = items.size();
  const size_t rot = nitems ? (size_t)((uint64_t)A.seed * 7919u % nitems) : 0;
  Stats total;
  bool cut = false;
  size_t items_done = 0;
  const uint64_t max_viol = 20000;
#pragma omp parallel
  {
    Runner run(cfg, R);
#pragma omp for schedule(dynamic, 4)
    for (size_t ii = 0; ii < nitems; ++ii) {
      if (cut)
        continue;
      if (R.out_of_time() || R.violation_count > max_viol || hg::g_hangs.load() > 30) {
        cut = true;
        continue;
      }
      const Item &it = items[(ii + rot) % nitems];
      DensitySubGrid *grid = make_grid(GEOMS[it.g], ANCHORS[it.a], it.n);
      bool dirty = true;
      bool on_upper = false;
      for (int i = 0; i < 3; ++i)
        if (it.h[i] == 2 * it.n[i])
          on_upper = true;
      for (int dx = -2; dx <= 2; ++dx)
        for (int dy = -2; dy <= 2; ++dy)
          for (int dz = -2; dz <= 2; ++dz) {
            if (!dx && !dy && !dz)
              continue;
            Base b;
            b.g = it.g;
            b.a = it.a;
            for (int i = 0; i < 3; ++i) {
              b.n[i] = it.n[i];
              b.h[i] = it.h[i];
            }
            b.d[0] = dx;
            b.d[1] = dy;
            b.d[2] = dz;
            // every sign-bit combination of the zero components (+0.0 / -0.0):
            // a zero component contributes no motion whatever its sign
            const int zmask = (dx == 0 ? 1 : 0) | (dy == 0 ? 2 : 0) | (dz == 0 ? 4 : 0);
            for (int zs = 0; zs < 8; ++zs) {
              if (zs & ~zmask)
                continue;
              b.zs = zs;
              for_each_class(b.n, b.h, b.d, [&](const int cls[3]) {
                b.cls[0] = cls[0];
                b.cls[1] = cls[1];
                b.cls[2] = cls[2];
                run.run_base(*grid, b, dirty);
              });
            }
            b.zs = 0;
            if (on_upper && it.g == 0 && it.a == 0 && subset != "asan")
              run.upper_face_probe(*grid, b);
          }
      delete grid;
#pragma omp atomic
      ++items_done;
    }
#pragma omp critical
    total.merge(run.st);
  }
  if (cut) {
    if (hg::g_hangs.load() > 30)
      R.cap("stopped after more than 30 traversals that did not terminate");
    else if (R.violation_count > max_viol)
      R.cap(fmt("stopped after more than %" PRIu64 " violations", max_viol));
    else
      R.hit_deadline(fmt("%zu of %zu (geometry, anchor, shape, start point) items done", items_done, nitems));
  }
  R.evaluations = total.evaluations;
  R.nontrivial = total.nontrivial;
  R.set("base_cases_start_dir_class", (double)total.base_cases);
  R.set("base_cases_with_negative_zero_direction_component", (double)total.negzero_base_cases);
  R.set("items_geometry_shape_start", (double)nitems);
  for (int m = 0; m < M_NUM; ++m)
    R.set(std::string("traversals_") + METHOD_NAMES[m], (double)total.by_method[m]);
  R.set("interact_absorbed", (double)total.absorbed);
  R.set("interact_left_block", (double)total.escaped);
  R.set("interact_exit_face", (double)total.exits[1]);
  R.set("interact_exit_edge", (double)total.exits[2]);
  R.set("interact_exit_corner", (double)total.exits[3]);
  R.set("entry_inside", (double)total.entries[0]);
  R.set("entry_face", (double)total.entries[1]);
  R.set("entry_edge", (double)total.entries[2]);
  R.set("entry_corner", (double)total.entries[3]);
  R.set("zero_length_chords", (double)total.zero_path);
  R.set("within_10x_of_tolerance", (double)total.near_tol);
  R.set("worst_error_over_tolerance", total.worst_ratio);
  R.set_str("worst_error_over_tolerance_quantity", total.worst_what);
  R.set("accepted_by_wall_side_alternative", (double)total.tie_alt_used);
  R.set("accepted_exit_subelement_within_roundoff", (double)total.class_subset_accepted);
  R.set("info_upper_face_INSIDE_starts_probed", (double)total.upper_inside_cases);
  R.set("info_upper_face_INSIDE_starts_path_lost", (double)total.upper_inside_lost);
  R.set_str("tolerances", "positions 1e-12*(block diagonal+|anchor|), path lengths 1e-13*(same), "
                          "optical depth 1e-12*target + 16 eps (depth to end of stop cell + target) "
                          "+ opacity * 64 eps * (block diagonal+|anchor|) where a position is rounded");
  R.assumptions.push_back(
      "start points with class INSIDE lie in the half-open block [lower, upper) per axis (sources "
      "are assigned with floor(), continuous sources clamp below the upper face); upper faces "
      "occur only as entry elements with an inward direction");
 R.sample(fmt("{\"shapes\": \"(1..%d)^3 (dyadic geometry, zero anchor: (1..%d)^3)\", \"geometries\": %zu, \"anchors\": %zu, \"fields\": %zu, "
               "\"sigma_sets\": %zu, \"directions\": \"124 integer directions, 208 with the sign-bit variants of zero components\"}",
               cfg.nmax, cfg.nmax_big, cfg.geoms.size(), cfg.anchors.size(), cfg.fields.size(), cfg.sigs.size()));
  return R.finish(A);
}
