# C02 harness executables (name, sources, flavour, extra compile flags, extra link flags)
$(eval $(call HARNESS,c02_pathdeposit,$(V)/harness/C02/c02_pathdeposit.cpp,plain,-fopenmp -I$(V)/harness/C02,))
$(eval $(call HARNESS,c02_pathdeposit_asan,$(V)/harness/C02/c02_pathdeposit.cpp,asan,-fopenmp -I$(V)/harness/C02,))
