// C03 part (i): the direction tables against the independent sign table.
#ifndef C03_TABLES_HPP
#define C03_TABLES_HPP
#include "c03_common.hpp"

static void run_tables(Result &R, const Args &A) {
  uint64_t ev = 0;
  // ---- outgoing -> incoming: opposite element, involution -------------------
  for (int o = 0; o < 27; ++o) {
    int i = -99, back = -99;
    bool ab;
    GUARDED(ab, i = TravelDirections::output_to_input_direction(o));
    ++ev;
    if (ab || i < 0 || i >= 27) {
      R.violation(fmt("C03:tables:output_to_input:invalid:%s", DIRNAME[o]),
                  fmt("output_to_input_direction(%d) -> %d (abort=%d)", o, i, (int)ab),
                  fmt("{\"what\": \"tables\", \"sub\": \"o2i\", \"o\": %d}", o));
      continue;
    }
    if (i != opposite_dir(o))
      R.violation(fmt("C03:tables:output_to_input:not-opposite:%s", DIRNAME[o]),
                  fmt("what leaves through %s enters through %s, the opposite element is %s",
                      DIRNAME[o], DIRNAME[i], DIRNAME[opposite_dir(o)]),
                  fmt("{\"what\": \"tables\", \"sub\": \"o2i\", \"o\": %d}", o));
    GUARDED(ab, back = TravelDirections::output_to_input_direction(i));
    ++ev;
    if (ab || back != o)
      R.violation(fmt("C03:tables:output_to_input:not-involution:%s", DIRNAME[o]),
                  fmt("o2i(o2i(%s)) = %d", DIRNAME[o], back),
                  fmt("{\"what\": \"tables\", \"sub\": \"o2i\", \"o\": %d}", o));
  }
  // ---- compatibility of a direction vector with an exit / entry element -----
  // per axis values: generic, smallest subnormal, both zeros
  const double V[6] = {-1., -4.9406564584124654e-324, -0., 0., 4.9406564584124654e-324, 0.3};
  for (int o = 0; o < 27; ++o)
    for (int a = 0; a < 6; ++a)
      for (int b = 0; b < 6; ++b)
        for (int c = 0; c < 6; ++c) {
          const double v[3] = {V[a], V[b], V[c]};
          bool want_out = true, want_in = true;
          for (int k = 0; k < 3; ++k) {
            const int sg = v[k] > 0 ? 1 : (v[k] < 0 ? -1 : 0);
            if (SGN[o][k] != 0 && sg * SGN[o][k] <= 0)
              want_out = false; // leaves through an upper element only when moving up
            if (SGN[o][k] != 0 && sg * SGN[o][k] >= 0)
              want_in = false; // enters through an upper element only when moving down
          }
          bool got_out = false, got_in = false, ab1, ab2;
          const CoordinateVector<> d(v[0], v[1], v[2]);
          GUARDED(ab1, got_out = TravelDirections::is_compatible_output_direction(d, o));
          GUARDED(ab2, got_in = TravelDirections::is_compatible_input_direction(d, o));
          ev += 2;
          if (ab1 || got_out != want_out)
            R.violation(fmt("C03:tables:is_compatible_output:%s", DIRNAME[o]),
                        fmt("direction signs (%g,%g,%g): got %d, expected %d (abort=%d)", v[0], v[1],
                            v[2], (int)got_out, (int)want_out, (int)ab1),
                        fmt("{\"what\": \"tables\", \"sub\": \"compat\", \"o\": %d, \"a\": %d, \"b\": %d, \"c\": %d}", o, a, b, c));
          if (ab2 || got_in != want_in)
            R.violation(fmt("C03:tables:is_compatible_input:%s", DIRNAME[o]),
                        fmt("direction signs (%g,%g,%g): got %d, expected %d (abort=%d)", v[0], v[1],
                            v[2], (int)got_in, (int)want_in, (int)ab2),
                        fmt("{\"what\": \"tables\", \"sub\": \"compat\", \"o\": %d, \"a\": %d, \"b\": %d, \"c\": %d}", o, a, b, c));
        }
  // ---- condition mask -> exit element --------------------------------------------
  for (int m = -1; m <= 64; ++m) {
    const int xh = (m >> 5) & 1, xl = (m >> 4) & 1, yh = (m >> 3) & 1, yl = (m >> 2) & 1,
              zh = (m >> 1) & 1, zl = m & 1;
    const bool valid = m >= 0 && m < 64 && !(xh && xl) && !(yh && yl) && !(zh && zl);
    const int want = valid ? dir_of_signs(xh - xl, yh - yl, zh - zl) : -1;
    int got = -99;
    bool ab;
    GUARDED(ab, got = TravelDirections::get_output_direction(m));
    ++ev;
    if (ab || got != want)
      R.violation(fmt("C03:tables:get_output_direction:mask%d", m),
                  fmt("mask %d -> %d, expected %d (%s)", m, got, want, want >= 0 ? DIRNAME[want] : "invalid"),
                  fmt("{\"what\": \"tables\", \"sub\": \"mask\", \"m\": %d}", m));
  }
  // ---- per block: index triple -> exit element, entry re-positioning, start cell --
  for (int g = 0; g < 3; ++g) {
    const Geom &G = GEOMS[g];
    for (int nx = 1; nx <= 3; ++nx)
      for (int ny = 1; ny <= 3; ++ny)
        for (int nz = 1; nz <= 3; ++nz) {
          const int n[3] = {nx, ny, nz};
          double box[6] = {G.anchor[0], G.anchor[1], G.anchor[2], nx * G.cs[0], ny * G.cs[1], nz * G.cs[2]};
          DensitySubGrid grid(box, CoordinateVector< int_fast32_t >(nx, ny, nz));
          const std::string rp = fmt("{\"what\": \"tables\", \"sub\": \"block\", \"g\": %d, \"n\": [%d, %d, %d]}", g, nx, ny, nz);
          for (int ix = -1; ix <= nx; ++ix)
            for (int iy = -1; iy <= ny; ++iy)
              for (int iz = -1; iz <= nz; ++iz) {
                const int want = dir_of_signs(ix < 0 ? -1 : (ix >= nx), iy < 0 ? -1 : (iy >= ny), iz < 0 ? -1 : (iz >= nz));
                int got = -99;
                bool ab;
                GUARDED(ab, got = grid.get_output_direction(CoordinateVector< int_fast32_t >(ix, iy, iz)));
                ++ev;
                if (ab || got != want)
                  R.violation(fmt("C03:tables:subgrid-exit-class:%s", DIRNAME[want]),
                              fmt("block %dx%dx%d index (%d,%d,%d) -> %d, expected %s", nx, ny, nz, ix, iy, iz, got, DIRNAME[want]), rp);
              }
          // entry re-positioning and start cell for every class and every
          // lattice point of the entry element
          for (int o = 0; o < 27; ++o)
            for (int hx = 0; hx <= 2 * nx; ++hx)
              for (int hy = 0; hy <= 2 * ny; ++hy)
                for (int hz = 0; hz <= 2 * nz; ++hz) {
                  const int h[3] = {hx, hy, hz};
                  bool on = true;
                  for (int k = 0; k < 3; ++k) {
                    if (SGN[o][k] > 0 && h[k] != 2 * n[k])
                      on = false;
                    if (SGN[o][k] < 0 && h[k] != 0)
                      on = false;
                    if (SGN[o][k] == 0 && h[k] == 2 * n[k])
                      on = false; // half-open block for free coordinates
                  }
                  if (!on)
                    continue;
                  // relative position; fixed coordinates displaced by a period
                  // (as after a periodic wrap): they must be put on the element
                  double rel[3], disp[3];
                  for (int k = 0; k < 3; ++k) {
                    rel[k] = (0.5 * h[k]) * G.cs[k];
                    disp[k] = SGN[o][k] != 0 ? rel[k] - SGN[o][k] * 7. * n[k] * G.cs[k] : rel[k];
                  }
                  CoordinateVector<> p(disp[0], disp[1], disp[2]);
                  bool ab;
                  GUARDED(ab, grid.update_photon_position(o, p));
                  ++ev;
                  bool bad = ab;
                  for (int k = 0; k < 3 && !bad; ++k) {
                    const double want = SGN[o][k] > 0 ? n[k] * (box[3 + k] / n[k]) : (SGN[o][k] < 0 ? 0. : rel[k]);
                    if (std::fabs(p[k] - want) > 4 * DBL_EPSILON * std::fabs(want))
                      bad = true;
                  }
                  if (bad)
                    R.violation(fmt("C03:tables:entry-reposition:%s", DIRNAME[o]),
                                fmt("block %dx%dx%d (%s) entering through %s at lattice point (%d,%d,%d)/2: "
                                    "position after update_photon_position (%.17g,%.17g,%.17g) (abort=%d)",
                                    nx, ny, nz, G.name, DIRNAME[o], hx, hy, hz, p[0], p[1], p[2], (int)ab), rp);
                  // start cell
                  CoordinateVector< int_fast32_t > ti(-9, -9, -9);
                  int one = -99;
                  GUARDED(ab, one = grid.get_start_index(CoordinateVector<>(rel[0], rel[1], rel[2]), o, ti));
                  ++ev;
                  bad = ab;
                  int wantc[3];
                  for (int k = 0; k < 3; ++k) {
                    wantc[k] = SGN[o][k] > 0 ? n[k] - 1 : (SGN[o][k] < 0 ? 0 : h[k] / 2);
                    // inexact geometry: a free coordinate exactly on a cell wall may
                    // round into the lower cell
                    const bool wall = (h[k] % 2 == 0) && h[k] > 0 && SGN[o][k] == 0;
                    if (ti[k] != wantc[k] && !(wall && !G.exact && ti[k] == wantc[k] - 1))
                      bad = true;
                  }
                  if (!bad && one != (ti[0] * ny + ti[1]) * nz + ti[2])
                    bad = true;
                  if (bad)
                    R.violation(fmt("C03:tables:start-cell:%s", DIRNAME[o]),
                                fmt("block %dx%dx%d (%s) entering through %s at lattice point (%d,%d,%d)/2: start "
                                    "cell (%d,%d,%d) index %d, expected (%d,%d,%d) (abort=%d)",
                                    nx, ny, nz, G.name, DIRNAME[o], hx, hy, hz, (int)ti[0], (int)ti[1], (int)ti[2], one,
                                    wantc[0], wantc[1], wantc[2], (int)ab), rp);
                  // hand-over geometry: the neighbouring block on the other side
                  // of element o sees the same physical point on its element o2i(o)
                  if (o > 0 && G.exact) {
                    const int out = opposite_dir(o);
                    int in = -1;
                    GUARDED(ab, in = TravelDirections::output_to_input_direction(out));
                    CoordinateVector<> pa(rel[0], rel[1], rel[2]);
                    bool ab3 = false;
                    if (!ab && in >= 0 && in < 27)
                      GUARDED(ab3, grid.update_photon_position(in, pa));
                    ++ev;
                    if (ab || ab3 || in != o || pa[0] != rel[0] || pa[1] != rel[1] || pa[2] != rel[2])
                      R.violation(fmt("C03:tables:handover-position:%s", DIRNAME[o]),
                                  fmt("block %dx%dx%d (%s): a packet leaving the neighbour through %s enters here through %d "
                                      "and is moved from (%.17g,%.17g,%.17g) to (%.17g,%.17g,%.17g)",
                                      nx, ny, nz, G.name, DIRNAME[out], in, rel[0], rel[1], rel[2], pa[0], pa[1], pa[2]), rp);
                  }
                }
        }
  }
  R.evaluations += ev;
  R.nontrivial += ev;
  R.sample("{\"part\": \"tables\", \"elements\": 27, \"direction_vectors\": 216, \"masks\": 66, \"blocks\": \"(1..3)^3 x 3 geometries\"}");
  R.set("table_entries_checked", (double)ev);
}
#endif
