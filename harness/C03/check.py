CHECK = {
    "id": "C03",
    "level": "exploration",
    "engine": "E3",
    "technique": "bounded-exhaustive enumeration: all entries of the direction tables against an independent "
                 "sign-triple table; neighbour/copy wiring of the real DensitySubGridCreator for all layouts (1..3)^3 x 8 "
                 "periodicities x all copy-level assignments over {0..4} of the small layouts; a packet lattice traced by a sequential "
                 "hand-over loop through every layout dividing a 4^3 (thorough also 6^3) cell grid x 8 periodicities, "
                 "compared per cell with the single-block run and with an exact integer ray marcher on the unfolded lattice",
    "level_text": "(i) every output of output_to_input_direction, is_compatible_* on 27 elements x 6^3 signed direction "
                  "vectors (incl. signed zeros and subnormals), get_output_direction on all masks, the block-level index->exit "
                  "element, entry re-positioning and start-cell functions for all 27 classes on all blocks (1..3)^3; (ii) all 27 "
                  "layouts x 8 periodicities (x 1 or 2 cells per subgrid): 27 neighbours of every subgrid, mutuality, face "
                  "neighbour list, subgrid boxes, position->subgrid; all 5^NS copy-level assignments over {0,1,2,3,4} for "
                  "layouts with <= 4 subgrids (level differences up to 4 in both directions between touching subgrids) and, for "
                  "2x2x2, all 3^8 over {0,1,2} (quick: the caller-restricted ones) plus 56 assignments with levels 3 and 4 "
                  "(checkerboards, one high-level subgrid in a low-level sea): originals/copies tables, neighbours of copies, "
                  "one-to-one pairing of equal levels, folding with distinct powers of two per copy, state push, and "
                  "update_copies from other assignments against a fresh create_copies; (iii) every layout dividing the cell grid "
                  "x 8 periodicities x three geometries (exact dyadic and inexact non-dyadic with non-zero anchors) x density "
                  "fields x all half-cell lattice start points of the half-open box x 124 directions x 2 target depths; zero "
                  "direction components are handed over as +0.0 or -0.0 in a fixed pattern over the packet lattice. "
                  "Nothing is sampled; the continuum of packets is represented by that lattice (exhaustive refers to it).",
    "level_note": "Targets are irrational multiples of the first chord's optical depth so that absorption never ties with a "
                  "cell wall (ties are C02's subject and would make two correct floating-point runs differ); rays running "
                  "exactly along a cell wall are skipped in the inexact geometry (round-off decides the side, differently per "
                  "decomposition) and counted; vacuum orbits that never end in a periodic box are skipped and counted. End "
                  "positions are compared modulo the box length on periodic axes.",
    "quick_deadline": 110,
    "thorough_deadline": 1100,
    "parts": [
        {"name": "tables", "bin": "c03_layout", "args": ["--what", "tables"], "share": 0.2},
        {"name": "wiring", "bin": "c03_layout", "args": ["--what", "wiring"], "share": 1.0},
        {"name": "tracing", "bin": "c03_layout", "args": ["--what", "tracing"], "share": 3.0},
        {"name": "tracing6", "bin": "c03_layout", "args": ["--what", "tracing", "--grid", "6"], "share": 5.0,
         "tiers": ["thorough"]},
        {"name": "all_asan", "bin": "c03_layout_asan", "args": ["--what", "all", "--grid", "asan"], "share": 2.0},
    ],
    "assumptions": [],
}
