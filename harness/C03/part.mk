# C03 harness executables (name, sources, flavour, extra compile flags, extra link flags)
$(eval $(call HARNESS,c03_layout,$(V)/harness/C03/c03_layout.cpp,plain,-fopenmp -fno-access-control -I$(V)/harness/C03,))
$(eval $(call HARNESS,c03_layout_asan,$(V)/harness/C03/c03_layout.cpp,asan,-fopenmp -fno-access-control -I$(V)/harness/C03,))
