// C03 shared helpers: abort interposition, independent sign table of the 27
// travel directions, geometry alphabets, small per-thread statistics.
#ifndef C03_COMMON_HPP
#define C03_COMMON_HPP

#include "DensitySubGrid.hpp"
#include "DensitySubGridCreator.hpp"
#include "DensityFunction.hpp"
#include "TravelDirections.hpp"
#include "../C02/exact_marcher.hpp"
#include "../C02/hang_guard.hpp"
#include "verif_common.hpp"

#include <algorithm>
#include <array>
#include <cfloat>
#include <set>
#include <csetjmp>
#include <csignal>
#include <map>
#include <omp.h>

using namespace verif;
typedef long double LD;
using xm::i64;

// cmac_error ends in abort(): a call that aborts (or never returns, see
// ../C02/hang_guard.hpp) is an observation
extern "C" __attribute__((noreturn)) void abort(void) noexcept {
  hg::on_abort();
  signal(SIGABRT, SIG_DFL);
  raise(SIGABRT);
  _exit(134);
}
static thread_local int t_guard_rc = 0; // 0 ok, 1 abort(), 2 did not return in time
// run `stmt`; `aborted` tells whether it ended in abort() or was cut off by the hang guard
#define GUARDED(aborted, stmt)                                                                     \
  {                                                                                                \
    sigjmp_buf jb_;                                                                                \
    t_guard_rc = sigsetjmp(jb_, 0);                                                                \
    aborted = (t_guard_rc != 0);                                                                   \
    if (t_guard_rc == 0) {                                                                         \
      hg::enter(&jb_);                                                                             \
      stmt;                                                                                        \
      hg::leave();                                                                                 \
    }                                                                                              \
  }

// independent sign table written from the enum documentation: +1 upper limit,
// -1 lower limit, 0 free coordinate ("(1,1,0) corner", "(:,0,1) edge", "x=1 face")
static const int SGN[27][3] = {
    {0, 0, 0},                                                     // INSIDE
    {1, 1, 1},   {1, 1, -1},  {1, -1, 1},  {1, -1, -1},            // corners P..
    {-1, 1, 1},  {-1, 1, -1}, {-1, -1, 1}, {-1, -1, -1},           // corners N..
    {0, 1, 1},   {0, 1, -1},  {0, -1, 1},  {0, -1, -1},            // x edges (y,z)
    {1, 0, 1},   {1, 0, -1},  {-1, 0, 1},  {-1, 0, -1},            // y edges (x,z)
    {1, 1, 0},   {1, -1, 0},  {-1, 1, 0},  {-1, -1, 0},            // z edges (x,y)
    {1, 0, 0},   {-1, 0, 0},  {0, 1, 0},   {0, -1, 0},  {0, 0, 1}, {0, 0, -1}};
static const char *DIRNAME[27] = {
    "INSIDE",    "CORNER_PPP", "CORNER_PPN", "CORNER_PNP", "CORNER_PNN", "CORNER_NPP", "CORNER_NPN",
    "CORNER_NNP", "CORNER_NNN", "EDGE_X_PP",  "EDGE_X_PN",  "EDGE_X_NP",  "EDGE_X_NN",  "EDGE_Y_PP",
    "EDGE_Y_PN", "EDGE_Y_NP",  "EDGE_Y_NN",  "EDGE_Z_PP",  "EDGE_Z_PN",  "EDGE_Z_NP",  "EDGE_Z_NN",
    "FACE_X_P",  "FACE_X_N",   "FACE_Y_P",   "FACE_Y_N",   "FACE_Z_P",   "FACE_Z_N"};
static int dir_of_signs(int a, int b, int c) {
  for (int i = 0; i < 27; ++i)
    if (SGN[i][0] == a && SGN[i][1] == b && SGN[i][2] == c)
      return i;
  return -1;
}
static int opposite_dir(int o) { return dir_of_signs(-SGN[o][0], -SGN[o][1], -SGN[o][2]); }

struct Geom {
  const char *name;
  double cs[3]; // physical cell size
  i64 S[3];     // cell size in lattice units (half cell = S/2)
  LD q;         // physical length of a lattice unit
  double anchor[3];
  bool exact; // all arithmetic of the code exact (dyadic sizes and anchor)
};
static const Geom GEOMS[3] = {
    {"unit@0", {1., 1., 1.}, {2, 2, 2}, 0.5L, {0., 0., 0.}, true},
    {"dyadic@(-2,1.5,64)", {1., 0.5, 0.25}, {8, 4, 2}, 0.125L, {-2., 1.5, 64.}, true},
    {"nondyadic@(0.1,-0.7,12.3)", {0.1, 0.3, 0.7}, {2, 6, 14}, 0.05L, {0.1, -0.7, 12.3}, false}};

static int wrapi(int v, int n) { return ((v % n) + n) % n; }

#endif
