// C03 part (iii): packets traced through a cell grid split into every layout
// that divides it x 8 periodicities, handed from subgrid to subgrid exactly as
// PhotonTraversalTaskContext does (neighbour table + output_to_input_direction),
// compared per cell with the single-block run; the single-block run itself is
// compared with the exact marcher on the periodically unfolded lattice.
#ifndef C03_TRACING_HPP
#define C03_TRACING_HPP
#include "c03_common.hpp"
#include "c03_wiring.hpp"

static const int T_NFIELD = 3;
static const char *T_FIELDS[T_NFIELD] = {"graded", "checker-empty", "uniform"};
static void t_field(int f, int N, int ix, int iy, int iz, double &dens, double &xH, double &xHe) {
  const int idx = (ix * N + iy) * N + iz;
  if (f == 0) {
    dens = 1. + 0.25 * (idx % 11) + 0.125 * (idx % 7);
    xH = 0.25 + 0.125 * (idx % 5);
    xHe = 0.0625 * (1 + idx % 7);
  } else if (f == 1) {
    if (((ix + iy + iz) & 1) == 0) {
      dens = 3.;
      xH = 0.5;
      xHe = 0.125;
    } else if (ix & 1) {
      dens = 0.;
      xH = 0.5;
      xHe = 0.5;
    } else {
      dens = 4.;
      xH = 0.;
      xHe = 0.;
    }
  } else {
    dens = 2.;
    xH = 0.5;
    xHe = 0.25;
  }
}
static const double T_SIGH = 0.75, T_SIGHE = 1.25, T_W = 0.625, T_E = 7.e15;
static double t_sigma(int ion) { return ion == ION_H_n ? T_SIGH : (ion == ION_He_n ? T_SIGHE : 0.1 * (ion + 1)); }

struct TraceCfg {
  int g, N, field, per;
};

struct GridFn : public DensityFunction {
  const Geom &G;
  int N, field;
  GridFn(const Geom &g, int n, int f) : G(g), N(n), field(f) {}
  virtual DensityValues operator()(const Cell &cell) {
    const CoordinateVector<> m = cell.get_cell_midpoint();
    int c[3];
    for (int k = 0; k < 3; ++k) {
      c[k] = (int)std::floor((m[k] - G.anchor[k]) / G.cs[k]);
      if (c[k] < 0)
        c[k] = 0;
      if (c[k] >= N)
        c[k] = N - 1;
    }
    double dens, xH, xHe;
    t_field(field, N, c[0], c[1], c[2], dens, xH, xHe);
    DensityValues v;
    v.set_number_density(dens);
    for (int ion = 0; ion < NUMBER_OF_IONNAMES; ++ion)
      v.set_ionic_fraction(ion, 0.5);
    v.set_ionic_fraction(ION_H_n, xH);
    v.set_ionic_fraction(ION_He_n, xHe);
    v.set_temperature(8000.);
    return v;
  }
};

static const int NEST = 5; // J_H, J_He, J_last, heat_H, heat_He
struct Outcome {
  int status = 0; // 0 absorbed, 1 escaped, 2 hand-over cap reached, 3 abort, 4 bad subgrid index, 5 interact did not return
  double end[3] = {0, 0, 0};
  double tau_left = 0;
  int handovers = 0;
  std::vector< int > touched; // global cells with a deposit
};

struct Layout {
  int ns[3];
  Creator *creator = nullptr;
};

struct Tracer {
  const Geom &G;
  int N, ncell;
  std::vector< double > est; // NEST * ncell, dense, zero outside `touched`
  Tracer(const Geom &g, int n) : G(g), N(n), ncell(n * n * n), est((size_t)NEST * n * n * n, 0.) {}
  void clear(Outcome &o) {
    for (int c : o.touched)
      for (int k = 0; k < NEST; ++k)
        est[(size_t)k * ncell + c] = 0.;
    o.touched.clear();
  }
  /// the sequential equivalent of the traversal task: interact, look up the
  /// neighbour for the returned element, enter it through the opposite one
  void trace(Layout &L, const double p0[3], const double dir[3], double target, int cap, Outcome &o) {
    Creator &C = *L.creator;
    PhotonPacket ph;
    ph.set_position(CoordinateVector<>(p0[0], p0[1], p0[2]));
    ph.set_direction(CoordinateVector<>(dir[0], dir[1], dir[2]));
    for (int ion = 0; ion < NUMBER_OF_IONNAMES; ++ion)
      ph.set_photoionization_cross_section(ion, t_sigma(ion));
    ph.set_weight(T_W);
    ph.set_energy(T_E);
    ph.set_target_optical_depth(target);
    ph.set_type(PHOTONTYPE_PRIMARY);
    ph.set_scatter_counter(0);
    const size_t nsub = C.number_of_actual_subgrids();
    size_t sub = C.get_subgrid(ph.get_position()).get_index();
    int indir = TRAVELDIRECTION_INSIDE;
    std::vector< size_t > visited;
    o.status = 2;
    o.handovers = 0;
    while (o.handovers <= cap) {
      if (sub >= nsub) {
        o.status = 4;
        break;
      }
      DensitySubGrid &grid = *C.get_subgrid(sub);
      visited.push_back(sub);
      int out = -1;
      bool ab;
      GUARDED(ab, out = grid.interact(ph, indir));
      if (ab || out < 0 || out >= 27) {
        o.status = (ab && t_guard_rc == 2) ? 5 : 3;
        break;
      }
      if (out == TRAVELDIRECTION_INSIDE) {
        o.status = 0;
        break;
      }
      const uint_fast32_t ngb = grid.get_neighbour(out);
      if (ngb == NEIGHBOUR_OUTSIDE) {
        o.status = 1;
        break;
      }
      sub = ngb;
      GUARDED(ab, indir = TravelDirections::output_to_input_direction(out));
      if (ab || indir < 0 || indir >= 27) {
        o.status = 3;
        break;
      }
      ++o.handovers;
    }
    for (int k = 0; k < 3; ++k)
      o.end[k] = ph.get_position()[k];
    o.tau_left = ph.get_target_optical_depth();
    // gather the deposits of the visited subgrids into the global cell grid
    const int m[3] = {N / L.ns[0], N / L.ns[1], N / L.ns[2]};
    std::sort(visited.begin(), visited.end());
    visited.erase(std::unique(visited.begin(), visited.end()), visited.end());
    for (size_t s : visited) {
      DensitySubGrid &grid = *C.get_subgrid(s);
      const int gp[3] = {(int)(s / (L.ns[1] * L.ns[2])), (int)((s / L.ns[2]) % L.ns[1]), (int)(s % L.ns[2])};
      const int nc = m[0] * m[1] * m[2];
      for (int ic = 0; ic < nc; ++ic) {
        DensitySubGrid::iterator it(ic, grid);
        IonizationVariables &iv = it.get_ionization_variables();
        const double v[NEST] = {iv.get_mean_intensity(ION_H_n), iv.get_mean_intensity(ION_He_n),
                                iv.get_mean_intensity(NUMBER_OF_IONNAMES - 1), iv.get_heating(HEATINGTERM_H),
                                iv.get_heating(HEATINGTERM_He)};
        if (v[0] == 0. && v[1] == 0. && v[2] == 0. && v[3] == 0. && v[4] == 0.)
          continue;
        const int l[3] = {ic / (m[1] * m[2]), (ic / m[2]) % m[1], ic % m[2]};
        const int gc = ((gp[0] * m[0] + l[0]) * N + gp[1] * m[1] + l[1]) * N + gp[2] * m[2] + l[2];
        for (int k = 0; k < NEST; ++k)
          est[(size_t)k * ncell + gc] += v[k];
        o.touched.push_back(gc);
        iv.reset_mean_intensities();
      }
    }
  }
};

struct TStats {
  uint64_t ev = 0, nontrivial = 0, packets = 0, skipped_unbounded = 0, skipped_tie = 0, skipped_wallparallel = 0;
  uint64_t absorbed = 0, escaped = 0, max_handovers = 0, wraps = 0, handovers = 0, negzero = 0;
  double worst_split = 0, worst_ref = 0;
  void merge(const TStats &o) {
    ev += o.ev;
    nontrivial += o.nontrivial;
    packets += o.packets;
    skipped_unbounded += o.skipped_unbounded;
    skipped_tie += o.skipped_tie;
    skipped_wallparallel += o.skipped_wallparallel;
    absorbed += o.absorbed;
    escaped += o.escaped;
    handovers += o.handovers;
    negzero += o.negzero;
    wraps += o.wraps;
    max_handovers = std::max(max_handovers, o.max_handovers);
    worst_split = std::max(worst_split, o.worst_split);
    worst_ref = std::max(worst_ref, o.worst_ref);
  }
};

/// exact reference for one packet on the periodically unfolded lattice
struct Exact {
  bool unbounded = false, tie = false, absorbed = false;
  std::vector< std::pair< int, LD > > lens; // global cell, path length
  LD end[3];                               // unwrapped end point relative to the box corner
  LD tau_total = 0;                         // optical depth of the whole (escaping) path
  int wraps = 0;
};
static void exact_reference(const Geom &G, int N, int field, int per, const int h[3], const int d[3], LD target, Exact &E, LD *tau_first_chord) {
  xm::March m;
  i64 P[3];
  for (int k = 0; k < 3; ++k)
    P[k] = (i64)h[k] * G.S[k] / 2;
  m.init(P, d, G.S, nullptr);
  const LD nrm = sqrtl((LD)(d[0] * d[0] + d[1] * d[1] + d[2] * d[2]));
  const LD unit = nrm * G.q / (LD)m.D;
  LD cum = 0;
  E = Exact();
  bool first_chord_done = false;
  if (tau_first_chord)
    *tau_first_chord = 0;
  const int segcap = 60 * 3 * N;
  int nseg = 0;
  i64 Tend = 0;
  for (;;) {
    int c[3];
    bool out = false;
    for (int k = 0; k < 3; ++k) {
      if (m.c[k] < 0 || m.c[k] >= N) {
        if ((per >> k) & 1)
          c[k] = wrapi((int)m.c[k], N);
        else
          out = true;
        if (!first_chord_done)
          first_chord_done = true;
      } else
        c[k] = (int)m.c[k];
    }
    if (out) {
      Tend = m.T;
      break;
    }
    if (target < 0 && first_chord_done)
      return; // only the depth of the first chord was asked for
    const i64 T0 = m.T;
    m.advance();
    if (m.T == T0)
      continue;
    if (++nseg > segcap) {
      E.unbounded = true;
      return;
    }
    double dens, xH, xHe;
    t_field(field, N, c[0], c[1], c[2], dens, xH, xHe);
    const LD kap = (LD)dens * ((LD)T_SIGH * xH + (LD)T_SIGHE * xHe);
    const LD len = unit * (LD)(m.T - T0);
    const int gc = (c[0] * N + c[1]) * N + c[2];
    if (!first_chord_done && tau_first_chord)
      *tau_first_chord += kap * len;
    if (target > 0 && cum + kap * len >= target) {
      // (ties with a wall are flagged: the stop cell is then decided by round-off)
      const LD part = (target - cum) / kap;
      if (fabsl(cum + kap * len - target) < 1e-9L * target || fabsl(cum - target) < 1e-9L * target)
        E.tie = true;
      E.lens.push_back(std::make_pair(gc, part));
      E.absorbed = true;
      const LD s = unit * (LD)T0 + part;
      for (int k = 0; k < 3; ++k)
        E.end[k] = G.q * (LD)P[k] + s * (LD)d[k] / nrm;
      E.tau_total = target;
      return;
    }
    cum += kap * len;
    E.lens.push_back(std::make_pair(gc, len));
  }
  E.tau_total = cum;
  for (int k = 0; k < 3; ++k)
    E.end[k] = G.q * (LD)m.coord_num(k, Tend) / (LD)m.D;
  if (target > 0 && fabsl(cum - target) < 1e-9L * target)
    E.tie = true;
}

static thread_local const char *t_zero_sign_txt = "";
static std::string t_text(const TraceCfg &c, const int ns[3], const int h[3], const int d[3], double target) {
  return fmt("%d^3 cells (%s) field=%s periodic=(%d,%d,%d) layout %dx%dx%d start half-cell index (%d,%d,%d) dir=(%d,%d,%d)/norm%s target=%a",
             c.N, GEOMS[c.g].name, T_FIELDS[c.field], c.per & 1, (c.per >> 1) & 1, (c.per >> 2) & 1, ns[0], ns[1], ns[2], h[0], h[1], h[2], d[0], d[1], d[2], t_zero_sign_txt, target);
}
static std::string t_replay(const TraceCfg &c, const int ns[3], const int h[3], const int d[3], int tk) {
  return fmt("{\"what\": \"tracing\", \"g\": %d, \"N\": %d, \"field\": %d, \"per\": %d, \"ns\": [%d, %d, %d], \"h\": [%d, %d, %d], \"d\": [%d, %d, %d], \"tk\": %d}",
             c.g, c.N, c.field, c.per, ns[0], ns[1], ns[2], h[0], h[1], h[2], d[0], d[1], d[2], tk);
}
static std::string layout_class(const int ns[3], int N, int per) {
  // class of a layout for violation keys: per axis whole / split / one cell per subgrid, periodic or not
  std::string k;
  for (int i = 0; i < 3; ++i)
    k += fmt("%s%s", ns[i] == 1 ? "1" : (ns[i] == N ? "N" : "s"), ((per >> i) & 1) ? "p" : "n");
  return k;
}

static const double T_MULT[2] = {0.31830988618379067, 2.6180339887498949};

struct TraceRunner {
  Result &R;
  TraceCfg cfg;
  const Geom &G;
  std::vector< Layout > layouts; // layouts[0] is the single block
  Tracer ref, run;
  TStats st;
  bool verbose = false;
  LD Lbox[3], diag, mag;
  LD kappa_max = 0;
  /// optical depth error from walls/positions that are only known to round-off
  /// (inexact geometry only): opacity * 64 eps * (box diagonal + |anchor|) per crossing of the box
  LD geom_tau(int handovers) const { return G.exact ? 0.L : kappa_max * 64 * (LD)DBL_EPSILON * mag * (1 + handovers); }
  TraceRunner(Result &r, const TraceCfg &c, const std::vector< std::array< int, 3 > > &lays)
      : R(r), cfg(c), G(GEOMS[c.g]), ref(GEOMS[c.g], c.N), run(GEOMS[c.g], c.N) {
    GridFn fn(G, c.N, c.field);
    for (auto &l : lays) {
      Layout L;
      L.ns[0] = l[0];
      L.ns[1] = l[1];
      L.ns[2] = l[2];
      Box<> box(CoordinateVector<>(G.anchor[0], G.anchor[1], G.anchor[2]),
                CoordinateVector<>(c.N * G.cs[0], c.N * G.cs[1], c.N * G.cs[2]));
      L.creator = new Creator(box, CoordinateVector< int_fast32_t >(c.N, c.N, c.N),
                              CoordinateVector< int_fast32_t >(l[0], l[1], l[2]),
                              CoordinateVector< bool >(c.per & 1, c.per & 2, c.per & 4));
      L.creator->initialize(fn);
      layouts.push_back(L);
    }
    LD s2 = 0, am = 0;
    for (int k = 0; k < 3; ++k) {
      Lbox[k] = (LD)c.N * (LD)G.S[k] * G.q;
      s2 += Lbox[k] * Lbox[k];
      am = std::max(am, fabsl((LD)G.anchor[k]));
    }
    diag = sqrtl(s2);
    mag = diag + am;
    for (int ix = 0; ix < c.N; ++ix)
      for (int iy = 0; iy < c.N; ++iy)
        for (int iz = 0; iz < c.N; ++iz) {
          double dens, xH, xHe;
          t_field(c.field, c.N, ix, iy, iz, dens, xH, xHe);
          kappa_max = std::max(kappa_max, (LD)dens * ((LD)T_SIGH * xH + (LD)T_SIGHE * xHe));
        }
  }
  ~TraceRunner() {
    for (auto &L : layouts)
      delete L.creator;
  }

  /// distance of two coordinates, modulo the box length on periodic axes
  LD pdist(int k, LD a, LD b) const {
    LD dlt = fabsl(a - b);
    if ((cfg.per >> k) & 1) {
      dlt = fmodl(dlt, Lbox[k]);
      dlt = std::min(dlt, Lbox[k] - dlt);
    }
    return dlt;
  }

  void packet(const int h[3], const int d[3], int tk, int only_layout = -1) {
    double p0[3], dir[3];
    const double nrmd = std::sqrt((double)(d[0] * d[0] + d[1] * d[1] + d[2] * d[2]));
    bool wallpar = false;
    // sign bit of zero direction components (a zero component contributes no
    // motion whatever its sign; real callers produce -0.0): pattern chosen by the
    // start point and target so that every axis sees +0.0 and -0.0
    const int zpat = (h[0] + 2 * h[1] + 3 * h[2] + tk) & 3; // 0: all +0, 1: all -0, 2: first zero axis -0, 3: last zero axis -0
    static const char *ZTXT[4] = {"", " (zero components handed over as -0.0)", " (first zero component handed over as -0.0)", " (last zero component handed over as -0.0)"};
    int firstz = -1, lastz = -1;
    for (int k = 0; k < 3; ++k)
      if (d[k] == 0) {
        if (firstz < 0)
          firstz = k;
        lastz = k;
      }
    t_zero_sign_txt = firstz >= 0 ? ZTXT[zpat] : "";
    for (int k = 0; k < 3; ++k) {
      p0[k] = G.anchor[k] + (0.5 * h[k]) * G.cs[k];
      dir[k] = d[k] / nrmd;
      if (d[k] == 0 && (zpat == 1 || (zpat == 2 && k == firstz) || (zpat == 3 && k == lastz))) {
        dir[k] = -0.;
        ++st.negzero;
      }
      if (!G.exact && d[k] == 0 && h[k] % 2 == 0)
        wallpar = true;
    }
    if (wallpar) {
      // inexact geometry: a ray along a cell wall lies on either side of it by
      // round-off, differently in different decompositions (C02 NOTES)
      ++st.skipped_wallparallel;
      return;
    }
    // target: multiple of the optical depth of the first chord through the box
    Exact E0;
    LD tau1 = 0;
    exact_reference(G, cfg.N, cfg.field, cfg.per, h, d, -1.L, E0, &tau1);
    const double target = tau1 > 0 ? (double)((LD)T_MULT[tk] * tau1) : (tk == 0 ? 1. : 1e-3);
    Exact E;
    exact_reference(G, cfg.N, cfg.field, cfg.per, h, d, (LD)target, E, nullptr);
    ++st.packets;
    if (E.unbounded) {
      ++st.skipped_unbounded;
      return;
    }
    const int cap_ref = 400;
    Outcome oref;
    ref.trace(layouts[0], p0, dir, target, cap_ref, oref);
    ++st.ev;
    if (!E.lens.empty())
      ++st.nontrivial;
    st.max_handovers = std::max< uint64_t >(st.max_handovers, oref.handovers);
    st.wraps += oref.handovers;
    const int one[3] = {1, 1, 1};
    if (verbose)
      printf(" single block: status=%d end=(%.17g,%.17g,%.17g) tau_left=%.17g handovers=%d cells=%zu\n", oref.status, oref.end[0], oref.end[1], oref.end[2], oref.tau_left, oref.handovers, oref.touched.size());
    // ---- single block against the exact marcher on the unfolded lattice ----------
    const LD tollen = 1e-12L * mag * (1 + oref.handovers);
    bool ref_ok = true;
    auto vref = [&](const char *what, const std::string &detail) {
      R.violation(fmt("C03:tracing:single-block-vs-exact:%s:%s", what, layout_class(one, cfg.N, cfg.per).c_str()),
                  t_text(cfg, one, h, d, target) + " :: " + detail, t_replay(cfg, one, h, d, tk));
      ref_ok = false;
      if (verbose)
        printf("   VIOLATION %s: %s\n", what, detail.c_str());
    };
    if (oref.status >= 2)
      vref((oref.status == 2 || oref.status == 5) ? "no-termination" : (oref.status == 3 ? "abort" : "bad-subgrid"), fmt("trace ended with status %d after %d hand-overs", oref.status, oref.handovers));
    else if (E.tie)
      ++st.skipped_tie;
    else {
      if ((oref.status == 0) != E.absorbed)
        vref("decision", fmt("code: %s, exact: %s (exact depth of the whole path %.17Lg)", oref.status == 0 ? "absorbed" : "escaped", E.absorbed ? "absorbed" : "escaped", E.tau_total));
      else {
        std::vector< LD > want(ref.ncell, 0.L);
        for (auto &pr : E.lens)
          want[pr.first] += pr.second;
        std::vector< char > seen(ref.ncell, 0);
        for (int c : oref.touched)
          seen[c] = 1;
        for (int c = 0; c < ref.ncell && ref_ok; ++c) {
          if (!seen[c] && want[c] == 0)
            continue;
          const LD lH = (LD)ref.est[c] / ((LD)T_W * (LD)T_SIGH);
          st.worst_ref = std::max(st.worst_ref, (double)(fabsl(lH - want[c]) / tollen));
          if (!(fabsl(lH - want[c]) <= tollen))
            vref("percell-path", fmt("cell %d: estimator/(w*sigma) = %.17Lg, exact accumulated path = %.17Lg", c, lH, want[c]));
          const LD exHe = (LD)T_W * (LD)T_SIGHE * want[c] * ((LD)T_E - 5.948e15L);
          if (ref_ok && !(fabsl((LD)ref.est[(size_t)4 * ref.ncell + c] - exHe) <= 1e-11L * fabsl(exHe) + fabsl((LD)T_E) * T_W * T_SIGHE * tollen))
            vref("heating", fmt("cell %d: He heating %.17g, expected %.17Lg", c, ref.est[(size_t)4 * ref.ncell + c], exHe));
        }
        for (int k = 0; k < 3 && ref_ok; ++k) {
          const LD e = (LD)oref.end[k] - (LD)G.anchor[k];
          if (!(pdist(k, e, E.end[k]) <= 1e-12L * mag * (1 + oref.handovers)))
            vref(oref.status == 0 ? "absorption-position" : "exit-position", fmt("axis %d: end coordinate %.17Lg (relative to the box), exact %.17Lg (unfolded)", k, e, E.end[k]));
        }
        if (ref_ok && oref.status == 1) {
          const LD wantleft = (LD)target - E.tau_total;
          if (!(fabsl((LD)oref.tau_left - wantleft) <= 1e-12L * (LD)target * (1 + oref.handovers) + geom_tau(oref.handovers)))
            vref("remaining-tau", fmt("remaining depth %.17g, exact %.17Lg", oref.tau_left, wantleft));
        }
      }
    }
    if (oref.status == 0)
      ++st.absorbed;
    else if (oref.status == 1)
      ++st.escaped;
    // ---- every other layout against the single block ---------------------------------
    if (oref.status < 2)
      for (size_t il = 1; il < layouts.size(); ++il) {
        if (only_layout >= 0 && (int)il != only_layout)
          continue;
        Layout &L = layouts[il];
        Outcome o;
        const int cap = 400 * (L.ns[0] + L.ns[1] + L.ns[2]);
        run.trace(L, p0, dir, target, cap, o);
        ++st.ev;
        if (!E.lens.empty())
          ++st.nontrivial;
        st.handovers += o.handovers;
        bool ok = true;
        auto vio = [&](const char *what, const std::string &detail) {
          R.violation(fmt("C03:tracing:split-vs-single:%s:%s", what, layout_class(L.ns, cfg.N, cfg.per).c_str()),
                      t_text(cfg, L.ns, h, d, target) + " :: " + detail, t_replay(cfg, L.ns, h, d, tk));
          ok = false;
          if (verbose)
            printf("   VIOLATION %s: %s\n", what, detail.c_str());
        };
        if (verbose)
          printf(" layout %dx%dx%d: status=%d end=(%.17g,%.17g,%.17g) tau_left=%.17g handovers=%d cells=%zu\n", L.ns[0], L.ns[1], L.ns[2], o.status, o.end[0], o.end[1], o.end[2], o.tau_left, o.handovers, o.touched.size());
        if (o.status >= 2)
          vio((o.status == 2 || o.status == 5) ? "no-termination" : (o.status == 3 ? "abort" : "bad-subgrid"), fmt("trace ended with status %d after %d hand-overs (single block: %s)", o.status, o.handovers, oref.status == 0 ? "absorbed" : "escaped"));
        else if (o.status != oref.status) {
          if (!E.tie)
            vio("decision", fmt("split grid: %s at (%.17g,%.17g,%.17g), single block: %s at (%.17g,%.17g,%.17g)", o.status == 0 ? "absorbed" : "escaped", o.end[0], o.end[1], o.end[2], oref.status == 0 ? "absorbed" : "escaped", oref.end[0], oref.end[1], oref.end[2]));
        } else if (!E.tie) {
          for (int k = 0; k < 3 && ok; ++k)
            if (!(pdist(k, (LD)o.end[k], (LD)oref.end[k]) <= 1e-12L * mag * (1 + oref.handovers)))
              vio(o.status == 0 ? "absorption-position" : "exit-position", fmt("axis %d: %.17g vs single block %.17g", k, o.end[k], oref.end[k]));
          if (ok && o.status == 1 && !(std::fabs(o.tau_left - oref.tau_left) <= 1e-12 * target * (1 + oref.handovers) + 2 * (double)geom_tau(oref.handovers)))
            vio("remaining-tau", fmt("%.17g vs single block %.17g", o.tau_left, oref.tau_left));
          // per cell estimators over the union of touched cells
          for (int pass = 0; pass < 2 && ok; ++pass) {
            const std::vector< int > &cells = pass == 0 ? o.touched : oref.touched;
            for (int c : cells) {
              for (int k = 0; k < NEST && ok; ++k) {
                const double a = run.est[(size_t)k * run.ncell + c], b = ref.est[(size_t)k * ref.ncell + c];
                const double scale = k < 3 ? T_W * t_sigma(k == 0 ? ION_H_n : (k == 1 ? ION_He_n : NUMBER_OF_IONNAMES - 1)) : T_W * (k == 3 ? T_SIGH : T_SIGHE) * T_E;
                const double tol = 1e-12 * (std::fabs(b) + scale * (double)mag * (1 + oref.handovers));
                st.worst_split = std::max(st.worst_split, std::fabs(a - b) / tol);
                if (!(std::fabs(a - b) <= tol))
                  vio("percell-estimator", fmt("global cell %d estimator %d: split grid %.17g, single block %.17g", c, k, a, b));
              }
              if (!ok)
                break;
            }
          }
        }
        run.clear(o);
      }
    ref.clear(oref);
  }
};

static std::vector< std::array< int, 3 > > dividing_layouts(int N) {
  std::vector< std::array< int, 3 > > l;
  l.push_back({1, 1, 1});
  for (int a = 1; a <= N; ++a)
    for (int b = 1; b <= N; ++b)
      for (int c = 1; c <= N; ++c)
        if (N % a == 0 && N % b == 0 && N % c == 0 && !(a == 1 && b == 1 && c == 1))
          l.push_back({a, b, c});
  return l;
}

static void run_tracing(Result &R, const Args &A) {
  std::vector< TraceCfg > cfgs;
  const std::string sel = A.get("grid", "");
  auto add = [&](int g, int N, std::vector< int > fields) {
    for (int f : fields)
      for (int per = 0; per < 8; ++per)
        cfgs.push_back(TraceCfg{g, N, f, per});
  };
  if (sel == "asan") {
    // memory-checked build: one geometry/field, no / full periodicity
    cfgs.push_back(TraceCfg{1, 4, 0, 0});
    cfgs.push_back(TraceCfg{1, 4, 0, 7});
  } else if (!A.thorough()) {
    add(1, 4, {0, 1});
    add(2, 4, {0});
  } else if (sel == "6") {
    add(1, 6, {0});
    add(2, 6, {1});
  } else {
    add(0, 4, {0, 1, 2});
    add(1, 4, {0, 1, 2});
    add(2, 4, {0, 1, 2});
  }
  TStats total;
  bool cut = false, cut_viol = false;
  size_t done_cfg = 0;
  uint64_t nlayout_runs = 0;
  for (size_t ic = 0; ic < cfgs.size() && !cut; ++ic) {
    const TraceCfg &c = cfgs[(ic + (size_t)A.seed) % cfgs.size()];
    const auto lays = dividing_layouts(c.N);
    nlayout_runs += lays.size() - 1;
    const int nh = 2 * c.N; // half-open box: lattice points below the upper faces
#pragma omp parallel
    {
      TraceRunner tr(R, c, lays);
#pragma omp for schedule(dynamic, 1) collapse(2)
      for (int hx = 0; hx < nh; ++hx)
        for (int hy = 0; hy < nh; ++hy) {
          if (cut)
            continue;
          if (R.violation_count > 20000 || hg::g_hangs.load() > 30)
            cut = cut_viol = true;
          if (R.out_of_time())
            cut = true;
          if (cut)
            continue;
          for (int hz = 0; hz < nh; ++hz)
            for (int dx = -2; dx <= 2; ++dx)
              for (int dy = -2; dy <= 2; ++dy)
                for (int dz = -2; dz <= 2; ++dz) {
                  if (!dx && !dy && !dz)
                    continue;
                  const int h[3] = {hx, hy, hz}, d[3] = {dx, dy, dz};
                  for (int tk = 0; tk < 2; ++tk)
                    tr.packet(h, d, tk);
                }
        }
#pragma omp critical
      total.merge(tr.st);
    }
    if (!cut)
      ++done_cfg;
  }
  if (cut_viol)
    R.cap(fmt("tracing stopped after more than 20000 violations or 30 calls that did not return: %zu of %zu configurations completed", done_cfg, cfgs.size()));
  else if (cut)
    R.hit_deadline(fmt("tracing: %zu of %zu (geometry, grid, field, periodicity) configurations completed", done_cfg, cfgs.size()));
  R.evaluations += total.ev;
  R.nontrivial += total.nontrivial;
  if (!cfgs.empty())
    R.sample(fmt("{\"part\": \"tracing\", \"first_configuration\": \"%d^3 cells, %s, field %s\", \"configurations\": %zu, "
                 "\"start_points\": %d, \"directions\": 124, \"targets\": 2}",
                 cfgs[0].N, GEOMS[cfgs[0].g].name, T_FIELDS[cfgs[0].field], cfgs.size(), 8 * cfgs[0].N * cfgs[0].N * cfgs[0].N));
  R.set("tracing_configurations", (double)cfgs.size());
  R.set("tracing_layouts_per_configuration_sum", (double)nlayout_runs);
  R.set("tracing_packets", (double)total.packets);
  R.set("tracing_negative_zero_direction_components", (double)total.negzero);
  R.set("tracing_packets_absorbed", (double)total.absorbed);
  R.set("tracing_packets_escaped", (double)total.escaped);
  R.set("tracing_handovers_split", (double)total.handovers);
  R.set("tracing_periodic_wraps_single_block", (double)total.wraps);
  R.set("tracing_max_wraps_single_block", (double)total.max_handovers);
  R.set("tracing_skipped_unbounded_vacuum_orbit", (double)total.skipped_unbounded);
  R.set("tracing_skipped_wall_parallel_inexact_geometry", (double)total.skipped_wallparallel);
  R.set("tracing_target_ties_not_compared", (double)total.skipped_tie);
  R.set("tracing_worst_split_vs_single_over_tolerance", total.worst_split);
  R.set("tracing_worst_single_vs_exact_over_tolerance", total.worst_ref);
}

static void replay_tracing(Result &R, const std::string &txt) {
  auto geti = [&](const char *k) { return atoi(replay_field(txt, k).c_str()); };
  auto get3 = [&](const char *k, int v[3]) {
    if (sscanf(replay_field(txt, k).c_str(), " [ %d , %d , %d", &v[0], &v[1], &v[2]) != 3)
      exit(2);
  };
  TraceCfg c{geti("g"), geti("N"), geti("field"), geti("per")};
  int ns[3], h[3], d[3];
  get3("ns", ns);
  get3("h", h);
  get3("d", d);
  std::vector< std::array< int, 3 > > lays;
  lays.push_back({1, 1, 1});
  if (!(ns[0] == 1 && ns[1] == 1 && ns[2] == 1))
    lays.push_back({ns[0], ns[1], ns[2]});
  TraceRunner tr(R, c, lays);
  tr.verbose = true;
  printf("replaying one C03 tracing packet: %s\n", t_text(c, ns, h, d, 0.).c_str());
  tr.packet(h, d, geti("tk"));
  R.evaluations += tr.st.ev;
  R.nontrivial += tr.st.nontrivial;
}
#endif
