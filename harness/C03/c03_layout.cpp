// C03: ray-tracing results do not depend on how the grid is split into
// subgrids.  One executable, three parts selected with --what:
//   tables   direction tables against an independent sign-triple table
//   wiring   neighbour wiring of all layouts (1..3)^3 x 8 periodicities, copies
//   tracing  packets through every dividing layout x 8 periodicities against
//            the single block (and the single block against the exact marcher)
#include "c03_common.hpp"
#include "c03_tables.hpp"
#include "c03_tracing.hpp"
#include "c03_wiring.hpp"
#include <array>

int main(int argc, char **argv) {
  Args A = parse_args(argc, argv);
  Result R(A);
  std::string what = A.get("what", "all");
  hg::start(5000);
  R.rule = "one evaluation = one call of a table function / one checked table entry or cell of the real "
           "DensitySubGridCreator / one packet traced through one layout by the hand-over loop; all "
           "enumerated inputs are distinct by construction; non-trivial = table entries and wiring facts "
           "(all), traced packets whose exact path has positive length";
  if (!A.replay.empty()) {
    const std::string txt = read_file(A.replay);
    const std::string w = replay_field(txt, "what");
    if (w == "tracing") {
      replay_tracing(R, txt);
    } else if (w == "wiring") {
      WiringCase wc;
      if (sscanf(replay_field(txt, "ns").c_str(), " [ %d , %d , %d", &wc.ns[0], &wc.ns[1], &wc.ns[2]) != 3)
        return 2;
      wc.per = atoi(replay_field(txt, "per").c_str());
      wc.m = atoi(replay_field(txt, "m").c_str());
      WStats st;
      printf("replaying wiring case %s\n", wc_text(wc).c_str());
      wiring_one(R, wc, true, st, atol(replay_field(txt, "levels").c_str()), atol(replay_field(txt, "levels2").c_str()));
      R.evaluations += st.ev;
      R.nontrivial += st.ev;
    } else {
      printf("replaying the table checks\n");
      run_tables(R, A);
    }
    for (auto &v : R.violations)
      printf("  %s :: %s\n", v.key.c_str(), v.detail.c_str());
    printf("%" PRIu64 " violation(s)\n", R.violation_count);
    return R.finish(A);
  }
  if (what == "tables" || what == "all")
    run_tables(R, A);
  if (what == "wiring" || what == "all")
    run_wiring(R, A);
  if (what == "tracing" || what == "all")
    run_tracing(R, A);
  R.assumptions.push_back("packets start inside the half-open box (lower faces included), in the subgrid "
                          "DensitySubGridCreator::get_subgrid(position) assigns them to, with class INSIDE");
  return R.finish(A);
}
