// C03 part (ii): neighbour wiring of DensitySubGridCreator for all layouts
// (1..3)^3 x 8 periodicities, and the copy machinery (create_copies,
// update_copies, update_original_counters, update_copy_properties) for all
// copy-level assignments in {0,1,2} of the small layouts.
#ifndef C03_WIRING_HPP
#define C03_WIRING_HPP
#include "c03_common.hpp"

typedef DensitySubGridCreator< DensitySubGrid > Creator;

// density function that makes every cell of the grid distinguishable
struct IndexedFn : public DensityFunction {
  virtual DensityValues operator()(const Cell &cell) {
    const CoordinateVector<> m = cell.get_cell_midpoint();
    DensityValues v;
    v.set_number_density(1. + 3. * m.x() + 17. * m.y() + 101. * m.z());
    v.set_temperature(100. + m.x());
    for (int ion = 0; ion < NUMBER_OF_IONNAMES; ++ion)
      v.set_ionic_fraction(ion, 0.01 * (ion + 1));
    return v;
  }
};

struct WiringCase {
  int ns[3], per, m; // subgrids per axis, periodicity bits (x=1,y=2,z=4), cells per subgrid and axis
};
static std::string wc_text(const WiringCase &w) {
  return fmt("layout %dx%dx%d subgrids, periodic=(%d,%d,%d), %d^3 cells per subgrid", w.ns[0], w.ns[1],
             w.ns[2], w.per & 1, (w.per >> 1) & 1, (w.per >> 2) & 1, w.m);
}
static std::string wc_key(const WiringCase &w) {
  // class of the layout: per axis 1 / 2 / 3+ subgrids and periodicity
  std::string k;
  for (int i = 0; i < 3; ++i)
    k += fmt("%d%s", w.ns[i], ((w.per >> i) & 1) ? "p" : "n");
  return k;
}
static std::string wc_replay(const WiringCase &w, long code = -1, long code2 = -1) {
  return fmt("{\"what\": \"wiring\", \"ns\": [%d, %d, %d], \"per\": %d, \"m\": %d, \"levels\": %ld, \"levels2\": %ld}",
             w.ns[0], w.ns[1], w.ns[2], w.per, w.m, code, code2);
}

static const double W_ANCHOR[3] = {-1., 0.5, 2.};

static Creator *make_creator(const WiringCase &w, DensityFunction &fn) {
  Box<> box(CoordinateVector<>(W_ANCHOR[0], W_ANCHOR[1], W_ANCHOR[2]),
            CoordinateVector<>(1. * w.ns[0] * w.m, 1. * w.ns[1] * w.m, 1. * w.ns[2] * w.m));
  Creator *c = new Creator(box, CoordinateVector< int_fast32_t >(w.ns[0] * w.m, w.ns[1] * w.m, w.ns[2] * w.m),
                           CoordinateVector< int_fast32_t >(w.ns[0], w.ns[1], w.ns[2]),
                           CoordinateVector< bool >(w.per & 1, w.per & 2, w.per & 4));
  c->initialize(fn);
  return c;
}

/// geometric neighbour of original subgrid s through element o (or OUTSIDE)
static uint_fast32_t geo_neighbour(const WiringCase &w, int s, int o) {
  const int c[3] = {s / (w.ns[1] * w.ns[2]), (s / w.ns[2]) % w.ns[1], s % w.ns[2]};
  int t[3];
  for (int k = 0; k < 3; ++k) {
    t[k] = c[k] + SGN[o][k];
    if (t[k] < 0 || t[k] >= w.ns[k]) {
      if ((w.per >> k) & 1)
        t[k] = wrapi(t[k], w.ns[k]);
      else
        return NEIGHBOUR_OUTSIDE;
    }
  }
  return (uint_fast32_t)((t[0] * w.ns[1] + t[1]) * w.ns[2] + t[2]);
}

struct WStats {
  uint64_t ev = 0, layouts = 0, level_assignments = 0, copies_made = 0, update_pairs = 0, unbalanced = 0;
};

static void check_original_wiring(Result &R, const WiringCase &w, Creator &g, WStats &st) {
  const int NS = w.ns[0] * w.ns[1] * w.ns[2];
  const std::string key = wc_key(w), txt = wc_text(w), rp = wc_replay(w);
  if ((int)g.number_of_original_subgrids() != NS || (int)g.number_of_actual_subgrids() != NS)
    R.violation("C03:wiring:subgrid-count:" + key, txt + fmt(": %d original, %d actual subgrids", (int)g.number_of_original_subgrids(), (int)g.number_of_actual_subgrids()), rp);
  for (int s = 0; s < NS; ++s) {
    DensitySubGrid &sg = *g.get_subgrid((size_t)s);
    const int c[3] = {s / (w.ns[1] * w.ns[2]), (s / w.ns[2]) % w.ns[1], s % w.ns[2]};
    // geometry of the subgrid
    double box[6];
    sg.get_grid_box(box);
    const CoordinateVector< int_fast32_t > gp = g.get_grid_position(s);
    ++st.ev;
    bool bad = gp[0] != c[0] || gp[1] != c[1] || gp[2] != c[2] || (int)sg.get_number_of_cells() != w.m * w.m * w.m;
    for (int k = 0; k < 3; ++k)
      if (box[k] != W_ANCHOR[k] + 1. * c[k] * w.m || box[3 + k] != 1. * w.m)
        bad = true;
    if (bad)
      R.violation("C03:wiring:subgrid-box:" + key, txt + fmt(": subgrid %d at (%d,%d,%d) has box (%g,%g,%g)+(%g,%g,%g), grid position (%d,%d,%d)", s, c[0], c[1], c[2], box[0], box[1], box[2], box[3], box[4], box[5], (int)gp[0], (int)gp[1], (int)gp[2]), rp);
    // position -> subgrid (lower corner, centre, just below the upper corner)
    for (int which = 0; which < 3; ++which) {
      const double f = which == 0 ? 0. : (which == 1 ? 0.5 : 1. - 1e-9);
      CoordinateVector<> p(box[0] + f * box[3], box[1] + f * box[4], box[2] + f * box[5]);
      ++st.ev;
      if ((int)g.get_subgrid(p).get_index() != s)
        R.violation("C03:wiring:position-to-subgrid:" + key, txt + fmt(": position (%g,%g,%g) of subgrid %d is assigned to %d", p[0], p[1], p[2], s, (int)g.get_subgrid(p).get_index()), rp);
    }
    // 27 neighbours: geometric offset with wrap, mutual
    for (int o = 0; o < 27; ++o) {
      const uint_fast32_t want = geo_neighbour(w, s, o), got = sg.get_neighbour(o);
      ++st.ev;
      if (got != want) {
        R.violation(fmt("C03:wiring:neighbour:%s:%s", key.c_str(), DIRNAME[o]), txt + fmt(": neighbour of subgrid %d through %s is %u, the subgrid at that offset is %u", s, DIRNAME[o], (unsigned)got, (unsigned)want), rp);
        continue;
      }
      if (got != NEIGHBOUR_OUTSIDE && got < (unsigned)NS) {
        const uint_fast32_t back = (*g.get_subgrid((size_t)got)).get_neighbour(opposite_dir(o));
        if (back != (uint_fast32_t)s)
          R.violation(fmt("C03:wiring:neighbour-not-mutual:%s:%s", key.c_str(), DIRNAME[o]), txt + fmt(": %d -> %s -> %u, but %u -> %s -> %u", s, DIRNAME[o], (unsigned)got, (unsigned)got, DIRNAME[opposite_dir(o)], (unsigned)back), rp);
      }
    }
    // the 6 face neighbours used to restrict copy levels
    size_t ngbs[6] = {9999, 9999, 9999, 9999, 9999, 9999};
    const int nn = g.get_neighbours(s, ngbs);
    std::multiset< size_t > gotset(ngbs, ngbs + std::min(nn, 6)), wantset;
    static const int FACES[6] = {22, 21, 24, 23, 26, 25};
    for (int f = 0; f < 6; ++f) {
      const uint_fast32_t n = geo_neighbour(w, s, FACES[f]);
      if (n != NEIGHBOUR_OUTSIDE)
        wantset.insert(n);
    }
    ++st.ev;
    if (gotset != wantset)
      R.violation("C03:wiring:face-neighbour-list:" + key, txt + fmt(": get_neighbours(%d) returns %d entries that differ from the %zu geometric face neighbours", s, nn, wantset.size()), rp);
  }
}

/// everything about one copy-level assignment; returns the neighbour tables
/// (for the comparison update_copies vs fresh)
static std::vector< uint_fast32_t > check_copies(Result &R, const WiringCase &w, Creator &g, const std::vector< uint_fast8_t > &lev, long code, long code2, WStats &st, bool deep) {
  const int NS = w.ns[0] * w.ns[1] * w.ns[2];
  const std::string key = wc_key(w), rp = wc_replay(w, code, code2);
  std::string levs;
  for (int i = 0; i < NS; ++i)
    levs += fmt("%d", (int)lev[i]);
  const std::string txt = wc_text(w) + " copy levels " + levs + (code2 >= 0 ? " (after update_copies)" : "");
  size_t expectA = NS;
  for (int i = 0; i < NS; ++i)
    expectA += (1u << lev[i]) - 1;
  const size_t Aact = g.number_of_actual_subgrids();
  std::vector< uint_fast32_t > table;
  ++st.ev;
  if (Aact != expectA || (int)g.number_of_original_subgrids() != NS) {
    R.violation("C03:copies:count:" + key, txt + fmt(": %zu subgrids in total, expected %zu", Aact, expectA), rp);
    return table;
  }
  st.copies_made += expectA - NS;
  // which original does every subgrid belong to (public interface: get_copies)
  std::vector< int > orig(Aact, -1), rank(Aact, 0);
  for (int i = 0; i < NS; ++i) {
    orig[i] = i;
    auto it = g.get_subgrid((size_t)i);
    auto range = it.get_copies();
    size_t cnt = 0;
    for (auto c = range.first; c != range.second; ++c) {
      const size_t ci = c.get_index();
      ++cnt;
      if (ci < (size_t)NS || ci >= Aact || orig[ci] != -1) {
        R.violation("C03:copies:partition:" + key, txt + fmt(": copy range of original %d contains index %zu (already owned by %d)", i, ci, ci < Aact ? orig[ci] : -2), rp);
        return table;
      }
      orig[ci] = i;
      rank[ci] = (int)cnt;
    }
    ++st.ev;
    if (cnt != (1u << lev[i]) - 1) {
      R.violation("C03:copies:partition:" + key, txt + fmt(": original %d has %zu copies, expected %u", i, cnt, (1u << lev[i]) - 1), rp);
      return table;
    }
  }
  // the private tables say the same
  for (size_t c = NS; c < Aact; ++c) {
    ++st.ev;
    if (g._originals.size() != Aact - NS || (int)g._originals[c - NS] != orig[c]) {
      R.violation("C03:copies:originals-table:" + key, txt + fmt(": originals table entry of copy %zu", c), rp);
      return table;
    }
  }
  // neighbours
  std::vector< std::map< uint_fast32_t, int > > fanin(27);
  for (size_t s = 0; s < Aact; ++s) {
    DensitySubGrid &sg = *g.get_subgrid(s);
    const int o0 = orig[s];
    DensitySubGrid &og = *g.get_subgrid((size_t)o0);
    ++st.ev;
    // a copy is the same piece of space with the same content
    double b1[6], b2[6];
    sg.get_grid_box(b1);
    og.get_grid_box(b2);
    bool same = sg.get_number_of_cells() == og.get_number_of_cells();
    for (int k = 0; k < 6; ++k)
      if (b1[k] != b2[k])
        same = false;
    if (same && code2 < 0)
      for (size_t ic = 0; ic < sg.get_number_of_cells(); ++ic) {
        DensitySubGrid::iterator a(ic, sg), b(ic, og);
        if (a.get_ionization_variables().get_number_density() != b.get_ionization_variables().get_number_density() ||
            a.get_ionization_variables().get_ionic_fraction(ION_H_n) != b.get_ionization_variables().get_ionic_fraction(ION_H_n))
          same = false;
      }
    if (!same)
      R.violation("C03:copies:copy-differs:" + key, txt + fmt(": subgrid %zu is not a copy of its original %d", s, o0), rp);
    if (sg.get_neighbour(0) != s)
      R.violation("C03:copies:self-reference:" + key, txt + fmt(": subgrid %zu (copy of %d) names %u as itself", s, o0, (unsigned)sg.get_neighbour(0)), rp);
    for (int o = 0; o < 27; ++o)
      table.push_back(sg.get_neighbour(o));
    for (int o = 1; o < 27; ++o) {
      const uint_fast32_t a = sg.get_neighbour(o), b = geo_neighbour(w, o0, o);
      ++st.ev;
      if (b == NEIGHBOUR_OUTSIDE) {
        if (a != NEIGHBOUR_OUTSIDE)
          R.violation(fmt("C03:copies:neighbour:%s:%s", key.c_str(), DIRNAME[o]), txt + fmt(": subgrid %zu (copy of %d) has neighbour %u through %s where the box ends", s, o0, (unsigned)a, DIRNAME[o]), rp);
        continue;
      }
      if (a == NEIGHBOUR_OUTSIDE || a >= Aact || orig[a] != (int)b) {
        R.violation(fmt("C03:copies:neighbour:%s:%s:dlevel%+d", key.c_str(), DIRNAME[o], (int)lev[o0] - (int)lev[b]), txt + fmt(": subgrid %zu (copy of %d, level %d) has neighbour %u (%s) through %s, the geometric neighbour is %u (level %d)", s, o0, (int)lev[o0], (unsigned)a, a == NEIGHBOUR_OUTSIDE ? "outside" : (a < Aact ? fmt("copy of %d", orig[a]).c_str() : "no such subgrid"), DIRNAME[o], (unsigned)b, (int)lev[b]), rp);
        continue;
      }
      // originals keep pointing at originals
      if (s < (size_t)NS && a != b)
        R.violation(fmt("C03:copies:original-rewired:%s:%s", key.c_str(), DIRNAME[o]), txt + fmt(": original %zu now points at %u through %s", s, (unsigned)a, DIRNAME[o]), rp);
      // equal levels: one-to-one and mutual
      if (lev[o0] == lev[b]) {
        const uint_fast32_t back = (*g.get_subgrid((size_t)a)).get_neighbour(opposite_dir(o));
        if (back != s)
          R.violation(fmt("C03:copies:equal-level-not-paired:%s:%s", key.c_str(), DIRNAME[o]), txt + fmt(": %zu -> %s -> %u but %u -> %s -> %u", s, DIRNAME[o], (unsigned)a, (unsigned)a, DIRNAME[opposite_dir(o)], (unsigned)back), rp);
      }
      if (deep)
        ++fanin[o][a];
    }
  }
  // load balance of unequal levels (informational: not part of the property)
  if (deep)
    for (int o = 1; o < 27; ++o) {
      std::map< int, std::pair< int, int > > mm; // per target original: min/max fan-in
      for (auto &kv : fanin[o]) {
        auto &p = mm[orig[kv.first]];
        if (p.first == 0 || kv.second < p.first)
          p.first = kv.second;
        p.second = std::max(p.second, kv.second);
      }
      for (auto &kv : mm)
        if (kv.second.second > 2 * kv.second.first + 1)
          ++st.unbalanced;
    }
  return table;
}

/// fold copies into originals: every copy exactly once; push state to copies
static void check_fold_and_push(Result &R, const WiringCase &w, Creator &g, const std::vector< uint_fast8_t > &lev, long code, WStats &st) {
  const int NS = w.ns[0] * w.ns[1] * w.ns[2];
  const std::string key = wc_key(w), rp = wc_replay(w, code);
  std::string levs;
  for (int i = 0; i < NS; ++i)
    levs += fmt("%d", (int)lev[i]);
  const std::string txt = wc_text(w) + " copy levels " + levs;
  const size_t Aact = g.number_of_actual_subgrids();
  std::vector< int > orig(Aact, -1), rank(Aact, 0);
  for (int i = 0; i < NS; ++i) {
    orig[i] = i;
    auto range = g.get_subgrid((size_t)i).get_copies();
    int r = 0;
    for (auto c = range.first; c != range.second; ++c)
      if (c.get_index() < Aact) {
        orig[c.get_index()] = i;
        rank[c.get_index()] = ++r;
      }
  }
  // distinct power of two per member of a family (original = bit 0)
  for (size_t s = 0; s < Aact; ++s) {
    DensitySubGrid &sg = *g.get_subgrid(s);
    for (size_t ic = 0; ic < sg.get_number_of_cells(); ++ic) {
      DensitySubGrid::iterator it(ic, sg);
      IonizationVariables &iv = it.get_ionization_variables();
      for (int ion = 0; ion < NUMBER_OF_IONNAMES; ++ion)
        iv.set_mean_intensity(ion, std::ldexp(1., rank[s]) * (1 + ion) * (1 + (int)ic));
      for (int h = 0; h < NUMBER_OF_HEATINGTERMS; ++h)
        iv.set_heating(h, std::ldexp(1., rank[s]) * (3 + h) * (1 + (int)ic));
    }
  }
  bool ab;
  GUARDED(ab, g.update_original_counters());
  ++st.ev;
  if (ab) {
    R.violation("C03:copies:fold-abort:" + key, txt + ": update_original_counters aborted", rp);
    return;
  }
  for (size_t s = 0; s < Aact; ++s) {
    DensitySubGrid &sg = *g.get_subgrid(s);
    const double mask = s < (size_t)NS ? std::ldexp(1., 1 << lev[s]) - 1. : std::ldexp(1., rank[s]);
    for (size_t ic = 0; ic < sg.get_number_of_cells(); ++ic) {
      DensitySubGrid::iterator it(ic, sg);
      const IonizationVariables &iv = it.get_ionization_variables();
      for (int ion = 0; ion < NUMBER_OF_IONNAMES; ++ion) {
        ++st.ev;
        const double got = iv.get_mean_intensity(ion) / ((1 + ion) * (1 + (int)ic));
        if (got != mask) {
          R.violation(fmt("C03:copies:fold-intensity:%s:%s", key.c_str(), s < (size_t)NS ? "original" : "copy"), txt + fmt(": after folding, subgrid %zu cell %zu ion %d holds the family members with bit mask %.0f, expected %.0f (every copy exactly once)", s, ic, ion, got, mask), rp);
          return;
        }
      }
      for (int h = 0; h < NUMBER_OF_HEATINGTERMS; ++h) {
        ++st.ev;
        const double got = iv.get_heating(h) / ((3 + h) * (1 + (int)ic));
        if (got != mask) {
          R.violation(fmt("C03:copies:fold-heating:%s:%s", key.c_str(), s < (size_t)NS ? "original" : "copy"), txt + fmt(": after folding, subgrid %zu cell %zu heating term %d holds bit mask %.0f, expected %.0f", s, ic, h, got, mask), rp);
          return;
        }
      }
    }
  }
  // new state of the originals reaches every copy
  for (int s = 0; s < NS; ++s) {
    DensitySubGrid &sg = *g.get_subgrid((size_t)s);
    for (size_t ic = 0; ic < sg.get_number_of_cells(); ++ic) {
      DensitySubGrid::iterator it(ic, sg);
      IonizationVariables &iv = it.get_ionization_variables();
      iv.set_number_density(1000. + 7. * s + ic);
      iv.set_temperature(5000. + s + 0.5 * ic);
      for (int ion = 0; ion < NUMBER_OF_IONNAMES; ++ion)
        iv.set_ionic_fraction(ion, 1. / (2. + s + ion + ic));
    }
  }
  GUARDED(ab, g.update_copy_properties());
  ++st.ev;
  if (ab) {
    R.violation("C03:copies:push-abort:" + key, txt + ": update_copy_properties aborted", rp);
    return;
  }
  for (size_t s = NS; s < Aact; ++s) {
    DensitySubGrid &sg = *g.get_subgrid(s), &og = *g.get_subgrid((size_t)orig[s]);
    for (size_t ic = 0; ic < sg.get_number_of_cells(); ++ic) {
      DensitySubGrid::iterator a(ic, sg), b(ic, og);
      const IonizationVariables &x = a.get_ionization_variables(), &y = b.get_ionization_variables();
      bool same = x.get_number_density() == y.get_number_density() && x.get_temperature() == y.get_temperature();
      for (int ion = 0; ion < NUMBER_OF_IONNAMES; ++ion)
        if (x.get_ionic_fraction(ion) != y.get_ionic_fraction(ion))
          same = false;
      ++st.ev;
      if (!same) {
        R.violation("C03:copies:push-state:" + key, txt + fmt(": copy %zu cell %zu does not hold the new state of original %d", s, ic, orig[s]), rp);
        return;
      }
    }
  }
}

/// copy levels are encoded base 5 (levels 0..4), subgrid 0 = least significant digit
static const int LEVEL_BASE = 5;
static void decode_levels(long code, int NS, std::vector< uint_fast8_t > &lev) {
  lev.assign(NS, 0);
  for (int i = 0; i < NS; ++i) {
    lev[i] = code % LEVEL_BASE;
    code /= LEVEL_BASE;
  }
}
static long encode_levels(const std::vector< uint_fast8_t > &lev) {
  long code = 0;
  for (size_t i = lev.size(); i-- > 0;)
    code = code * LEVEL_BASE + lev[i];
  return code;
}

/// the restriction the callers impose: face neighbours differ by at most one level
static bool caller_allows(const WiringCase &w, const std::vector< uint_fast8_t > &lev) {
  static const int FACES[6] = {22, 21, 24, 23, 26, 25};
  const int NS = w.ns[0] * w.ns[1] * w.ns[2];
  for (int s = 0; s < NS; ++s)
    for (int f = 0; f < 6; ++f) {
      const uint_fast32_t n = geo_neighbour(w, s, FACES[f]);
      if (n != NEIGHBOUR_OUTSIDE && std::abs((int)lev[s] - (int)lev[n]) > 1)
        return false;
    }
  return true;
}

static void wiring_one(Result &R, const WiringCase &w, bool thorough, WStats &st, long only_code = -1, long only_code2 = -1) {
  IndexedFn fn;
  const int NS = w.ns[0] * w.ns[1] * w.ns[2];
  {
    Creator *g = make_creator(w, fn);
    check_original_wiring(R, w, *g, st);
    delete g;
    ++st.layouts;
  }
  const bool is222 = (w.ns[0] == 2 && w.ns[1] == 2 && w.ns[2] == 2);
  if (NS > 4 && !is222)
    return;
  // the level assignments (base-5 codes):
  //  * NS <= 4: all assignments over {0,1,2,3,4} (level differences up to 4 in
  //    both directions between touching subgrids, incl. self-neighbours)
  //  * 2x2x2: all assignments over {0,1,2} (quick: the ones the callers allow),
  //    plus a covering set with levels 3 and 4: checkerboards (a,b) in {0..4}^2
  //    (face neighbours differ by |a-b|, corner neighbours too, edge neighbours
  //    equal) and one subgrid at level 3/4 in a sea of level 0/1
  std::vector< long > codes;
  std::vector< uint_fast8_t > lev, lev2;
  if (!is222) {
    long tot = 1;
    for (int i = 0; i < NS; ++i)
      tot *= LEVEL_BASE;
    for (long c = 0; c < tot; ++c)
      codes.push_back(c);
  } else {
    for (long c3 = 0; c3 < 6561; ++c3) {
      lev.assign(8, 0);
      long c = c3;
      for (int i = 0; i < 8; ++i) {
        lev[i] = c % 3;
        c /= 3;
      }
      if (!thorough && !caller_allows(w, lev))
        continue;
      codes.push_back(encode_levels(lev));
    }
    for (int a = 0; a < 5; ++a)
      for (int b = 0; b < 5; ++b) {
        if (a <= 2 && b <= 2)
          continue; // already in the {0,1,2} set
        lev.assign(8, 0);
        for (int i = 0; i < 8; ++i)
          lev[i] = (((i >> 2) + (i >> 1) + i) & 1) ? b : a;
        codes.push_back(encode_levels(lev));
      }
    for (int sp = 0; sp < 8; ++sp)
      for (int L = 3; L <= 4; ++L)
        for (int sea = 0; sea <= 1; ++sea) {
          lev.assign(8, sea);
          lev[sp] = L;
          codes.push_back(encode_levels(lev));
        }
  }
  const long ncodes = (long)codes.size();
  for (long icode = 0; icode < ncodes; ++icode) {
    const long code = codes[icode];
    if (only_code >= 0 && code != only_code)
      continue;
    decode_levels(code, NS, lev);
    if (R.out_of_time())
      return;
    Creator *g = make_creator(w, fn);
    bool ab;
    GUARDED(ab, g->create_copies(lev));
    if (ab) {
      R.violation("C03:copies:create-abort:" + wc_key(w), wc_text(w) + fmt(" level code %ld: create_copies aborted", code), wc_replay(w, code));
      continue; // (the creator is leaked on purpose: its state is undefined)
    }
    ++st.level_assignments;
    std::vector< uint_fast32_t > t1 = check_copies(R, w, *g, lev, code, -1, st, true);
    check_fold_and_push(R, w, *g, lev, code, st);
    delete g;
    // update_copies from another assignment must give the same network as a fresh one
    {
      // quick: 3 other assignments (2x2x2: 1); thorough: all for NS <= 2, else 9 (2x2x2: 3)
      const int nother = thorough ? (NS <= 2 ? (int)ncodes : (is222 ? 3 : 9)) : (is222 ? 1 : 3);
      for (int k = 0; k < nother; ++k) {
        const long code2 = only_code2 >= 0 ? only_code2
                                          : codes[nother == (int)ncodes ? k : (icode * 7 + 1 + k * (ncodes / 3 + 1)) % ncodes];
        if (only_code2 >= 0 && k > 0)
          break;
        decode_levels(code2, NS, lev2);
        Creator *h = make_creator(w, fn);
        GUARDED(ab, { h->create_copies(lev2); h->update_copies(lev); });
        ++st.update_pairs;
        if (ab) {
          R.violation("C03:copies:update-abort:" + wc_key(w), wc_text(w) + fmt(" levels %ld -> %ld: update_copies aborted", code2, code), wc_replay(w, code, code2));
          continue;
        }
        std::vector< uint_fast32_t > t2 = check_copies(R, w, *h, lev, code, code2, st, false);
        if (!t1.empty() && !t2.empty() && t1 != t2)
          R.violation("C03:copies:update-differs-from-fresh:" + wc_key(w), wc_text(w) + fmt(": neighbour tables after create_copies(code %ld) + update_copies(code %ld) differ from a fresh create_copies(code %ld)", code2, code, code), wc_replay(w, code, code2));
        check_fold_and_push(R, w, *h, lev, code, st);
        delete h;
      }
    }
  }
}

static void run_wiring(Result &R, const Args &A) {
  std::vector< WiringCase > cases;
  for (int nx = 1; nx <= 3; ++nx)
    for (int ny = 1; ny <= 3; ++ny)
      for (int nz = 1; nz <= 3; ++nz)
        for (int per = 0; per < 8; ++per)
          for (int m = 1; m <= (A.thorough() ? 2 : 1); ++m)
            cases.push_back(WiringCase{{nx, ny, nz}, per, m});
  WStats total;
  const size_t n = cases.size(), rot = n ? (size_t)((uint64_t)A.seed * 31u % n) : 0;
  bool cut = false;
#pragma omp parallel
  {
    WStats st;
#pragma omp for schedule(dynamic, 1)
    for (size_t i = 0; i < n; ++i) {
      if (R.out_of_time()) {
        cut = true;
        continue;
      }
      wiring_one(R, cases[(i + rot) % n], A.thorough(), st);
    }
#pragma omp critical
    {
      total.ev += st.ev;
      total.layouts += st.layouts;
      total.level_assignments += st.level_assignments;
      total.copies_made += st.copies_made;
      total.update_pairs += st.update_pairs;
      total.unbalanced += st.unbalanced;
    }
  }
  if (cut || R.out_of_time())
    R.hit_deadline("wiring: not all layouts / level assignments done");
  R.evaluations += total.ev;
  R.nontrivial += total.ev;
  R.sample(fmt("{\"part\": \"wiring\", \"layouts\": \"(1..3)^3\", \"periodicities\": 8, \"cells_per_subgrid_axis\": \"1..%d\", "
               "\"copy_levels\": \"{0..4}^NS for NS<=4; 2x2x2: {0,1,2}^8 (%s) + 56 assignments with levels 3,4\"}",
               A.thorough() ? 2 : 1, A.thorough() ? "all 6561" : "caller-restricted"));
  R.set("wiring_layout_periodicity_cases", (double)total.layouts);
  R.set("copy_level_assignments", (double)total.level_assignments);
  R.set("copies_created", (double)total.copies_made);
  R.set("update_copies_transitions", (double)total.update_pairs);
  R.set("info_unbalanced_copy_fanin", (double)total.unbalanced);
}
#endif
