// C16 part 2a: real CartesianDensityGrid.
//  * positions: lattice per dimension {cell face, face + 1 ulp, cell centre,
//    next face - 1 ulp} x all cells (the last entry of the last cell is the
//    half-open upper boundary) -> get_cell_index is the index-arithmetic
//    oracle's cell, get_cell(index) contains the position and no other cell
//    does, midpoint/volume agree, volumes sum to the box
//  * enumeration begin()..end() visits every index once; index <-> (ix,iy,iz)
//  * get_neighbours for all 8 periodicities: oracle by index arithmetic,
//    mutual, face data
//  * rays: start lattice x 124 integer directions x 8 periodicities x opacity
//    fields x target optical depths through interact() and
//    integrate_optical_depth() against the long double marcher of
//    c16_march.hpp
#include "CartesianDensityGrid.hpp"
#include "Photon.hpp"
#include "c16_rays.hpp"
#include <omp.h>

using namespace verif;
using namespace c16;

struct GCfg {
  std::string name;
  int n[3];
  double A[3], S[3];
  bool dyadic;
};

static std::vector< GCfg > all_cfgs() {
  const double pc = 3.086e16;
  std::vector< GCfg > v;
  v.push_back({"1x1x1", {1, 1, 1}, {0., 0., 0.}, {1., 1., 1.}, true});
  v.push_back({"2x1x1", {2, 1, 1}, {-1., 0.5, 2.}, {2., 2., 0.5}, true});
  v.push_back({"1x3x2", {1, 3, 2}, {0.5, -3., 1.}, {0.25, 3., 4.}, true});
  v.push_back({"3x3x3", {3, 3, 3}, {0., 0., 0.}, {3., 3., 3.}, true});
  v.push_back({"4x2x3", {4, 2, 3}, {-2., 1., 0.25}, {2., 4., 0.75}, true});
  v.push_back({"5x1x2", {5, 1, 2}, {-8., 0., -1.}, {10., 1., 1.}, true});
  v.push_back({"3x3x3-unit", {3, 3, 3}, {0., 0., 0.}, {1., 1., 1.}, false});
  v.push_back({"4x3x5-generic", {4, 3, 5}, {0.1, -0.2, 0.3}, {0.9, 1.1, 0.7}, false});
  v.push_back({"10x1x1-unit", {10, 1, 1}, {0., 0., 0.}, {1., 1., 1.}, false});
  v.push_back({"3x2x2-parsec", {3, 2, 2}, {-5. * pc, -5. * pc, -5. * pc}, {10. * pc, 10. * pc, 10. * pc}, false});
  v.push_back({"7x6x5-generic", {7, 6, 5}, {-0.35, 1e-3, 12.1}, {0.7, 0.33, 2.9}, false});
  return v;
}
static const GCfg *find_cfg(const std::vector< GCfg > &v, const std::string &n) {
  for (auto &c : v)
    if (c.name == n)
      return &c;
  return nullptr;
}

static std::string cfg_json(const GCfg &c) { return "\"cfg\": \"" + c.name + "\""; }

struct Stats : public RayStats {
  uint64_t positions = 0, ngb = 0, evals = 0;
  uint64_t near_face = 0, out_of_range = 0, skipped_inface = 0;
  void merge(const Stats &o) {
    positions += o.positions;
    ngb += o.ngb;
    evals += o.evals;
    near_face += o.near_face;
    out_of_range += o.out_of_range;
    skipped_inface += o.skipped_inface;
    merge_rays(o);
  }
};

// ------------------------------------------------------------- positions
static void check_positions(const GCfg &cfg, Result &R, Stats &st, bool verbose) {
  const std::string cls = cfg.dyadic ? "" : ":nondyadic";
  Box<> box(CoordinateVector<>(cfg.A[0], cfg.A[1], cfg.A[2]), CoordinateVector<>(cfg.S[0], cfg.S[1], cfg.S[2]));
  CartesianDensityGrid grid(box, CoordinateVector< int_fast32_t >(cfg.n[0], cfg.n[1], cfg.n[2]));
  const size_t N = (size_t)cfg.n[0] * cfg.n[1] * cfg.n[2];
  const std::string rep0 = "{" + cfg_json(cfg) + ", \"what\": \"positions\"}";
  ++st.evals;
  if (grid.get_number_of_cells() != N)
    R.violation("C16:cartesian:number-of-cells" + cls, fmt("cfg %s: %zu cells reported, %zu expected", cfg.name.c_str(), (size_t)grid.get_number_of_cells(), N), rep0);
  // enumeration
  {
    std::vector< int > visits(N, 0);
    size_t steps = 0;
    for (auto it = grid.begin(); it != grid.end() && steps < N + 4; ++it, ++steps) {
      const size_t i = it.get_index();
      if (i < N)
        ++visits[i];
    }
    bool once = steps == N;
    for (size_t i = 0; i < N; ++i)
      once &= visits[i] == 1;
    if (!once)
      R.violation("C16:cartesian:enumeration" + cls, fmt("cfg %s: begin()..end() takes %zu steps for %zu cells or repeats a cell", cfg.name.c_str(), steps, N), rep0);
  }
  // cell boxes, midpoints, volumes
  Q side[3];
  double tol[3], ptol[3];
  for (int d = 0; d < 3; ++d) {
    side[d] = (Q)cfg.S[d] / cfg.n[d];
    tol[d] = cfg.dyadic ? 0. : 8. * DBL_EPSILON * (std::fabs(cfg.A[d]) + std::fabs(cfg.S[d]));
    ptol[d] = 8. * DBL_EPSILON * (std::fabs(cfg.A[d]) + std::fabs(cfg.S[d]));
  }
  std::vector< Box<> > cells(N);
  Q volsum = 0;
  for (int ix = 0; ix < cfg.n[0]; ++ix)
    for (int iy = 0; iy < cfg.n[1]; ++iy)
      for (int iz = 0; iz < cfg.n[2]; ++iz) {
        const size_t idx = ((size_t)ix * cfg.n[1] + iy) * cfg.n[2] + iz;
        const int I[3] = {ix, iy, iz};
        const Box<> b = grid.get_cell(idx);
        cells[idx] = b;
        const CoordinateVector<> mid = grid.get_cell_midpoint(idx);
        const double vol = grid.get_cell_volume(idx);
        Q v = 1;
        for (int d = 0; d < 3; ++d) {
          const Q a = (Q)cfg.A[d] + I[d] * side[d];
          if (fabsl(b.get_anchor()[d] - a) > tol[d] || fabsl(b.get_sides()[d] - side[d]) > tol[d] ||
              fabsl(mid[d] - (a + 0.5L * side[d])) > tol[d])
            R.violation("C16:cartesian:cell-geometry" + cls,
                        fmt("cfg %s cell %zu (%d,%d,%d) dim %d: anchor %a side %a midpoint %a, expected anchor %La side %La",
                            cfg.name.c_str(), idx, ix, iy, iz, d, b.get_anchor()[d], b.get_sides()[d], mid[d], a, side[d]),
                        rep0);
          v *= side[d];
        }
        if (fabsl(vol - v) > 4. * DBL_EPSILON * (double)v)
          R.violation("C16:cartesian:cell-volume" + cls, fmt("cfg %s cell %zu: volume %a, expected %La", cfg.name.c_str(), idx, vol, v), rep0);
        volsum += vol;
      }
  {
    const Q bv = (Q)cfg.S[0] * cfg.S[1] * cfg.S[2];
    if (fabsl(volsum - bv) > (cfg.dyadic ? 0.L : 4. * DBL_EPSILON * (N + 4) * bv))
      R.violation("C16:cartesian:volume-sum" + cls, fmt("cfg %s: volumes sum to %La, box %La", cfg.name.c_str(), volsum, bv), rep0);
  }
  // position lattice
  struct Coord {
    double x;
    int cell; // cell index the coordinate belongs to by construction
    int kind; // 0 face, 1 face+ulp, 2 centre, 3 next face - ulp
  };
  std::vector< Coord > L[3];
  for (int d = 0; d < 3; ++d) {
    const double top = cfg.A[d] + cfg.S[d];
    for (int i = 0; i < cfg.n[d]; ++i) {
      // the faces as the grid itself reports them
      const size_t probe = d == 0 ? ((size_t)i * cfg.n[1]) * cfg.n[2] : (d == 1 ? (size_t)i * cfg.n[2] : (size_t)i);
      const double a = cells[probe].get_anchor()[d];
      const double nexta = (i + 1 < cfg.n[d]) ? cells[d == 0 ? ((size_t)(i + 1) * cfg.n[1]) * cfg.n[2] : (d == 1 ? (size_t)(i + 1) * cfg.n[2] : (size_t)(i + 1))].get_anchor()[d] : top;
      const double cand[4] = {a, std::nextafter(a, DBL_MAX), a + 0.5 * (nexta - a), std::nextafter(nexta, -DBL_MAX)};
      for (int k = 0; k < 4; ++k)
        if (cand[k] >= cfg.A[d] && cand[k] < top)
          L[d].push_back({cand[k], i, k});
    }
  }
  for (const Coord &cx : L[0])
    for (const Coord &cy : L[1])
      for (const Coord &cz : L[2]) {
        ++st.positions;
        const CoordinateVector<> p(cx.x, cy.x, cz.x);
        const std::string rep = fmt("{%s, \"what\": \"position\", \"point\": \"%a %a %a\"}", cfg_json(cfg).c_str(), cx.x, cy.x, cz.x);
        const size_t expect = ((size_t)cx.cell * cfg.n[1] + cy.cell) * cfg.n[2] + cz.cell;
        volatile size_t got = (size_t)-1;
        bool trapped = false;
        {
          TRAP_BEGIN("C16:cartesian:abort:get_cell_index" + cls, fmt("cfg %s: abort in get_cell_index(%a,%a,%a)", cfg.name.c_str(), cx.x, cy.x, cz.x), rep)
          got = grid.get_cell_index(p);
          TRAP_END
          trapped = (got == (size_t)-1);
        }
        if (trapped)
          continue;
        const int kinds[3] = {cx.kind, cy.kind, cz.kind};
        const int ecell[3] = {cx.cell, cy.cell, cz.cell};
        // per-dimension indices (private member, harness is built with
        // -fno-access-control): each must be a valid cell number
        const CoordinateVector< int_fast32_t > I3 = grid.get_cell_indices(p);
        bool range_ok = true;
        for (int d = 0; d < 3; ++d)
          if (I3[d] < 0 || I3[d] >= cfg.n[d]) {
            range_ok = false;
            const bool upper = kinds[d] == 3 && ecell[d] == cfg.n[d] - 1;
            ++st.out_of_range;
            R.violation(std::string("C16:cartesian:index-out-of-range") + (upper ? ":within-roundoff-below-upper-box-face" : ":interior"),
                        fmt("cfg %s (anchor %g side %g, %d cells in dim %d): get_cell_indices(%a,%a,%a)[%d] = %d, valid range 0..%d; the "
                            "position is inside the half-open box (%a < top %a); get_cell_index = %zu of %zu cells",
                            cfg.name.c_str(), cfg.A[d], cfg.S[d], cfg.n[d], d, cx.x, cy.x, cz.x, d, (int)I3[d], cfg.n[d] - 1, p[d],
                            cfg.A[d] + cfg.S[d], (size_t)got, N),
                        rep);
          }
        if (!range_ok || got >= N)
          continue;
        bool on_face = false, exact_probe = cfg.dyadic;
        for (int d = 0; d < 3; ++d) {
          on_face |= kinds[d] != 2;
          exact_probe &= (kinds[d] == 0 || kinds[d] == 2);
        }
        // containment in the reported geometry of the located cell
        bool strict = true, loose = true;
        {
          const CoordinateVector<> top = cells[got].get_top_anchor();
          for (int d = 0; d < 3; ++d) {
            strict &= p[d] >= cells[got].get_anchor()[d] && p[d] < top[d];
            loose &= p[d] >= cells[got].get_anchor()[d] - ptol[d] && p[d] <= top[d] + ptol[d];
          }
        }
        if (exact_probe) {
          if (got != expect)
            R.violation("C16:cartesian:get_cell_index:wrong-cell", fmt("cfg %s: get_cell_index(%a,%a,%a) = %zu, expected %zu", cfg.name.c_str(), cx.x, cy.x, cz.x, got, expect), rep);
          if (!strict)
            R.violation("C16:cartesian:containment:located-cell", fmt("cfg %s: cell %zu found for (%a,%a,%a) does not contain it", cfg.name.c_str(), got, cx.x, cy.x, cz.x), rep);
        } else {
          if (!loose)
            R.violation("C16:cartesian:containment:located-cell:roundoff-level" + cls,
                        fmt("cfg %s: cell %zu found for (%a,%a,%a) misses it by more than round-off", cfg.name.c_str(), got, cx.x, cy.x, cz.x), rep);
          else if (!strict || got != expect)
            ++st.near_face;
          if (got != expect && !on_face)
            R.violation("C16:cartesian:get_cell_index:wrong-cell:roundoff-level" + cls,
                        fmt("cfg %s: cell centre (%a,%a,%a) located in cell %zu, expected %zu", cfg.name.c_str(), cx.x, cy.x, cz.x, got, expect), rep);
        }
        // no other cell contains it (strictly for dyadic boxes, deeper than
        // round-off otherwise)
        unsigned ncont = 0;
        for (size_t i = 0; i < N; ++i) {
          const CoordinateVector<> top = cells[i].get_top_anchor();
          bool in = true;
          for (int d = 0; d < 3; ++d) {
            const double t = exact_probe ? 0. : ptol[d];
            in &= p[d] >= cells[i].get_anchor()[d] + t && p[d] < top[d] - t;
          }
          if (in) {
            ++ncont;
            if (i != got && !exact_probe)
              ncont += 100;
          }
        }
        if (exact_probe ? ncont != 1 : ncont > 1)
          R.violation("C16:cartesian:containment:count" + cls,
                      fmt("cfg %s: (%a,%a,%a) lies in the geometry of %u cells (located cell %zu)", cfg.name.c_str(), cx.x, cy.x, cz.x, ncont % 100 + ncont / 100, got), rep);
      }
  if (verbose)
    printf("positions cfg %s: %zu cells, lattice %zux%zux%zu\n", cfg.name.c_str(), N, L[0].size(), L[1].size(), L[2].size());
}

// ------------------------------------------------------------ neighbours
static void check_neighbours(const GCfg &cfg, int per, Result &R, Stats &st) {
  const std::string cls = cfg.dyadic ? "" : ":nondyadic";
  const bool P[3] = {(per & 1) != 0, (per & 2) != 0, (per & 4) != 0};
  Box<> box(CoordinateVector<>(cfg.A[0], cfg.A[1], cfg.A[2]), CoordinateVector<>(cfg.S[0], cfg.S[1], cfg.S[2]));
  CartesianDensityGrid grid(box, CoordinateVector< int_fast32_t >(cfg.n[0], cfg.n[1], cfg.n[2]), CoordinateVector< bool >(P[0], P[1], P[2]));
  const size_t N = (size_t)cfg.n[0] * cfg.n[1] * cfg.n[2];
  ++st.evals;
  typedef std::vector< std::tuple< DensityGrid::iterator, CoordinateVector<>, CoordinateVector<>, double, CoordinateVector<> > > NgbList;
  std::vector< NgbList > all(N);
  const std::string rep = fmt("{%s, \"what\": \"neighbours\", \"periodic\": %d}", cfg_json(cfg).c_str(), per);
  {
    TRAP_BEGIN("C16:cartesian:abort:get_neighbours" + cls, fmt("cfg %s periodic %d: abort in get_neighbours", cfg.name.c_str(), per), rep)
    for (size_t i = 0; i < N; ++i)
      all[i] = grid.get_neighbours(i);
    TRAP_END
  }
  Q side[3];
  for (int d = 0; d < 3; ++d)
    side[d] = (Q)cfg.S[d] / cfg.n[d];
  for (size_t idx = 0; idx < N; ++idx) {
    if (all[idx].size() != 6) {
      R.violation("C16:cartesian:ngb:count" + cls, fmt("cfg %s periodic %d cell %zu: %zu neighbours", cfg.name.c_str(), per, idx, all[idx].size()), rep);
      continue;
    }
    const int I[3] = {(int)(idx / ((size_t)cfg.n[1] * cfg.n[2])), (int)((idx / cfg.n[2]) % cfg.n[1]), (int)(idx % cfg.n[2])};
    for (int d = 0; d < 3; ++d)
      for (int hi = 0; hi < 2; ++hi) {
        ++st.ngb;
        const auto &e = all[idx][2 * d + hi];
        int J[3] = {I[0], I[1], I[2]};
        J[d] += hi ? 1 : -1;
        bool none = false, wrap = false;
        if (J[d] < 0 || J[d] >= cfg.n[d]) {
          if (P[d]) {
            J[d] = (J[d] + cfg.n[d]) % cfg.n[d];
            wrap = true;
          } else
            none = true;
        }
        const size_t expect = none ? N : ((size_t)J[0] * cfg.n[1] + J[1]) * cfg.n[2] + J[2];
        const size_t got = std::get< 0 >(e).get_index();
        const std::string where = fmt("cfg %s periodic (%d,%d,%d) cell %zu (%d,%d,%d) dim %d %s", cfg.name.c_str(), P[0], P[1], P[2], idx, I[0], I[1], I[2], d, hi ? "high" : "low");
        const std::string kk = std::string(wrap ? ":periodic-wrap" : (none ? ":box-face" : "")) + cls;
        if (got != expect) {
          R.violation("C16:cartesian:ngb:index" + kk, where + fmt(": neighbour index %zu, expected %zu (%zu = none)", got, expect, N), rep);
          continue;
        }
        const CoordinateVector<> mid = std::get< 1 >(e), nrm = std::get< 2 >(e), rel = std::get< 4 >(e);
        const double area = std::get< 3 >(e);
        const Q earea = side[(d + 1) % 3] * side[(d + 2) % 3];
        bool ok = fabsl(area - earea) <= 4. * DBL_EPSILON * (double)earea;
        for (int a = 0; a < 3; ++a) {
          const Q t = cfg.dyadic ? 0.L : 8. * DBL_EPSILON * (std::fabs(cfg.A[a]) + std::fabs(cfg.S[a]));
          const Q cm = (Q)cfg.A[a] + (I[a] + 0.5L) * side[a];
          ok &= nrm[a] == (a == d ? (hi ? 1. : -1.) : 0.);
          ok &= fabsl(mid[a] - (cm + (a == d ? (hi ? 0.5L : -0.5L) * side[a] : 0.L))) <= t;
          ok &= fabsl(rel[a] - (a == d ? (hi ? 1.L : -1.L) * side[a] : 0.L)) <= 2 * t;
        }
        if (!ok)
          R.violation("C16:cartesian:ngb:face-data" + kk,
                      where + fmt(": face midpoint (%a,%a,%a) normal (%g,%g,%g) area %a relative position (%a,%a,%a)", mid[0], mid[1], mid[2], nrm[0], nrm[1], nrm[2], area, rel[0], rel[1], rel[2]), rep);
        if (!none) {
          // mutual
          const auto &b = all[got][2 * d + (1 - hi)];
          if (std::get< 0 >(b).get_index() != idx)
            R.violation("C16:cartesian:ngb:mutual" + kk, where + fmt(": neighbour %zu does not list the cell back (lists %zu)", got, (size_t)std::get< 0 >(b).get_index()), rep);
        }
      }
  }
}

// ------------------------------------------------------------------ rays
static std::vector< double > make_field(const GCfg &cfg, int field, double base) {
  std::vector< double > k((size_t)cfg.n[0] * cfg.n[1] * cfg.n[2]);
  for (int ix = 0; ix < cfg.n[0]; ++ix)
    for (int iy = 0; iy < cfg.n[1]; ++iy)
      for (int iz = 0; iz < cfg.n[2]; ++iz) {
        double v = base;
        switch (field) {
        case 0:
          break;
        case 1:
          v = base * (1 + ((3 * ix + 5 * iy + 7 * iz) % 4));
          break;
        case 2: {
          const double f[3] = {1e-3, 1., 30.};
          v = base * f[(ix + 2 * iy + 3 * iz) % 3];
          break;
        }
        case 3:
          v = ((ix + iy + iz) % 2) ? 0. : base * (1 + ((ix + 2 * iy) % 3));
          break;
        }
        k[((size_t)ix * cfg.n[1] + iy) * cfg.n[2] + iz] = v;
      }
  return k;
}

static RefGrid make_refgrid(const GCfg &cfg, int per) {
  RefGrid G;
  for (int d = 0; d < 3; ++d) {
    G.A[d] = cfg.A[d];
    G.S[d] = cfg.S[d];
    G.per[d] = (per >> d) & 1;
  }
  const GCfg c = cfg;
  G.locate = [c](const Q x[3], const int sgn[3], CellBox &b) {
    long I[3];
    for (int d = 0; d < 3; ++d) {
      const Q side = (Q)c.S[d] / c.n[d];
      const Q u = (x[d] - c.A[d]) / side;
      const Q r = roundl(u);
      long i;
      if (fabsl(u - r) < 1e-12L)
        i = (long)r - (sgn[d] < 0 ? 1 : 0);
      else
        i = (long)floorl(u);
      i = std::max(0L, std::min< long >(i, c.n[d] - 1));
      I[d] = i;
      b.lo[d] = c.A[d] + i * side;
      b.hi[d] = c.A[d] + (i + 1) * side;
    }
    b.id = (I[0] * c.n[1] + I[1]) * c.n[2] + I[2];
  };
  return G;
}

static RayCtx make_ctx(const GCfg &cfg, int per, int field, const RefGrid &G, const std::vector< double > &kap, CartesianDensityGrid &grid) {
  RayCtx cx;
  cx.prefix = "C16:cartesian";
  cx.cfgjson = cfg_json(cfg);
  cx.dyadic = cfg.dyadic;
  for (int d = 0; d < 3; ++d) {
    cx.A[d] = cfg.A[d];
    cx.S[d] = cfg.S[d];
  }
  cx.per = per;
  cx.field = field;
  cx.G = &G;
  cx.kap = &kap;
  cx.real_of = nullptr;
  cx.ncells_real = kap.size();
  CartesianDensityGrid *g = &grid;
  cx.cellbox = [g](size_t i, double *lo, double *hi) {
    const Box<> b = g->get_cell(i);
    const CoordinateVector<> top = b.get_top_anchor();
    for (int d = 0; d < 3; ++d) {
      lo[d] = b.get_anchor()[d];
      hi[d] = top[d];
    }
  };
  return cx;
}

static void rays_for(const GCfg &cfg, int per, int field, bool thorough, long seed, Result &R, Stats &st) {
  const bool P[3] = {(per & 1) != 0, (per & 2) != 0, (per & 4) != 0};
  Box<> box(CoordinateVector<>(cfg.A[0], cfg.A[1], cfg.A[2]), CoordinateVector<>(cfg.S[0], cfg.S[1], cfg.S[2]));
  CartesianDensityGrid grid(box, CoordinateVector< int_fast32_t >(cfg.n[0], cfg.n[1], cfg.n[2]), CoordinateVector< bool >(P[0], P[1], P[2]));
  double minside = DBL_MAX;
  for (int d = 0; d < 3; ++d)
    minside = std::min(minside, cfg.S[d] / cfg.n[d]);
  const double base = 1. / minside; // optical depth 1 across the thinnest cell
  const std::vector< double > kap = make_field(cfg, field, base);
  const size_t N = kap.size();
  for (size_t i = 0; i < N; ++i) {
    IonizationVariables &iv = DensityGrid::iterator(i, grid).get_ionization_variables();
    iv.set_number_density(kap[i]);
    iv.set_ionic_fraction(ION_H_n, 1.);
  }
  const RefGrid G = make_refgrid(cfg, per);
  const RayCtx cx = make_ctx(cfg, per, field, G, kap, grid);
  ++st.evals;
  // start lattice: faces and centres (+ an off-centre point in the thorough tier)
  std::vector< double > L[3];
  std::vector< char > Lface[3];
  const bool offcentre = thorough && N <= 27;
  for (int d = 0; d < 3; ++d) {
    const double side = cfg.S[d] / cfg.n[d];
    for (int i = 0; i < cfg.n[d]; ++i) {
      L[d].push_back(cfg.A[d] + side * i);
      Lface[d].push_back(1);
      L[d].push_back(cfg.A[d] + side * i + 0.5 * side);
      Lface[d].push_back(0);
      if (offcentre) {
        L[d].push_back(cfg.A[d] + side * i + 0.3125 * side);
        Lface[d].push_back(0);
      }
    }
  }
  std::vector< std::array< double, 3 > > dirs;
  for (auto &v : integer_directions()) {
    const double nrm = std::sqrt((double)(v[0] * v[0] + v[1] * v[1] + v[2] * v[2]));
    dirs.push_back({v[0] / nrm, v[1] / nrm, v[2] / nrm});
  }
  if (thorough) {
    // a few directions without any symmetry
    const double g[3][3] = {{0.267261241912424, 0.534522483824849, 0.801783725737273}, {0.9701425001453319, 0.2182178902359924, 0.1059998}, {1e-3, 0.8, 0.6}};
    for (int k = 0; k < 3; ++k)
      for (int s = 0; s < 8; ++s) {
        std::array< double, 3 > v = {(s & 1 ? -1 : 1) * g[k][0], (s & 2 ? -1 : 1) * g[k][1], (s & 4 ? -1 : 1) * g[k][2]};
        const double nrm = std::sqrt(v[0] * v[0] + v[1] * v[1] + v[2] * v[2]);
        for (double &c : v)
          c /= nrm;
        dirs.push_back(v);
      }
  }
  std::rotate(dirs.begin(), dirs.begin() + (seed % dirs.size()), dirs.end());
  const double tau_ref = 1.; // = base * minside
  auto kfun = [&](long id) -> Q { return kap[id]; };
  int failures = 0;
  for (size_t i0 = 0; i0 < L[0].size(); ++i0)
    for (size_t i1 = 0; i1 < L[1].size(); ++i1)
      for (size_t i2 = 0; i2 < L[2].size(); ++i2) {
        const double x = L[0][i0], y = L[1][i1], z = L[2][i2];
        const bool onface[3] = {Lface[0][i0] != 0, Lface[1][i1] != 0, Lface[2][i2] != 0};
        if (R.out_of_time())
          return;
        for (auto &dv : dirs) {
          // non-dyadic boxes: a face coordinate is a rounded number and the
          // position query may put it in either adjacent cell; a ray that stays
          // in that face plane is a tie between the two cells and not compared
          if (!cfg.dyadic && ((onface[0] && dv[0] == 0.) || (onface[1] && dv[1] == 0.) || (onface[2] && dv[2] == 0.))) {
            ++st.skipped_inface;
            continue;
          }
          RayCase rc;
          rc.p[0] = x, rc.p[1] = y, rc.p[2] = z;
          for (int d = 0; d < 3; ++d)
            rc.dir[d] = dv[d];
          rc.iod = false;
          // does the ray ever leave? (needs a component along a non-periodic axis)
          bool leaves = false;
          for (int d = 0; d < 3; ++d)
            leaves |= (!P[d] && dv[d] != 0.);
          if (field == 3 && per != 0)
            continue;
          std::vector< double > targets = {0.25 * tau_ref, tau_ref, 3.7 * tau_ref, 20.3 * tau_ref};
          if (field == 3 || leaves) {
            // optical depth to the exit
            const double inf = 1e300;
            const MarchResult M = march(G, rc.p, rc.dir, kfun, inf, 0.);
            if (!M.capped) {
              const double T = (double)M.tau;
              if (T > 0.) {
                targets.push_back(0.5 * T);
                targets.push_back(0.999 * T);
                targets.push_back(1.001 * T);
              }
              targets.push_back(inf);
              rc.iod = true;
              rc.target = inf;
              if (!run_ray(cx, grid, rc, R, st, false))
                ++failures;
              rc.iod = false;
            }
          }
          for (double t : targets) {
            rc.target = t;
            if (!run_ray(cx, grid, rc, R, st, false))
              ++failures;
          }
        }
      }
}

int main(int argc, char **argv) {
  Args A = parse_args(argc, argv);
  Result R(A);
  c16_install_fault_handler();
  const std::vector< GCfg > cfgs = all_cfgs();
  if (A.replay.empty() && !freopen("/dev/null", "w", stderr)) {
  }
  Stats ST;

  if (!A.replay.empty()) {
    const std::string rkey = replay_field(read_file(A.replay), "key");
    Result RR(A);
    replay_in_child(RR, rkey.empty() ? std::string("C16:replay") : rkey, [&]() -> uint64_t {
    const std::string txt = read_file(A.replay);
    const GCfg *c = find_cfg(cfgs, replay_field(txt, "cfg"));
    const std::string what = replay_field(txt, "what");
    if (!c) {
      printf("replay: unknown cfg\n");
      return (uint64_t)0;
    }
    if (what == "ray") {
      const int per = atoi(replay_field(txt, "periodic").c_str()), field = atoi(replay_field(txt, "field").c_str());
      RayCase rc;
      sscanf(replay_field(txt, "start").c_str(), "%la %la %la", &rc.p[0], &rc.p[1], &rc.p[2]);
      sscanf(replay_field(txt, "dir").c_str(), "%la %la %la", &rc.dir[0], &rc.dir[1], &rc.dir[2]);
      sscanf(replay_field(txt, "target").c_str(), "%la", &rc.target);
      rc.iod = atoi(replay_field(txt, "iod").c_str()) != 0;
      const bool P[3] = {(per & 1) != 0, (per & 2) != 0, (per & 4) != 0};
      Box<> box(CoordinateVector<>(c->A[0], c->A[1], c->A[2]), CoordinateVector<>(c->S[0], c->S[1], c->S[2]));
      CartesianDensityGrid grid(box, CoordinateVector< int_fast32_t >(c->n[0], c->n[1], c->n[2]), CoordinateVector< bool >(P[0], P[1], P[2]));
      double minside = DBL_MAX;
      for (int d = 0; d < 3; ++d)
        minside = std::min(minside, c->S[d] / c->n[d]);
      const std::vector< double > kap = make_field(*c, field, 1. / minside);
      for (size_t i = 0; i < kap.size(); ++i) {
        IonizationVariables &iv = DensityGrid::iterator(i, grid).get_ionization_variables();
        iv.set_number_density(kap[i]);
        iv.set_ionic_fraction(ION_H_n, 1.);
      }
      const RefGrid G = make_refgrid(*c, per);
      run_ray(make_ctx(*c, per, field, G, kap, grid), grid, rc, R, ST, true);
    } else if (what == "neighbours") {
      check_neighbours(*c, atoi(replay_field(txt, "periodic").c_str()), R, ST);
    } else {
      check_positions(*c, R, ST, true);
    }
    for (auto &v : R.violations)
      printf("  VIOLATION %s :: %s\n", v.key.c_str(), v.detail.c_str());
    printf("replay: %" PRIu64 " violation(s)\n", R.violation_count);
    return R.violation_count;
    });
    printf("replay: %s\n", RR.violation_count ? "REPRODUCED" : "not reproduced");
    return RR.finish(A);
  }

  const bool th = A.thorough();
  // positions and neighbours: all configurations, both tiers
  for (const GCfg &c : cfgs) {
    check_positions(c, R, ST, false);
    for (int per = 0; per < 8; ++per)
      check_neighbours(c, per, R, ST);
  }
  // rays
  std::vector< std::string > raycfg;
  if (!th)
    // 1x3x2 and 4x2x3: boxes whose three sides and three cell counts are pairwise different, so that a
    // wrap or index computed with the side / count of another axis cannot cancel (the other quick boxes
    // all have sides.x == sides.y)
    raycfg = {"1x1x1", "2x1x1", "1x3x2", "4x2x3", "3x3x3", "3x3x3-unit", "3x2x2-parsec"};
  else
    raycfg = {"1x1x1", "2x1x1", "1x3x2", "3x3x3", "4x2x3", "5x1x2", "3x3x3-unit", "4x3x5-generic", "10x1x1-unit", "3x2x2-parsec"};
  struct Task {
    const GCfg *c;
    int per, field;
  };
  std::vector< Task > tasks;
  for (auto &n : raycfg)
    for (int per = 0; per < 8; ++per)
      for (int field = 0; field < 4; ++field) {
        if (field == 3 && per != 0)
          continue;
        if (th && field == 0 && per != 0 && per != 7)
          continue;
        if (!th) {
          // quick tier: uniform field only without periodic faces; the strongly
          // varying field and the non-dyadic boxes only for selected flags
          const bool nondy = !find_cfg(cfgs, n)->dyadic;
          if (field == 0)
            continue;
          if (field == 2 && per != 0 && per != 7)
            continue;
          if (nondy && per != 0 && per != 7)
            continue;
        }
        tasks.push_back({find_cfg(cfgs, n), per, field});
      }
  Watchdog watchdog(R, A, "C16:cartesian");
  bool cut = false;
#pragma omp parallel
  {
    Stats st;
#pragma omp for schedule(dynamic, 1)
    for (size_t i = 0; i < tasks.size(); ++i) {
      if (R.out_of_time()) {
        cut = true;
        continue;
      }
      rays_for(*tasks[i].c, tasks[i].per, tasks[i].field, th, A.seed, R, st);
    }
#pragma omp critical
    ST.merge(st);
  }
  watchdog.stop();
  if (cut || R.out_of_time())
    R.hit_deadline("ray lattice incomplete");
  R.evaluations = ST.positions + ST.ngb + ST.rays;
  R.nontrivial = ST.rays_wrap + ST.rays_abs + ST.ngb / 6;
  R.rule = "positions: per-dimension lattice {face, face+1ulp, centre, next face-1ulp} of every cell (upper box face excluded); "
           "neighbours: every cell x 6 faces x 8 periodicities; rays: start lattice (faces, centres) x 124 integer directions x 8 "
           "periodicities x 4 opacity fields x target depths, real interact/integrate_optical_depth against a long double marcher; "
           "non-trivial = rays that wrapped or were absorbed + cells with a neighbour list";
  R.set("positions_checked", (double)ST.positions);
  R.set("neighbour_faces_checked", (double)ST.ngb);
  R.set("rays", (double)ST.rays);
  R.set("rays_crossing_a_periodic_face", (double)ST.rays_wrap);
  R.set("rays_absorbed", (double)ST.rays_abs);
  R.set("rays_escaped", (double)ST.rays_esc);
  R.set("rays_integrate_optical_depth", (double)ST.iod);
  R.set("rays_with_target_depth_on_a_wall_(either_outcome_accepted)", (double)ST.ties);
  R.set("positions_on_a_rounded_face_of_a_nondyadic_box", (double)ST.near_face);
  R.set("positions_with_an_out_of_range_cell_index", (double)ST.out_of_range);
  R.set("rays_in_a_face_plane_of_a_nondyadic_box_not_compared", (double)ST.skipped_inface);
  R.set("tolerance_k", 2.);
  R.set("deposit_comparisons", (double)ST.t_path.n);
  R.set("deposit_within_10x_of_tolerance", (double)ST.t_path.near);
  R.set("deposit_worst_error_over_tolerance", ST.t_path.worst);
  R.set("position_within_10x_of_tolerance", (double)ST.t_pos.near);
  R.set("position_worst_error_over_tolerance", ST.t_pos.worst);
  R.set("optical_depth_within_10x_of_tolerance", (double)ST.t_tau.near);
  R.set("optical_depth_worst_error_over_tolerance", ST.t_tau.worst);
  R.set("path_sum_within_10x_of_tolerance", (double)ST.t_sum.near);
  R.set("path_sum_worst_error_over_tolerance", ST.t_sum.worst);
  R.sample(fmt("{\"grids\": %zu, \"ray_tasks\": %zu, \"directions\": %d}", cfgs.size(), tasks.size(), th ? 148 : 124));
  R.assumptions.push_back("rays that never leave (all travelled axes periodic) are only traced with a finite target depth in "
                          "positive-density fields; integrate_optical_depth is only called on rays with a component along a "
                          "non-periodic axis (it does not terminate otherwise)");
  R.assumptions.push_back("non-dyadic boxes: rays lying in the plane of a (rounded) cell face are ties between the adjacent cells and not compared");
  R.assumptions.push_back("cells with zero density accumulate no path (DensityGrid::update_integrals skips them); field 3 "
                          "checks this and is only traced without periodic faces");
  R.assumptions.push_back("tolerances (k=2): ray parameter k eps (steps+2)(max|coordinate|/min|direction component| + total path); optical "
                          "depth kappa_max*that + k eps (steps+2) tau; absorption point: optical depth tolerance / kappa_min");
  return R.finish(A);
}
