// Shared ray comparison of the C16 density-grid harnesses: one ray through a
// real DensityGrid (interact / integrate_optical_depth) against the reference
// marcher of c16_march.hpp.
#ifndef C16_RAYS_HPP
#define C16_RAYS_HPP

#include "DensityGrid.hpp"
#include "Photon.hpp"
#include "c16_march.hpp"
#include <atomic>
#include <sys/wait.h>
#include <unistd.h>
#include <chrono>
#include <omp.h>
#include <thread>

namespace c16 {

#define TRAP_BEGIN(STAGEKEY, DETAIL, REPLAY)                                                                          \
  sigjmp_buf jb;                                                                                                      \
  if (sigsetjmp(jb, 1)) {                                                                                             \
    c16_jmp = nullptr;                                                                                                \
    R.violation(STAGEKEY, DETAIL, REPLAY);                                                                            \
  } else {                                                                                                            \
    c16_jmp = &jb;
#define TRAP_END                                                                                                      \
  c16_jmp = nullptr;                                                                                                  \
  }

// progress markers: every call into the code under test is bracketed by two
// increments (odd = inside the call) so that a call that never returns is
// reported by the watchdog instead of hanging the check
static std::atomic< uint64_t > g_beat[256];
static char g_current[256][1024];

class Watchdog {
  std::atomic< bool > _finished;
  std::thread _thread;

public:
  Watchdog(verif::Result &R, const verif::Args &A, const std::string &prefix, int seconds = 20) : _finished(false) {
    _thread = std::thread([&R, &A, prefix, seconds, this]() {
      uint64_t last[256] = {0};
      int stale[256] = {0};
      while (!_finished) {
        std::this_thread::sleep_for(std::chrono::seconds(1));
        for (int t = 0; t < 256; ++t) {
          const uint64_t b = g_beat[t];
          if (b == last[t] && (b & 1))
            ++stale[t];
          else
            stale[t] = 0;
          last[t] = b;
          if (stale[t] > seconds) {
            R.violation(prefix + ":interact-does-not-return", verif::fmt("the call has not returned for %d s: ", seconds) + g_current[t], g_current[t]);
            R.cap("run ended by the watchdog");
            if (R.evaluations < 2)
              R.evaluations = 2;
            R.nontrivial = std::max< uint64_t >(R.nontrivial, 2);
            R.finish(A);
            _exit(0);
          }
        }
      }
    });
  }
  void stop() {
    _finished = true;
    if (_thread.joinable())
      _thread.join();
  }
  ~Watchdog() { stop(); }
};

/// replay helper: runs `body` (returns the number of violations it reproduced)
/// in a child process with an alarm, so that a replayed case that hangs or
/// crashes is reported instead of taking the replay down
template < class F > inline void replay_in_child(verif::Result &R, const std::string &key, F body, int seconds = 20) {
  fflush(nullptr);
  const pid_t pid = fork();
  if (pid == 0) {
    alarm(seconds);
    const uint64_t n = body();
    fflush(nullptr);
    _exit(n ? 1 : 0);
  }
  int stt = 0;
  waitpid(pid, &stt, 0);
  if (WIFSIGNALED(stt) && WTERMSIG(stt) == SIGALRM) {
    printf("replay: the call did not return within %d s\n", seconds);
    R.violation(key, verif::fmt("reproduced: the call does not return (%d s)", seconds));
  } else if (WIFSIGNALED(stt)) {
    printf("replay: the process was killed by signal %d\n", WTERMSIG(stt));
    R.violation(key, verif::fmt("reproduced: killed by signal %d", WTERMSIG(stt)));
  } else if (WEXITSTATUS(stt) != 0) {
    R.violation(key, "reproduced (details above)");
  }
}

struct RayStats {
  uint64_t rays = 0, rays_wrap = 0, rays_abs = 0, rays_esc = 0, ties = 0, iod = 0;
  TolStat t_path, t_pos, t_tau, t_sum;
  void merge_rays(const RayStats &o) {
    rays += o.rays;
    rays_wrap += o.rays_wrap;
    rays_abs += o.rays_abs;
    rays_esc += o.rays_esc;
    ties += o.ties;
    iod += o.iod;
    t_path.merge(o.t_path);
    t_pos.merge(o.t_pos);
    t_tau.merge(o.t_tau);
    t_sum.merge(o.t_sum);
  }
};

/// everything run_ray needs to know about the grid under test
struct RayCtx {
  std::string prefix;  // violation key prefix, e.g. "C16:cartesian"
  std::string cfgjson; // "\"cfg\": \"name\"" for replay objects
  bool dyadic;
  double A[3], S[3];
  int per, field;
  const RefGrid *G;
  const std::vector< double > *kap;     // opacity per reference cell id
  const std::vector< size_t > *real_of; // reference cell id -> real cell index (nullptr: identical)
  size_t ncells_real;
  std::function< void(size_t, double *, double *) > cellbox; // real cell index -> reported box (nullptr: no box)
  // optional replacement of the box marcher (Voronoi cells) and an absolute
  // tolerance per step (deliberate epsilon displacements of the code under test)
  std::function< MarchResult(const double *, const double *, Q, Q) > marcher;
  double step_abs_tol = 0.;
};

struct RayCase {
  double p[3], dir[3], target;
  bool iod; // integrate_optical_depth instead of interact
};

/// one ray through the real grid against the marcher; returns false after a
/// violation
template < class GridT >
static bool run_ray(const RayCtx &cx, GridT &grid, const RayCase &rc, verif::Result &R, RayStats &st, bool verbose) {
  using verif::fmt;
  const RefGrid &G = *cx.G;
  const std::vector< double > &kap = *cx.kap;
  const int per = cx.per, field = cx.field;
  const size_t N = kap.size();
  const bool P[3] = {(per & 1) != 0, (per & 2) != 0, (per & 4) != 0};
  const std::string rep = fmt("{%s, \"what\": \"ray\", \"periodic\": %d, \"field\": %d, \"start\": \"%a %a %a\", \"dir\": \"%a %a %a\", \"target\": \"%a\", \"iod\": %d}",
                              cx.cfgjson.c_str(), per, field, rc.p[0], rc.p[1], rc.p[2], rc.dir[0], rc.dir[1], rc.dir[2], rc.target, (int)rc.iod);
  const std::string cls = cx.dyadic ? "" : ":nondyadic";
  const std::string PFX = cx.prefix;
  auto realidx = [&](size_t id) -> size_t { return cx.real_of ? (*cx.real_of)[id] : id; };
  double kmax = 0, kmin = DBL_MAX, coordmax = 0;
  for (double k : kap) {
    kmax = std::max(kmax, k);
    if (k > 0)
      kmin = std::min(kmin, k);
  }
  for (int d = 0; d < 3; ++d)
    coordmax = std::max(coordmax, std::fabs(cx.A[d]) + std::fabs(cx.S[d]));
  auto kfun = [&](long id) -> Q { return kap[id]; };
  // tolerance on path parameters: K eps (steps+2) coordmax / min|dir_i|
  const double K = 2.;
  const Q tie_tau = 64. * DBL_EPSILON * (rc.target < 1e200 ? rc.target : 0.) + 64. * DBL_EPSILON * kmax * coordmax;
  const MarchResult M = cx.marcher ? cx.marcher(rc.p, rc.dir, rc.target, tie_tau) : march(G, rc.p, rc.dir, kfun, rc.target, tie_tau);
  if (M.capped) {
    R.cap("reference marcher step cap hit: " + rep);
    return true;
  }
  // geometric tolerance on ray parameters: every step rounds coordinates of
  // size coordmax divided by a direction component, and the running sums
  // (photon position, deposited path) round at the size of the total path
  const Q tol_t = K * DBL_EPSILON * (M.steps + 2) * (coordmax / M.min_abs_dir + M.total) + (M.steps + 2) * (Q)cx.step_abs_tol;
  // optical depth: the running difference target - sum(tau_i) rounds at the
  // size of the depth used so far in every step
  const Q tol_tau = kmax * tol_t + K * DBL_EPSILON * (M.steps + 2) * M.tau;
  // an absorption point is the optical depth error divided by the opacity
  const Q tol_abs = (M.absorbed && kmin < DBL_MAX) ? tol_tau / kmin : 0.L;
  const bool wrapped = M.wraps[0] || M.wraps[1] || M.wraps[2];
  const std::string kk = std::string(M.near_edge ? ":ray-through-a-cell-edge-or-vertex" : "") +
                         std::string(M.wrap_into_finer ? ":periodic-wrap-into-finer-cells" : (wrapped ? ":periodic-wrap" : "")) + cls;
  ++st.rays;
  if (wrapped)
    ++st.rays_wrap;

  if (rc.iod) {
    Photon ph(CoordinateVector<>(rc.p[0], rc.p[1], rc.p[2]), CoordinateVector<>(rc.dir[0], rc.dir[1], rc.dir[2]), 1.);
    ph.set_cross_section(ION_H_n, 1.);
    volatile double tau = -1;
    volatile bool ok = false;
    {
      TRAP_BEGIN(PFX + ":abort:integrate_optical_depth" + kk, "abort in integrate_optical_depth: " + rep, rep)
      const int tid = omp_get_thread_num() & 255;
      snprintf(g_current[tid], sizeof(g_current[tid]), "%s", rep.c_str());
      ++g_beat[tid];
      tau = grid.integrate_optical_depth(ph);
      ++g_beat[tid];
      ok = true;
      TRAP_END
    }
    ++st.iod;
    if (ok && !st.t_tau.ok(fabsl(tau - M.tau), tol_tau)) {
      R.violation(PFX + ":integrate_optical_depth" + kk, fmt("integrate_optical_depth = %.17g, reference %.17Lg (tolerance %.3Lg): ", tau, M.tau, tol_tau) + rep, rep);
      return false;
    }
    return true;
  }

  for (size_t i = 0; i < N; ++i)
    DensityGrid::iterator(realidx(i), grid).get_ionization_variables().reset_mean_intensities();
  Photon ph(CoordinateVector<>(rc.p[0], rc.p[1], rc.p[2]), CoordinateVector<>(rc.dir[0], rc.dir[1], rc.dir[2]), 1.);
  ph.set_cross_section(ION_H_n, 1.);
  volatile size_t ret = (size_t)-1;
  volatile bool done = false;
  {
    TRAP_BEGIN(PFX + ":crash:interact" + kk, "interact ends in cmac_error/abort or a memory fault: " + rep, rep)
    const int tid = omp_get_thread_num() & 255;
    snprintf(g_current[tid], sizeof(g_current[tid]), "%s", rep.c_str());
    ++g_beat[tid];
    try {
      DensityGrid::iterator it = grid.interact(ph, rc.target);
      ret = it.get_index();
      done = true;
      ++g_beat[tid];
    } catch (const std::exception &e) {
      c16_jmp = nullptr;
      R.violation(PFX + ":crash:interact" + kk, std::string("interact throws ") + e.what() + ": " + rep, rep);
    }
    TRAP_END
  }
  if (!done)
    return false;
  const bool absorbed = ret < cx.ncells_real;
  const CoordinateVector<> fin = ph.get_position();
  std::vector< Q > expect(N, 0.L);
  for (auto &dp : M.deposits)
    if (kap[dp.first] > 0) // cells without gas do not accumulate (DensityGrid::update_integrals)
      expect[dp.first] += dp.second;
  Q sumreal = 0, taureal = 0, sumexp = 0;
  bool good = true, flag_ok = true;
  std::string why;
  if (verbose) {
    printf("ray %s\n reference: %d steps, total path %.17Lg, tau %.17Lg, absorbed %d in cell %ld, end (%.17Lg %.17Lg %.17Lg) wraps (%ld %ld %ld) tie %d\n", rep.c_str(),
           M.steps, M.total, M.tau, (int)M.absorbed, M.last_cell, M.pos[0], M.pos[1], M.pos[2], M.wraps[0], M.wraps[1], M.wraps[2], (int)M.tie_at_wall);
    printf(" real     : returned cell %zu (%s), end (%.17g %.17g %.17g)\n", ret, absorbed ? "absorbed" : "escaped", fin[0], fin[1], fin[2]);
  }
  // a photon never ends outside the box, whatever the tie-breaking
  {
    const Q btol = tol_t + tol_abs + K * DBL_EPSILON * coordmax;
    for (int d = 0; d < 3; ++d)
      if ((Q)fin[d] < (Q)cx.A[d] - btol || (Q)fin[d] > (Q)cx.A[d] + cx.S[d] + btol) {
        good = false;
        R.violation(PFX + ":final-position-outside-box" + kk,
                    fmt("photon ends at (%.17g, %.17g, %.17g), outside the box along axis %d (reported %s): ", fin[0], fin[1], fin[2], d, absorbed ? "absorbed" : "escaped") + rep, rep);
        break;
      }
  }
  if (M.tie_at_wall || M.near_edge) {
    // ties: either adjacent cell may receive the path, either outcome at a wall
    ++st.ties;
  } else if (absorbed != M.absorbed) {
    flag_ok = false;
    why = fmt("interact reports %s, reference says %s (optical depth to the exit/total %.17Lg, target %.17g)", absorbed ? "absorbed" : "escaped", M.absorbed ? "absorbed" : "escaped", M.tau, rc.target);
    const bool lastcell = M.absorbed && !absorbed && M.next_wall_is_box_face;
    R.violation(PFX + (lastcell ? ":absorbed-flag:absorbed-in-the-last-cell-before-a-box-face-reported-as-escaped" : ":absorbed-flag:other") + kk,
                why + (lastcell ? " [the photon stops inside a cell whose next wall along the ray is a non-periodic box face]: " : ": ") + rep, rep);
  }
  (absorbed ? st.rays_abs : st.rays_esc)++;
  // a wrong flag alone does not stop the comparison of deposits and position
  const bool compare_detail = !M.tie_at_wall && !M.near_edge;
  for (size_t i = 0; i < N; ++i) {
    const double J = DensityGrid::iterator(realidx(i), grid).get_ionization_variables().get_mean_intensity(ION_H_n);
    sumreal += J;
    taureal += (Q)J * kap[i];
    sumexp += expect[i];
    if (verbose && (J != 0. || expect[i] != 0.))
      printf("   cell %zu: path %.17g reference %.17Lg (opacity %g)\n", i, J, expect[i], kap[i]);
    if (compare_detail && !st.t_path.ok(fabsl(J - expect[i]), tol_t + tol_abs) && good) {
      good = false;
      R.violation(PFX + ":deposit" + kk, fmt("cell %zu received path %.17g, reference %.17Lg (tolerance %.3Lg): ", i, J, expect[i], tol_t + tol_abs) + rep, rep);
    }
  }
  // independent of the marcher: deposits sum to the straight-line travel
  if (field != 3) {
    Q dist2 = 0, dn2 = 0;
    for (int d = 0; d < 3; ++d) {
      // unwrap with the reference's wrap count; a final position that sits on
      // the periodic face may or may not have been wrapped
      Q dx = (Q)fin[d] + M.wraps[d] * (Q)cx.S[d] - rc.p[d];
      if (P[d]) {
        const Q want = M.total * rc.dir[d];
        dx -= roundl((dx - want) / cx.S[d]) * cx.S[d];
      }
      dist2 += dx * dx;
      dn2 += (Q)rc.dir[d] * rc.dir[d];
    }
    const Q travel = sqrtl(dist2 / dn2);
    if (!st.t_sum.ok(fabsl(sumreal - travel), 4 * tol_t) && good) {
      good = false;
      R.violation(PFX + ":path-sum-vs-travel" + kk, fmt("deposited paths sum to %.17Lg, straight-line travel %.17Lg: ", sumreal, travel) + rep, rep);
    }
  }
  if (compare_detail) {
    // final position (modulo the box in periodic dimensions)
    const Q ptol = tol_t + tol_abs + K * DBL_EPSILON * coordmax;
    for (int d = 0; d < 3; ++d) {
      Q dx = (Q)fin[d] - M.pos[d];
      if (P[d])
        dx -= roundl(dx / cx.S[d]) * cx.S[d];
      if (!st.t_pos.ok(fabsl(dx), ptol) && good) {
        good = false;
        R.violation(PFX + ":final-position" + kk, fmt("final position dim %d = %.17g, reference %.17Lg (tolerance %.3Lg): ", d, fin[d], M.pos[d], ptol) + rep, rep);
      }
    }
    // optical depth used up
    const Q tau_expect = M.tau;
    if (!st.t_tau.ok(fabsl(taureal - tau_expect), 2 * tol_tau) && good) {
      good = false;
      R.violation(PFX + ":optical-depth" + kk, fmt("sum of opacity x deposited path = %.17Lg, reference %.17Lg (target %.17g): ", taureal, tau_expect, rc.target) + rep, rep);
    }
    // the cell reported for an absorbed photon holds its final position
    if (absorbed && good && cx.cellbox) {
      double blo[3], bhi[3];
      cx.cellbox(ret, blo, bhi);
      for (int d = 0; d < 3; ++d)
        if ((Q)fin[d] < blo[d] - ptol || (Q)fin[d] > bhi[d] + ptol) {
          good = false;
          R.violation(PFX + ":absorbing-cell" + kk, fmt("photon absorbed in cell %zu but its position (%a,%a,%a) is outside that cell: ", ret, fin[0], fin[1], fin[2]) + rep, rep);
          break;
        }
    }
  }
  return good && flag_ok;
}


} // namespace c16

#endif
