// C16 part 2c: real VoronoiDensityGrid ("Old" and "New" Voronoi grids) with a
// handful of generators (the Voronoi constructions themselves are C15's
// subject; here the DensityGrid level functions are checked).
//  * cells: begin()..end() once each, midpoint = generator, volumes sum to the
//    box, get_cell_index(position lattice) = brute-force nearest generator
//    (ties to 8 eps accepted)
//  * get_neighbours: mutual, equal areas and face midpoints, opposite normals
//  * rays: interior start lattice x 124 integer directions x opacity fields x
//    target depths through interact() against a long double bisector marcher
//    over all generators (no neighbour lists); the code displaces photons by
//    epsilon = 1e-12 |box diagonal| per step, which enters the tolerance
#include "DensityFunction.hpp"
#include "VoronoiDensityGrid.hpp"
#include "VoronoiGeneratorDistribution.hpp"
#include "c16_rays.hpp"
#include <omp.h>

using namespace verif;
using namespace c16;

struct VCfg {
  std::string name;
  double A[3], S[3];
  std::vector< std::array< double, 3 > > gen;
};

class ListDistribution : public VoronoiGeneratorDistribution {
  std::vector< std::array< double, 3 > > _p;
  size_t _next = 0;

public:
  ListDistribution(const std::vector< std::array< double, 3 > > &p) : _p(p) {}
  virtual generatornumber_t get_number_of_positions() const { return _p.size(); }
  virtual CoordinateVector<> get_position() {
    const auto &q = _p[_next++ % _p.size()];
    return CoordinateVector<>(q[0], q[1], q[2]);
  }
};

class UnitDensity : public DensityFunction {
public:
  virtual DensityValues operator()(const Cell &cell) {
    DensityValues v;
    v.set_number_density(1.);
    v.set_temperature(8000.);
    v.set_ionic_fraction(ION_H_n, 1.);
    return v;
  }
};

static std::vector< VCfg > all_cfgs(long seed) {
  std::vector< VCfg > v;
  const double pert[7] = {0.13, -0.31, 0.07, 0.29, -0.11, -0.23, 0.19};
  auto pp = [&](size_t i) { return pert[(i + seed) % 7]; };
  const double boxes[2][6] = {{0., 0., 0., 1., 1., 1.}, {-2., 1., 0.5, 4., 2., 1.}};
  for (int b = 0; b < 2; ++b) {
    const double *A = boxes[b], *S = boxes[b] + 3;
    const std::string bn = b ? "skew" : "unit";
    auto in = [&](double u, double w, double t) { return std::array< double, 3 >{A[0] + u * S[0], A[1] + w * S[1], A[2] + t * S[2]}; };
    for (int m : {2, 3}) {
      VCfg c{fmt("perturbed-%d-%s", m, bn.c_str()), {A[0], A[1], A[2]}, {S[0], S[1], S[2]}, {}};
      size_t n = 0;
      for (int i = 0; i < m; ++i)
        for (int j = 0; j < m; ++j)
          for (int k = 0; k < m; ++k, ++n)
            c.gen.push_back(in((i + 0.5 + 0.8 * pp(n)) / m, (j + 0.5 + 0.8 * pp(n + 2)) / m, (k + 0.5 + 0.8 * pp(n + 4)) / m));
      v.push_back(c);
    }
    v.push_back({"few-4-" + bn, {A[0], A[1], A[2]}, {S[0], S[1], S[2]}, {in(0.21, 0.33, 0.27), in(0.77, 0.41, 0.19), in(0.48, 0.83, 0.62), in(0.35, 0.22, 0.88)}});
    v.push_back({"few-7-" + bn,
                 {A[0], A[1], A[2]},
                 {S[0], S[1], S[2]},
                 {in(0.11, 0.13, 0.17), in(0.91, 0.12, 0.23), in(0.52, 0.49, 0.51), in(0.18, 0.87, 0.31), in(0.83, 0.79, 0.88), in(0.31, 0.42, 0.93), in(0.66, 0.27, 0.71)}});
    v.push_back({"cluster-9-" + bn,
                 {A[0], A[1], A[2]},
                 {S[0], S[1], S[2]},
                 {in(0.5, 0.5, 0.5), in(0.53, 0.51, 0.49), in(0.47, 0.52, 0.54), in(0.51, 0.46, 0.52), in(0.1, 0.1, 0.1), in(0.9, 0.15, 0.2), in(0.2, 0.9, 0.85), in(0.88, 0.92, 0.1),
                  in(0.6, 0.4, 0.95)}});
  }
  return v;
}
static const VCfg *find_cfg(const std::vector< VCfg > &v, const std::string &n) {
  for (auto &c : v)
    if (c.name == n)
      return &c;
  return nullptr;
}

struct Stats : public RayStats {
  uint64_t positions = 0, ngb = 0, cells = 0, pos_ties = 0, evals = 0, relpos_wrapped = 0;
  void merge(const Stats &o) {
    positions += o.positions;
    ngb += o.ngb;
    cells += o.cells;
    pos_ties += o.pos_ties;
    evals += o.evals;
    relpos_wrapped += o.relpos_wrapped;
    merge_rays(o);
  }
};

static VoronoiDensityGrid *make_grid(const VCfg &cfg, const std::string &type, Result &R, const std::string &rep) {
  VoronoiDensityGrid *volatile g = nullptr;
  volatile bool ok = false;
  {
    TRAP_BEGIN("C16:voronoi:abort:construct:" + type, "cfg " + cfg.name + " type " + type + ": abort while building the grid", rep)
    Box<> box(CoordinateVector<>(cfg.A[0], cfg.A[1], cfg.A[2]), CoordinateVector<>(cfg.S[0], cfg.S[1], cfg.S[2]));
    g = new VoronoiDensityGrid(new ListDistribution(cfg.gen), box, type, 0, CoordinateVector< bool >(false), false, false, nullptr);
    UnitDensity dens;
    std::pair< cellsize_t, cellsize_t > block = std::make_pair(0, g->get_number_of_cells());
    g->initialize(block, dens);
    ok = true;
    TRAP_END
  }
  return ok ? g : nullptr;
}

static void check_cells(const VCfg &cfg, const std::string &type, Result &R, Stats &st) {
  const std::string rep = fmt("{\"cfg\": \"%s\", \"type\": \"%s\", \"what\": \"cells\"}", cfg.name.c_str(), type.c_str());
  VoronoiDensityGrid *gp = make_grid(cfg, type, R, rep);
  if (!gp)
    return;
  VoronoiDensityGrid &grid = *gp;
  ++st.evals;
  const size_t N = cfg.gen.size();
  const std::string T = ":" + type;
  if (grid.get_number_of_cells() != N)
    R.violation("C16:voronoi:number-of-cells" + T, fmt("cfg %s: %zu cells for %zu generators", cfg.name.c_str(), (size_t)grid.get_number_of_cells(), N), rep);
  {
    std::vector< int > visits(N, 0);
    size_t steps = 0;
    for (auto it = grid.begin(); it != grid.end() && steps < N + 4; ++it, ++steps)
      if (it.get_index() < N)
        ++visits[it.get_index()];
    bool once = steps == N;
    for (size_t i = 0; i < N; ++i)
      once &= visits[i] == 1;
    if (!once)
      R.violation("C16:voronoi:enumeration" + T, fmt("cfg %s: begin()..end() takes %zu steps for %zu cells or repeats a cell", cfg.name.c_str(), steps, N), rep);
  }
  Q volsum = 0;
  double diag = 0;
  for (int d = 0; d < 3; ++d)
    diag += cfg.S[d] * cfg.S[d];
  diag = std::sqrt(diag);
  for (size_t i = 0; i < N; ++i) {
    const CoordinateVector<> m = grid.get_cell_midpoint(i);
    for (int d = 0; d < 3; ++d)
      if (m[d] != cfg.gen[i][d])
        R.violation("C16:voronoi:midpoint" + T, fmt("cfg %s cell %zu: midpoint %a differs from generator %a (dim %d)", cfg.name.c_str(), i, m[d], cfg.gen[i][d], d), rep);
    const double vol = grid.get_cell_volume(i);
    if (!(vol > 0.))
      R.violation("C16:voronoi:cell-volume" + T, fmt("cfg %s cell %zu: volume %g", cfg.name.c_str(), i, vol), rep);
    volsum += vol;
    ++st.cells;
  }
  {
    const Q bv = (Q)cfg.S[0] * cfg.S[1] * cfg.S[2];
    if (fabsl(volsum - bv) > 1e-10L * bv)
      R.violation("C16:voronoi:volume-sum" + T, fmt("cfg %s: volumes sum to %.17Lg, box %.17Lg", cfg.name.c_str(), volsum, bv), rep);
  }
  // positions: lattice of the half-open box
  const int q = 9;
  for (int i = 0; i < q; ++i)
    for (int j = 0; j < q; ++j)
      for (int k = 0; k < q; ++k) {
        const double p[3] = {cfg.A[0] + cfg.S[0] * i / q, cfg.A[1] + cfg.S[1] * j / q, cfg.A[2] + cfg.S[2] * k / q};
        Q rmin = -1;
        std::vector< Q > r(N);
        for (size_t g = 0; g < N; ++g) {
          Q s = 0;
          for (int d = 0; d < 3; ++d)
            s += ((Q)p[d] - cfg.gen[g][d]) * ((Q)p[d] - cfg.gen[g][d]);
          r[g] = sqrtl(s);
          if (rmin < 0 || r[g] < rmin)
            rmin = r[g];
        }
        ++st.positions;
        const std::string prep = fmt("{\"cfg\": \"%s\", \"type\": \"%s\", \"what\": \"cells\", \"point\": \"%a %a %a\"}", cfg.name.c_str(), type.c_str(), p[0], p[1], p[2]);
        volatile size_t got = (size_t)-1;
        {
          TRAP_BEGIN("C16:voronoi:abort:get_cell_index" + T, fmt("cfg %s: abort in get_cell_index(%a,%a,%a)", cfg.name.c_str(), p[0], p[1], p[2]), prep)
          got = grid.get_cell_index(CoordinateVector<>(p[0], p[1], p[2]));
          TRAP_END
        }
        if (got == (size_t)-1)
          continue;
        if (got >= N || r[got] > rmin + 8. * DBL_EPSILON * (rmin + diag))
          R.violation("C16:voronoi:get_cell_index" + T,
                      fmt("cfg %s: get_cell_index(%a,%a,%a) = %zu at distance %.17Lg, nearest generator is at %.17Lg", cfg.name.c_str(), p[0], p[1], p[2], (size_t)got, got < N ? r[got] : -1.L, rmin), prep);
        else if (r[got] != rmin)
          ++st.pos_ties;
      }
  // neighbours
  typedef std::vector< std::tuple< DensityGrid::iterator, CoordinateVector<>, CoordinateVector<>, double, CoordinateVector<> > > NgbList;
  std::vector< NgbList > all(N);
  volatile bool have = false;
  {
    TRAP_BEGIN("C16:voronoi:abort:get_neighbours" + T, "cfg " + cfg.name + ": abort in get_neighbours", rep)
    for (size_t i = 0; i < N; ++i)
      all[i] = grid.get_neighbours(i);
    have = true;
    TRAP_END
  }
  if (have)
    for (size_t i = 0; i < N; ++i)
      for (auto &e : all[i]) {
        ++st.ngb;
        const size_t j = std::get< 0 >(e).get_index();
        if (j >= N)
          continue; // wall
        const auto *back = (const NgbList::value_type *)nullptr;
        int nback = 0;
        for (auto &f : all[j])
          if (std::get< 0 >(f).get_index() == i) {
            back = &f;
            ++nback;
          }
        if (nback != 1) {
          R.violation("C16:voronoi:ngb:mutual" + T, fmt("cfg %s: cell %zu lists %zu as neighbour, %zu lists it back %d times", cfg.name.c_str(), i, j, j, nback), rep);
          continue;
        }
        const double a1 = std::get< 3 >(e), a2 = std::get< 3 >(*back);
        int bad = 0;
        // generators at least half a box apart along an axis: get_neighbours
        // applies a periodic wrap to the relative position although the box is
        // not periodic ("should never be called"); normals and relative
        // positions of such pairs are only counted, not demanded
        bool far = false;
        for (int d = 0; d < 3; ++d)
          far |= std::fabs(cfg.gen[j][d] - cfg.gen[i][d]) >= 0.5 * cfg.S[d] * (1. - 1e-12);
        if (!(std::fabs(a1 - a2) <= 1e-9 * (std::fabs(a1) + std::fabs(a2))))
          bad |= 1;
        for (int d = 0; d < 3; ++d) {
          if (!(std::fabs(std::get< 1 >(e)[d] - std::get< 1 >(*back)[d]) <= 1e-9 * diag))
            bad |= 2;
          if (!far && !(std::fabs(std::get< 2 >(e)[d] + std::get< 2 >(*back)[d]) <= 1e-12))
            bad |= 4;
          if (!far && !(std::fabs(std::get< 4 >(e)[d] + std::get< 4 >(*back)[d]) <= 1e-12 * diag))
            bad |= 8;
          // informational only (not part of "mutual"): get_neighbours wraps the
          // relative position by a box length when the generators are more than
          // half a box apart although the box is not periodic
          if (!(std::fabs(std::get< 4 >(e)[d] - (cfg.gen[j][d] - cfg.gen[i][d])) <= 1e-12 * diag))
            ++st.relpos_wrapped;
        }
        const bool ok = bad == 0;
        if (!ok)
          R.violation("C16:voronoi:ngb:face-data" + T,
                      fmt("cfg %s: face between cells %zu and %zu (failing comparisons mask %d, diag %g): areas %.17g / %.17g, midpoints (%.17g %.17g %.17g) / (%.17g %.17g %.17g), normals (%.17g %.17g %.17g) / (%.17g %.17g %.17g), "
                          "relative positions (%.17g %.17g %.17g) / (%.17g %.17g %.17g)",
                          cfg.name.c_str(), i, j, bad, diag, a1, a2, std::get< 1 >(e)[0], std::get< 1 >(e)[1], std::get< 1 >(e)[2], std::get< 1 >(*back)[0], std::get< 1 >(*back)[1], std::get< 1 >(*back)[2],
                          std::get< 2 >(e)[0], std::get< 2 >(e)[1], std::get< 2 >(e)[2], std::get< 2 >(*back)[0], std::get< 2 >(*back)[1], std::get< 2 >(*back)[2], std::get< 4 >(e)[0],
                          std::get< 4 >(e)[1], std::get< 4 >(e)[2], std::get< 4 >(*back)[0], std::get< 4 >(*back)[1], std::get< 4 >(*back)[2]),
                      rep);
      }
  delete gp;
}

/// reference: straight ray through the Voronoi cells of the generators
static MarchResult march_voronoi(const VCfg &cfg, const double p[3], const double dir[3], const std::vector< double > &kap, Q target, Q tie_tol) {
  MarchResult r;
  const size_t N = cfg.gen.size();
  Q x[3] = {p[0], p[1], p[2]}, d[3] = {dir[0], dir[1], dir[2]};
  r.min_abs_dir = 2;
  Q diag = 0;
  for (int i = 0; i < 3; ++i) {
    if (d[i] != 0)
      r.min_abs_dir = std::min(r.min_abs_dir, fabsl(d[i]));
    diag += (Q)cfg.S[i] * cfg.S[i];
  }
  diag = sqrtl(diag);
  // starting cell: nearest generator a little ahead of the start
  long cur = -1;
  {
    Q best = -1;
    for (size_t g = 0; g < N; ++g) {
      Q s = 0;
      for (int i = 0; i < 3; ++i) {
        const Q dx = x[i] + 1e-9L * diag * d[i] - cfg.gen[g][i];
        s += dx * dx;
      }
      if (best < 0 || s < best) {
        best = s;
        cur = (long)g;
      }
    }
  }
  for (;;) {
    if (++r.steps > 10000) {
      r.capped = true;
      break;
    }
    Q tmin = -1;
    long next = -2; // -1: box wall
    for (int i = 0; i < 3; ++i) {
      if (d[i] == 0)
        continue;
      const Q face = d[i] > 0 ? (Q)cfg.A[i] + cfg.S[i] : (Q)cfg.A[i];
      Q t = (face - x[i]) / d[i];
      if (t < 0)
        t = 0;
      if (tmin < 0 || t < tmin) {
        tmin = t;
        next = -1;
      }
    }
    for (size_t g = 0; g < N; ++g) {
      if ((long)g == cur)
        continue;
      Q dn = 0, num = 0;
      for (int i = 0; i < 3; ++i) {
        const Q n = (Q)cfg.gen[g][i] - cfg.gen[cur][i];
        dn += d[i] * n;
        num += (0.5L * ((Q)cfg.gen[g][i] + cfg.gen[cur][i]) - x[i]) * n;
      }
      if (dn <= 0)
        continue;
      Q t = num / dn;
      if (t < 0)
        t = 0;
      if (t < tmin) {
        tmin = t;
        next = (long)g;
      }
    }
    // second exit within 1e-9 |diagonal| of the first: the ray passes through
    // an edge or vertex of the cell
    {
      int close = 0;
      for (int i = 0; i < 3; ++i)
        if (d[i] != 0) {
          const Q face = d[i] > 0 ? (Q)cfg.A[i] + cfg.S[i] : (Q)cfg.A[i];
          const Q t = (face - x[i]) / d[i];
          close += fabsl(t - tmin) <= 1e-9L * diag;
        }
      for (size_t g = 0; g < N; ++g) {
        if ((long)g == cur)
          continue;
        Q dn = 0, num = 0;
        for (int i = 0; i < 3; ++i) {
          const Q n = (Q)cfg.gen[g][i] - cfg.gen[cur][i];
          dn += d[i] * n;
          num += (0.5L * ((Q)cfg.gen[g][i] + cfg.gen[cur][i]) - x[i]) * n;
        }
        if (dn > 0)
          close += fabsl(num / dn - tmin) <= 1e-9L * diag;
      }
      if (close > 1)
        r.near_edge = true;
    }
    const Q k = kap[cur];
    if (r.tau + k * tmin >= target) {
      const Q ta = (target - r.tau) / k;
      if (fabsl(r.tau + k * tmin - target) <= tie_tol)
        r.tie_at_wall = true;
      r.deposits.push_back({cur, ta});
      r.total += ta;
      r.tau = target;
      for (int i = 0; i < 3; ++i)
        x[i] += ta * d[i];
      r.absorbed = true;
      r.last_cell = cur;
      r.next_wall_is_box_face = next == -1;
      break;
    }
    r.deposits.push_back({cur, tmin});
    r.total += tmin;
    r.tau += k * tmin;
    if (target - r.tau <= tie_tol)
      r.tie_at_wall = true;
    for (int i = 0; i < 3; ++i)
      x[i] += tmin * d[i];
    if (next == -1)
      break;
    cur = next;
  }
  for (int i = 0; i < 3; ++i)
    r.pos[i] = x[i];
  return r;
}

static void rays_for(const VCfg &cfg, const std::string &type, int field, bool thorough, long seed, Result &R, Stats &st, const RayCase *only, bool verbose) {
  const std::string rep0 = fmt("{\"cfg\": \"%s\", \"type\": \"%s\", \"what\": \"cells\"}", cfg.name.c_str(), type.c_str());
  VoronoiDensityGrid *gp = make_grid(cfg, type, R, rep0);
  if (!gp)
    return;
  VoronoiDensityGrid &grid = *gp;
  ++st.evals;
  const size_t N = cfg.gen.size();
  double diag = 0, minside = DBL_MAX;
  for (int d = 0; d < 3; ++d) {
    diag += cfg.S[d] * cfg.S[d];
    minside = std::min(minside, cfg.S[d]);
  }
  diag = std::sqrt(diag);
  const double base = std::cbrt((double)N) / minside;
  std::vector< double > kap(N);
  for (size_t i = 0; i < N; ++i) {
    const double f[3] = {0.05, 1., 12.};
    kap[i] = field == 0 ? base : (field == 1 ? base * (1 + (i * 7) % 4) : base * f[(i * 5 + 1) % 3]);
    IonizationVariables &iv = DensityGrid::iterator(i, grid).get_ionization_variables();
    iv.set_number_density(kap[i]);
    iv.set_ionic_fraction(ION_H_n, 1.);
  }
  RefGrid G;
  for (int d = 0; d < 3; ++d) {
    G.A[d] = cfg.A[d];
    G.S[d] = cfg.S[d];
    G.per[d] = false;
  }
  RayCtx cx;
  cx.prefix = "C16:voronoi:" + type;
  cx.cfgjson = fmt("\"cfg\": \"%s\", \"type\": \"%s\"", cfg.name.c_str(), type.c_str());
  cx.dyadic = true;
  for (int d = 0; d < 3; ++d) {
    cx.A[d] = cfg.A[d];
    cx.S[d] = cfg.S[d];
  }
  cx.per = 0;
  cx.field = field;
  cx.G = &G;
  cx.kap = &kap;
  cx.real_of = nullptr;
  cx.ncells_real = N;
  cx.cellbox = nullptr;
  const VCfg *cp = &cfg;
  const std::vector< double > *kp = &kap;
  cx.marcher = [cp, kp](const double *p, const double *dir, Q target, Q tie) { return march_voronoi(*cp, p, dir, *kp, target, tie); };
  // the code moves the photon by epsilon = 1e-12 |diagonal| along the ray
  // before locating it and whenever a step has zero length
  cx.step_abs_tol = 4e-12 * diag;
  if (only) {
    run_ray(cx, grid, *only, R, st, verbose);
    delete gp;
    return;
  }
  std::vector< double > L[3];
  for (int d = 0; d < 3; ++d) {
    const int m = thorough ? 7 : 4;
    for (int i = 0; i < m; ++i)
      L[d].push_back(cfg.A[d] + cfg.S[d] * (i + 0.5) / m);
  }
  std::vector< std::array< double, 3 > > dirs;
  for (auto &v : integer_directions()) {
    const double nrm = std::sqrt((double)(v[0] * v[0] + v[1] * v[1] + v[2] * v[2]));
    dirs.push_back({v[0] / nrm, v[1] / nrm, v[2] / nrm});
  }
  std::rotate(dirs.begin(), dirs.begin() + (seed % dirs.size()), dirs.end());
  for (double x : L[0])
    for (double y : L[1])
      for (double z : L[2]) {
        if (R.out_of_time()) {
          delete gp;
          return;
        }
        for (auto &dv : dirs) {
          RayCase rc;
          rc.p[0] = x, rc.p[1] = y, rc.p[2] = z;
          for (int d = 0; d < 3; ++d)
            rc.dir[d] = dv[d];
          rc.iod = false;
          const MarchResult M = march_voronoi(cfg, rc.p, rc.dir, kap, 1e300L, 0.);
          std::vector< double > targets = {0.25, 1.0, 3.7, 1e300};
          if (!M.capped && M.tau > 0) {
            targets.push_back(0.5 * (double)M.tau);
            targets.push_back(0.999 * (double)M.tau);
            targets.push_back(1.001 * (double)M.tau);
          }
          for (double t : targets) {
            rc.target = t;
            run_ray(cx, grid, rc, R, st, false);
          }
        }
      }
  delete gp;
}

int main(int argc, char **argv) {
  Args A = parse_args(argc, argv);
  Result R(A);
  c16_install_fault_handler();
  const std::vector< VCfg > cfgs = all_cfgs(A.seed);
  if (A.replay.empty() && !freopen("/dev/null", "w", stderr)) {
  }
  Stats ST;
  if (!A.replay.empty()) {
    const std::string rkey = replay_field(read_file(A.replay), "key");
    Result RR(A);
    replay_in_child(RR, rkey.empty() ? std::string("C16:replay") : rkey, [&]() -> uint64_t {
    const std::string txt = read_file(A.replay);
    const VCfg *c = find_cfg(cfgs, replay_field(txt, "cfg"));
    const std::string type = replay_field(txt, "type"), what = replay_field(txt, "what");
    if (!c) {
      printf("replay: unknown cfg (generator sets depend on --seed)\n");
      return (uint64_t)0;
    }
    if (what == "ray") {
      RayCase rc;
      sscanf(replay_field(txt, "start").c_str(), "%la %la %la", &rc.p[0], &rc.p[1], &rc.p[2]);
      sscanf(replay_field(txt, "dir").c_str(), "%la %la %la", &rc.dir[0], &rc.dir[1], &rc.dir[2]);
      sscanf(replay_field(txt, "target").c_str(), "%la", &rc.target);
      rc.iod = false;
      rays_for(*c, type, atoi(replay_field(txt, "field").c_str()), true, A.seed, R, ST, &rc, true);
    } else
      check_cells(*c, type, R, ST);
    for (auto &v : R.violations)
      printf("  VIOLATION %s :: %s\n", v.key.c_str(), v.detail.c_str());
    printf("replay: %" PRIu64 " violation(s)\n", R.violation_count);
    return R.violation_count;
    });
    printf("replay: %s\n", RR.violation_count ? "REPRODUCED" : "not reproduced");
    return RR.finish(A);
  }
  const bool th = A.thorough();
  struct Task {
    const VCfg *c;
    std::string type;
    int field; // -1: cells
  };
  std::vector< Task > tasks;
  for (auto &c : cfgs)
    for (std::string type : {"Old", "New"}) {
      tasks.push_back({&c, type, -1});
      for (int field = 0; field < 3; ++field) {
        if (!th && (field == 0 || c.gen.size() > 9))
          continue;
        tasks.push_back({&c, type, field});
      }
    }
  Watchdog watchdog(R, A, "C16:voronoi");
  bool cut = false;
#pragma omp parallel
  {
    Stats st;
#pragma omp for schedule(dynamic, 1)
    for (size_t i = 0; i < tasks.size(); ++i) {
      if (R.out_of_time()) {
        cut = true;
        continue;
      }
      if (tasks[i].field < 0)
        check_cells(*tasks[i].c, tasks[i].type, R, st);
      else
        rays_for(*tasks[i].c, tasks[i].type, tasks[i].field, th, A.seed, R, st, nullptr, false);
    }
#pragma omp critical
    ST.merge(st);
  }
  watchdog.stop();
  if (cut || R.out_of_time())
    R.hit_deadline("Voronoi tasks incomplete");
  R.evaluations = ST.positions + ST.ngb + ST.rays + ST.cells;
  R.nontrivial = ST.rays_abs + ST.ngb;
  R.rule = "generator sets of 4-27 points x {Old, New} Voronoi grid: cells/positions/neighbour lists, and rays from an interior start "
           "lattice x 124 directions x 3 opacity fields x target depths against a brute-force bisector marcher; non-trivial = absorbed "
           "rays + neighbour faces";
  R.set("generator_sets", (double)cfgs.size());
  R.set("cells", (double)ST.cells);
  R.set("positions_checked", (double)ST.positions);
  R.set("positions_equidistant_to_round_off", (double)ST.pos_ties);
  R.set("neighbour_faces_checked", (double)ST.ngb);
  R.set("neighbour_relative_position_components_wrapped_by_a_box_length_(info)", (double)ST.relpos_wrapped);
  R.set("rays", (double)ST.rays);
  R.set("rays_absorbed", (double)ST.rays_abs);
  R.set("rays_escaped", (double)ST.rays_esc);
  R.set("rays_through_a_cell_edge_or_with_target_on_a_wall_(ties_accepted)", (double)ST.ties);
  R.set("deposit_within_10x_of_tolerance", (double)ST.t_path.near);
  R.set("deposit_worst_error_over_tolerance", ST.t_path.worst);
  R.set("position_within_10x_of_tolerance", (double)ST.t_pos.near);
  R.set("position_worst_error_over_tolerance", ST.t_pos.worst);
  R.set("optical_depth_within_10x_of_tolerance", (double)ST.t_tau.near);
  R.set("optical_depth_worst_error_over_tolerance", ST.t_tau.worst);
  R.set("path_sum_within_10x_of_tolerance", (double)ST.t_sum.near);
  R.set("path_sum_worst_error_over_tolerance", ST.t_sum.worst);
  R.assumptions.push_back("Voronoi grids are not periodic (the constructor refuses periodic boxes); integrate_optical_depth is unimplemented for this grid");
  R.assumptions.push_back("ray starts are interior points (the code displaces the start by epsilon along the ray before locating it); "
                          "per-step absolute tolerance 4e-12 |box diagonal| for those displacements");
  R.assumptions.push_back("generic (perturbed, clustered) generator sets only: degenerate sets are C15's subject");
  return R.finish(A);
}
