// C16 part 3: real Octree and PointLocations searches against brute force.
//  Octree: get_ngbs (smoothing-length overlap), get_ngbs_sphere,
//          get_ngbs_list, get_closest_ngb, periodic and non-periodic
//  PointLocations: get_closest_neighbour and the ngbiterator radius search
//          protocol of OldVoronoiGrid::compute_cell
// on lattice, node-face, clustered, perturbed and degenerate (planar, linear,
// tiny) point sets; query centres on a lattice of the box and on the points
// themselves; exact ties (|r - h| within 8 eps) are accepted either way.
//
// Block-clustered sets ("shell exhaustion"): the generators occupy a chosen
// subset of the s^3 search blocks of PointLocations (every unordered pair of
// blocks incl. a single block, every axis-parallel line and slab of blocks,
// the diagonals and diagonal planes), and the searches are started from EVERY
// block (several positions per block), so that the shell-by-shell traversal
// has to run to its last shell and its last block: get_closest_neighbour, the
// radius protocol around an arbitrary position (generalngbiterator) and
// around a stored point (ngbiterator), and the Octree searches.
//
// Dyadic tie lattices ("exact ties"): lattices whose coordinates, smoothing
// lengths and radii are integer multiples of 2^-6, so that every operation of
// the real code is exact; every half-lattice point is a query; the oracle is
// integer arithmetic WITHOUT a tie band (r == h, node box distance == node
// maximum, covered radius == search radius are decided, not skipped).
#include "Octree.hpp"
#include "PointLocations.hpp"
#include "c16_march.hpp"
#include <map>
#include <omp.h>
#include <set>
#include <sys/wait.h>

using namespace verif;
typedef long double Q;

struct PSet {
  std::string name;
  Box<> box;
  std::vector< CoordinateVector<> > pts;
  double spacing; // typical distance between points
  bool degenerate; // zero extent in some dimension
};

static CoordinateVector<> inbox(const Box<> &b, double u, double v, double w) {
  return CoordinateVector<>(b.get_anchor().x() + u * b.get_sides().x(), b.get_anchor().y() + v * b.get_sides().y(),
                            b.get_anchor().z() + w * b.get_sides().z());
}

static std::vector< PSet > make_sets(bool thorough, long seed) {
  std::vector< PSet > v;
  const Box<> unit(CoordinateVector<>(0.), CoordinateVector<>(1.));
  const Box<> skew(CoordinateVector<>(-2., 1., 0.5), CoordinateVector<>(4., 2., 1.));
  // constant perturbation pattern (seed selects the rotation of the table)
  const double pert[7] = {0.13, -0.31, 0.07, 0.29, -0.11, -0.23, 0.19};
  auto pp = [&](size_t i) { return pert[(i + seed) % 7]; };
  // both orders of the sides: a side or bucket size taken from the wrong axis errs on the safe side in one
  // order and on the unsafe side in the other
  const Box<> weks(CoordinateVector<>(0.5, -1., -3.), CoordinateVector<>(1., 2., 4.));
  const Box<> *const boxes[3] = {&unit, &skew, &weks};
  for (int ib = 0; ib < 3; ++ib) {
    const Box<> &b = *boxes[ib];
    const std::string bn = ib == 0 ? "unit" : (ib == 1 ? "skew" : "skew124");
    const double smin = std::min(b.get_sides().x(), std::min(b.get_sides().y(), b.get_sides().z()));
    for (int m : (thorough ? std::vector< int >{2, 3, 4, 5, 7} : std::vector< int >{2, 3, 4})) {
      // cell-centred lattice
      PSet s{fmt("lattice-centres-%d-%s", m, bn.c_str()), b, {}, smin / m, false};
      // lattice on the faces of the octree nodes (corners of an m^3 mesh)
      PSet f{fmt("lattice-corners-%d-%s", m, bn.c_str()), b, {}, smin / m, false};
      // perturbed lattice
      PSet p{fmt("lattice-perturbed-%d-%s", m, bn.c_str()), b, {}, smin / m, false};
      size_t n = 0;
      for (int i = 0; i < m; ++i)
        for (int j = 0; j < m; ++j)
          for (int k = 0; k < m; ++k, ++n) {
            s.pts.push_back(inbox(b, (i + 0.5) / m, (j + 0.5) / m, (k + 0.5) / m));
            f.pts.push_back(inbox(b, (double)i / m, (double)j / m, (double)k / m));
            p.pts.push_back(inbox(b, (i + 0.5 + 0.9 * pp(n)) / m, (j + 0.5 + 0.9 * pp(n + 2)) / m, (k + 0.5 + 0.9 * pp(n + 4)) / m));
          }
      v.push_back(s);
      v.push_back(f);
      v.push_back(p);
    }
    // geometric clusters towards a corner and around the centre
    {
      PSet c{"cluster-corner-" + bn, b, {}, smin / 16, false};
      PSet d{"cluster-centre-" + bn, b, {}, smin / 16, false};
      const int K = thorough ? 6 : 4;
      for (int i = 1; i <= K; ++i)
        for (int j = 1; j <= K; ++j)
          for (int k = 1; k <= K; ++k) {
            c.pts.push_back(inbox(b, std::ldexp(1., -i), std::ldexp(1., -j), std::ldexp(1., -k)));
            d.pts.push_back(inbox(b, 0.5 + ((i + j) % 2 ? 1 : -1) * std::ldexp(1., -i - 1), 0.5 + ((j + k) % 2 ? 1 : -1) * std::ldexp(1., -j - 1),
                                  0.5 + ((i + k) % 2 ? 1 : -1) * std::ldexp(1., -k - 1)));
          }
      // the centre cluster has repeated positions: keep distinct ones
      std::set< std::tuple< double, double, double > > seen;
      std::vector< CoordinateVector<> > dd;
      for (auto &q : d.pts)
        if (seen.insert(std::make_tuple(q.x(), q.y(), q.z())).second)
          dd.push_back(q);
      d.pts.swap(dd);
      v.push_back(c);
      v.push_back(d);
    }
    // two clusters far apart + a lone point
    {
      PSet c{"two-clusters-" + bn, b, {}, smin / 32, false};
      for (int i = 0; i < 3; ++i)
        for (int j = 0; j < 3; ++j)
          for (int k = 0; k < 3; ++k) {
            c.pts.push_back(inbox(b, 0.05 + 0.02 * i, 0.07 + 0.02 * j, 0.9 + 0.02 * k));
            c.pts.push_back(inbox(b, 0.93 + 0.02 * i, 0.51 + 0.015 * j, 0.03 + 0.01 * k));
          }
      c.pts.push_back(inbox(b, 0.5, 0.5, 0.5));
      v.push_back(c);
    }
    // degenerate sets
    {
      PSet pl{"planar-4x4-" + bn, b, {}, smin / 4, true}, ln{"linear-6-" + bn, b, {}, smin / 6, true};
      for (int i = 0; i < 4; ++i)
        for (int j = 0; j < 4; ++j)
          pl.pts.push_back(inbox(b, (i + 0.5) / 4, (j + 0.25) / 4, 0.5));
      for (int i = 0; i < 6; ++i)
        ln.pts.push_back(inbox(b, 0.3, (i + 0.5) / 6, 0.7));
      v.push_back(pl);
      v.push_back(ln);
      PSet two{"two-points-" + bn, b, {inbox(b, 0.25, 0.25, 0.25), inbox(b, 0.75, 0.5, 0.125)}, smin / 2, false};
      PSet three{"three-points-" + bn, b, {inbox(b, 0.1, 0.2, 0.3), inbox(b, 0.1, 0.2, 0.8), inbox(b, 0.9, 0.9, 0.05)}, smin / 2, false};
      v.push_back(two);
      v.push_back(three);
    }
    // pairs of distinct particles 2^-14, 2^-16 and 2^-18 box sides apart (tree
    // depth 14, 16, 18: both sides of the "level > 15" duplicate test of
    // OctreeNode::add_position, which must not move distinct positions) + loners
    {
      PSet dp{"deep-pairs-" + bn, b, {}, smin / 4, false};
      const double base[3][3] = {{0.3, 0.3, 0.3}, {0.7, 0.2, 0.6}, {0.55, 0.8, 0.15}};
      for (int i = 0; i < 3; ++i) {
        dp.pts.push_back(inbox(b, base[i][0], base[i][1], base[i][2]));
        const double e = std::ldexp(1., -14 - 2 * i);
        dp.pts.push_back(inbox(b, base[i][0] + (i == 0 ? e : 0.), base[i][1] + (i == 1 ? e : 0.), base[i][2] + (i == 2 ? e : 0.)));
      }
      dp.pts.push_back(inbox(b, 0.1, 0.9, 0.9));
      dp.pts.push_back(inbox(b, 0.9, 0.6, 0.4));
      v.push_back(dp);
    }
    // generic (Kronecker lattice) sets whose sizes sit on both sides of the
    // rounding thresholds of the block count round(cbrt(N / num_per_cell)):
    // 3|4 (1 -> 2 blocks per axis), 15|16 (2 -> 3), 42|43 (3 -> 4)
    for (int n : {3, 4, 15, 16, 42, 43}) {
      PSet k{fmt("kronecker-%d-%s", n, bn.c_str()), b, {}, smin / std::cbrt((double)n), false};
      for (int i = 1; i <= n; ++i) {
        const double u = i * 0.7548776662466927 + 0.1 * (seed % 7), w = i * 0.5698402909980532, z = i * 0.4301597090019468;
        k.pts.push_back(inbox(b, u - std::floor(u), w - std::floor(w), z - std::floor(z)));
      }
      v.push_back(k);
    }
  }
  return v;
}

static std::vector< CoordinateVector<> > query_lattice(const PSet &s, int q) {
  std::vector< CoordinateVector<> > c;
  for (int i = 0; i < 2 * q; ++i)
    for (int j = 0; j < 2 * q; ++j)
      for (int k = 0; k < 2 * q; ++k)
        c.push_back(inbox(s.box, i / (2. * q), j / (2. * q), k / (2. * q)));
  // the points themselves and points just next to them
  for (size_t i = 0; i < s.pts.size(); i += std::max< size_t >(1, s.pts.size() / 40)) {
    c.push_back(s.pts[i]);
    CoordinateVector<> p = s.pts[i];
    p[0] += 1e-9 * s.box.get_sides().x();
    if (s.box.inside(p))
      c.push_back(p);
  }
  return c;
}

static Q dist(const PSet &s, bool periodic, const CoordinateVector<> &a, const CoordinateVector<> &b) {
  Q r2 = 0;
  for (int d = 0; d < 3; ++d) {
    Q dx = (Q)a[d] - b[d];
    if (periodic) {
      const Q S = s.box.get_sides()[d];
      dx -= roundl(dx / S) * S;
    }
    r2 += dx * dx;
  }
  return sqrtl(r2);
}

struct Stats {
  uint64_t octree_queries = 0, octree_members = 0, ties = 0, pl_closest = 0, pl_radius = 0, nontrivial = 0;
};

static std::string setrep(const PSet &s, const std::string &what, const std::string &more) {
  return fmt("{\"set\": \"%s\", \"what\": \"%s\"%s%s}", s.name.c_str(), what.c_str(), more.empty() ? "" : ", ", more.c_str());
}

/// membership comparison with ties accepted either way
static bool compare_members(const std::vector< uint_fast32_t > &got, const std::vector< int > &cls /*1 in, 0 tie, -1 out*/,
                            std::string &why) {
  std::vector< int > cnt(cls.size(), 0);
  for (auto i : got) {
    if (i >= cls.size()) {
      why = fmt("index %zu out of range", (size_t)i);
      return false;
    }
    if (++cnt[i] > 1) {
      why = fmt("index %zu returned twice", (size_t)i);
      return false;
    }
  }
  for (size_t i = 0; i < cls.size(); ++i) {
    if (cls[i] == 1 && !cnt[i]) {
      why = fmt("index %zu is missing", i);
      return false;
    }
    if (cls[i] == -1 && cnt[i]) {
      why = fmt("index %zu should not be returned", i);
      return false;
    }
  }
  return true;
}

static const int NHPAT = 5;

static void check_octree(const PSet &s, bool periodic, int hpat, Result &R, Stats &st, const std::vector< CoordinateVector<> > &centres,
                         const std::vector< double > &radii) {
  std::vector< CoordinateVector<> > pts(s.pts); // the tree may move duplicates
  const size_t N = pts.size();
  std::vector< double > hs(N);
  const double maxside = std::max(s.box.get_sides().x(), std::max(s.box.get_sides().y(), s.box.get_sides().z()));
  for (size_t i = 0; i < N; ++i) {
    switch (hpat) {
    case 4:
      // smoothing lengths on the scale of the box (5 values, 0.10 .. 0.42 of
      // the longest side): queries far away from a cluster still have members
      hs[i] = maxside * (0.10 + 0.08 * (i % 5));
      break;
    case 0:
      hs[i] = 0.75 * s.spacing;
      break;
    case 1:
      hs[i] = s.spacing * (0.25 + 0.5 * (i % 5));
      break;
    case 2:
      hs[i] = (i % 3 == 0) ? 0. : 3.1 * s.spacing;
      break;
    default:
      hs[i] = s.spacing; // exact ties with lattice spacings
    }
  }
  const std::string P = periodic ? ":periodic" : "";
  Octree tree(pts, s.box, periodic);
  {
    // history of length 2: the node maxima are set twice, first from much
    // larger values; the second call must replace, not accumulate
    std::vector< double > big(N);
    for (size_t i = 0; i < N; ++i)
      big[i] = 3. * maxside + hs[i];
    tree.set_auxiliaries(big, Octree::max< double >);
  }
  tree.set_auxiliaries(hs, Octree::max< double >);
  for (size_t i = 0; i < N; ++i)
    if (pts[i].x() != s.pts[i].x() || pts[i].y() != s.pts[i].y() || pts[i].z() != s.pts[i].z())
      R.violation("C16:octree:moved-a-position", fmt("set %s: position %zu was changed by the tree construction", s.name.c_str(), i), setrep(s, "octree", ""));
  for (size_t ic = 0; ic < centres.size(); ++ic) {
    const CoordinateVector<> &c = centres[ic];
    std::vector< Q > r(N);
    for (size_t i = 0; i < N; ++i)
      r[i] = dist(s, periodic, pts[i], c);
    const std::string more = fmt("\"periodic\": %d, \"hpattern\": %d, \"centre\": \"%a %a %a\"", (int)periodic, hpat, c.x(), c.y(), c.z());
    auto classify = [&](Q extra, std::vector< int > &cls) {
      cls.resize(N);
      bool any = false;
      for (size_t i = 0; i < N; ++i) {
        const Q lim = (Q)hs[i] + extra;
        const Q tol = 8. * DBL_EPSILON * (lim + r[i]);
        cls[i] = r[i] < lim - tol ? 1 : (r[i] > lim + tol ? -1 : 0);
        if (cls[i] == 0)
          ++st.ties;
        any |= cls[i] == 1;
      }
      return any;
    };
    std::string why;
    std::vector< int > cls;
    // smoothing-length overlap
    {
      const bool any = classify(0., cls);
      const auto got = tree.get_ngbs(c);
      ++st.octree_queries;
      st.octree_members += got.size();
      st.nontrivial += any;
      if (!compare_members(got, cls, why))
        R.violation("C16:octree:get_ngbs" + P, fmt("set %s h-pattern %d centre (%a,%a,%a): %s (%zu returned)", s.name.c_str(), hpat, c.x(), c.y(), c.z(), why.c_str(), got.size()),
                    setrep(s, "get_ngbs", more));
    }
    for (double rad : radii) {
      const bool any = classify(rad, cls);
      const auto got = tree.get_ngbs_sphere(c, rad);
      ++st.octree_queries;
      st.octree_members += got.size();
      st.nontrivial += any;
      if (!compare_members(got, cls, why))
        R.violation("C16:octree:get_ngbs_sphere" + P, fmt("set %s h-pattern %d centre (%a,%a,%a) radius %a: %s", s.name.c_str(), hpat, c.x(), c.y(), c.z(), rad, why.c_str()),
                    setrep(s, "get_ngbs_sphere", more + fmt(", \"radius\": \"%a\"", rad)));
    }
    // list of centres: union
    if (ic + 9 < centres.size()) {
      std::vector< CoordinateVector<> > list = {c, centres[ic + 1], centres[ic + 9]};
      std::vector< int > u(N, -1);
      bool any = false;
      for (auto &cc : list)
        for (size_t i = 0; i < N; ++i) {
          const Q rr = dist(s, periodic, pts[i], cc);
          const Q tol = 8. * DBL_EPSILON * (hs[i] + rr);
          const int k = rr < hs[i] - tol ? 1 : (rr > hs[i] + tol ? -1 : 0);
          u[i] = std::max(u[i], k);
          any |= k == 1;
        }
      const auto got = tree.get_ngbs_list(list);
      ++st.octree_queries;
      st.nontrivial += any;
      if (!compare_members(got, u, why))
        R.violation("C16:octree:get_ngbs_list" + P, fmt("set %s h-pattern %d centres starting at (%a,%a,%a): %s", s.name.c_str(), hpat, c.x(), c.y(), c.z(), why.c_str()),
                    setrep(s, "get_ngbs_list", more));
    }
    // closest
    if (hpat == 0) {
      Q rmin = r[0];
      for (size_t i = 1; i < N; ++i)
        rmin = std::min(rmin, r[i]);
      const uint_fast32_t got = tree.get_closest_ngb(c);
      ++st.octree_queries;
      ++st.nontrivial;
      if (got >= N || r[got] > rmin + 8. * DBL_EPSILON * (rmin + s.spacing))
        R.violation("C16:octree:get_closest_ngb" + P,
                    fmt("set %s centre (%a,%a,%a): returned %zu at distance %.17Lg, closest is at %.17Lg", s.name.c_str(), c.x(), c.y(), c.z(), (size_t)got,
                        got < N ? r[got] : -1.L, rmin),
                    setrep(s, "get_closest_ngb", more));
    }
  }
}

static void check_pointlocations(const PSet &s, unsigned num_per_cell, bool own_box, Result &R, Stats &st, bool thorough) {
  const size_t N = s.pts.size();
  const std::string B = own_box ? ":automatic-box" : "";
  const std::string more0 = fmt("\"num_per_cell\": %u, \"automatic_box\": %d", num_per_cell, (int)own_box);
  PointLocations *plp = own_box ? new PointLocations(s.pts, num_per_cell) : new PointLocations(s.pts, num_per_cell, s.box);
  PointLocations &pl = *plp;
  // closest neighbour of arbitrary positions
  std::vector< CoordinateVector<> > centres = query_lattice(s, thorough ? 4 : 3);
  if (own_box) {
    // queries must lie inside the automatic grid: use the bounding box of the points
    CoordinateVector<> lo = s.pts[0], hi = s.pts[0];
    for (auto &p : s.pts) {
      lo = CoordinateVector<>::min(lo, p);
      hi = CoordinateVector<>::max(hi, p);
    }
    std::vector< CoordinateVector<> > c2;
    for (auto &c : centres)
      if (c.x() >= lo.x() && c.x() <= hi.x() && c.y() >= lo.y() && c.y() <= hi.y() && c.z() >= lo.z() && c.z() <= hi.z())
        c2.push_back(c);
    centres.swap(c2);
  }
  for (auto &c : centres) {
    Q rmin = -1;
    for (size_t i = 0; i < N; ++i) {
      const Q r = dist(s, false, s.pts[i], c);
      if (rmin < 0 || r < rmin)
        rmin = r;
    }
    const uint_fast32_t got = pl.get_closest_neighbour(c);
    ++st.pl_closest;
    ++st.nontrivial;
    const Q rg = got < N ? dist(s, false, s.pts[got], c) : -1.L;
    if (got >= N || rg > rmin + 8. * DBL_EPSILON * (rmin + s.spacing))
      R.violation("C16:pointlocations:get_closest_neighbour" + B,
                  fmt("set %s num_per_cell %u position (%a,%a,%a): returned %zu at distance %.17Lg, closest is at %.17Lg", s.name.c_str(), num_per_cell, c.x(), c.y(), c.z(),
                      (size_t)got, rg, rmin),
                  setrep(s, "get_closest_neighbour", more0 + fmt(", \"centre\": \"%a %a %a\"", c.x(), c.y(), c.z())));
  }
  // radius search around every point (protocol of OldVoronoiGrid::compute_cell)
  const double radii[5] = {0.55 * s.spacing, 1.0 * s.spacing, 1.6 * s.spacing, 3.3 * s.spacing, 1e3 * s.spacing};
  for (size_t centre = 0; centre < N; ++centre) {
    for (double rad : radii) {
      const double rad2 = rad * rad;
      std::vector< int > cnt(N, 0);
      size_t buckets = 0;
      auto it = pl.get_neighbours(centre);
      {
        auto ngbs = it.get_neighbours();
        for (auto j : ngbs)
          if (j < N)
            ++cnt[j];
        ++buckets;
      }
      bool exhausted = true;
      while (it.increase_range()) {
        if (!(it.get_max_radius2() < rad2)) {
          exhausted = false;
          break;
        }
        auto ngbs = it.get_neighbours();
        for (auto j : ngbs)
          if (j < N)
            ++cnt[j];
        if (++buckets > 100000)
          break;
      }
      ++st.pl_radius;
      std::string why;
      bool any = false;
      for (size_t j = 0; j < N && why.empty(); ++j) {
        const Q r = dist(s, false, s.pts[j], s.pts[centre]);
        if (cnt[j] > 1)
          why = fmt("candidate %zu delivered %d times", j, cnt[j]);
        else if (r < rad * (1. - 8. * DBL_EPSILON) && cnt[j] == 0)
          why = fmt("point %zu at distance %.17Lg < radius %.17g was never delivered (%zu buckets visited, covered radius^2 %.17g)", j, r, rad, buckets, it.get_max_radius2());
        else if (exhausted && cnt[j] == 0)
          why = fmt("search ran out of buckets but point %zu was never delivered", j);
        any |= (j != centre && r < rad);
      }
      st.nontrivial += any;
      if (!why.empty())
        R.violation("C16:pointlocations:radius-search" + B, fmt("set %s num_per_cell %u centre point %zu radius %a: %s", s.name.c_str(), num_per_cell, centre, rad, why.c_str()),
                    setrep(s, "radius-search", more0 + fmt(", \"centre_index\": %zu, \"radius\": \"%a\"", centre, rad)));
    }
  }
  delete plp;
}

// ===================================================================
// Block-clustered generator sets: searches that must run to the last shell
// ===================================================================

/// the boxes of the block-clustered sets: three different side lengths per
/// box, the longest side along a different axis, anchors of both signs,
/// block sides that are not binary fractions for odd block counts
static const int NBOX = 3;
static Box<> bbox(int i) {
  switch (i) {
  case 0:
    return Box<>(CoordinateVector<>(0.), CoordinateVector<>(1.));
  case 1:
    return Box<>(CoordinateVector<>(-2., 1., 0.5), CoordinateVector<>(4., 2., 1.));
  default:
    return Box<>(CoordinateVector<>(0.25, -3., -1.), CoordinateVector<>(1., 3., 2.));
  }
}
static const char *bbox_name(int i) { return i == 0 ? "unit" : (i == 1 ? "skew421" : "skew132"); }

struct BSet {
  std::string name;
  std::string family;
  int box;      // index for bbox()
  int s;        // blocks per axis of the PointLocations grid
  unsigned npc; // num_per_cell handed to PointLocations
  size_t N;     // number of generators (N / npc = s^3 in integer division)
  std::vector< int > blocks; // occupied blocks, linear index (ix*s+iy)*s+iz
  int noff;     // number of query positions per block
  bool protocol; // also run the iterator protocols directly
  bool octree;   // also run the Octree searches
};

/// in-block fractions of the query positions: centre, next to the lower
/// corner, next to the upper corner, exactly the lower corner (a block face in
/// all three dimensions), mixed
static const double QOFF[5][3] = {{0.5, 0.5, 0.5}, {0.03, 0.07, 0.11}, {0.97, 0.93, 0.89}, {0., 0., 0.}, {0.03, 0.93, 0.5}};

static std::string blocks_name(const std::vector< int > &b) {
  std::string n;
  for (size_t i = 0; i < b.size(); ++i)
    n += fmt(i ? "-%d" : "%d", b[i]);
  return n;
}

/// the finite alphabet of block-clustered sets for one tier
static std::vector< BSet > make_block_sets(bool thorough) {
  std::vector< BSet > v;
  auto add = [&](const std::string &fam, int box, int s, unsigned npc, size_t N, const std::vector< int > &blocks, int noff, bool protocol, bool octree) {
    BSet b;
    b.family = fam;
    b.box = box;
    b.s = s;
    b.npc = npc;
    b.N = N;
    b.blocks = blocks;
    b.noff = noff;
    b.protocol = protocol;
    b.octree = octree;
    b.name = fmt("blk:%s:%s:s%d:npc%u:n%zu:", fam.c_str(), bbox_name(box), s, npc, N) + blocks_name(blocks);
    v.push_back(b);
  };
  for (int box = 0; box < NBOX; ++box) {
    // --- one block of the whole grid: 1, 2 and 3 generators
    add("single-grid-block", box, 1, 1, 1, {0}, 5, true, false);
    add("single-grid-block", box, 1, 2, 2, {0}, 5, true, true);
    add("single-grid-block", box, 1, 3, 3, {0}, 5, true, true);
    add("single-grid-block", box, 1, 100, 7, {0}, 5, true, true);
    // --- every unordered pair of blocks (a == b: all generators in one block)
    const int smax_pair = thorough ? 6 : 4;
    for (int s = 2; s <= smax_pair; ++s) {
      const int nb = s * s * s;
      if (s == 6 && box != 1)
        continue; // 6^3 blocks: the box with three different block sides only
      for (int a = 0; a < nb; ++a)
        for (int b = a; b < nb; ++b) {
          std::vector< int > bl = {a};
          if (b != a)
            bl.push_back(b);
          add("pair", box, s, 1, (size_t)nb, bl, s <= 4 ? 5 : (s == 5 ? 3 : 2), s <= 3, s == 3 || (thorough && s == 2));
        }
    }
    // --- lines, slabs, diagonals and diagonal planes of blocks
    const int smax = thorough ? 8 : 5;
    for (int s = 2; s <= smax; ++s) {
      const int nb = s * s * s;
      auto lin = [&](int i, int j, int k) { return (i * s + j) * s + k; };
      for (int variant = 0; variant < 2; ++variant) {
        // variant 1: three generators per block on average (+1, so that the
        // integer division N / num_per_cell has a remainder)
        const unsigned npc = variant ? 3 : 1;
        const size_t N = variant ? 3 * (size_t)nb + 1 : (size_t)nb;
        if (variant && s > (thorough ? 6 : 4))
          continue;
        const bool oct = s <= (thorough ? 4 : 3) && variant == 0;
        for (int axis = 0; axis < 3; ++axis) {
          for (int p = 0; p < s; ++p)
            for (int q = 0; q < s; ++q) {
              std::vector< int > bl;
              for (int t = 0; t < s; ++t)
                bl.push_back(axis == 0 ? lin(t, p, q) : (axis == 1 ? lin(p, t, q) : lin(p, q, t)));
              add(fmt("line-%c", "xyz"[axis]), box, s, npc, N, bl, 5, true, oct);
            }
          for (int p = 0; p < s; ++p) {
            std::vector< int > bl;
            for (int t = 0; t < s; ++t)
              for (int u = 0; u < s; ++u)
                bl.push_back(axis == 0 ? lin(p, t, u) : (axis == 1 ? lin(t, p, u) : lin(t, u, p)));
            add(fmt("slab-%c", "xyz"[axis]), box, s, npc, N, bl, 5, true, oct);
          }
        }
        // the four space diagonals
        for (int d = 0; d < 4; ++d) {
          std::vector< int > bl;
          for (int t = 0; t < s; ++t)
            bl.push_back(lin(d == 3 ? s - 1 - t : t, d == 2 ? s - 1 - t : t, d == 1 ? s - 1 - t : t));
          add(fmt("space-diagonal-%d", d), box, s, npc, N, bl, 5, true, oct);
        }
        // the six diagonal planes i == j / i + j == s-1 for the three axis pairs
        for (int pair = 0; pair < 3; ++pair)
          for (int anti = 0; anti < 2; ++anti) {
            std::vector< int > bl;
            for (int t = 0; t < s; ++t)
              for (int u = 0; u < s; ++u) {
                const int w = anti ? s - 1 - t : t;
                bl.push_back(pair == 0 ? lin(t, w, u) : (pair == 1 ? lin(t, u, w) : lin(u, t, w)));
              }
            add(fmt("diagonal-plane-%d%s", pair, anti ? "-anti" : ""), box, s, npc, N, bl, 5, true, oct);
          }
      }
    }
  }
  return v;
}

/// generators of a block-clustered set: generator k lies in block
/// blocks[k % nb], at in-block fractions 0.15 + 0.7 * frac(j * (a1,a2,a3) + rot)
/// with j = k / nb + 1 (Kronecker lattice: distinct, generic, reproducible)
static PSet realise(const BSet &b, long seed) {
  PSet s{b.name, bbox(b.box), {}, 0., false};
  const size_t nb = b.blocks.size();
  const double rot = 0.1 * (seed % 7);
  for (size_t k = 0; k < b.N; ++k) {
    const int blk = b.blocks[k % nb];
    const int bi[3] = {blk / (b.s * b.s), (blk / b.s) % b.s, blk % b.s};
    const double j = (double)(k / nb + 1);
    const double a[3] = {j * 0.7548776662466927 + rot, j * 0.5698402909980532 + 2. * rot, j * 0.4301597090019468 + 3. * rot};
    double f[3];
    for (int d = 0; d < 3; ++d)
      f[d] = (bi[d] + 0.15 + 0.7 * (a[d] - std::floor(a[d]))) / b.s;
    s.pts.push_back(inbox(s.box, f[0], f[1], f[2]));
  }
  const CoordinateVector<> sd = s.box.get_sides();
  s.spacing = std::min(sd.x(), std::min(sd.y(), sd.z())) / b.s / 3.;
  return s;
}

static std::vector< CoordinateVector<> > block_queries(const BSet &b, const Box<> &box) {
  std::vector< CoordinateVector<> > c;
  for (int i = 0; i < b.s; ++i)
    for (int j = 0; j < b.s; ++j)
      for (int k = 0; k < b.s; ++k)
        for (int o = 0; o < b.noff; ++o)
          c.push_back(inbox(box, (i + QOFF[o][0]) / b.s, (j + QOFF[o][1]) / b.s, (k + QOFF[o][2]) / b.s));
  return c;
}

struct BStats {
  uint64_t sets = 0, generators = 0, closest = 0, closest_beyond_first_shell = 0, closest_near_ties = 0, pos_protocol = 0, pos_protocol_exhausted = 0,
           point_protocol = 0, point_protocol_exhausted = 0, protocol_near_tolerance = 0, grid_size_verified = 0, octree_sets = 0;
  double t_positions = 0, t_points = 0, t_octree = 0; // cpu seconds (summed over threads), informational
  Stats oct;
  void merge(const BStats &o) {
    sets += o.sets, generators += o.generators, closest += o.closest, closest_beyond_first_shell += o.closest_beyond_first_shell;
    closest_near_ties += o.closest_near_ties, pos_protocol += o.pos_protocol, pos_protocol_exhausted += o.pos_protocol_exhausted;
    point_protocol += o.point_protocol, point_protocol_exhausted += o.point_protocol_exhausted, protocol_near_tolerance += o.protocol_near_tolerance;
    grid_size_verified += o.grid_size_verified, octree_sets += o.octree_sets;
    t_positions += o.t_positions, t_points += o.t_points, t_octree += o.t_octree;
    oct.octree_queries += o.oct.octree_queries, oct.octree_members += o.oct.octree_members, oct.ties += o.oct.ties, oct.nontrivial += o.oct.nontrivial;
  }
};

static Q dist2(const CoordinateVector<> &a, const CoordinateVector<> &b) {
  Q r2 = 0;
  for (int d = 0; d < 3; ++d) {
    const Q dx = (Q)a[d] - b[d];
    r2 += dx * dx;
  }
  return r2;
}

/// the radius search protocol of OldVoronoiGrid::compute_cell with either
/// iterator: central bucket, then while (increase_range() && max_radius2 < r^2).
/// Every generator closer than rad - tol must have been delivered, none twice,
/// not more buckets than the grid has blocks, and an exhausted search must have
/// delivered everything. Returns a description of the failure or "".
template < typename IT >
static std::string run_protocol(IT it, const std::vector< Q > &r /*distances to the centre*/, double rad, Q tol, size_t nblocks, bool &exhausted, bool &near_tol,
                                double *stop_r2 = nullptr) {
  const size_t N = r.size();
  std::vector< int > cnt(N, 0);
  size_t buckets = 1;
  auto deliver = [&]() {
    const auto &ngbs = it.get_neighbours();
    for (auto j : ngbs) {
      if (j < N)
        ++cnt[j];
    }
  };
  deliver();
  exhausted = true;
  const double rad2 = rad * rad;
  while (it.increase_range()) {
    if (!(it.get_max_radius2() < rad2)) {
      exhausted = false;
      if (stop_r2)
        *stop_r2 = it.get_max_radius2();
      break;
    }
    deliver();
    if (++buckets > nblocks)
      return fmt("more buckets handed out (%zu) than the grid has blocks (%zu)", buckets, nblocks);
  }
  near_tol = false;
  for (size_t j = 0; j < N; ++j) {
    if (cnt[j] > 1)
      return fmt("generator %zu delivered %d times", j, cnt[j]);
    if (cnt[j] == 0 && exhausted)
      return fmt("the search ran out of blocks after %zu of %zu but generator %zu was never delivered", buckets, nblocks, j);
    if (cnt[j] == 0 && r[j] < (Q)rad - tol)
      return fmt("generator %zu at distance %.17Lg < radius %.17g was not delivered when the covered radius^2 reached %.17g (%zu blocks visited)", j, r[j], rad,
                 it.get_max_radius2(), buckets);
    if (cnt[j] == 0 && r[j] < (Q)rad + 10 * tol)
      near_tol = true;
  }
  return "";
}

static void check_block_set(const BSet &b, long seed, Result &R, BStats &st) {
  const PSet s = realise(b, seed);
  const size_t N = s.pts.size();
  ++st.sets;
  st.generators += N;
  const std::string rp = setrep(s, "block-clustered", fmt("\"family\": \"%s\", \"blocks_per_axis\": %d, \"num_per_cell\": %u", b.family.c_str(), b.s, b.npc));
  PointLocations pl(s.pts, b.npc, s.box);
  const size_t gs = pl._grid.size();
  if ((int)gs != b.s || (int)pl._grid[0].size() != b.s || (int)pl._grid[0][0].size() != b.s) {
    R.cap(fmt("set %s: PointLocations chose %zu blocks per axis instead of the intended %d; set skipped", s.name.c_str(), gs, b.s));
    return;
  }
  ++st.grid_size_verified;
  const size_t nblocks = gs * gs * gs;
  const CoordinateVector<> A = s.box.get_anchor(), S = s.box.get_sides();
  // absolute round-off of the covered-region bounds: anchor + (a+1)*side - pos
  // followed by <= s subtractions/additions of a block side; k = 4
  Q mag = 0;
  for (int d = 0; d < 3; ++d)
    mag = std::max(mag, (Q)std::fabs(A[d]) + std::fabs(S[d]));
  const Q btol = 4. * DBL_EPSILON * (b.s + 3) * 2. * mag;
  const std::vector< CoordinateVector<> > centres = block_queries(b, s.box);
  std::vector< Q > r(N);
  const double t0 = omp_get_wtime();
  for (size_t ic = 0; ic < centres.size(); ++ic) {
    const CoordinateVector<> &c = centres[ic];
    Q r2min = -1, r2max = 0;
    for (size_t i = 0; i < N; ++i) {
      const Q r2 = dist2(s.pts[i], c);
      if (b.protocol)
        r[i] = sqrtl(r2);
      if (r2min < 0 || r2 < r2min)
        r2min = r2;
      r2max = std::max(r2max, r2);
    }
    // closest generator of an arbitrary position. The code compares squared
    // distances computed in double (relative error <= 4 eps each): the
    // returned generator may be farther than the closest by a factor
    // (1 + 8 eps) in r^2; k = 2
    const uint_fast32_t got = pl.get_closest_neighbour(c);
    ++st.closest;
    const Q r2g = got < N ? dist2(s.pts[got], c) : -1.L;
    const Q ctol = 16. * DBL_EPSILON * r2min;
    {
      // the query is "beyond the first shell" if no generator lies in the
      // 3x3x3 blocks around the block of the query
      const int qb = (int)(ic / b.noff);
      const int qi[3] = {qb / (b.s * b.s), (qb / b.s) % b.s, qb % b.s};
      bool nearblock = false;
      for (int blk : b.blocks)
        nearblock |= std::abs(blk / (b.s * b.s) - qi[0]) <= 1 && std::abs((blk / b.s) % b.s - qi[1]) <= 1 && std::abs(blk % b.s - qi[2]) <= 1;
      st.closest_beyond_first_shell += !nearblock;
    }
    if (got >= N || r2g > r2min + ctol)
      R.violation("C16:pointlocations:get_closest_neighbour:block-clustered",
                  fmt("set %s (%d^3 blocks, generators in blocks %s) position (%a,%a,%a) = (%.6g,%.6g,%.6g): returned %zu at distance %.17Lg, closest is at %.17Lg",
                      s.name.c_str(), b.s, blocks_name(b.blocks).c_str(), c.x(), c.y(), c.z(), c.x(), c.y(), c.z(), (size_t)got, got < N ? sqrtl(r2g) : -1.L, sqrtl(r2min)),
                  rp);
    if (got < N && r2g != r2min && r2g <= r2min + 10 * ctol)
      ++st.closest_near_ties;
    // radius search around an arbitrary position with the general iterator
    if (b.protocol) {
      const Q rmin = sqrtl(r2min), rmax = sqrtl(r2max);
      const double radii[3] = {(double)(1.1L * rmin), (double)(0.5L * (rmin + rmax)), (double)(1.1L * rmax)};
      for (int ir = 0; ir < (N > 1 ? 3 : 1); ++ir) {
        bool exhausted = false, near = false;
        const std::string why = run_protocol(PointLocations::generalngbiterator(pl, c), r, radii[ir], btol + 8. * DBL_EPSILON * radii[ir], nblocks, exhausted, near);
        ++st.pos_protocol;
        st.pos_protocol_exhausted += exhausted;
        st.protocol_near_tolerance += near;
        if (!why.empty())
          R.violation("C16:pointlocations:position-radius-search:block-clustered",
                      fmt("set %s (%d^3 blocks, generators in blocks %s) position (%a,%a,%a) radius %a: %s", s.name.c_str(), b.s, blocks_name(b.blocks).c_str(), c.x(), c.y(), c.z(),
                          radii[ir], why.c_str()),
                      rp);
      }
    }
  }
  const double t1 = omp_get_wtime();
  st.t_positions += t1 - t0;
  // radius search around a stored generator (ngbiterator): the first generator
  // of every occupied block (generator k < nb lies in blocks[k]) and the last one
  {
    std::vector< size_t > cs;
    for (size_t k = 0; k < std::min(N, b.blocks.size()); ++k)
      cs.push_back(k);
    if (N > b.blocks.size())
      cs.push_back(N - 1);
    for (size_t centre : cs) {
      Q rother = -1, rmax = 0;
      for (size_t i = 0; i < N; ++i) {
        r[i] = sqrtl(dist2(s.pts[i], s.pts[centre]));
        rmax = std::max(rmax, r[i]);
        const bool same_block = b.blocks[i % b.blocks.size()] == b.blocks[centre % b.blocks.size()];
        if (!same_block && (rother < 0 || r[i] < rother))
          rother = r[i];
      }
      std::vector< double > radii = {(double)(1.1L * rmax), (double)(0.9L * rmax)};
      if (rother > 0) {
        radii.push_back((double)(0.9L * rother));
        radii.push_back((double)(1.1L * rother));
      }
      if (N == 1)
        radii = {1.};
      for (double rad : radii) {
        bool exhausted = false, near = false;
        const std::string why = run_protocol(pl.get_neighbours(centre), r, rad, btol + 8. * DBL_EPSILON * rad, nblocks, exhausted, near);
        ++st.point_protocol;
        st.point_protocol_exhausted += exhausted;
        st.protocol_near_tolerance += near;
        if (!why.empty())
          R.violation("C16:pointlocations:radius-search:block-clustered", fmt("set %s (%d^3 blocks, generators in blocks %s) centre generator %zu radius %a: %s", s.name.c_str(), b.s,
                                                                                blocks_name(b.blocks).c_str(), centre, rad, why.c_str()),
                      rp);
      }
    }
  }
  const double t2 = omp_get_wtime();
  st.t_points += t2 - t1;
  // Octree searches from every block
  if (b.octree && N >= 2) {
    ++st.octree_sets;
    const double maxside = std::max(S.x(), std::max(S.y(), S.z()));
    // origins: the first three in-block positions (centre, next to the lower
    // corner, next to the upper corner) of every block
    std::vector< CoordinateVector<> > oc;
    for (size_t ic = 0; ic < centres.size(); ++ic)
      if ((int)(ic % b.noff) < 3)
        oc.push_back(centres[ic]);
    for (int periodic = 0; periodic < 2; ++periodic)
      for (int hpat : {0, 4})
        check_octree(s, periodic != 0, hpat, R, st.oct, oc, {0., 2.2 * s.spacing, 0.4 * maxside});
    st.t_octree += omp_get_wtime() - t2;
  }
}

/// observation (not part of the verdict for unequal block counts, which no
/// PointLocations object can have): the static helpers of both iterators for
/// grids of sx x sy x sz blocks. increase_indices must enumerate every block
/// offset of Chebyshev norm = level exactly once per level, and set_max_range
/// must name the last offset of that enumeration that lies inside the grid.
template < typename IT >
static void check_static_helpers(int smax, uint64_t &cases, uint64_t &cubic_cases, uint64_t &noncubic_mismatch, Result &R, const char *which) {
  for (int sx = 1; sx <= smax; ++sx)
    for (int sy = 1; sy <= smax; ++sy)
      for (int sz = 1; sz <= smax; ++sz)
        for (int ax = 0; ax < sx; ++ax)
          for (int ay = 0; ay < sy; ++ay)
            for (int az = 0; az < sz; ++az) {
              int_fast32_t mx, my, mz, ml;
              IT::set_max_range(mx, my, mz, ml, ax, ay, az, sx, sy, sz);
              const int L = std::max(std::max(std::max(ax, sx - 1 - ax), std::max(ay, sy - 1 - ay)), std::max(az, sz - 1 - az));
              int_fast32_t rx = 0, ry = 0, rz = 0, level = 0;
              int lx = 0, ly = 0, lz = 0;
              uint64_t inside = 1, steps = 0;
              std::string bad;
              int curlevel = 0;
              uint64_t in_level = 1;
              for (;;) {
                IT::increase_indices(rx, ry, rz, level);
                if (level > L)
                  break;
                if (level != curlevel) {
                  const uint64_t want = curlevel == 0 ? 1 : (uint64_t)(2 * curlevel + 1) * (2 * curlevel + 1) * (2 * curlevel + 1) - (uint64_t)(2 * curlevel - 1) * (2 * curlevel - 1) * (2 * curlevel - 1);
                  if (in_level != want)
                    bad = fmt("level %d enumerated %" PRIu64 " offsets instead of %" PRIu64, curlevel, in_level, want);
                  curlevel = level;
                  in_level = 0;
                }
                ++in_level;
                if (std::max(std::max(std::abs(rx), std::abs(ry)), std::abs(rz)) != level)
                  bad = fmt("offset (%d,%d,%d) handed out on level %d", (int)rx, (int)ry, (int)rz, (int)level);
                if (++steps > 100000) {
                  bad = "enumeration does not advance";
                  break;
                }
                if (ax + rx >= 0 && ax + rx < sx && ay + ry >= 0 && ay + ry < sy && az + rz >= 0 && az + rz < sz) {
                  lx = rx, ly = ry, lz = rz;
                  ++inside;
                }
              }
              if (bad.empty() && curlevel == L) {
                const uint64_t want = L == 0 ? 1 : (uint64_t)(2 * L + 1) * (2 * L + 1) * (2 * L + 1) - (uint64_t)(2 * L - 1) * (2 * L - 1) * (2 * L - 1);
                if (in_level != want)
                  bad = fmt("level %d enumerated %" PRIu64 " offsets instead of %" PRIu64, L, in_level, want);
              }
              ++cases;
              const bool cubic = sx == sy && sy == sz;
              cubic_cases += cubic;
              if (bad.empty() && inside != (uint64_t)sx * sy * sz)
                bad = fmt("%" PRIu64 " offsets inside the grid instead of %d", inside, sx * sy * sz);
              if (bad.empty() && (mx != lx || my != ly || mz != lz))
                bad = fmt("set_max_range gives (%d,%d,%d), the last offset of the traversal inside the grid is (%d,%d,%d)", (int)mx, (int)my, (int)mz, lx, ly, lz);
              if (!bad.empty()) {
                if (cubic)
                  R.violation(fmt("C16:pointlocations:%s:block-traversal-end", which),
                              fmt("grid of %dx%dx%d blocks, search anchored in block (%d,%d,%d): %s", sx, sy, sz, ax, ay, az, bad.c_str()),
                              fmt("{\"set\": \"static-helpers\", \"what\": \"%s\"}", which));
                else
                  ++noncubic_mismatch;
              }
            }
}


// ===================================================================
// Dyadic tie lattices: exact floating-point ties against an exact integer oracle
// ===================================================================
// Every coordinate, spacing, smoothing length and radius of this family is an
// integer multiple of u = 2^-TIE_P, small enough that every difference, square,
// sum of squares and h + radius the real code forms is exact in double, that
// every octree node box (box sides halved per level) and every PointLocations
// block (power-of-two block counts only) is exact, and that sqrt(r^2) <= h is
// decided like r^2 <= h^2 (r^2 and h^2 are integers < 2^40 in units u^2: if
// r^2 >= h^2 + 1 then sqrt(r^2) >= h (1 + 2^-41) > h, and sqrt is monotone and
// exact on squares). The oracle is therefore integer arithmetic with NO tie
// band: a particle is a neighbour iff r^2 <= (h + radius)^2, the inclusive
// criterion Octree.hpp documents and evaluates on its leaves.
static const int TIE_P = 6;
static const int NTHPAT = 7;
static const int NTRAD = 4;

struct TSet {
  std::string name;
  int box;
  int n[3];
  int kind; // 0 vertex-centred, 1 cell-centred, 2 mixed (y cell-centred), 3 vertex-centred thinned, 4 two-level
  int64_t A[3], L[3], d[3], q[3], dmin;
  int nq[3];
  std::vector< std::array< int64_t, 3 > > ip; // relative to the anchor, units u
  std::vector< int64_t > own;                  // "own spacing" of a particle (h pattern 6)
  bool ok;
  bool thorough_only;
};

static const char *tkind_name(int k) {
  static const char *n[5] = {"vertex", "centred", "mixed", "vertex-thinned", "two-level"};
  return n[k];
}

static TSet make_tie_set(int box, int nx, int ny, int nz, int kind, bool thorough_only) {
  TSet T;
  T.box = box, T.kind = kind, T.n[0] = nx, T.n[1] = ny, T.n[2] = nz, T.ok = true, T.thorough_only = thorough_only;
  T.name = fmt("tie:%s:%s:%dx%dx%d", bbox_name(box), tkind_name(kind), nx, ny, nz);
  const Box<> b = bbox(box);
  const double U = std::ldexp(1., TIE_P);
  T.dmin = 0;
  for (int d = 0; d < 3; ++d) {
    T.A[d] = std::llround(b.get_anchor()[d] * U), T.L[d] = std::llround(b.get_sides()[d] * U);
    if ((double)T.A[d] != b.get_anchor()[d] * U || (double)T.L[d] != b.get_sides()[d] * U || T.L[d] % T.n[d])
      T.ok = false;
    T.d[d] = T.L[d] / T.n[d];
    const int64_t fine = kind == 4 ? T.d[d] / 2 : T.d[d];
    if (fine % 2 || fine < 2 || (kind == 4 && (T.d[d] % 2 || T.n[d] < 2)))
      T.ok = false;
    T.q[d] = fine / 2;
    T.nq[d] = T.ok ? (int)(T.L[d] / T.q[d]) : 0;
    if (T.dmin == 0 || T.d[d] < T.dmin)
      T.dmin = T.d[d];
  }
  if (!T.ok || T.dmin % 2)
    return T.ok = false, T;
  auto add = [&](int64_t x, int64_t y, int64_t z, int64_t own) {
    T.ip.push_back({x, y, z});
    T.own.push_back(own);
  };
  if (kind == 4) {
    // coarse vertex-centred lattice everywhere except in the octant (upper x,
    // lower y, upper z), which holds the vertex-centred lattice of half the
    // spacing: node depth and "own" smoothing length differ by region
    auto in_oct = [&](int64_t x, int64_t y, int64_t z) { return 2 * x >= T.L[0] && 2 * y < T.L[1] && 2 * z >= T.L[2]; };
    for (int i = 0; i < 2 * nx; ++i)
      for (int j = 0; j < 2 * ny; ++j)
        for (int k = 0; k < 2 * nz; ++k) {
          const int64_t x = i * T.d[0] / 2, y = j * T.d[1] / 2, z = k * T.d[2] / 2;
          const bool fine = in_oct(x, y, z);
          if (fine)
            add(x, y, z, T.dmin / 2);
          else if (i % 2 == 0 && j % 2 == 0 && k % 2 == 0)
            add(x, y, z, T.dmin);
        }
  } else {
    size_t idx = 0;
    for (int i = 0; i < nx; ++i)
      for (int j = 0; j < ny; ++j)
        for (int k = 0; k < nz; ++k) {
          if (kind == 3 && (i + 2 * j + 3 * k) % 4 == 1)
            continue;
          const int64_t x = i * T.d[0] + (kind == 1 ? T.d[0] / 2 : 0), y = j * T.d[1] + (kind == 1 || kind == 2 ? T.d[1] / 2 : 0),
                        z = k * T.d[2] + (kind == 1 ? T.d[2] / 2 : 0);
          add(x, y, z, T.d[idx % 3]);
          ++idx;
        }
  }
  return T;
}

/// the finite alphabet of tie lattices (per-axis point counts are powers of
/// two so that the lattice planes are octree node faces; unequal counts and
/// unequal box sides give three different spacings)
static std::vector< TSet > make_tie_sets(bool thorough) {
  std::vector< TSet > v;
  auto add = [&](int box, int nx, int ny, int nz, std::initializer_list< int > kinds, bool th_only) {
    for (int k : kinds)
      if (thorough || !th_only) {
        TSet T = make_tie_set(box, nx, ny, nz, k, th_only);
        if (T.ok && T.ip.size() >= 2)
          v.push_back(T);
      }
  };
  // unit box: equal spacings
  add(0, 1, 1, 2, {0}, false);
  add(0, 2, 2, 2, {0, 1}, false);
  add(0, 4, 4, 4, {0, 1, 2, 3, 4}, false);
  add(0, 8, 8, 8, {0}, false);
  add(0, 8, 8, 8, {1, 2, 3, 4}, true);
  add(0, 16, 8, 4, {0, 3}, true);
  // 4x2x1 box anchored at (-2, 1, 0.5)
  add(1, 4, 2, 1, {0}, false);
  add(1, 8, 4, 2, {0, 2, 3}, false); // cubic nodes, unequal counts
  add(1, 2, 4, 8, {0}, false);       // spacings 2, 1/2, 1/8
  add(1, 4, 4, 4, {4}, false);
  add(1, 8, 8, 8, {0, 3, 4}, true);
  add(1, 2, 4, 8, {1, 2, 3}, true);
  // 1x3x2 box anchored at (0.25, -3, -1): sides 3 and 2, node sides 3/2^k
  add(2, 4, 8, 2, {0, 1}, false);
  add(2, 2, 8, 4, {4}, false);
  add(2, 2, 2, 4, {0, 3}, false);
  add(2, 8, 8, 8, {0, 2}, true);
  add(2, 4, 16, 8, {0, 3}, true);
  return v;
}

static int64_t tie_h(const TSet &T, int hpat, size_t i) {
  switch (hpat) {
  case 0:
    return T.dmin; // one (smallest) lattice spacing
  case 1:
    return 2 * T.dmin;
  case 2:
    return T.dmin / 2; // reached from the half-lattice queries only
  case 3:
    return 5 * T.dmin; // 3-4-5 triangles: ties with node edges/corners
  case 4:
    return T.dmin * (1 + (int64_t)(i % 3)); // the tie particle need not hold the node maximum
  case 5:
    return (i % 2) ? 0 : T.dmin; // zero smoothing lengths: r = 0 = h on the particle itself
  default:
    return T.own[i]; // spacing of axis (i mod 3) / of the own refinement level
  }
}

struct TStats {
  uint64_t sets = 0, points = 0, queries = 0, oct_queries = 0, oct_members = 0, pair_lt = 0, pair_eq = 0, pair_gt = 0, pair_eq_zero = 0, node_lt = 0, node_eq = 0, node_gt = 0,
           node_eq_holding_a_member = 0, node_eq_holding_a_tie_member = 0, closest = 0, closest_equidistant = 0, pl_objects = 0, pl_skipped = 0, pl_closest = 0,
           pl_closest_equidistant = 0, pl_closest_on_block_face = 0, pl_pos_protocol = 0, pl_point_protocol = 0, pl_protocol_stopped_on_equality = 0,
           pl_protocol_exhausted = 0, pl_protocol_generator_exactly_on_radius = 0, nontrivial = 0, list_size[4] = {0, 0, 0, 0};
  void merge(const TStats &o) {
    const uint64_t *a = &o.sets;
    uint64_t *b = &sets;
    for (size_t i = 0; i < sizeof(TStats) / sizeof(uint64_t); ++i)
      b[i] += a[i];
  }
};

static CoordinateVector<> tie_pos(const TSet &T, const int64_t p[3]) {
  return CoordinateVector<>(std::ldexp((double)(T.A[0] + p[0]), -TIE_P), std::ldexp((double)(T.A[1] + p[1]), -TIE_P), std::ldexp((double)(T.A[2] + p[2]), -TIE_P));
}

static int64_t tie_r2(const TSet &T, bool periodic, const int64_t a[3], const std::array< int64_t, 3 > &b) {
  int64_t r2 = 0;
  for (int d = 0; d < 3; ++d) {
    int64_t dx = a[d] > b[d] ? a[d] - b[d] : b[d] - a[d];
    if (periodic && 2 * dx > T.L[d])
      dx = T.L[d] - dx;
    r2 += dx * dx;
  }
  return r2;
}

/// exact comparison of a returned index list with the integer oracle
static bool compare_exact(const std::vector< uint_fast32_t > &got, const std::vector< char > &want, const std::vector< char > &tie, std::string &why, bool &on_tie) {
  std::vector< int > cnt(want.size(), 0);
  on_tie = false;
  for (auto i : got) {
    if (i >= want.size()) {
      why = fmt("index %zu out of range", (size_t)i);
      return false;
    }
    if (++cnt[i] > 1) {
      why = fmt("index %zu returned twice", (size_t)i);
      return false;
    }
  }
  for (size_t i = 0; i < want.size(); ++i)
    if ((want[i] != 0) != (cnt[i] != 0)) {
      on_tie = tie[i];
      why = fmt("index %zu %s%s", i, want[i] ? "is missing" : "should not be returned", tie[i] ? " (distance exactly equal to the limit)" : "");
      return false;
    }
  return true;
}

/// walk the whole real tree (no pruning) for one query and record on which
/// side of the opening criterion every internal node lies (real Box arithmetic,
/// exact for this family); returns true if the subtree holds a true neighbour
static bool tie_walk(const OctreeNode *n, const Box<> &box, bool periodic, const CoordinateVector<> &c, const std::vector< char > &want, const std::vector< char > &tie, TStats &st,
                     bool root, bool &holds_tie) {
  if (n->is_leaf()) {
    holds_tie = tie[n->get_index()];
    return want[n->get_index()];
  }
  bool any = false;
  holds_tie = false;
  for (int i = 0; i < 8; ++i)
    if (n->_children[i]) {
      bool t = false;
      any |= tie_walk(n->_children[i], box, periodic, c, want, tie, st, false, t);
      holds_tie |= t;
    }
  if (!root) { // the searches start below the root
    const double r = periodic ? box.periodic_distance(n->get_box(), c) : n->get_box().get_distance(c);
    const double v = n->get_variable();
    if (r < v)
      ++st.node_lt;
    else if (r > v)
      ++st.node_gt;
    else {
      ++st.node_eq;
      st.node_eq_holding_a_member += any;
      st.node_eq_holding_a_tie_member += holds_tie;
    }
  }
  return any;
}

static void check_tie_octree(const TSet &T, bool periodic, int hpat, Result &R, TStats &st) {
  const size_t N = T.ip.size();
  const Box<> box = bbox(T.box);
  std::vector< CoordinateVector<> > pts(N), orig;
  std::vector< double > hs(N), big(N);
  std::vector< int64_t > hi(N);
  for (size_t i = 0; i < N; ++i) {
    pts[i] = tie_pos(T, T.ip[i].data());
    hi[i] = tie_h(T, hpat, i);
    hs[i] = std::ldexp((double)hi[i], -TIE_P);
    big[i] = 64. + hs[i];
  }
  orig = pts;
  const std::string P = periodic ? ":periodic" : "";
  Octree tree(pts, box, periodic);
  tree.set_auxiliaries(big, Octree::max< double >); // history of length 2, see check_octree
  tree.set_auxiliaries(hs, Octree::max< double >);
  for (size_t i = 0; i < N; ++i)
    if (pts[i].x() != orig[i].x() || pts[i].y() != orig[i].y() || pts[i].z() != orig[i].z())
      R.violation("C16:octree:moved-a-position", fmt("set %s: position %zu was changed by the tree construction", T.name.c_str(), i),
                  fmt("{\"set\": \"%s\", \"what\": \"octree\"}", T.name.c_str()));
  const int64_t radii[NTRAD] = {0, T.dmin / 2, T.dmin, 3 * T.dmin};
  // query centres: the complete half-lattice of the finest spacing (lattice
  // points, edge/face/cell centres = commensurate Cartesian cell centres)
  std::vector< std::array< int64_t, 3 > > qs;
  for (int i = 0; i < T.nq[0]; ++i)
    for (int j = 0; j < T.nq[1]; ++j)
      for (int k = 0; k < T.nq[2]; ++k)
        qs.push_back({i * T.q[0], j * T.q[1], k * T.q[2]});
  std::vector< int64_t > r2(N);
  std::vector< char > want(N), tie(N);
  std::string why;
  bool on_tie = false;
  for (size_t iq = 0; iq < qs.size(); ++iq) {
    const CoordinateVector<> c = tie_pos(T, qs[iq].data());
    const std::string more = fmt("\"periodic\": %d, \"hpattern\": %d, \"centre\": \"%a %a %a\"", (int)periodic, hpat, c.x(), c.y(), c.z());
    const std::string rp = fmt("{\"set\": \"%s\", \"what\": \"tie-lattice\", %s}", T.name.c_str(), more.c_str());
    int64_t r2min = -1;
    uint64_t nmin = 0;
    for (size_t i = 0; i < N; ++i) {
      r2[i] = tie_r2(T, periodic, qs[iq].data(), T.ip[i]);
      if (r2min < 0 || r2[i] < r2min)
        r2min = r2[i], nmin = 1;
      else if (r2[i] == r2min)
        ++nmin;
    }
    ++st.queries;
    auto expect = [&](int64_t extra) {
      bool any = false;
      for (size_t i = 0; i < N; ++i) {
        const int64_t lim = hi[i] + extra;
        want[i] = r2[i] <= lim * lim;
        tie[i] = r2[i] == lim * lim;
        any |= want[i];
        if (r2[i] < lim * lim)
          ++st.pair_lt;
        else if (tie[i])
          ++st.pair_eq, st.pair_eq_zero += lim == 0;
        else
          ++st.pair_gt;
      }
      return any;
    };
    {
      const bool any = expect(0);
      const auto got = tree.get_ngbs(c);
      ++st.oct_queries, st.oct_members += got.size(), st.nontrivial += any;
      if (!compare_exact(got, want, tie, why, on_tie))
        R.violation("C16:octree:get_ngbs" + P + (on_tie ? ":dyadic-lattice:exact-tie" : ":dyadic-lattice"),
                    fmt("set %s h-pattern %d centre (%a,%a,%a) = (%.6g,%.6g,%.6g): %s (%zu returned)", T.name.c_str(), hpat, c.x(), c.y(), c.z(), c.x(), c.y(), c.z(), why.c_str(),
                        got.size()),
                    rp);
      bool t = false;
      tie_walk(tree._root, box, periodic, c, want, tie, st, true, t);
    }
    for (int ir = 0; ir < NTRAD; ++ir) {
      const bool any = expect(radii[ir]);
      const double rad = std::ldexp((double)radii[ir], -TIE_P);
      const auto got = tree.get_ngbs_sphere(c, rad);
      ++st.oct_queries, st.oct_members += got.size(), st.nontrivial += any;
      if (!compare_exact(got, want, tie, why, on_tie))
        R.violation("C16:octree:get_ngbs_sphere" + P + (on_tie ? ":dyadic-lattice:exact-tie" : ":dyadic-lattice"),
                    fmt("set %s h-pattern %d centre (%a,%a,%a) radius %a: %s (%zu returned)", T.name.c_str(), hpat, c.x(), c.y(), c.z(), rad, why.c_str(), got.size()), rp);
    }
    // lists of centres: 3 centres (q, q+1, q+9) and a second list of q mod 3
    // = 0, 1, 2 centres (the empty list has no neighbours)
    auto run_list = [&](const std::vector< size_t > &li) {
      std::vector< CoordinateVector<> > list;
      std::fill(want.begin(), want.end(), 0);
      std::vector< char > tie_only(N, 1);
      bool any = false;
      for (size_t l : li) {
        list.push_back(tie_pos(T, qs[l].data()));
        for (size_t i = 0; i < N; ++i) {
          const int64_t rr = tie_r2(T, periodic, qs[l].data(), T.ip[i]);
          if (rr <= hi[i] * hi[i])
            want[i] = 1, any = true;
          if (rr < hi[i] * hi[i])
            tie_only[i] = 0;
        }
      }
      for (size_t i = 0; i < N; ++i)
        tie[i] = want[i] && tie_only[i]; // a member only through exact ties
      const auto got = tree.get_ngbs_list(list);
      ++st.oct_queries, st.oct_members += got.size(), st.nontrivial += any;
      ++st.list_size[li.size()];
      if (!compare_exact(got, want, tie, why, on_tie))
        R.violation("C16:octree:get_ngbs_list" + P + (on_tie ? ":dyadic-lattice:exact-tie" : ":dyadic-lattice"),
                    fmt("set %s h-pattern %d list of %zu centres starting at (%a,%a,%a): %s", T.name.c_str(), hpat, li.size(), c.x(), c.y(), c.z(), why.c_str()), rp);
    };
    if (iq + 9 < qs.size()) {
      run_list({iq, iq + 1, iq + 9});
      switch (iq % 3) {
      case 0:
        run_list({});
        break;
      case 1:
        run_list({iq});
        break;
      default:
        run_list({iq + 9, iq});
      }
    }
    if (hpat == 0) {
      const uint_fast32_t got = tree.get_closest_ngb(c);
      ++st.oct_queries, ++st.closest, ++st.nontrivial;
      st.closest_equidistant += nmin > 1;
      if (got >= N || r2[got] != r2min)
        R.violation("C16:octree:get_closest_ngb" + P + ":dyadic-lattice",
                    fmt("set %s centre (%a,%a,%a): returned %zu at distance^2 %lld u^2, the closest is at %lld u^2 (u = 2^-%d, %" PRIu64 " equidistant)", T.name.c_str(), c.x(), c.y(),
                        c.z(), (size_t)got, got < N ? (long long)r2[got] : -1LL, (long long)r2min, TIE_P, nmin),
                    rp);
    }
  }
}

/// PointLocations on a tie lattice: only block counts that are powers of two
/// (exact block faces); zero tolerance everywhere
static void check_tie_pointlocations(const TSet &T, unsigned npc, Result &R, TStats &st, bool all_points) {
  const size_t N = T.ip.size();
  const Box<> box = bbox(T.box);
  std::vector< CoordinateVector<> > pts(N);
  for (size_t i = 0; i < N; ++i)
    pts[i] = tie_pos(T, T.ip[i].data());
  PointLocations pl(pts, npc, box);
  const size_t s = pl._grid.size();
  int64_t bs[3];
  bool exact = s >= 1 && (s & (s - 1)) == 0;
  for (int d = 0; d < 3 && exact; ++d) {
    exact = T.L[d] % (int64_t)s == 0;
    bs[d] = T.L[d] / (int64_t)s;
  }
  if (!exact) {
    ++st.pl_skipped;
    return;
  }
  ++st.pl_objects;
  const size_t nblocks = s * s * s;
  const std::string rp0 = fmt("{\"set\": \"%s\", \"what\": \"tie-lattice-pointlocations\", \"num_per_cell\": %u, \"blocks_per_axis\": %zu}", T.name.c_str(), npc, s);
  std::set< int64_t > radset = {T.dmin / 2, T.dmin, 2 * T.dmin, 5 * T.dmin, std::min(bs[0], std::min(bs[1], bs[2])), 2 * std::max(bs[0], std::max(bs[1], bs[2])),
                                3 * T.d[0] / 2};
  const double scale = std::ldexp(1., -TIE_P);
  std::vector< Q > r(N);
  std::vector< int64_t > r2(N);
  auto protocols = [&](const int64_t c[3], bool stored, size_t index) {
    const CoordinateVector<> cp = tie_pos(T, c);
    for (size_t i = 0; i < N; ++i) {
      r2[i] = tie_r2(T, false, c, T.ip[i]);
      r[i] = sqrtl((Q)r2[i]) * scale;
    }
    for (int64_t radi : radset) {
      const double rad = radi * scale;
      bool exhausted = false, near = false;
      double stop = -1.;
      const std::string why = stored ? run_protocol(pl.get_neighbours(index), r, rad, 0.L, nblocks, exhausted, near, &stop)
                                     : run_protocol(PointLocations::generalngbiterator(pl, cp), r, rad, 0.L, nblocks, exhausted, near, &stop);
      ++(stored ? st.pl_point_protocol : st.pl_pos_protocol);
      ++st.nontrivial;
      st.pl_protocol_exhausted += exhausted;
      st.pl_protocol_stopped_on_equality += stop == rad * rad;
      for (size_t i = 0; i < N; ++i)
        if (r2[i] == radi * radi) {
          ++st.pl_protocol_generator_exactly_on_radius;
          break;
        }
      if (!why.empty())
        R.violation(stored ? "C16:pointlocations:radius-search:dyadic-lattice" : "C16:pointlocations:position-radius-search:dyadic-lattice",
                    fmt("set %s num_per_cell %u (%zu^3 blocks) %s (%a,%a,%a) radius %a: %s", T.name.c_str(), npc, s, stored ? "stored generator at" : "position", cp.x(), cp.y(),
                        cp.z(), rad, why.c_str()),
                    rp0);
    }
  };
  for (int i = 0; i < T.nq[0]; ++i)
    for (int j = 0; j < T.nq[1]; ++j)
      for (int k = 0; k < T.nq[2]; ++k) {
        const int64_t c[3] = {i * T.q[0], j * T.q[1], k * T.q[2]};
        const CoordinateVector<> cp = tie_pos(T, c);
        int64_t r2min = -1;
        uint64_t nmin = 0;
        for (size_t m = 0; m < N; ++m) {
          const int64_t rr = tie_r2(T, false, c, T.ip[m]);
          if (r2min < 0 || rr < r2min)
            r2min = rr, nmin = 1;
          else if (rr == r2min)
            ++nmin;
        }
        const uint_fast32_t got = pl.get_closest_neighbour(cp);
        ++st.pl_closest, ++st.nontrivial;
        st.pl_closest_equidistant += nmin > 1;
        st.pl_closest_on_block_face += c[0] % bs[0] == 0 || c[1] % bs[1] == 0 || c[2] % bs[2] == 0;
        const int64_t rg = got < N ? tie_r2(T, false, c, T.ip[got]) : -1;
        if (rg != r2min)
          R.violation("C16:pointlocations:get_closest_neighbour:dyadic-lattice",
                      fmt("set %s num_per_cell %u (%zu^3 blocks) position (%a,%a,%a): returned %zu at distance^2 %lld u^2, the closest is at %lld u^2 (u = 2^-%d)", T.name.c_str(), npc, s,
                          cp.x(), cp.y(), cp.z(), (size_t)got, (long long)rg, (long long)r2min, TIE_P),
                      rp0);
        // the radius protocol from every half-lattice point (all_points: sets
        // with <= 512 query centres in the quick tier, <= 4096 in the thorough
        // tier) or from every second half-lattice point per axis (the lattice
        // points themselves for the vertex-centred kinds: block corners)
        if (all_points || (i % 2 == 0 && j % 2 == 0 && k % 2 == 0))
          protocols(c, false, 0);
      }
  for (size_t m = 0; m < N; ++m)
    protocols(T.ip[m].data(), true, m);
}

struct TTask {
  size_t set;
  int mode; // 0 octree, 1 pointlocations
  int periodic, hpat;
  unsigned npc;
};

/// run f in a forked child; returns 0 ok, 1 wrong answer, 2 crashed/aborted
template < typename F > static int in_child(F f) {
  fflush(nullptr);
  const pid_t pid = fork();
  if (pid == 0) {
    c16_jmp = nullptr;
    alarm(20);
    _exit(f() ? 0 : 1);
  }
  int stt = 0;
  waitpid(pid, &stt, 0);
  if (WIFEXITED(stt))
    return WEXITSTATUS(stt) == 0 ? 0 : (WEXITSTATUS(stt) == 1 ? 1 : 2);
  return 2;
}

int main(int argc, char **argv) {
  Args A = parse_args(argc, argv);
  Result R(A);
  if (A.replay.empty() && !freopen("/dev/null", "w", stderr)) {
  }
  const bool th = A.thorough() || !A.replay.empty();
  c16_install_fault_handler();
  std::vector< PSet > sets = make_sets(th, A.seed);
  Stats st;
  std::string only;
  if (!A.replay.empty()) {
    const std::string txt = read_file(A.replay);
    only = replay_field(txt, "set");
    printf("replay: set %s (%s): all queries on this set are repeated\n", only.c_str(), replay_field(txt, "what").c_str());
  }
  size_t nsets = 0, npts = 0;
  for (const PSet &s : sets) {
    if (!only.empty() && s.name != only)
      continue;
    if (R.out_of_time()) {
      R.hit_deadline("point set " + s.name + " and later not run");
      break;
    }
    ++nsets;
    npts += s.pts.size();
    for (int periodic = 0; periodic < 2; ++periodic)
      for (int hpat = 0; hpat < NHPAT; ++hpat) {
        sigjmp_buf jb;
        if (sigsetjmp(jb, 1)) {
          c16_jmp = nullptr;
          R.violation("C16:octree:abort", fmt("set %s periodic %d h-pattern %d: cmac_error/abort", s.name.c_str(), periodic, hpat), setrep(s, "octree", ""));
          continue;
        }
        c16_jmp = &jb;
        check_octree(s, periodic != 0, hpat, R, st, query_lattice(s, th ? 4 : 3), {0., 0.6 * s.spacing, 2.2 * s.spacing});
        c16_jmp = nullptr;
      }
    for (unsigned npc : {1u, 2u, 10u, 100u})
      for (int own = 0; own < 2; ++own) {
        if (own && s.degenerate)
          continue; // automatic box has zero extent: 0/0 in the constructor
        sigjmp_buf jb;
        if (sigsetjmp(jb, 1)) {
          c16_jmp = nullptr;
          R.violation("C16:pointlocations:abort", fmt("set %s num_per_cell %u automatic box %d: cmac_error/abort", s.name.c_str(), npc, own), setrep(s, "pointlocations", ""));
          continue;
        }
        c16_jmp = &jb;
        check_pointlocations(s, npc, own != 0, R, st, th);
        c16_jmp = nullptr;
      }
  }
  // a tree with a single position (root is a leaf): run in a child process,
  // the traversal starts from a pointer the constructor never sets
  uint64_t single = 0;
  if (only.empty() || only == "single-position") {
    const Box<> unit(CoordinateVector<>(0.), CoordinateVector<>(1.));
    for (int variant = 0; variant < 3; ++variant) {
      const int rc = in_child([&]() {
        // disturb the heap so that fresh allocations are not zero-filled
        std::vector< char * > junk;
        for (int i = 0; i < 64 && variant; ++i) {
          junk.push_back((char *)malloc(64 + 16 * i));
          memset(junk.back(), variant == 1 ? 0x5a : 0xff, 64 + 16 * i);
        }
        for (char *j : junk)
          free(j);
        std::vector< CoordinateVector<> > p = {CoordinateVector<>(0.5, 0.5, 0.5)};
        std::vector< double > h = {0.3};
        Octree tree(p, unit, false);
        tree.set_auxiliaries(h, Octree::max< double >);
        const auto a = tree.get_ngbs(CoordinateVector<>(0.6, 0.5, 0.5));
        const auto b = tree.get_ngbs(CoordinateVector<>(0.1, 0.1, 0.1));
        const auto c = tree.get_closest_ngb(CoordinateVector<>(0.1, 0.1, 0.1));
        return a.size() == 1 && a[0] == 0 && b.empty() && c == 0;
      });
      ++single;
      ++st.octree_queries;
      if (rc != 0)
        R.violation("C16:octree:single-position",
                    fmt("Octree built from ONE position (heap variant %d): get_ngbs/get_closest_ngb %s (the root is a leaf and "
                        "OctreeNode::_child of a leaf is never initialised; the searches start at _root->get_child())",
                        variant, rc == 1 ? "return a wrong answer" : "crash"),
                    "{\"set\": \"single-position\", \"what\": \"octree\"}");
    }
  }
  // ---------------- static helpers of both iterators (cheap, first)
  uint64_t sh_cases = 0, sh_cubic = 0, sh_noncubic_mismatch = 0;
  const int sh_max = th ? 7 : 5;
  if (only.empty() || only == "static-helpers") {
    check_static_helpers< PointLocations::ngbiterator >(sh_max, sh_cases, sh_cubic, sh_noncubic_mismatch, R, "ngbiterator");
    check_static_helpers< PointLocations::generalngbiterator >(sh_max, sh_cases, sh_cubic, sh_noncubic_mismatch, R, "generalngbiterator");
  }
  // ---------------- block-clustered sets
  BStats bst;
  std::map< std::string, uint64_t > per_family;
  std::map< int, uint64_t > per_s;
  {
    const std::vector< BSet > bsets = make_block_sets(th);
    std::vector< size_t > todo;
    for (size_t i = 0; i < bsets.size(); ++i)
      if (only.empty() || bsets[i].name == only)
        todo.push_back(i);
    bool cut = false;
#pragma omp parallel
    {
      BStats mine;
      std::map< std::string, uint64_t > fam;
      std::map< int, uint64_t > ps;
#pragma omp for schedule(dynamic, 8) nowait
      for (size_t t = 0; t < todo.size(); ++t) {
        if (cut)
          continue;
        if (R.out_of_time()) {
#pragma omp critical(c16cut)
          cut = true;
          continue;
        }
        const BSet &b = bsets[todo[t]];
        sigjmp_buf jb;
        const int why = sigsetjmp(jb, 1);
        if (why) {
          c16_jmp = nullptr;
          R.violation("C16:pointlocations:abort:block-clustered",
                      fmt("set %s (%d^3 blocks, generators in blocks %s): %s", b.name.c_str(), b.s, blocks_name(b.blocks).c_str(), why == 1 ? "cmac_error/abort" : "SIGSEGV/SIGBUS"),
                      fmt("{\"set\": \"%s\", \"what\": \"block-clustered\"}", b.name.c_str()));
          continue;
        }
        c16_jmp = &jb;
        check_block_set(b, A.seed, R, mine);
        c16_jmp = nullptr;
        std::string f = b.family;
        const size_t dash = f.find('-');
        if (f.compare(0, 4, "line") == 0 || f.compare(0, 4, "slab") == 0)
          f = f.substr(0, dash);
        else if (f.compare(0, 5, "space") == 0)
          f = "space-diagonal";
        else if (f.compare(0, 8, "diagonal") == 0)
          f = "diagonal-plane";
        ++fam[f];
        ++ps[b.s];
      }
#pragma omp critical(c16merge)
      {
        bst.merge(mine);
        for (auto &kv : fam)
          per_family[kv.first] += kv.second;
        for (auto &kv : ps)
          per_s[kv.first] += kv.second;
      }
    }
    if (cut)
      R.hit_deadline(fmt("block-clustered sets: %" PRIu64 " of %zu sets run", bst.sets, todo.size()));
  }
  // ---------------- dyadic tie lattices (exact ties, exact integer oracle)
  TStats tst;
  std::vector< TSet > tsets = make_tie_sets(th);
  uint64_t tie_tasks = 0;
  {
    std::vector< TTask > tasks;
    for (size_t i = 0; i < tsets.size(); ++i) {
      if (!only.empty() && tsets[i].name != only)
        continue;
      ++tst.sets;
      tst.points += tsets[i].ip.size();
      for (int periodic = 0; periodic < 2; ++periodic)
        for (int hpat = 0; hpat < NTHPAT; ++hpat)
          tasks.push_back({i, 0, periodic, hpat, 0u});
      std::set< unsigned > npcs = {1u, 2u, 4u, 8u, 64u, (unsigned)tsets[i].ip.size()};
      for (unsigned npc : npcs)
        tasks.push_back({i, 1, 0, 0, npc});
    }
    // big sets first
    std::stable_sort(tasks.begin(), tasks.end(), [&](const TTask &a, const TTask &b) {
      const TSet &A_ = tsets[a.set], &B_ = tsets[b.set];
      return A_.ip.size() * A_.nq[0] * A_.nq[1] * A_.nq[2] > B_.ip.size() * B_.nq[0] * B_.nq[1] * B_.nq[2];
    });
    tie_tasks = tasks.size();
    bool cut = false;
    uint64_t done = 0;
#pragma omp parallel
    {
      TStats mine;
      uint64_t mydone = 0;
#pragma omp for schedule(dynamic, 1) nowait
      for (size_t t = 0; t < tasks.size(); ++t) {
        if (cut)
          continue;
        if (R.out_of_time()) {
#pragma omp critical(c16cut)
          cut = true;
          continue;
        }
        const TTask &k = tasks[t];
        const TSet &T = tsets[k.set];
        sigjmp_buf jb;
        const int why = sigsetjmp(jb, 1);
        if (why) {
          c16_jmp = nullptr;
          R.violation(k.mode == 0 ? "C16:octree:abort:dyadic-lattice" : "C16:pointlocations:abort:dyadic-lattice",
                      fmt("set %s %s: %s", T.name.c_str(), k.mode == 0 ? fmt("periodic %d h-pattern %d", k.periodic, k.hpat).c_str() : fmt("num_per_cell %u", k.npc).c_str(),
                          why == 1 ? "cmac_error/abort" : "SIGSEGV/SIGBUS"),
                      fmt("{\"set\": \"%s\", \"what\": \"tie-lattice\"}", T.name.c_str()));
          continue;
        }
        c16_jmp = &jb;
        if (k.mode == 0)
          check_tie_octree(T, k.periodic != 0, k.hpat, R, mine);
        else
          check_tie_pointlocations(T, k.npc, R, mine, (size_t)T.nq[0] * T.nq[1] * T.nq[2] <= (th ? 4096u : 512u));
        c16_jmp = nullptr;
        ++mydone;
      }
#pragma omp critical(c16merge)
      {
        const uint64_t s0 = tst.sets, p0 = tst.points;
        tst.merge(mine);
        tst.sets = s0, tst.points = p0;
        done += mydone;
      }
    }
    if (cut)
      R.hit_deadline(fmt("dyadic tie lattices: %" PRIu64 " of %zu (set x search configuration) tasks run", done, tasks.size()));
  }
  const uint64_t tie_evals = tst.oct_queries + tst.pl_closest + tst.pl_pos_protocol + tst.pl_point_protocol;
  R.evaluations = tie_evals + st.octree_queries + st.pl_closest + st.pl_radius + bst.closest + bst.pos_protocol + bst.point_protocol + bst.oct.octree_queries + sh_cases;
  R.nontrivial = tst.nontrivial + st.nontrivial + bst.closest + bst.pos_protocol + bst.point_protocol + bst.oct.nontrivial + sh_cases;
  R.rule = "every query of the lattice/point-based centre set on every point set x periodic flag x smoothing-length pattern "
           "(Octree) and x bucket size x box mode (PointLocations), compared member by member with a long double brute force; "
           "non-trivial = queries with at least one true neighbour (closest-neighbour queries always). Block-clustered sets: every "
           "member of the stated families (all unordered pairs of the s^3 search blocks incl. single blocks, all axis-parallel "
           "lines and slabs of blocks, 4 space diagonals, 6 diagonal planes; 3 boxes with unequal sides) x every block as origin "
           "of the search x 2-5 positions per block: get_closest_neighbour, radius protocol around the position "
           "(generalngbiterator) and around stored generators (ngbiterator), Octree searches; all counted as non-trivial "
           "(the generators are clustered, the searches have to leave the first shell). Dyadic tie lattices: every member of the "
           "stated list of vertex-centred / cell-centred / mixed / thinned / two-level lattices with power-of-two point counts (all "
           "coordinates, smoothing lengths and radii integer multiples of 2^-6) x periodic flag x 7 smoothing-length patterns x "
           "EVERY point of the half-lattice as query centre: get_ngbs, get_ngbs_sphere (4 radii), get_ngbs_list, get_closest_ngb and, "
           "for the power-of-two block counts PointLocations offers, get_closest_neighbour and both radius protocols from every "
           "half-lattice point / every stored generator x 7 radii, against integer arithmetic with no tie band (non-trivial = "
           "Octree queries with at least one true neighbour, all closest queries and protocols)";
  R.set("point_sets", (double)nsets);
  R.set("points_total", (double)npts);
  R.set("octree_queries", (double)st.octree_queries);
  R.set("octree_members_returned", (double)st.octree_members);
  R.set("exact_ties_accepted_either_way", (double)st.ties);
  R.set("pointlocations_closest_queries", (double)st.pl_closest);
  R.set("pointlocations_radius_searches", (double)st.pl_radius);
  R.set("octree_single_position_probes", (double)single);
  R.set("octree_smoothing_length_patterns", (double)NHPAT);
  // block-clustered alphabet
  R.set("blockset_sets", (double)bst.sets);
  R.set("blockset_generators_total", (double)bst.generators);
  R.set("blockset_grid_size_verified_sets", (double)bst.grid_size_verified);
  R.set("blockset_boxes", (double)NBOX);
  {
    std::string j = "{";
    for (auto &kv : per_family)
      j += fmt("%s\"%s\": %" PRIu64, j.size() > 1 ? ", " : "", kv.first.c_str(), kv.second);
    R.set_json("blockset_sets_per_family", j + "}");
    j = "{";
    for (auto &kv : per_s)
      j += fmt("%s\"%d\": %" PRIu64, j.size() > 1 ? ", " : "", kv.first, kv.second);
    R.set_json("blockset_sets_per_blocks_per_axis", j + "}");
  }
  R.set("blockset_closest_queries", (double)bst.closest);
  R.set("blockset_closest_queries_without_generator_in_the_27_blocks_around_the_query", (double)bst.closest_beyond_first_shell);
  R.set("blockset_closest_results_within_10x_of_tolerance", (double)bst.closest_near_ties);
  R.set("blockset_position_radius_searches", (double)bst.pos_protocol);
  R.set("blockset_position_radius_searches_run_to_the_last_block", (double)bst.pos_protocol_exhausted);
  R.set("blockset_point_radius_searches", (double)bst.point_protocol);
  R.set("blockset_point_radius_searches_run_to_the_last_block", (double)bst.point_protocol_exhausted);
  R.set("blockset_radius_searches_within_10x_of_tolerance", (double)bst.protocol_near_tolerance);
  R.set("blockset_octree_sets", (double)bst.octree_sets);
  R.set("blockset_octree_queries", (double)bst.oct.octree_queries);
  R.set("blockset_octree_exact_ties_accepted_either_way", (double)bst.oct.ties);
  R.set_str("blockset_thread_seconds_positions_points_octree_informational", fmt("%.1f %.1f %.1f", bst.t_positions, bst.t_points, bst.t_octree));
  // dyadic tie lattices
  R.set("tielattice_sets", (double)tst.sets);
  R.set("tielattice_points_total", (double)tst.points);
  R.set("tielattice_tasks_set_x_configuration", (double)tie_tasks);
  R.set("tielattice_unit_exponent_p_all_quantities_multiples_of_2^-p", (double)TIE_P);
  R.set("tielattice_smoothing_length_patterns", (double)NTHPAT);
  R.set("tielattice_sphere_radii", (double)NTRAD);
  {
    std::string j = "[";
    for (size_t i = 0; i < tsets.size(); ++i)
      if (only.empty() || tsets[i].name == only)
        j += fmt("%s\"%s (%zu points, %d query centres)\"", j.size() > 1 ? ", " : "", tsets[i].name.c_str(), tsets[i].ip.size(), tsets[i].nq[0] * tsets[i].nq[1] * tsets[i].nq[2]);
    R.set_json("tielattice_set_list", j + "]");
  }
  R.set("tielattice_octree_query_centres", (double)tst.queries);
  R.set("tielattice_octree_queries", (double)tst.oct_queries);
  R.set("tielattice_octree_members_returned", (double)tst.oct_members);
  R.set("tielattice_particle_query_pairs_distance_below_limit", (double)tst.pair_lt);
  R.set("tielattice_particle_query_pairs_distance_exactly_equal_to_limit", (double)tst.pair_eq);
  R.set("tielattice_particle_query_pairs_distance_exactly_equal_to_limit_zero", (double)tst.pair_eq_zero);
  R.set("tielattice_particle_query_pairs_distance_above_limit", (double)tst.pair_gt);
  R.set("tielattice_get_ngbs_node_box_distance_below_node_maximum", (double)tst.node_lt);
  R.set("tielattice_get_ngbs_node_box_distance_exactly_equal_to_node_maximum", (double)tst.node_eq);
  R.set("tielattice_get_ngbs_node_box_distance_equal_and_node_holds_a_true_neighbour", (double)tst.node_eq_holding_a_member);
  R.set("tielattice_get_ngbs_node_box_distance_equal_and_node_holds_a_neighbour_at_exactly_its_smoothing_length", (double)tst.node_eq_holding_a_tie_member);
  R.set("tielattice_get_ngbs_node_box_distance_above_node_maximum", (double)tst.node_gt);
  R.set_str("tielattice_get_ngbs_list_queries_with_0_1_2_3_centres", fmt("%" PRIu64 " %" PRIu64 " %" PRIu64 " %" PRIu64, tst.list_size[0], tst.list_size[1], tst.list_size[2], tst.list_size[3]));
  R.set("tielattice_octree_closest_queries", (double)tst.closest);
  R.set("tielattice_octree_closest_queries_with_equidistant_closest_particles", (double)tst.closest_equidistant);
  R.set("tielattice_pointlocations_objects_power_of_two_block_counts", (double)tst.pl_objects);
  R.set("tielattice_pointlocations_configurations_skipped_block_count_not_a_power_of_two", (double)tst.pl_skipped);
  R.set("tielattice_pointlocations_closest_queries", (double)tst.pl_closest);
  R.set("tielattice_pointlocations_closest_queries_with_equidistant_closest_generators", (double)tst.pl_closest_equidistant);
  R.set("tielattice_pointlocations_closest_queries_exactly_on_a_block_face", (double)tst.pl_closest_on_block_face);
  R.set("tielattice_pointlocations_position_radius_searches", (double)tst.pl_pos_protocol);
  R.set("tielattice_pointlocations_point_radius_searches", (double)tst.pl_point_protocol);
  R.set("tielattice_pointlocations_radius_searches_stopped_with_covered_radius_exactly_equal_to_radius", (double)tst.pl_protocol_stopped_on_equality);
  R.set("tielattice_pointlocations_radius_searches_with_a_generator_exactly_on_the_radius", (double)tst.pl_protocol_generator_exactly_on_radius);
  R.set("tielattice_pointlocations_radius_searches_run_to_the_last_block", (double)tst.pl_protocol_exhausted);
  R.set("static_helper_cases", (double)sh_cases);
  R.set("static_helper_cases_equal_block_counts", (double)sh_cubic);
  R.set("static_helper_max_blocks_per_axis", (double)sh_max);
  R.set("static_helper_mismatches_for_unequal_block_counts_observation_only", (double)sh_noncubic_mismatch);
  R.sample(fmt("{\"sets\": %zu, \"example\": \"%s\"}", nsets, sets.empty() ? "" : sets[nsets / 2].name.c_str()));
  R.assumptions.push_back("positions are distinct and inside the half-open box; query centres are inside the box");
  R.assumptions.push_back("a particle whose distance to the query is EXACTLY its smoothing length (+ radius) is a neighbour: Octree.hpp evaluates "
                          "r <= h on every leaf of all three overlap searches, and a tree search has to return what that criterion gives for "
                          "every particle (the pruning must be loss-free). Decided without tolerance only on the dyadic tie lattices, where "
                          "every floating-point operation of the real code is exact; elsewhere |r - h| <= 8 eps (r + h) is accepted either way");
  R.assumptions.push_back("a PointLocations grid has the same number of blocks along every axis by construction (only the block side "
                          "lengths differ per axis: boxes 1x1x1, 4x2x1, 1x3x2); unequal block counts exist only as arguments of the static "
                          "helpers set_max_range/increase_indices and are reported as an observation, not a violation");
  R.assumptions.push_back("PointLocations with the automatic bounding box is not built for point sets with zero extent along an axis "
                          "(the constructor divides by that extent); such sets are run with the explicit box, as every caller in src/ does");
  if (!A.replay.empty()) {
    for (auto &v : R.violations)
      printf("  VIOLATION %s :: %s\n", v.key.c_str(), v.detail.c_str());
    printf("replay: %" PRIu64 " violation(s)\n", R.violation_count);
  }
  return R.finish(A);
}
