// C16 part 3: real Octree and PointLocations searches against brute force.
//  Octree: get_ngbs (smoothing-length overlap), get_ngbs_sphere,
//          get_ngbs_list, get_closest_ngb, periodic and non-periodic
//  PointLocations: get_closest_neighbour and the ngbiterator radius search
//          protocol of OldVoronoiGrid::compute_cell
// on lattice, node-face, clustered, perturbed and degenerate (planar, linear,
// tiny) point sets; query centres on a lattice of the box and on the points
// themselves; exact ties (|r - h| within 8 eps) are accepted either way.
#include "Octree.hpp"
#include "PointLocations.hpp"
#include "c16_march.hpp"
#include <set>
#include <sys/wait.h>

using namespace verif;
typedef long double Q;

struct PSet {
  std::string name;
  Box<> box;
  std::vector< CoordinateVector<> > pts;
  double spacing; // typical distance between points
  bool degenerate; // zero extent in some dimension
};

static CoordinateVector<> inbox(const Box<> &b, double u, double v, double w) {
  return CoordinateVector<>(b.get_anchor().x() + u * b.get_sides().x(), b.get_anchor().y() + v * b.get_sides().y(),
                            b.get_anchor().z() + w * b.get_sides().z());
}

static std::vector< PSet > make_sets(bool thorough, long seed) {
  std::vector< PSet > v;
  const Box<> unit(CoordinateVector<>(0.), CoordinateVector<>(1.));
  const Box<> skew(CoordinateVector<>(-2., 1., 0.5), CoordinateVector<>(4., 2., 1.));
  // constant perturbation pattern (seed selects the rotation of the table)
  const double pert[7] = {0.13, -0.31, 0.07, 0.29, -0.11, -0.23, 0.19};
  auto pp = [&](size_t i) { return pert[(i + seed) % 7]; };
  for (const Box<> &b : {unit, skew}) {
    const std::string bn = (&b == &unit) ? "unit" : "skew";
    const double smin = std::min(b.get_sides().x(), std::min(b.get_sides().y(), b.get_sides().z()));
    for (int m : (thorough ? std::vector< int >{2, 3, 4, 5, 7} : std::vector< int >{2, 3, 4})) {
      // cell-centred lattice
      PSet s{fmt("lattice-centres-%d-%s", m, bn.c_str()), b, {}, smin / m, false};
      // lattice on the faces of the octree nodes (corners of an m^3 mesh)
      PSet f{fmt("lattice-corners-%d-%s", m, bn.c_str()), b, {}, smin / m, false};
      // perturbed lattice
      PSet p{fmt("lattice-perturbed-%d-%s", m, bn.c_str()), b, {}, smin / m, false};
      size_t n = 0;
      for (int i = 0; i < m; ++i)
        for (int j = 0; j < m; ++j)
          for (int k = 0; k < m; ++k, ++n) {
            s.pts.push_back(inbox(b, (i + 0.5) / m, (j + 0.5) / m, (k + 0.5) / m));
            f.pts.push_back(inbox(b, (double)i / m, (double)j / m, (double)k / m));
            p.pts.push_back(inbox(b, (i + 0.5 + 0.9 * pp(n)) / m, (j + 0.5 + 0.9 * pp(n + 2)) / m, (k + 0.5 + 0.9 * pp(n + 4)) / m));
          }
      v.push_back(s);
      v.push_back(f);
      v.push_back(p);
    }
    // geometric clusters towards a corner and around the centre
    {
      PSet c{"cluster-corner-" + bn, b, {}, smin / 16, false};
      PSet d{"cluster-centre-" + bn, b, {}, smin / 16, false};
      const int K = thorough ? 6 : 4;
      for (int i = 1; i <= K; ++i)
        for (int j = 1; j <= K; ++j)
          for (int k = 1; k <= K; ++k) {
            c.pts.push_back(inbox(b, std::ldexp(1., -i), std::ldexp(1., -j), std::ldexp(1., -k)));
            d.pts.push_back(inbox(b, 0.5 + ((i + j) % 2 ? 1 : -1) * std::ldexp(1., -i - 1), 0.5 + ((j + k) % 2 ? 1 : -1) * std::ldexp(1., -j - 1),
                                  0.5 + ((i + k) % 2 ? 1 : -1) * std::ldexp(1., -k - 1)));
          }
      // the centre cluster has repeated positions: keep distinct ones
      std::set< std::tuple< double, double, double > > seen;
      std::vector< CoordinateVector<> > dd;
      for (auto &q : d.pts)
        if (seen.insert(std::make_tuple(q.x(), q.y(), q.z())).second)
          dd.push_back(q);
      d.pts.swap(dd);
      v.push_back(c);
      v.push_back(d);
    }
    // two clusters far apart + a lone point
    {
      PSet c{"two-clusters-" + bn, b, {}, smin / 32, false};
      for (int i = 0; i < 3; ++i)
        for (int j = 0; j < 3; ++j)
          for (int k = 0; k < 3; ++k) {
            c.pts.push_back(inbox(b, 0.05 + 0.02 * i, 0.07 + 0.02 * j, 0.9 + 0.02 * k));
            c.pts.push_back(inbox(b, 0.93 + 0.02 * i, 0.51 + 0.015 * j, 0.03 + 0.01 * k));
          }
      c.pts.push_back(inbox(b, 0.5, 0.5, 0.5));
      v.push_back(c);
    }
    // degenerate sets
    {
      PSet pl{"planar-4x4-" + bn, b, {}, smin / 4, true}, ln{"linear-6-" + bn, b, {}, smin / 6, true};
      for (int i = 0; i < 4; ++i)
        for (int j = 0; j < 4; ++j)
          pl.pts.push_back(inbox(b, (i + 0.5) / 4, (j + 0.25) / 4, 0.5));
      for (int i = 0; i < 6; ++i)
        ln.pts.push_back(inbox(b, 0.3, (i + 0.5) / 6, 0.7));
      v.push_back(pl);
      v.push_back(ln);
      PSet two{"two-points-" + bn, b, {inbox(b, 0.25, 0.25, 0.25), inbox(b, 0.75, 0.5, 0.125)}, smin / 2, false};
      PSet three{"three-points-" + bn, b, {inbox(b, 0.1, 0.2, 0.3), inbox(b, 0.1, 0.2, 0.8), inbox(b, 0.9, 0.9, 0.05)}, smin / 2, false};
      v.push_back(two);
      v.push_back(three);
    }
  }
  return v;
}

static std::vector< CoordinateVector<> > query_lattice(const PSet &s, int q) {
  std::vector< CoordinateVector<> > c;
  for (int i = 0; i < 2 * q; ++i)
    for (int j = 0; j < 2 * q; ++j)
      for (int k = 0; k < 2 * q; ++k)
        c.push_back(inbox(s.box, i / (2. * q), j / (2. * q), k / (2. * q)));
  // the points themselves and points just next to them
  for (size_t i = 0; i < s.pts.size(); i += std::max< size_t >(1, s.pts.size() / 40)) {
    c.push_back(s.pts[i]);
    CoordinateVector<> p = s.pts[i];
    p[0] += 1e-9 * s.box.get_sides().x();
    if (s.box.inside(p))
      c.push_back(p);
  }
  return c;
}

static Q dist(const PSet &s, bool periodic, const CoordinateVector<> &a, const CoordinateVector<> &b) {
  Q r2 = 0;
  for (int d = 0; d < 3; ++d) {
    Q dx = (Q)a[d] - b[d];
    if (periodic) {
      const Q S = s.box.get_sides()[d];
      dx -= roundl(dx / S) * S;
    }
    r2 += dx * dx;
  }
  return sqrtl(r2);
}

struct Stats {
  uint64_t octree_queries = 0, octree_members = 0, ties = 0, pl_closest = 0, pl_radius = 0, nontrivial = 0;
};

static std::string setrep(const PSet &s, const std::string &what, const std::string &more) {
  return fmt("{\"set\": \"%s\", \"what\": \"%s\"%s%s}", s.name.c_str(), what.c_str(), more.empty() ? "" : ", ", more.c_str());
}

/// membership comparison with ties accepted either way
static bool compare_members(const std::vector< uint_fast32_t > &got, const std::vector< int > &cls /*1 in, 0 tie, -1 out*/,
                            std::string &why) {
  std::vector< int > cnt(cls.size(), 0);
  for (auto i : got) {
    if (i >= cls.size()) {
      why = fmt("index %zu out of range", (size_t)i);
      return false;
    }
    if (++cnt[i] > 1) {
      why = fmt("index %zu returned twice", (size_t)i);
      return false;
    }
  }
  for (size_t i = 0; i < cls.size(); ++i) {
    if (cls[i] == 1 && !cnt[i]) {
      why = fmt("index %zu is missing", i);
      return false;
    }
    if (cls[i] == -1 && cnt[i]) {
      why = fmt("index %zu should not be returned", i);
      return false;
    }
  }
  return true;
}

static void check_octree(const PSet &s, bool periodic, int hpat, Result &R, Stats &st, bool thorough) {
  std::vector< CoordinateVector<> > pts(s.pts); // the tree may move duplicates
  const size_t N = pts.size();
  std::vector< double > hs(N);
  for (size_t i = 0; i < N; ++i) {
    switch (hpat) {
    case 0:
      hs[i] = 0.75 * s.spacing;
      break;
    case 1:
      hs[i] = s.spacing * (0.25 + 0.5 * (i % 5));
      break;
    case 2:
      hs[i] = (i % 3 == 0) ? 0. : 3.1 * s.spacing;
      break;
    default:
      hs[i] = s.spacing; // exact ties with lattice spacings
    }
  }
  const std::string P = periodic ? ":periodic" : "";
  Octree tree(pts, s.box, periodic);
  tree.set_auxiliaries(hs, Octree::max< double >);
  for (size_t i = 0; i < N; ++i)
    if (pts[i].x() != s.pts[i].x() || pts[i].y() != s.pts[i].y() || pts[i].z() != s.pts[i].z())
      R.violation("C16:octree:moved-a-position", fmt("set %s: position %zu was changed by the tree construction", s.name.c_str(), i), setrep(s, "octree", ""));
  const std::vector< CoordinateVector<> > centres = query_lattice(s, thorough ? 4 : 3);
  const double radii[3] = {0., 0.6 * s.spacing, 2.2 * s.spacing};
  for (size_t ic = 0; ic < centres.size(); ++ic) {
    const CoordinateVector<> &c = centres[ic];
    std::vector< Q > r(N);
    for (size_t i = 0; i < N; ++i)
      r[i] = dist(s, periodic, pts[i], c);
    const std::string more = fmt("\"periodic\": %d, \"hpattern\": %d, \"centre\": \"%a %a %a\"", (int)periodic, hpat, c.x(), c.y(), c.z());
    auto classify = [&](Q extra, std::vector< int > &cls) {
      cls.resize(N);
      bool any = false;
      for (size_t i = 0; i < N; ++i) {
        const Q lim = (Q)hs[i] + extra;
        const Q tol = 8. * DBL_EPSILON * (lim + r[i]);
        cls[i] = r[i] < lim - tol ? 1 : (r[i] > lim + tol ? -1 : 0);
        if (cls[i] == 0)
          ++st.ties;
        any |= cls[i] == 1;
      }
      return any;
    };
    std::string why;
    std::vector< int > cls;
    // smoothing-length overlap
    {
      const bool any = classify(0., cls);
      const auto got = tree.get_ngbs(c);
      ++st.octree_queries;
      st.octree_members += got.size();
      st.nontrivial += any;
      if (!compare_members(got, cls, why))
        R.violation("C16:octree:get_ngbs" + P, fmt("set %s h-pattern %d centre (%a,%a,%a): %s (%zu returned)", s.name.c_str(), hpat, c.x(), c.y(), c.z(), why.c_str(), got.size()),
                    setrep(s, "get_ngbs", more));
    }
    for (double rad : radii) {
      const bool any = classify(rad, cls);
      const auto got = tree.get_ngbs_sphere(c, rad);
      ++st.octree_queries;
      st.octree_members += got.size();
      st.nontrivial += any;
      if (!compare_members(got, cls, why))
        R.violation("C16:octree:get_ngbs_sphere" + P, fmt("set %s h-pattern %d centre (%a,%a,%a) radius %a: %s", s.name.c_str(), hpat, c.x(), c.y(), c.z(), rad, why.c_str()),
                    setrep(s, "get_ngbs_sphere", more + fmt(", \"radius\": \"%a\"", rad)));
    }
    // list of centres: union
    if (ic + 9 < centres.size()) {
      std::vector< CoordinateVector<> > list = {c, centres[ic + 1], centres[ic + 9]};
      std::vector< int > u(N, -1);
      bool any = false;
      for (auto &cc : list)
        for (size_t i = 0; i < N; ++i) {
          const Q rr = dist(s, periodic, pts[i], cc);
          const Q tol = 8. * DBL_EPSILON * (hs[i] + rr);
          const int k = rr < hs[i] - tol ? 1 : (rr > hs[i] + tol ? -1 : 0);
          u[i] = std::max(u[i], k);
          any |= k == 1;
        }
      const auto got = tree.get_ngbs_list(list);
      ++st.octree_queries;
      st.nontrivial += any;
      if (!compare_members(got, u, why))
        R.violation("C16:octree:get_ngbs_list" + P, fmt("set %s h-pattern %d centres starting at (%a,%a,%a): %s", s.name.c_str(), hpat, c.x(), c.y(), c.z(), why.c_str()),
                    setrep(s, "get_ngbs_list", more));
    }
    // closest
    if (hpat == 0) {
      Q rmin = r[0];
      for (size_t i = 1; i < N; ++i)
        rmin = std::min(rmin, r[i]);
      const uint_fast32_t got = tree.get_closest_ngb(c);
      ++st.octree_queries;
      ++st.nontrivial;
      if (got >= N || r[got] > rmin + 8. * DBL_EPSILON * (rmin + s.spacing))
        R.violation("C16:octree:get_closest_ngb" + P,
                    fmt("set %s centre (%a,%a,%a): returned %zu at distance %.17Lg, closest is at %.17Lg", s.name.c_str(), c.x(), c.y(), c.z(), (size_t)got,
                        got < N ? r[got] : -1.L, rmin),
                    setrep(s, "get_closest_ngb", more));
    }
  }
}

static void check_pointlocations(const PSet &s, unsigned num_per_cell, bool own_box, Result &R, Stats &st, bool thorough) {
  const size_t N = s.pts.size();
  const std::string B = own_box ? ":automatic-box" : "";
  const std::string more0 = fmt("\"num_per_cell\": %u, \"automatic_box\": %d", num_per_cell, (int)own_box);
  PointLocations *plp = own_box ? new PointLocations(s.pts, num_per_cell) : new PointLocations(s.pts, num_per_cell, s.box);
  PointLocations &pl = *plp;
  // closest neighbour of arbitrary positions
  std::vector< CoordinateVector<> > centres = query_lattice(s, thorough ? 4 : 3);
  if (own_box) {
    // queries must lie inside the automatic grid: use the bounding box of the points
    CoordinateVector<> lo = s.pts[0], hi = s.pts[0];
    for (auto &p : s.pts) {
      lo = CoordinateVector<>::min(lo, p);
      hi = CoordinateVector<>::max(hi, p);
    }
    std::vector< CoordinateVector<> > c2;
    for (auto &c : centres)
      if (c.x() >= lo.x() && c.x() <= hi.x() && c.y() >= lo.y() && c.y() <= hi.y() && c.z() >= lo.z() && c.z() <= hi.z())
        c2.push_back(c);
    centres.swap(c2);
  }
  for (auto &c : centres) {
    Q rmin = -1;
    for (size_t i = 0; i < N; ++i) {
      const Q r = dist(s, false, s.pts[i], c);
      if (rmin < 0 || r < rmin)
        rmin = r;
    }
    const uint_fast32_t got = pl.get_closest_neighbour(c);
    ++st.pl_closest;
    ++st.nontrivial;
    const Q rg = got < N ? dist(s, false, s.pts[got], c) : -1.L;
    if (got >= N || rg > rmin + 8. * DBL_EPSILON * (rmin + s.spacing))
      R.violation("C16:pointlocations:get_closest_neighbour" + B,
                  fmt("set %s num_per_cell %u position (%a,%a,%a): returned %zu at distance %.17Lg, closest is at %.17Lg", s.name.c_str(), num_per_cell, c.x(), c.y(), c.z(),
                      (size_t)got, rg, rmin),
                  setrep(s, "get_closest_neighbour", more0 + fmt(", \"centre\": \"%a %a %a\"", c.x(), c.y(), c.z())));
  }
  // radius search around every point (protocol of OldVoronoiGrid::compute_cell)
  const double radii[5] = {0.55 * s.spacing, 1.0 * s.spacing, 1.6 * s.spacing, 3.3 * s.spacing, 1e3 * s.spacing};
  for (size_t centre = 0; centre < N; ++centre) {
    for (double rad : radii) {
      const double rad2 = rad * rad;
      std::vector< int > cnt(N, 0);
      size_t buckets = 0;
      auto it = pl.get_neighbours(centre);
      {
        auto ngbs = it.get_neighbours();
        for (auto j : ngbs)
          if (j < N)
            ++cnt[j];
        ++buckets;
      }
      bool exhausted = true;
      while (it.increase_range()) {
        if (!(it.get_max_radius2() < rad2)) {
          exhausted = false;
          break;
        }
        auto ngbs = it.get_neighbours();
        for (auto j : ngbs)
          if (j < N)
            ++cnt[j];
        if (++buckets > 100000)
          break;
      }
      ++st.pl_radius;
      std::string why;
      bool any = false;
      for (size_t j = 0; j < N && why.empty(); ++j) {
        const Q r = dist(s, false, s.pts[j], s.pts[centre]);
        if (cnt[j] > 1)
          why = fmt("candidate %zu delivered %d times", j, cnt[j]);
        else if (r < rad * (1. - 8. * DBL_EPSILON) && cnt[j] == 0)
          why = fmt("point %zu at distance %.17Lg < radius %.17g was never delivered (%zu buckets visited, covered radius^2 %.17g)", j, r, rad, buckets, it.get_max_radius2());
        else if (exhausted && cnt[j] == 0)
          why = fmt("search ran out of buckets but point %zu was never delivered", j);
        any |= (j != centre && r < rad);
      }
      st.nontrivial += any;
      if (!why.empty())
        R.violation("C16:pointlocations:radius-search" + B, fmt("set %s num_per_cell %u centre point %zu radius %a: %s", s.name.c_str(), num_per_cell, centre, rad, why.c_str()),
                    setrep(s, "radius-search", more0 + fmt(", \"centre_index\": %zu, \"radius\": \"%a\"", centre, rad)));
    }
  }
  delete plp;
}

/// run f in a forked child; returns 0 ok, 1 wrong answer, 2 crashed/aborted
template < typename F > static int in_child(F f) {
  fflush(nullptr);
  const pid_t pid = fork();
  if (pid == 0) {
    c16_jmp = nullptr;
    alarm(20);
    _exit(f() ? 0 : 1);
  }
  int stt = 0;
  waitpid(pid, &stt, 0);
  if (WIFEXITED(stt))
    return WEXITSTATUS(stt) == 0 ? 0 : (WEXITSTATUS(stt) == 1 ? 1 : 2);
  return 2;
}

int main(int argc, char **argv) {
  Args A = parse_args(argc, argv);
  Result R(A);
  if (A.replay.empty() && !freopen("/dev/null", "w", stderr)) {
  }
  const bool th = A.thorough() || !A.replay.empty();
  std::vector< PSet > sets = make_sets(th, A.seed);
  Stats st;
  std::string only;
  if (!A.replay.empty()) {
    const std::string txt = read_file(A.replay);
    only = replay_field(txt, "set");
    printf("replay: set %s (%s): all queries on this set are repeated\n", only.c_str(), replay_field(txt, "what").c_str());
  }
  size_t nsets = 0, npts = 0;
  for (const PSet &s : sets) {
    if (!only.empty() && s.name != only)
      continue;
    if (R.out_of_time()) {
      R.hit_deadline("point set " + s.name + " and later not run");
      break;
    }
    ++nsets;
    npts += s.pts.size();
    for (int periodic = 0; periodic < 2; ++periodic)
      for (int hpat = 0; hpat < 4; ++hpat) {
        sigjmp_buf jb;
        if (sigsetjmp(jb, 1)) {
          c16_jmp = nullptr;
          R.violation("C16:octree:abort", fmt("set %s periodic %d h-pattern %d: cmac_error/abort", s.name.c_str(), periodic, hpat), setrep(s, "octree", ""));
          continue;
        }
        c16_jmp = &jb;
        check_octree(s, periodic != 0, hpat, R, st, th);
        c16_jmp = nullptr;
      }
    for (unsigned npc : {1u, 2u, 10u, 100u})
      for (int own = 0; own < 2; ++own) {
        if (own && s.degenerate)
          continue; // automatic box has zero extent: 0/0 in the constructor
        sigjmp_buf jb;
        if (sigsetjmp(jb, 1)) {
          c16_jmp = nullptr;
          R.violation("C16:pointlocations:abort", fmt("set %s num_per_cell %u automatic box %d: cmac_error/abort", s.name.c_str(), npc, own), setrep(s, "pointlocations", ""));
          continue;
        }
        c16_jmp = &jb;
        check_pointlocations(s, npc, own != 0, R, st, th);
        c16_jmp = nullptr;
      }
  }
  // a tree with a single position (root is a leaf): run in a child process,
  // the traversal starts from a pointer the constructor never sets
  uint64_t single = 0;
  if (only.empty() || only == "single-position") {
    const Box<> unit(CoordinateVector<>(0.), CoordinateVector<>(1.));
    for (int variant = 0; variant < 3; ++variant) {
      const int rc = in_child([&]() {
        // disturb the heap so that fresh allocations are not zero-filled
        std::vector< char * > junk;
        for (int i = 0; i < 64 && variant; ++i) {
          junk.push_back((char *)malloc(64 + 16 * i));
          memset(junk.back(), variant == 1 ? 0x5a : 0xff, 64 + 16 * i);
        }
        for (char *j : junk)
          free(j);
        std::vector< CoordinateVector<> > p = {CoordinateVector<>(0.5, 0.5, 0.5)};
        std::vector< double > h = {0.3};
        Octree tree(p, unit, false);
        tree.set_auxiliaries(h, Octree::max< double >);
        const auto a = tree.get_ngbs(CoordinateVector<>(0.6, 0.5, 0.5));
        const auto b = tree.get_ngbs(CoordinateVector<>(0.1, 0.1, 0.1));
        const auto c = tree.get_closest_ngb(CoordinateVector<>(0.1, 0.1, 0.1));
        return a.size() == 1 && a[0] == 0 && b.empty() && c == 0;
      });
      ++single;
      ++st.octree_queries;
      if (rc != 0)
        R.violation("C16:octree:single-position",
                    fmt("Octree built from ONE position (heap variant %d): get_ngbs/get_closest_ngb %s (the root is a leaf and "
                        "OctreeNode::_child of a leaf is never initialised; the searches start at _root->get_child())",
                        variant, rc == 1 ? "return a wrong answer" : "crash"),
                    "{\"set\": \"single-position\", \"what\": \"octree\"}");
    }
  }
  R.evaluations = st.octree_queries + st.pl_closest + st.pl_radius;
  R.nontrivial = st.nontrivial;
  R.rule = "every query of the lattice/point-based centre set on every point set x periodic flag x smoothing-length pattern "
           "(Octree) and x bucket size x box mode (PointLocations), compared member by member with a long double brute force; "
           "non-trivial = queries with at least one true neighbour (closest-neighbour queries always)";
  R.set("point_sets", (double)nsets);
  R.set("points_total", (double)npts);
  R.set("octree_queries", (double)st.octree_queries);
  R.set("octree_members_returned", (double)st.octree_members);
  R.set("exact_ties_accepted_either_way", (double)st.ties);
  R.set("pointlocations_closest_queries", (double)st.pl_closest);
  R.set("pointlocations_radius_searches", (double)st.pl_radius);
  R.set("octree_single_position_probes", (double)single);
  R.sample(fmt("{\"sets\": %zu, \"example\": \"%s\"}", nsets, sets.empty() ? "" : sets[nsets / 2].name.c_str()));
  R.assumptions.push_back("positions are distinct and inside the half-open box; query centres are inside the box");
  R.assumptions.push_back("PointLocations with the automatic bounding box is not built for point sets with zero extent along an axis "
                          "(the constructor divides by that extent); such sets are run with the explicit box, as every caller in src/ does");
  if (!A.replay.empty()) {
    for (auto &v : R.violations)
      printf("  VIOLATION %s :: %s\n", v.key.c_str(), v.detail.c_str());
    printf("replay: %" PRIu64 " violation(s)\n", R.violation_count);
  }
  return R.finish(A);
}
