CHECK = {
    "id": "C16",
    "level": "model_checking",
    "engine": "E2",
    "technique": "explicit-state BFS over refinement histories of the real AMRGrid with invariants on every transition; "
                 "bounded-exhaustive position/ray/query lattices for the legacy density grids and search structures",
    "level_text": "TODO",
    "level_note": "TODO",
    "quick_deadline": 110,
    "thorough_deadline": 1200,
    "parts": [{"name": "amr", "bin": "c16_amr"}],
    "assumptions": [],
}
