CHECK = {
    "id": "C16",
    "level": "model_checking",
    "engine": "E2",
    "technique": "explicit-state BFS over the refinement histories of the real AMRGrid with every invariant evaluated on every "
                 "transition (state = set of refined nodes = sorted leaf keys, fresh real object rebuilt from each history); "
                 "bounded-exhaustive position / neighbour / ray / query lattices for CartesianDensityGrid, AMRDensityGrid, "
                 "VoronoiDensityGrid, Octree and PointLocations against index-arithmetic, long double ray marcher and "
                 "brute-force oracles; for the search structures additionally every member of a finite family of block-clustered "
                 "generator sets (all unordered pairs of the s^3 search blocks, all lines, slabs, diagonals and diagonal planes of "
                 "blocks) x every block as origin of the search, so that the shell-by-shell block traversal is driven to its last "
                 "shell and last block; and every member of a finite family of dyadic tie lattices (vertex-centred, cell-centred, "
                 "mixed, thinned and two-level lattices with power-of-two point counts, all coordinates / smoothing lengths / radii "
                 "integer multiples of 2^-6) x every half-lattice point as query, where every distance, node-box distance and "
                 "covered radius is exact in double and is compared with an integer oracle that has no tie band (distance exactly "
                 "equal to h, to the node maximum, to the search radius)",
    "level_text": "AMR state space: every refinement history of the real AMRGrid inside the bound (block layouts 1, 2x1x1, 3x1x1, "
                  "3x2x1 (+1x1x2, 1x2x3); all 8 children: quick <=5/4/4/3 refinements with leaves to level 3, thorough <=6 "
                  "refinements to level 3 and <=5 to level 4 for one block, <=4 to level 4 for two and three blocks, <=4 to level 3 / <=3 to level 4 for six; "
                  "pairs of opposite children: 12 refinements / level 4; single chains to level 8; boxes with non-binary block "
                  "sizes) is enumerated breadth first; on every transition a fresh grid is built from the history and "
                  "enumeration (first/next key = Morton order of the model, each leaf once), geometry, volume sum, the "
                  "(2^(d+1)+1)^3-per-block position lattice (get_key, get_key(level), get_cell, unique containment), neighbour "
                  "pointers for all 8 periodicities (equal to the model's same-or-coarser node, mutual) are checked and a digest "
                  "of all answers must equal that of the first history reaching the same leaf set and of the grid built with "
                  "create_cell. The density grids and search structures are sequential numeric code: all positions of a face/"
                  "centre/1-ulp lattice, all cells x faces x 8 periodicities, all rays of start lattice x 124 integer directions x "
                  "periodicities x opacity fields x target depths, and all queries of a centre lattice x point sets x radii are "
                  "evaluated against independent oracles. Search structures, block-clustered sets (3 boxes 1x1x1, 4x2x1, 1x3x2 with "
                  "anchors of both signs): PointLocations grids of s^3 blocks, generators confined to (a) every unordered pair of "
                  "blocks incl. a single block (quick s=2..4, thorough s=2..5 and s=6 in the 4x2x1 box), (b) every axis-parallel line "
                  "and slab of blocks, the 4 space diagonals and 6 diagonal planes (quick s=2..5, thorough s=2..8; 1 and 3 generators "
                  "per block on average), (c) a single-block grid with 1, 2, 3, 7 generators; from EVERY block 2-5 positions (centre, "
                  "next to the lower/upper corner, exactly on the lower block corner, mixed): get_closest_neighbour = brute force, "
                  "the radius protocol (central bucket, while increase_range() && max_radius2 < r^2) around the arbitrary position "
                  "(generalngbiterator) and around a stored generator of every occupied block (ngbiterator) with radii on both sides "
                  "of the nearest/farthest generator (everything inside delivered, nothing twice, not more buckets than blocks, an "
                  "exhausted search delivered everything), Octree get_ngbs/get_ngbs_sphere/get_ngbs_list/get_closest_ngb (periodic "
                  "and not, box-scale smoothing lengths) on the sets with s<=3 (thorough s<=4); the static helpers set_max_range/"
                  "increase_indices of both iterators for all grids up to 5^3 (thorough 7^3) blocks x all anchors against the "
                  "enumeration of Chebyshev shells (verdict only for equal block counts, the only ones a PointLocations can have). "
                  "Dyadic tie lattices (exact ties; boxes 1x1x1, 4x2x1, 1x3x2; unit 2^-6): lattices of nx x ny x nz points, counts in "
                  "{1,2,4,8,16} and unequal per axis (quick 20 sets up to 8x8x8 in the unit box, 8x4x2 / 2x4x8 / 4x8x2 in the skew boxes, "
                  "two-level 4x4x4+fine octant; thorough 36 sets: all five kinds at 8x8x8, 16x8x4, 4x16x8, two-level 8x8x8) x periodic "
                  "flag x 7 smoothing-length patterns (1/2, 1, 2, 5 spacings; 1..3 spacings by index; zeros mixed with 1 spacing; the "
                  "spacing of axis i mod 3 / of the own refinement level) x EVERY point of the half-lattice of the finest spacing as "
                  "query: Octree get_ngbs, get_ngbs_sphere (radii 0, 1/2, 1, 3 spacings), get_ngbs_list (0, 1, 2 and 3 centres), get_closest_ngb member by "
                  "member against integer arithmetic (neighbour iff r^2 <= (h+radius)^2, no tolerance); PointLocations with every "
                  "num_per_cell in {1,2,4,8,64,N} that yields a power-of-two block count: get_closest_neighbour from every half-lattice "
                  "point, both radius protocols (from half-lattice points and from every stored generator) x 7 radii that are multiples "
                  "of the spacing / block side, zero tolerance. The evidence counts the comparisons on each side and ON the equality "
                  "(particle-query pairs with r == h, tree nodes with box distance == node maximum that hold such a neighbour, "
                  "protocols stopped with covered radius == radius). "
                  "The refinement histories form a finite state machine whose "
                  "observable behaviour must depend on the state only, which is what explicit-state search decides.",
    "level_note": "Nothing is claimed beyond the stated budgets (full-alphabet BFS stops at 6 refinements; 12 refinements only over "
                  "pairs of opposite children; depth 8 only along single chains). Positions on the upper box faces are outside the "
                  "half-open box; positions within round-off (8 eps (|anchor|+|side|)) of an interior face may be located in either "
                  "adjacent cell. Rays exactly in a cell-face plane (AMR) or through a cell edge/vertex (Voronoi) and target depths "
                  "reached exactly on a wall are ties: either cell/outcome is accepted, conservation and staying inside the box are "
                  "still required. Ray tolerances k=2: k eps (steps+2)(max|coord|/min|dir_i| + path); Voronoi adds 4e-12 |diagonal| "
                  "per step for the code's deliberate epsilon displacement. AMRDensityGrid::get_neighbours / "
                  "integrate_optical_depth and VoronoiDensityGrid::integrate_optical_depth are unimplemented in the code base. "
                  "Voronoi generator sets are generic (degenerate sets: C15). PointLocations always has the same number of blocks "
                  "along every axis (round(cbrt(N/num_per_cell))); only the block side lengths differ per axis. Closest-neighbour "
                  "answers may differ from brute force by a factor (1+16 eps) in r^2 (the code compares double r^2 values, 4 eps each, "
                  "k=2); radius protocol: a generator counts as inside the radius if r < rad - 8 eps rad - 8 eps (s+3)(|anchor|+|side|) "
                  "(round-off of the covered-region bounds, k=4). The block-pair family is complete for s<=6 only; for larger s only "
                  "lines/slabs/diagonals are enumerated. Exact ties: a particle at distance exactly h (+radius) counts as a neighbour "
                  "(the inclusive leaf criterion r <= h of Octree.hpp; the tree pruning has to be loss-free with respect to it); this is "
                  "decided without tolerance only on the dyadic tie lattices, where every floating-point operation of the code under "
                  "test is exact (integers < 2^40 in units 2^-12), elsewhere |r-h| <= 8 eps (r+h) is accepted either way. Which of several "
                  "exactly equidistant closest points is returned is not prescribed. PointLocations on tie lattices only for "
                  "power-of-two block counts (other counts have inexact block faces and are covered with tolerance by the older sets).",
    "quick_deadline": 118,
    "thorough_deadline": 1200,
    "parts": [
        {"name": "amr", "bin": "c16_amr", "quick_share": 0.335, "thorough_share": 0.33},
        {"name": "cartesian", "bin": "c16_cartesian", "quick_share": 0.253, "thorough_share": 0.34},
        {"name": "amrdens", "bin": "c16_amrdens", "quick_share": 0.217, "thorough_share": 0.15},
        {"name": "voronoi", "bin": "c16_voronoi", "quick_share": 0.065, "thorough_share": 0.05},
        {"name": "search", "bin": "c16_search", "quick_share": 0.13, "thorough_share": 0.13},
    ],
    "assumptions": [],
}
