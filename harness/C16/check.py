CHECK = {
    "id": "C16",
    "level": "model_checking",
    "engine": "E2",
    "technique": "explicit-state BFS over the refinement histories of the real AMRGrid with every invariant evaluated on every "
                 "transition; bounded-exhaustive position / neighbour / ray / query lattices for the legacy density grids and "
                 "search structures against index-arithmetic, long double marcher and brute-force oracles",
    "level_text": "TODO",
    "level_note": "TODO",
    "quick_deadline": 110,
    "thorough_deadline": 1200,
    "parts": [
        {"name": "amr", "bin": "c16_amr", "quick_share": 0.4, "thorough_share": 0.5},
        {"name": "cartesian", "bin": "c16_cartesian", "quick_share": 0.25, "thorough_share": 0.25},
        {"name": "amrdens", "bin": "c16_amrdens", "quick_share": 0.25, "thorough_share": 0.2},
        {"name": "search", "bin": "c16_search", "quick_share": 0.1, "thorough_share": 0.05},
    ],
    "assumptions": [],
}
