// Shared pieces of the C16 density-grid harnesses: abort trap, reference ray
// marcher in long double over an abstract cell locator, tolerance bookkeeping.
#ifndef C16_MARCH_HPP
#define C16_MARCH_HPP

#include "verif_common.hpp"
#include <algorithm>
#include <array>
#include <cfloat>
#include <cmath>
#include <csetjmp>
#include <csignal>
#include <cstring>
#include <functional>
#include <vector>

// --------------------------------------------------------------- abort trap
// cmac_error ends in abort(); the harness provides its own abort so that an
// error raised by the code under test becomes a recorded violation.
static thread_local sigjmp_buf *c16_jmp = nullptr;
extern "C" void abort() {
  if (c16_jmp)
    siglongjmp(*c16_jmp, 1);
  signal(SIGABRT, SIG_DFL);
  raise(SIGABRT);
  _exit(134);
}

/// SIGSEGV/SIGBUS raised by the code under test (synchronous, delivered to the
/// faulting thread) inside a trapped region end that region like an abort
static thread_local volatile int c16_signal = 0;
static void c16_fault_handler(int sig) {
  if (c16_jmp) {
    c16_signal = sig;
    siglongjmp(*c16_jmp, 2);
  }
  signal(sig, SIG_DFL);
  raise(sig);
}
static inline void c16_install_fault_handler() {
  struct sigaction sa;
  memset(&sa, 0, sizeof(sa));
  sa.sa_handler = c16_fault_handler;
  sa.sa_flags = SA_NODEFER;
  sigaction(SIGSEGV, &sa, nullptr);
  sigaction(SIGBUS, &sa, nullptr);
}

namespace c16 {

typedef long double Q;

struct CellBox {
  long id;
  Q lo[3], hi[3];
};

/// abstract grid for the reference marcher
struct RefGrid {
  Q A[3], S[3]; // box anchor and sides
  bool per[3];
  /// cell containing x in the limit x + 0*sgn (sgn>=0: lo <= x < hi, sgn<0:
  /// lo < x <= hi); x is inside the box in that sense
  std::function< void(const Q x[3], const int sgn[3], CellBox &) > locate;
};

struct MarchResult {
  std::vector< std::pair< long, Q > > deposits; // (cell id, path), in order
  Q total = 0;      // total path (parameter along the direction vector)
  Q tau = 0;        // optical depth used
  Q pos[3];         // final position (wrapped into the box where periodic)
  long wraps[3] = {0, 0, 0};
  bool absorbed = false;
  long last_cell = -1; // cell in which the target depth was reached
  bool tie_at_wall = false; // target depth reached within round-off of a wall
  bool next_wall_is_box_face = false; // absorbed in a cell whose next wall along the ray is a non-periodic box face
  bool wrap_into_finer = false; // crossed a periodic face into a cell smaller than the one it left
  bool near_edge = false; // some step had two exits within 1e-9 (ray through a cell edge/vertex)
  bool capped = false;
  int steps = 0;
  Q min_abs_dir = 1;
};

/// reference marcher: straight ray from p along dir through the cells of G,
/// opacity kappa(id) per unit of the ray parameter, until the optical depth
/// tau_target is used up or the ray leaves through a non-periodic face
inline MarchResult march(const RefGrid &G, const double p[3], const double dir[3],
                         const std::function< Q(long) > &kappa, Q tau_target, Q tie_tol_tau, int maxsteps = 100000) {
  MarchResult r;
  Q x[3] = {p[0], p[1], p[2]};
  Q d[3] = {dir[0], dir[1], dir[2]};
  int sgn[3];
  r.min_abs_dir = 2;
  for (int i = 0; i < 3; ++i) {
    sgn[i] = d[i] > 0 ? 1 : (d[i] < 0 ? -1 : 0);
    if (sgn[i])
      r.min_abs_dir = std::min(r.min_abs_dir, fabsl(d[i]));
  }
  CellBox prev;
  bool have_prev = false;
  {
    // the cell the start point belongs to in the half-open sense (what a
    // position query returns); a ray that starts on a periodic face and heads
    // out is wrapped before its first step and "leaves" this cell
    bool inside = true;
    for (int i = 0; i < 3; ++i)
      inside &= x[i] >= G.A[i] && x[i] < G.A[i] + G.S[i];
    if (inside && G.locate) {
      const int zero[3] = {0, 0, 0};
      G.locate(x, zero, prev);
      have_prev = true;
    }
  }
  for (;;) {
    // leave or wrap
    bool out = false, wrapped_now = false;
    for (int i = 0; i < 3; ++i) {
      const Q top = G.A[i] + G.S[i];
      const bool below = sgn[i] < 0 ? (x[i] <= G.A[i]) : (x[i] < G.A[i]);
      const bool above = sgn[i] > 0 ? (x[i] >= top) : (sgn[i] == 0 ? (x[i] >= top) : (x[i] > top));
      if (below) {
        if (G.per[i]) {
          x[i] += G.S[i];
          --r.wraps[i];
          wrapped_now = true;
        } else
          out = true;
      } else if (above) {
        if (G.per[i]) {
          x[i] -= G.S[i];
          ++r.wraps[i];
          wrapped_now = true;
        } else
          out = true;
      }
    }
    if (out)
      break;
    if (++r.steps > maxsteps) {
      r.capped = true;
      break;
    }
    CellBox c;
    G.locate(x, sgn, c);
    if (wrapped_now && have_prev)
      for (int i = 0; i < 3; ++i)
        if ((c.hi[i] - c.lo[i]) < (prev.hi[i] - prev.lo[i]) * (1 - 1e-9L))
          r.wrap_into_finer = true;
    prev = c;
    have_prev = true;
    Q t[3], tmin = -1;
    for (int i = 0; i < 3; ++i) {
      if (sgn[i] == 0) {
        t[i] = -1;
        continue;
      }
      t[i] = ((sgn[i] > 0 ? c.hi[i] : c.lo[i]) - x[i]) / d[i];
      if (t[i] < 0)
        t[i] = 0;
      if (tmin < 0 || t[i] < tmin)
        tmin = t[i];
    }
    const Q k = kappa(c.id);
    const Q dtau = k * tmin;
    if (r.tau + dtau >= tau_target) {
      // target reached in this cell (possibly exactly at its wall)
      const Q left = tau_target - r.tau;
      const Q ta = k > 0 ? left / k : tmin;
      if (fabsl(r.tau + dtau - tau_target) <= tie_tol_tau)
        r.tie_at_wall = true;
      r.deposits.push_back({c.id, ta});
      r.total += ta;
      r.tau = tau_target;
      for (int i = 0; i < 3; ++i)
        x[i] += ta * d[i];
      r.absorbed = true;
      r.last_cell = c.id;
      for (int i = 0; i < 3; ++i)
        if (sgn[i] != 0 && !G.per[i] && t[i] <= tmin * (1 + 1e-12L)) {
          const Q wall = sgn[i] > 0 ? c.hi[i] : c.lo[i];
          const Q face = sgn[i] > 0 ? G.A[i] + G.S[i] : G.A[i];
          if (fabsl(wall - face) <= 1e-12L * (fabsl(G.A[i]) + G.S[i]))
            r.next_wall_is_box_face = true;
        }
      break;
    }
    r.deposits.push_back({c.id, tmin});
    r.total += tmin;
    r.tau += dtau;
    if (tau_target - r.tau <= tie_tol_tau)
      r.tie_at_wall = true;
    for (int i = 0; i < 3; ++i) {
      if (sgn[i] == 0)
        continue;
      if (t[i] <= tmin + 64 * LDBL_EPSILON * (tmin + fabsl(x[i]) / fabsl(d[i])))
        x[i] = sgn[i] > 0 ? c.hi[i] : c.lo[i];
      else
        x[i] += tmin * d[i];
    }
  }
  for (int i = 0; i < 3; ++i)
    r.pos[i] = x[i];
  return r;
}

/// tolerance bookkeeping: counts comparisons and the ones that came within
/// a factor 10 of their tolerance
struct TolStat {
  uint64_t n = 0, near = 0;
  double worst = 0; // worst error / tolerance
  bool ok(long double err, long double tol) {
    ++n;
    const double q = tol > 0 ? (double)(err / tol) : (err > 0 ? 1e300 : 0.);
    if (q > worst)
      worst = q;
    if (q > 0.1)
      ++near;
    return err <= tol;
  }
  void merge(const TolStat &o) {
    n += o.n;
    near += o.near;
    worst = std::max(worst, o.worst);
  }
};

/// the 124 integer directions {-2..2}^3 \ {0}
inline std::vector< std::array< int, 3 > > integer_directions() {
  std::vector< std::array< int, 3 > > v;
  for (int a = -2; a <= 2; ++a)
    for (int b = -2; b <= 2; ++b)
      for (int c = -2; c <= 2; ++c)
        if (a || b || c)
          v.push_back({a, b, c});
  return v;
}

} // namespace c16

#endif
